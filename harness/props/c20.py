"""C20 — file handlers expose exactly the file: NetCDF and CSV contents, unscaled.

Proof: lean/Props/C20.lean (model lean/PydapModel/FileHandlers.lean).
Tie: generated NetCDF4 / CSV files under a temp dir -> handler dataset tree, `LazyVariable.__getitem__`
results and the CSV dataset vs the model on the library's description of the same file.
Oracle (independent of the model): netCDF4 with auto mask+scale off / the csv module / the written rows;
`.dods` responses for generated hyperslabs decoded with the small reference XDR decoder below.
"""
import csv
import json
import os
import re
import shutil
import struct
import tempfile
import warnings

import numpy as np

import common
from common import hexb

LEVEL = "proof"
warnings.filterwarnings("ignore")

TYPES = ["i1", "i2", "i4", "u1", "u2", "u4", "f4", "f8", "S1"]
DAP_OF = {"i1": "Int16", "i2": "Int16", "i4": "Int32", "u1": "Byte", "u2": "UInt16", "u4": "UInt32", "f4": "Float32",
          "f8": "Float64", "S1": "String"}


def hs(s):
    return hexb(s.encode("utf-8"))


def canon_val(v):
    """canonical text of an attribute value (type + value, floats as bit patterns)"""
    if isinstance(v, str):
        return "s:" + v
    a = np.asarray(v)
    if a.dtype.kind in "US":
        return "s:" + str(v)
    return "%s:%s:%s" % (a.dtype.str.lstrip("<>|="), "x".join(map(str, a.shape)), a.astype(a.dtype.newbyteorder(">")).tobytes().hex())


def bits(arr):
    """row-major element bit patterns as Python ints"""
    a = np.ascontiguousarray(np.asarray(arr))
    if a.dtype.kind == "S":
        return [int.from_bytes(x, "big") if x else 0 for x in a.reshape(-1).tolist()]
    u = a.astype(a.dtype.newbyteorder(">")).tobytes()
    n = a.dtype.itemsize
    return [int.from_bytes(u[i:i + n], "big") for i in range(0, len(u), n)]


# ------------------------------------------------------------------------------------------------
# NetCDF generator
def gen_values(rng, ty, shape):
    n = int(np.prod(shape)) if shape else 1
    if ty == "S1":
        vals = np.array([rng.choice([b"a", b"b", b"z", b"Q", b"7"]) for _ in range(n)], dtype="S1")
    elif ty[0] == "f":
        pool = [0.0, -0.0, 1.5, -2.25, 1e10, 3.0, float("inf"), 1e-3]
        vals = np.array([rng.choice(pool) if rng.random() < 0.5 else rng.uniform(-100, 100) for _ in range(n)], dtype=ty)
    else:
        info = np.iinfo(ty)
        pool = [0, 1, info.min, info.max, info.max - 1]
        vals = np.array([rng.choice(pool) if rng.random() < 0.4 else rng.randint(max(info.min, -1000), min(info.max, 1000))
                         for _ in range(n)], dtype=ty)
    return vals.reshape(shape) if shape else vals.reshape(())


def add_attrs(rng, v, ty, allow_scale=True):
    if rng.random() < 0.5:
        v.units = rng.choice(["m", "K", "degrees_north", ""]) or "1"
    if rng.random() < 0.3:
        v.valid_range = np.array([0, 9], dtype="i4")
    if ty != "S1" and allow_scale and rng.random() < 0.45:
        v.scale_factor = rng.choice([0.5, 2.0, 0.01])
        v.add_offset = rng.choice([10.0, -3.0, 0.0])
    if rng.random() < 0.2:
        v.long_name = "var " + ty
    add_reserved(rng, v)


# attribute names that collide with pydap's internal `path` attribute / with python attributes of netCDF4 objects
def add_reserved(rng, obj, p=0.12):
    if rng.random() < p:
        obj.setncattr("path", rng.choice(["p0", "/A", "data/in"]))
    if rng.random() < p:
        obj.setncattr("name", rng.choice(["temperature", "n"]))
    if rng.random() < p / 2:
        obj.setncattr("shape", np.array([7, 7], dtype="i4"))


def gen_netcdf(rng, path, shadow_bias=0.6):
    """write a NetCDF4 file; returns nothing (the description is read back with the library)"""
    import netCDF4

    with netCDF4.Dataset(path, "w") as ds:
        names = ["x", "y", "t", "z"]
        ndims = rng.randint(1, 3)
        rdims = rng.sample(names, ndims)
        for d in rdims:
            if d == "t" and rng.random() < 0.6:
                ds.createDimension(d, None)
            else:
                ds.createDimension(d, rng.randint(1, 4))
        if rng.random() < 0.7:
            ds.title = "generated"
        if rng.random() < 0.3:
            ds.history = "h1"
        add_reserved(rng, ds)
        unl_len = rng.randint(0, 3)

        def mkvar(grp, name, visible, coord_of=None, pseudo=False):
            ty = rng.choice(TYPES if coord_of is None else ["i2", "i4", "f4", "f8", "u1", "i1"])
            if coord_of is not None and pseudo:
                # named like a dimension but NOT 1-D over it: rank 0, over another dimension, or rank 2
                others = [d for d in visible if d != coord_of]
                shapes = [()] + [(o,) for o in others] + [(coord_of, o) for o in others] + [(o, coord_of) for o in others]
                dims = rng.choice(shapes)
            elif coord_of is not None:
                dims = (coord_of,)
            else:
                rank = rng.choice([0, 1, 1, 2, 2, 3])
                dims = tuple(rng.sample(visible, min(rank, len(visible))))
                if rng.random() < 0.3 and rank >= 2 and visible:
                    # a dimension used twice by one variable: d(x,x), u(x,y,x) — never an unlimited one twice
                    rep = [d for d in visible if not _find_dim(grp, d).isunlimited()] or None
                    if rep:
                        d0 = rng.choice(rep)
                        dims = tuple(rng.choice([d0, d0, rng.choice(visible)]) for _ in range(rank))
                        if len([d for d in dims if _find_dim(grp, d).isunlimited()]) > 1:
                            dims = (d0,) * rank
            kw = {}
            if ty != "S1" and rng.random() < 0.35:
                kw["fill_value"] = {"f": -999.0}.get(ty[0], 7)
            v = grp.createVariable(name, ty, dims, **kw)
            v.set_auto_maskandscale(False)
            shape = tuple(unl_len if grp.dimensions.get(d, None) is not None and grp.dimensions[d].isunlimited() or
                          (d in ds.dimensions and _find_dim(grp, d).isunlimited()) else len(_find_dim(grp, d)) for d in dims)
            vals = gen_values(rng, ty, shape)
            if "fill_value" in kw and vals.size and rng.random() < 0.7:
                flat = vals.reshape(-1)
                flat[rng.randrange(flat.size)] = kw["fill_value"]
                vals = flat.reshape(shape)
            if shape == ():
                v[...] = vals
            elif int(np.prod(shape)) > 0:
                v[...] = vals
            add_attrs(rng, v, ty)
            return v

        vis_root = list(rdims)
        for d in rdims:
            if rng.random() < 0.6:
                mkvar(ds, d, vis_root, coord_of=d, pseudo=rng.random() < 0.3)
        for i in range(rng.randint(1, 3)):
            mkvar(ds, "v%d" % i, vis_root)
        # groups to depth 2 with shadowing dimension names
        ngroups = rng.choice([0, 1, 2, 2, 3])
        gnames = ["A", "B", "C"]
        for gi in range(ngroups):
            g = ds.createGroup(gnames[gi])
            if rng.random() < 0.4:
                g.gatt = np.int32(gi)
            add_reserved(rng, g)
            vis = list(vis_root)
            for _ in range(rng.choice([0, 1, 1, 2])):
                dn = rng.choice(rdims) if rng.random() < shadow_bias else rng.choice(["p", "q"])
                if dn not in g.dimensions:
                    g.createDimension(dn, rng.randint(1, 4))
                    if dn not in vis:
                        vis.append(dn)
            for i in range(rng.randint(0, 2)):
                mkvar(g, "%sv%d" % (gnames[gi].lower(), i), vis)
            if rng.random() < 0.5 and "x" in g.dimensions:
                mkvar(g, "x", vis, coord_of="x", pseudo=rng.random() < 0.3)
            for si in range(rng.choice([0, 0, 1, 2])):
                sg = g.createGroup("%s%d" % (gnames[gi], si + 1))
                add_reserved(rng, sg)
                vis2 = list(vis)
                for _ in range(rng.choice([0, 1, 1])):
                    dn = rng.choice(rdims) if rng.random() < shadow_bias else rng.choice(["p", "r"])
                    if dn not in sg.dimensions:
                        sg.createDimension(dn, rng.randint(1, 4))
                        if dn not in vis2:
                            vis2.append(dn)
                for i in range(rng.randint(0, 2)):
                    mkvar(sg, "%s%dv%d" % (gnames[gi].lower(), si + 1, i), vis2)


def _find_dim(grp, d):
    g = grp
    while g is not None:
        if d in g.dimensions:
            return g.dimensions[d]
        g = g.parent
    raise KeyError(d)


def declaring_path(grp, d):
    """independent of the handler: the nearest enclosing group declaring `d`"""
    g = grp
    while g is not None:
        if d in g.dimensions:
            return [s for s in g.path.split("/") if s]
        g = g.parent
    raise KeyError(d)


def describe(path):
    """the library's description of the file, in `group_fqn`'s visiting order"""
    import netCDF4

    groups = []

    def grp_desc(g):
        gp = [s for s in g.path.split("/") if s]
        vs = []
        for name, v in g.variables.items():
            v.set_auto_maskandscale(False)
            vs.append({"name": name, "ty": np.dtype(v.dtype).str.lstrip("<>|="), "shape": list(v.shape),
                       "dims": list(v.dimensions), "attrs": [(k, canon_val(v.getncattr(k))) for k in v.ncattrs()],
                       "fq": ["/" + "/".join(declaring_path(g, d) + [d]) for d in v.dimensions],
                       "raw": bits(np.asarray(v[...]))})
        return {"path": gp, "dims": [(k, len(d)) for k, d in g.dimensions.items()],
                "attrs": [(k, canon_val(g.getncattr(k))) for k in g.ncattrs()], "vars": vs}

    def walk(g):
        for name in g.groups:
            groups.append(grp_desc(g.groups[name]))
            walk(g.groups[name])

    with netCDF4.Dataset(path, "r") as ds:
        root = grp_desc(ds)
        walk(ds)
    return root, groups


def kvs_sexp(kvs):
    return "(" + " ".join("(%s %s)" % (hs(k), hs(v)) for k, v in kvs) + ")"


def grp_sexp(g):
    vs = " ".join("(%s %s (%s) (%s) %s)" % (hs(v["name"]), hs(v["ty"]), " ".join(map(str, v["shape"])),
                                             " ".join(hs(d) for d in v["dims"]), kvs_sexp(v["attrs"])) for v in g["vars"])
    return "((%s) (%s) %s (%s))" % (" ".join(hs(s) for s in g["path"]),
                                    " ".join("(%s %d)" % (hs(k), n) for k, n in g["dims"]), kvs_sexp(g["attrs"]), vs)


def impl_entries(handler):
    """canonical walk of handler.dataset in order (same syntax as the driver's)"""
    from pydap.handlers.netcdf import LazyVariable
    from pydap.model import BaseType

    ds = handler.dataset
    out = []

    def attrs_of(node, drop):
        return [(k, canon_val(v)) for k, v in node.attributes.items() if k not in drop]

    out.append("(group () (%s) %s)" % (" ".join("(%s %d)" % (hs(k), n) for k, n in ds.dimensions.items()),
                                       kvs_sexp(attrs_of(ds, ("dimensions",)))))

    def walk(node, gp, in_group):
        for k in node.keys():
            c = node[k]
            if isinstance(c, BaseType):
                out.append("(var (%s) %s %s (%s) (%s) %s %s)" % (
                    " ".join(hs(s) for s in gp), hs(c.name), hs(np.dtype(c.dtype).str.lstrip("<>|=")),
                    " ".join(map(str, c.shape)), " ".join(hs(d) for d in c.dims),
                    kvs_sexp(attrs_of(c, ("path",) if in_group else ())),
                    "lazy" if isinstance(c.data, LazyVariable) else "eager"))
            else:
                p = gp + [c.name]
                out.append("(group (%s) (%s) %s)" % (" ".join(hs(s) for s in p),
                                                     " ".join("(%s %d)" % (hs(a), n) for a, n in c.dimensions.items()),
                                                     kvs_sexp(attrs_of(c, ("path", "dimensions")))))
                walk(c, p, True)

    walk(ds, [], False)
    return "(" + " ".join(out) + ")"


# ------------------------------------------------------------------------------------------------
# reference DDS reader + XDR decoder (independent of pydap's parsers)
TOK = re.compile(r"\s*([{};]|[^\s{};]+)")
SIZES = {"Int16": 4, "UInt16": 4, "Int32": 4, "UInt32": 4, "Float32": 4, "Float64": 8}


def parse_dds(text):
    toks = TOK.findall(text)
    pos = [0]

    def block():
        items = []
        while toks[pos[0]] != "}":
            t = toks[pos[0]]
            if t in ("Structure", "Sequence", "Grid"):
                pos[0] += 1
                assert toks[pos[0]] == "{"
                pos[0] += 1
                inner = block()
                pos[0] += 1
                name = toks[pos[0]]
                pos[0] += 1
                assert toks[pos[0]] == ";"
                pos[0] += 1
                items.append((t, name, inner))
            else:
                decl = []
                pos[0] += 1
                while toks[pos[0]] != ";":
                    decl.append(toks[pos[0]])
                    pos[0] += 1
                pos[0] += 1
                rest = " ".join(decl)
                m = re.match(r"([^\[\s]+)\s*(.*)$", rest)
                shape = [int(n) for n in re.findall(r"=\s*(\d+)\s*\]", m.group(2))] + \
                        [int(n) for n in re.findall(r"\[\s*(\d+)\s*\]", m.group(2))]
                dims = re.findall(r"\[\s*([^\]=\s]+)\s*=", m.group(2))
                items.append((t, m.group(1), shape if "[" in rest else None, dims))
        return items

    assert toks[0] == "Dataset" and toks[1] == "{"
    pos[0] = 2
    return block()


def decode_dods(body):
    """returns {dotted id: (DAP type, shape or None, [bit patterns | bytes])}"""
    i = body.index(b"\nData:\n")
    tree = parse_dds(body[:i].decode("ascii"))
    buf = body[i + 7:]
    pos = [0]
    out = {}

    def take(n):
        b = buf[pos[0]:pos[0] + n]
        if len(b) != n:
            raise ValueError("short .dods body")
        pos[0] += n
        return b

    def elem(ty):
        if ty == "String":
            n = struct.unpack(">I", take(4))[0]
            s = take(n)
            take(-n % 4)
            return int.from_bytes(s, "big") if s else 0
        return int.from_bytes(take(SIZES[ty]), "big")

    def var(prefix, item):
        if item[0] in ("Structure",):
            for sub in item[2]:
                var(prefix + [item[1]], sub)
            return
        ty, name, shape, dims = item
        vid = ".".join(prefix + [name])
        if shape is None:
            if ty == "Byte":
                v = take(4)[0]
                out[vid] = (ty, None, [v])
            else:
                out[vid] = (ty, None, [elem(ty)])
            return
        n = struct.unpack(">I", take(4))[0]
        if ty != "String":
            n2 = struct.unpack(">I", take(4))[0]
            assert n == n2
        if ty == "Byte":
            vals = list(take(n))
            take(-n % 4)
        else:
            vals = [elem(ty) for _ in range(n)]
        out[vid] = (ty, shape, vals, dims)

    for item in tree:
        var([], item)
    if pos[0] != len(buf):
        raise ValueError("trailing bytes in .dods body")
    return out


def to_wire_bits(raw_arr, ty):
    """what DAP2 must carry for the raw stored values: widened to the DAP type, big-endian bit patterns"""
    a = np.asarray(raw_arr)
    dap = DAP_OF[ty]
    if dap == "String":
        return bits(a)
    if dap == "Byte":
        return [int(x) for x in a.reshape(-1).tolist()]
    wire = {"Int16": ">i4", "UInt16": ">u4", "Int32": ">i4", "UInt32": ">u4", "Float32": ">f4", "Float64": ">f8"}[dap]
    return bits(a.astype(wire))


# ------------------------------------------------------------------------------------------------
def rand_key(rng, shape):
    key = []
    for n in shape:
        if n == 0:
            key.append((0, 0, 1))
            continue
        a = rng.randint(0, n - 1)
        b = rng.randint(a, n - 1)
        k = rng.choice([1, 1, 1, 2, 3])
        r = rng.random()
        if r < 0.25:
            a, b, k = 0, n - 1, 1
        elif r < 0.45:
            k = (b - a) + rng.choice([1, 2, 7])          # stride larger than the span: one element
        key.append((a, b + 1, k))
    return key


K_PATH = "C20.reserved_attribute_path"


def in_path_class(in_group, file_attrs):
    """finding class: a netCDF attribute literally named `path` on a non-root group or on a variable of one"""
    return in_group and any(k == "path" for k, _ in file_attrs)


def judge_attrs(ctx, what, case, got_attributes, file_attrs, in_group, internal):
    """the node must carry exactly the file's attributes.  pydap keeps the group path of every member of a group in
    `attributes["path"]` (and a group's dimensions in `attributes["dimensions"]`): those are not file content and are
    dropped here unless the file itself has an attribute of that name"""
    names = [k for k, _ in file_attrs]
    got = [(k, canon_val(x)) for k, x in got_attributes.items()
           if not (k in internal and k not in names) and not (k == "path" and in_group and "path" not in names)]
    if sorted(got) == sorted(file_attrs):
        return
    cls = None
    if in_path_class(in_group, file_attrs) and \
            sorted(kv for kv in got if kv[0] != "path") == sorted(kv for kv in file_attrs if kv[0] != "path"):
        cls = K_PATH
    ctx.oracle_fail("%s attributes differ from the file's" % what, case, sorted(got), sorted(file_attrs), cls=cls)


def check_netcdf(ctx, rng, idx, tmp, cases, lazy_cases, search=False):
    import netCDF4
    from webob import Request

    from pydap.handlers.netcdf import LazyVariable, NetCDFHandler

    path = os.path.join(tmp, "g%d.nc" % idx)
    gen_netcdf(rng, path)
    root, groups = describe(path)
    case0 = {"kind": "netcdf", "seed": ctx.seed, "label": ctx._label, "index": idx}
    # ---- handler tree --------------------------------------------------------------------------
    try:
        with warnings.catch_warnings():
            warnings.simplefilter("ignore")
            h = NetCDFHandler(path)
        impl = impl_entries(h)
    except Exception as e:  # noqa: BLE001
        ctx.oracle_fail("NetCDFHandler could not open a generated file", case0, type(e).__name__ + ": " + str(e)[:200], "dataset")
        return
    cases.append(("fh-netcdf %s (%s)" % (grp_sexp(root), " ".join(grp_sexp(g) for g in groups)), impl, dict(case0)))
    shadow = any(set(k for k, _ in g["dims"]) & set(k for k, _ in (root["dims"] + sum(
        [h2["dims"] for h2 in groups if h2["path"] == g["path"][:len(h2["path"])] and h2 is not g], []))) for g in groups)
    ctx.count(("nc", ctx.seed, ctx._label, idx), True, tag="nc:groups=%d:%s" % (len(groups), "shadow" if shadow else "plain"),
              sample={"file": "generated #%d" % idx, "groups": [g["path"] for g in groups]})
    # direct oracle on the tree
    all_vars = [(root, v) for v in root["vars"]] + [(g, v) for g in groups for v in g["vars"]]
    for g, v in all_vars:
        vid = "/" + "/".join(g["path"] + [v["name"]])
        case = dict(case0, variable=vid)
        node = h.dataset
        try:
            for s in g["path"]:
                node = node[s]
            bt = node[v["name"]]
        except Exception as e:  # noqa: BLE001
            ctx.oracle_fail("file variable missing from the handler dataset", case, type(e).__name__, vid)
            continue
        if len(set(v["dims"])) != len(v["dims"]):
            ctx.count(("nc-rep", ctx.seed, ctx._label, idx, vid), True, tag="nc:var-with-repeated-dimension:%s" % ("group" if g["path"] else "root"))
        got_ty = np.dtype(bt.dtype).str.lstrip("<>|=")
        if got_ty != v["ty"]:
            ctx.oracle_fail("variable does not have the file's type", case, got_ty, v["ty"])
        if list(bt.shape) != v["shape"]:
            ctx.oracle_fail("variable does not have the file's shape", case, list(bt.shape), v["shape"])
        if list(bt.dims) != v["fq"]:
            ctx.oracle_fail("dimension names are not the fully qualified names of the nearest enclosing declarations",
                            case, list(bt.dims), v["fq"], cls=None)
        judge_attrs(ctx, "variable", case, bt.attributes, v["attrs"], bool(g["path"]), ())
        try:
            data = bt.data[...] if v["shape"] == [] or isinstance(bt.data, LazyVariable) else bt.data
            raw = np.ma.getdata(data) if got_ty == v["ty"] else np.asarray(data)
            gb = bits(np.asarray(raw))
        except Exception as e:  # noqa: BLE001
            gb = "escaped:" + type(e).__name__
        if gb != v["raw"]:
            ctx.oracle_fail("values are not the raw stored values (no scale/offset/fill applied)", case,
                            gb if isinstance(gb, str) else gb[:8], v["raw"][:8])
        if isinstance(getattr(bt, "data", None), np.ma.MaskedArray) and np.ma.is_masked(bt.data):
            ctx.oracle_fail("values are not the raw stored values (fill values masked)", case, "masked array", "raw")
    # groups: own dimensions (current sizes) and attributes
    for g in [root] + groups:
        case = dict(case0, group="/" + "/".join(g["path"]))
        node = h.dataset
        try:
            for s in g["path"]:
                node = node[s]
        except Exception as e:  # noqa: BLE001
            ctx.oracle_fail("file group missing from the handler dataset", case, type(e).__name__, case["group"])
            continue
        if list(node.attributes.get("dimensions", {}).items()) != g["dims"]:
            ctx.oracle_fail("group does not declare the file's dimensions with their current sizes", case,
                            list(node.attributes.get("dimensions", {}).items()), g["dims"])
        judge_attrs(ctx, "group", case, node.attributes, g["attrs"], bool(g["path"]), ("dimensions",))
    # ---- hyperslabs through the served .dods ----------------------------------------------------------
    nslabs = 3 if not search else 5
    for g, v in all_vars:
        vid = "/" + "/".join(g["path"] + [v["name"]])
        dotted = ".".join(g["path"] + [v["name"]])
        with netCDF4.Dataset(path, "r") as src:
            nv = src[vid]
            nv.set_auto_maskandscale(False)
            for j in range(nslabs):
                key = rand_key(rng, v["shape"])
                if j == 0:
                    key = [(0, n, 1) for n in v["shape"]]
                np_key = tuple(slice(a, b, k) for a, b, k in key)
                want_arr = np.asarray(nv[np_key]) if v["shape"] else np.asarray(nv[...])
                want = to_wire_bits(want_arr, v["ty"])
                if want_arr.size == 0:
                    continue
                ce = dotted + "".join("[%d:%d:%d]" % (a, k, b - 1) for a, b, k in key)
                case = dict(case0, variable=vid, ce=ce)
                wide = any(k > (b - 1) - a and not (a, b, k) == (0, n, 1) for (a, b, k), n in zip(key, v["shape"]))
                if key:
                    # the key pydap's own parser makes of the hyperslab text, applied per axis, vs the model's positions
                    from pydap.parsers import parse_hyperslab
                    sl = parse_hyperslab("".join("[%d:%d:%d]" % (a, k, b - 1) for a, b, k in key))
                    impl_pos = "(" + " ".join("(" + " ".join(map(str, range(n)[x])) + ")" for x, n in zip(sl, v["shape"])) + ")"
                    lazy_cases.append(("fh-slabpos (%s) (%s)" % (" ".join(map(str, v["shape"])),
                                                                " ".join("(%d %d %d)" % (a, k, b - 1) for a, b, k in key)),
                                       impl_pos, dict(case0, variable=vid, ce=ce)))
                    if wide:
                        for (a, b, k), n, got_n in zip(key, v["shape"], want_arr.shape):
                            if k > (b - 1) - a and got_n != 1:
                                raise common.InfraError("numpy/netCDF4 read more than one element for a stride beyond the span")
                req = Request.blank("/g.nc.dods?" + ce)
                req.environ["x-wsgiorg.throw_errors"] = True
                try:
                    body = req.get_response(h).body
                    dec = decode_dods(body)
                    got = dec.get(dotted)
                    obs = (got[0], list(got[2])) if got else "variable %s absent from the response" % dotted
                    if got and got[1] is not None and list(got[1]) != list(want_arr.shape):
                        obs = ("shape", got[1])
                except Exception as e:  # noqa: BLE001
                    obs = "escaped:%s: %s" % (type(e).__name__, str(e)[:80])
                exp = (DAP_OF[v["ty"]], want)
                full = all((a, b, k) == (0, n, 1) for (a, b, k), n in zip(key, v["shape"]))
                ctx.count(("slab", ctx.seed, ctx._label, idx, ce), not full,
                          tag="dods:rank%d:%s:%s" % (len(v["shape"]), v["ty"], "full" if full else "wide-stride" if wide else "sub"))
                if obs != exp:
                    ctx.oracle_fail("served hyperslab differs from the NetCDF library's read of that slice", case,
                                    obs if isinstance(obs, str) else (obs[0], obs[1][:8]), (exp[0], exp[1][:8]),
                                    size=len(ce) + 10 * len(v["shape"]))
    # ---- LazyVariable.__getitem__ vs the model, with the library's answers as the `read` function ----------
    for g, v in all_vars:
        vid = "/" + "/".join(g["path"] + [v["name"]])
        if not g["path"] and v["name"] in [k for k, _ in root["dims"]]:
            continue                          # root coordinate variables are read eagerly
        with netCDF4.Dataset(path, "r") as src:
            nv = src[vid]
            lv = LazyVariable(nv, v["name"], vid.lstrip("/") if not g["path"] else vid, path)

            def lib(np_key):
                with netCDF4.Dataset(path, "r") as s2:
                    s2.set_auto_maskandscale(False)
                    try:
                        a = np.asarray(s2[vid][np_key])
                        return "(ok (%s) (%s))" % (" ".join(map(str, a.shape)), " ".join(map(str, bits(a))))
                    except IndexError:
                        return "(err index)"
                    except Exception:  # noqa: BLE001
                        return "(err library)"

            def run(key_sexp, np_key, reshape=None, as_tuple=False):
                tgt = lv
                if reshape is not None:
                    tgt = LazyVariable(nv, v["name"], lv.path, path)
                    if as_tuple:
                        tgt.reshape(tuple(reshape))          # numpy's other calling convention
                    else:
                        tgt.reshape(*reshape)
                    # direct oracle: a whole-variable read after reshape is the library's read, reshaped
                    try:
                        got_r = np.asarray(tgt[np_key])
                        obs = (list(got_r.shape), bits(got_r)[:8])
                    except Exception as e:  # noqa: BLE001
                        obs = "escaped:" + type(e).__name__
                    with netCDF4.Dataset(path, "r") as s3:
                        s3.set_auto_maskandscale(False)
                        want_r = np.asarray(s3[vid][np_key]).reshape(tuple(reshape))
                    if obs != (list(want_r.shape), bits(want_r)[:8]):
                        ctx.oracle_fail("whole-variable read after LazyVariable.reshape differs from the library's read, reshaped",
                                        dict(case0, variable=vid, reshape=list(reshape), as_tuple=as_tuple), obs,
                                        (list(want_r.shape), bits(want_r)[:8]))
                try:
                    a = np.asarray(tgt[np_key])
                    impl = "(ok (%s) (%s))" % (" ".join(map(str, a.shape)), " ".join(map(str, bits(a))))
                except IndexError:
                    impl = "(err index)"
                except ValueError:
                    impl = "(err reshape)"
                except Exception as e:  # noqa: BLE001
                    impl = "escaped:" + type(e).__name__
                line = "fh-lazyget (%s) (%s) %s %s %s" % (" ".join(map(str, v["shape"])),
                                                           " ".join(map(str, reshape if reshape is not None else v["shape"])),
                                                           key_sexp, lib(Ellipsis), lib(np_key))
                lazy_cases.append((line, impl, dict(case0, variable=vid, key=key_sexp)))

            if v["shape"] == []:
                for name, k in (("ellipsis", Ellipsis), ("empty", ()), ("newaxis", np.newaxis)):
                    run(name, k)
            else:
                for j in range(2):
                    key = rand_key(rng, v["shape"])
                    run("(" + " ".join("(%d %d %d)" % t for t in key) + ")", tuple(slice(a, b, k) for a, b, k in key))
                n = int(np.prod(v["shape"]))
                full = [(0, m, 1) for m in v["shape"]]
                if n > 0:
                    run("(" + " ".join("(%d %d %d)" % t for t in full) + ")", tuple(slice(a, b, k) for a, b, k in full),
                        reshape=[n])
                    run("(" + " ".join("(%d %d %d)" % t for t in full) + ")", tuple(slice(a, b, k) for a, b, k in full),
                        reshape=[n] if len(v["shape"]) > 1 else [1, n], as_tuple=True)
                # bookkeeping of the object: dtype / ndim / shape / size / len, before and after reshape calls
                ops = [rng.choice([[n], [1, n], list(v["shape"])]) for _ in range(rng.randint(0, 3))] if n > 0 else []
                forms = [rng.choice(["ints", "seq"]) for _ in ops]
                t2 = LazyVariable(nv, v["name"], lv.path, path)
                for o, fm in zip(ops, forms):
                    t2 = t2.reshape(*o) if fm == "ints" else t2.reshape(tuple(o))
                try:
                    ln = "(ok %d)" % len(t2)
                except TypeError:
                    ln = "(err typeError)"
                impl_b = "(%s %d (%s) (%s) %d %s)" % (hs(np.dtype(t2.dtype).str.lstrip("<>|=")), t2.ndim, " ".join(map(str, t2.shape)),
                                                      " ".join(map(str, t2._reshape)), int(t2.size), ln)
                lazy_cases.append(("fh-lazyobj %s (%s) %d (%s)" % (hs(v["ty"]), " ".join(map(str, v["shape"])), len(v["dims"]),
                                                                  " ".join("(%s %s)" % (fm, " ".join(map(str, o))) for o, fm in zip(ops, forms))),
                                   impl_b, dict(case0, variable=vid, ops=ops)))


# ------------------------------------------------------------------------------------------------
# CSV
QUOTING_TITLES = ["a b", "c,d", 'e"f', "a.b", "x[0]", "50%", "a%20b", "t/m", "new\nline", " "]


def own_quote(name):
    """the DAP spelling of a name, written independently of pydap.lib: ASCII letters, digits and `_ - ~ ! * ' " / %` stay,
    every other byte becomes %XX (period and brackets included)"""
    keep = set(b"abcdefghijklmnopqrstuvwxyzABCDEFGHIJKLMNOPQRSTUVWXYZ0123456789_-~!*'\"/%")
    return "".join(chr(b) if b in keep else "%%%02X" % b for b in name.encode("utf-8"))


def gen_csv(rng, path):
    ncols = rng.randint(1, 4)
    # plain names and an empty one (a column without
    # a title is still a column)
    header = rng.sample(["index", "temperature", "site", "a", "b", "c_1", "lat", ""], ncols)
    # titles that need quoting as DAP names (blank, comma, quote, period, brackets, percent), two titles that are
    # different texts but ONE name once quoted ("a b" / "a%20b"), and the same title twice (also the empty one)
    r = rng.random()
    if r < 0.25:
        k = rng.randrange(ncols)
        header[k] = rng.choice([t for t in QUOTING_TITLES if t not in header] or ["w w"])
    if 0.15 < r < 0.4 and ncols >= 2:
        i, j = rng.sample(range(ncols), 2)
        header[j] = header[i] if rng.random() < 0.7 or header[i] != "a b" else "a%20b"
    kinds = [rng.choice("ns") for _ in header]
    nrows = rng.choice([0, 1, 2, 3, 5])
    rows = []
    for _ in range(nrows):
        row = []
        for k in kinds:
            if k == "n":
                row.append(rng.choice([0.0, 1.0, -2.5, 1e6, 13.1, float(rng.randint(-50, 50))]))
            else:
                row.append(rng.choice(["", "Diamond_St", "a b", "x,y", 'q"uote', "z", "10", '"', '""', "l1\nl2", "cr\rx",
                                       "crlf\r\ny", ",", " ", "1e3", "\n"]))
        rows.append(row)
    with open(path, "w", newline="") as f:
        w = csv.writer(f, quoting=csv.QUOTE_NONNUMERIC)
        w.writerow(header)
        for r in rows:
            w.writerow(r)
    sidecar = None
    if rng.random() < 0.6:
        sidecar = {}
        if rng.random() < 0.7:
            sidecar["NC_GLOBAL"] = {"title": "t", "n": 3}
        if rng.random() < 0.4:
            sidecar["DODS_EXTRA"] = {"title": "override", "Unlimited_Dimension": "index"}
        seq = {}
        for c in header:
            if rng.random() < 0.5 and own_quote(c) == c:
                seq[c] = {"units": rng.choice(["m", "K"]), "scale": 2}
        if rng.random() < 0.3:
            seq["other"] = {"k": "v"}
        if seq or rng.random() < 0.3:
            sidecar["sequence"] = seq
        with open(path + ".json", "w") as f:
            json.dump(sidecar, f)
    return header, rows, sidecar


def cell_sexp(x):
    if isinstance(x, str):
        return "(s %s)" % hs(x)
    return "(n %d)" % int.from_bytes(struct.pack(">d", float(x)), "big")


def named_sexp(d):
    return "(" + " ".join("(%s %s)" % (hs(k), kvs_sexp([(a, canon_val(b)) for a, b in v.items()])) for k, v in d.items()) + ")"


def check_csv(ctx, rng, idx, tmp, cases):
    from pydap.handlers.csv import CSVHandler

    path = os.path.join(tmp, "c%d.csv" % idx)
    header, rows, sidecar = gen_csv(rng, path)
    case = {"kind": "csv", "seed": ctx.seed, "label": ctx._label, "index": idx, "header": header, "rows": rows,
            "sidecar": sidecar}
    with open(path, newline="") as f:
        rd = list(csv.reader(f, quoting=csv.QUOTE_NONNUMERIC))
    if rd[0] != header or rd[1:] != rows:
        raise common.InfraError("csv module does not read back what was written")
    from pydap.exceptions import OpenFileError

    names = [own_quote(t) for t in header]          # the DAP spelling of every title, in the file's order
    dup = len(set(names)) != len(names)
    line_hdr = "fh-csvcols (%s) (%s)" % (" ".join(hs(t) for t in header), " ".join(hs(t) for t in names))
    try:
        h = CSVHandler(path)
        seq = h.dataset["sequence"]
        cols = list(seq.keys())
        got_rows = [list(r) for r in seq.iterdata()]
    except OpenFileError as e:
        cases.append((line_hdr, "(err)", {k: case[k] for k in ("kind", "seed", "label", "index")}))
        ctx.count(("csv", ctx.seed, ctx._label, idx), True, tag="csv:rejected:%s" % ("duplicate-title" if dup else "other"),
                  sample={"header": header})
        if not dup:
            ctx.oracle_fail("CSVHandler rejected a generated file", case, str(e)[:100], "dataset")
        return
    except Exception as e:  # noqa: BLE001
        ctx.oracle_fail("CSVHandler failed on a generated file", case, type(e).__name__ + ": " + str(e)[:100], "dataset")
        return
    cases.append((line_hdr, "(ok %s)" % " ".join(hs(c) for c in cols), {k: case[k] for k in ("kind", "seed", "label", "index")}))
    if list(h.dataset.keys()) != ["sequence"]:
        ctx.oracle_fail("CSV dataset is not one sequence", case, list(h.dataset.keys()), ["sequence"])
    if dup:
        # two columns of one name cannot both be members of a sequence: nothing but refusing the file keeps cell j of a
        # record under title j
        ctx.oracle_fail("a CSV file with two columns of one name is served (cells end up under the wrong title)", case,
                        {"columns": cols, "first record": got_rows[:1]}, {"titles": names, "expected": "file rejected"})
        return
    if cols != names or [c.name for c in seq.children()] != names:
        ctx.oracle_fail("CSV columns are not the header names", case, cols, names)
    if got_rows != rows or [[type(c) for c in r] for r in got_rows] != [[type(c) for c in r] for r in rows]:
        ctx.oracle_fail("CSV records are not the file's rows in order", case, got_rows[:3], rows[:3])
    # cell j of every record belongs to column j: each column read on its own is the j-th cells of the file's rows
    for j, nm in enumerate(names):
        try:
            colv = [x for x in seq[nm].iterdata()] if rows else []
        except Exception as e:  # noqa: BLE001
            colv = "escaped:" + type(e).__name__
        want_col = [r[j] for r in rows]
        if colv != want_col or [type(x) for x in colv] != [type(x) for x in want_col]:
            ctx.oracle_fail("column read on its own is not the column of that title in the file", dict(case, column=nm),
                            colv if isinstance(colv, str) else colv[:3], want_col[:3])
    if sidecar is not None:
        wantg = {}
        for k in sidecar:
            if k in ("NC_GLOBAL", "DODS_EXTRA"):
                wantg.update(sidecar[k])
        if dict(h.dataset.attributes) != wantg:
            ctx.oracle_fail("side-car global attributes not attached", case, dict(h.dataset.attributes), wantg)
        for c in cols:
            want = sidecar.get("sequence", {}).get(c, {})
            if dict(seq[c].attributes) != want:
                ctx.oracle_fail("side-car column attributes not attached", case, {c: dict(seq[c].attributes)}, {c: want})
    impl = "((%s) (%s) %s %s %s)" % (
        " ".join(hs(c) for c in cols), " ".join("(" + " ".join(cell_sexp(x) for x in r) + ")" for r in got_rows),
        kvs_sexp([(k, canon_val(v)) for k, v in h.dataset.attributes.items()]),
        named_sexp({c: seq[c].attributes for c in cols}),
        named_sexp({k: v for k, v in seq.attributes.items()}))
    if sidecar is None:
        sc = "none"
    else:
        top = {k: v for k, v in sidecar.items() if k != "sequence"}
        sc = "(%s %s)" % (named_sexp(top), named_sexp(sidecar.get("sequence", {})))
    line = "fh-csv (%s) (%s) %s" % (" ".join(hs(c) for c in names),
                                    " ".join("(" + " ".join(cell_sexp(x) for x in r) + ")" for r in rows), sc)
    cases.append((line, impl, {k: case[k] for k in ("kind", "seed", "label", "index")}))
    ctx.count(("csv", ctx.seed, ctx._label, idx), len(rows) > 0,
              tag="csv:rows=%d:%s" % (min(len(rows), 3), "sidecar" if sidecar is not None else "plain"),
              sample={"header": header, "rows": rows[:2]})



# ------------------------------------------------------------------------------------------------
# the reader's quoting rules on raw text: the generated files as they are + character soup after a valid header
SOUP = [",", ",", '"', '"', "\n", "\r", "\r\n", "a", "b", " ", "1", "2", ".5", "e3", "-", "nan", "x"]


def float_table(text):
    out = {}
    for tok in re.split(r"[,\r\n]", text):
        if tok not in out:
            try:
                out[tok] = str(int.from_bytes(struct.pack(">d", float(tok)), "big"))
            except ValueError:
                out[tok] = "none"
    return "(" + " ".join("(%s %s)" % (hs(k), v) for k, v in out.items()) + ")"


def check_csv_text(ctx, rng, idx, tmp, cases, text=None):
    from pydap.exceptions import OpenFileError
    from pydap.handlers.csv import CSVHandler

    if text is None:
        kind = "soup"
        hdr = rng.choice(['"a","b"'] * 6 + ['"a","a"', '"a b","a%20b"', '"",""', '"a",""', '1,"a"', '"a",2', '"a.b","c d"', '"a","b","a"'])
        text = hdr + rng.choice(["\n", "\r\n", "\r"]) + "".join(rng.choice(SOUP) for _ in range(rng.randint(0, 12)))
    else:
        kind = "file"
    path = os.path.join(tmp, "s%d.csv" % idx)
    with open(path, "w", newline="") as f:
        f.write(text)
    case = {"kind": "csvtext", "seed": ctx.seed, "label": ctx._label, "index": idx, "text": text}
    # the oracle: the csv module itself on the file, opened as its documentation demands
    try:
        with open(path, newline="") as f:
            want = list(csv.reader(f, quoting=csv.QUOTE_NONNUMERIC))
        want_s = "ok" if want else "err"
    except (ValueError, csv.Error):
        want, want_s = None, "err"
    try:
        h = CSVHandler(path)
        header = [c.name for c in h.dataset["sequence"].children()]
        rows = [list(r) for r in h.dataset["sequence"].data.stream]
        impl = "(ok (%s) (%s))" % (" ".join(cell_sexp(x) for x in header),
                                   " ".join("(" + " ".join(cell_sexp(x) for x in r) + ")" for r in rows))
        got = [header] + rows
    except OpenFileError:
        impl, got = "(err)", None
    except Exception as e:  # noqa: BLE001
        impl, got = "escaped:" + type(e).__name__, None
        ctx.oracle_fail("CSVHandler neither serves the file nor refuses it with OpenFileError", case, impl, "dataset or OpenFileError")
    canon = lambda recs: [[cell_sexp(c) for c in r] for r in recs]  # noqa: E731  (floats as bit patterns: nan == nan)
    # what the property demands of the handler: the csv module's records, the titles under their DAP spelling; a header
    # with a number for a title or with two titles of one name cannot be a sequence's columns: refused
    titles_ok = want is not None and want and all(isinstance(t, str) for t in want[0]) and \
        len(set(own_quote(t) for t in want[0])) == len(want[0])
    if want_s != "err" and not titles_ok:
        want_s = "err"
    if want_s != "err":
        want = [[own_quote(t) for t in want[0]]] + want[1:]
    if (got is None) != (want_s == "err") or (got is not None and canon(got) != canon(want)):
        ctx.oracle_fail("CSV records differ from the csv module's reading of the file (QUOTE_NONNUMERIC)", case,
                        impl[:200], repr(want)[:200] if want_s != "err" else "file refused (OpenFileError)")
    # the handler as a whole against the model: reader, header loop (quoting as a table), records, every column on its own
    if got is not None:
        seq = h.dataset["sequence"]
        colvals = []
        for c in seq.children():
            if not rows:           # (a lazy sequence without source records cannot be read by column: open finding of C01/C04)
                colvals.append("()")
                continue
            try:
                colvals.append("(" + " ".join(cell_sexp(x) for x in seq[c.name].iterdata()) + ")")
            except Exception as e:  # noqa: BLE001
                colvals.append("escaped:" + type(e).__name__)
        ragged = any(len(r) != len(header) for r in rows)
        impl_h = "(ok (%s) (%s) (%s))" % (" ".join(hs(x) for x in header),
                                          " ".join("(" + " ".join(cell_sexp(x) for x in r) + ")" for r in rows), " ".join(colvals))
    else:
        ragged = False
        impl_h = impl
    qtable = {}
    try:
        with open(path, newline="") as f:
            for t in next(csv.reader(f, quoting=csv.QUOTE_NONNUMERIC), []):
                if isinstance(t, str):
                    qtable[t] = own_quote(t)
    except (ValueError, csv.Error):
        pass
    if not ragged:          # (a column read on its own over records of uneven length is C17's business)
        cases.append(("fh-csvhandler %s %s (%s)" % (hs(text), float_table(text), " ".join("(%s %s)" % (hs(k), hs(v)) for k, v in qtable.items())),
                      impl_h, {k: case[k] for k in ("kind", "seed", "label", "index")}))
    if all(own_quote(t) == t for t in qtable) and impl.startswith("(ok"):
        cases.append(("fh-csvtext %s %s" % (hs(text), float_table(text)), impl, {k: case[k] for k in ("kind", "seed", "label", "index")}))
    ctx.count(("csvtext", text), kind == "soup" and impl != "(err)", tag="csvtext:%s:%s" % (kind, "ok" if impl != "(err)" else "rejected"),
              sample={"text": text[:60]})

# ------------------------------------------------------------------------------------------------
def explore(ctx, tier, search=False):
    n_nc = 40 if tier == "quick" else 400
    n_csv = 60 if tier == "quick" else 600
    ctx._label = "files" + ("-search" if search else "")
    tmp = tempfile.mkdtemp(prefix="c20-")
    try:
        cases, lazy_cases, csv_cases = [], [], []
        for i in range(n_nc):
            check_netcdf(ctx, ctx.rng("%s-nc-%d" % (ctx._label, i)), i, tmp, cases, lazy_cases, search=search)
        text_cases = []
        for i in range(n_csv):
            check_csv(ctx, ctx.rng("%s-csv-%d" % (ctx._label, i)), i, tmp, csv_cases)
            with open(os.path.join(tmp, "c%d.csv" % i), newline="") as f:
                check_csv_text(ctx, None, i, tmp, text_cases, text=f.read())
        for i in range(n_csv * 10):
            check_csv_text(ctx, ctx.rng("%s-soup-%d" % (ctx._label, i)), n_csv + i, tmp, text_cases)
        ctx.correspond("NetCDFHandler.__init__/group_fqn (dataset tree)", cases)
        ctx.correspond("LazyVariable.__getitem__", lazy_cases)
        ctx.correspond("CSVHandler.__init__ (+ side-car)", csv_cases)
        ctx.correspond("csv.reader(QUOTE_NONNUMERIC) as used by CSVHandler/CSVData.stream (raw text)", text_cases)
    finally:
        shutil.rmtree(tmp, ignore_errors=True)


def run(ctx):
    ctx.rule = ("generated NetCDF4 files (types i1,i2,i4,u1,u2,u4,f4,f8,S1; rank 0..3; unlimited and fixed dimensions; "
                "coordinate variables; groups to depth 2 with shadowing dimension names; scale_factor/add_offset/"
                "_FillValue) x full and random proper hyperslabs per variable; generated CSV files (numeric and quoted "
                "cells incl. empty, 0..5 rows, optional JSON side-car); non-trivial = proper sub-slab / file with rows; "
                "distinct by (seed, file index, constraint)")
    ctx.assumptions = ["netCDF4 (reads with auto mask+scale off, group/dimension/attribute enumeration), csv and json "
                       "readers are trusted and serve as the oracle",
                       ".dods bodies are decoded with the harness's own DDS reader and XDR decoder (pydap's DDS parser "
                       "rejects fully-qualified dimension names, DESIGN section 9 #20)"]
    ctx.proof_phase()
    explore(ctx, ctx.tier)
    from collections import Counter
    ctx.extra["oracle_failure_kinds"] = dict(Counter(f["what"] for f in ctx.oracle_failures))
    return ctx.finish(search=lambda c: explore(c, "quick", search=True), witnesses={K_PATH: witness_path})


def witness_path():
    """Lean `pathWitness`: /A/u with the netCDF attribute path='p0' — still not exposed?"""
    import netCDF4

    from pydap.handlers.netcdf import NetCDFHandler

    tmp = tempfile.mkdtemp(prefix="c20w-")
    try:
        p = os.path.join(tmp, "w.nc")
        with netCDF4.Dataset(p, "w") as ds:
            ds.createDimension("x", 2)
            g = ds.createGroup("A")
            u = g.createVariable("u", "i4", ("x",))
            u[...] = [1, 2]
            u.setncattr("path", "p0")
            u.units = "m"
        with warnings.catch_warnings():
            warnings.simplefilter("ignore")
            a = NetCDFHandler(p).dataset["A"]["u"].attributes
        return a.get("path") != "p0" and a.get("units") == "m"
    finally:
        shutil.rmtree(tmp, ignore_errors=True)


def replay(payload):
    f = payload.get("failure")
    if not f:
        print("nothing to replay: %s" % payload.get("no_longer_checks"))
        return False
    case = f["case"]
    ctx = common.Ctx("C20", payload.get("tier", "quick"), case["seed"])
    ctx._label = case["label"]
    tmp = tempfile.mkdtemp(prefix="c20r-")
    try:
        if case["kind"] == "csvtext":
            check_csv_text(ctx, None, case["index"], tmp, [], text=case["text"])
        elif case["kind"] == "csv":
            check_csv(ctx, ctx.rng("%s-csv-%d" % (case["label"], case["index"])), case["index"], tmp, [])
        else:
            check_netcdf(ctx, ctx.rng("%s-nc-%d" % (case["label"], case["index"])), case["index"], tmp, [], [],
                         search=case["label"].endswith("-search"))
    finally:
        shutil.rmtree(tmp, ignore_errors=True)
    for fl in ctx.oracle_failures[:5]:
        print("observed %r expected %r (%s) %s" % (fl["observed"], fl["expected"], fl["what"], fl["case"].get("variable", "")))
    return not ctx.oracle_failures
