"""Shared by C14 and C18: a real pydap client on a `requests` session whose transport adapter dispatches to an
in-process pydap server; proxy-level event tracing (every top-level `SequenceProxy.__getitem__/__copy__/__iter__`,
`BaseProxyDap2/4.__getitem__`, and the server-function chain) with the observables of *all* live proxies after every
event, in the format of the model driver (`px-run`); user-level random histories with direct oracles."""
import io
import re
import socket
import sys
import warnings
from urllib.parse import unquote, urlsplit

import numpy as np
import requests
from requests.adapters import BaseAdapter

import common
from common import hexb

warnings.simplefilter("ignore")

BASE = "http://dap.test/ds"
SESS_LABEL = 7
_real_getaddrinfo = socket.getaddrinfo


def _blocked(*a, **k):
    raise socket.gaierror("name resolution disabled by the verification harness")


def block_network():
    """an escaped request must cost milliseconds: no name resolution, no retry back-off sleeps"""
    socket.getaddrinfo = _blocked
    import urllib3.util.retry as ur

    ur.Retry.sleep = lambda self, response=None: None
    ur.Retry.get_backoff_time = lambda self: 0


def hx(s):
    return hexb(s.encode())


ROWS = [(1, 1.5, "ab"), (2, 2.5, "cd"), (3, 0.5, "ef"), (4, 4.5, "gh"), (5, 3.5, "ij"), (6, 2.0, "kl")]
ASHAPE = (2, 3)


def make_dataset():
    from pydap.model import BaseType, DatasetType, GridType, SequenceType

    ds = DatasetType("ds")
    ds["a"] = BaseType("a", np.arange(6, dtype="i4").reshape(ASHAPE), dims=("x", "y"))
    g = GridType("g")
    g["g"] = BaseType("g", np.arange(6, dtype="i4").reshape(ASHAPE) + 50, dims=("x", "y"))
    g["x"] = BaseType("x", np.arange(2, dtype="i4") + 100, dims=("x",))
    g["y"] = BaseType("y", np.arange(3, dtype="i4") + 200, dims=("y",))
    ds["g"] = g
    s = SequenceType("s")
    s["i"] = BaseType("i")
    s["f"] = BaseType("f")
    s["t"] = BaseType("t")
    s.data = np.array(ROWS, dtype=[("i", "i4"), ("f", "f8"), ("t", "S2")])
    ds["s"] = s
    return ds


ARRAYS = [("a", ASHAPE, 0), ("g.g", ASHAPE, 0), ("g.x", (2,), 0), ("g.y", (3,), 0), ("a4", ASHAPE, 1)]
# the BaseType objects of the opened dataset (id, reference of the proxy their data is) and the grid (children, by
# reference): objects 7..10 and 11 of the model heap
VARS = [("a", 1), ("g.g", 2), ("g.x", 3), ("g.y", 4)]
N_PROXY = 1 + len(ARRAYS) + 1          # root sequence, arrays, dataset.functions
GRID_REF = N_PROXY + len(VARS)
GRID_KIDS = [N_PROXY + 1, N_PROXY + 2, N_PROXY + 3]
N_FIXED = GRID_REF + 1
# source values: offset and shape per variable id (distinct values: an array determines the positions it holds)
SOURCE = {"a": (0, ASHAPE), "g.g": (50, ASHAPE), "g.x": (100, (2,)), "g.y": (200, (3,))}


class WSGIAdapter(BaseAdapter):
    """requests transport adapter that answers from a WSGI application and records every URL"""

    def __init__(self, app, log):
        super().__init__()
        self.app, self.log = app, log

    def send(self, request, **kw):
        import urllib3

        u = urlsplit(request.url)
        self.log.append(request.url)
        env = {"REQUEST_METHOD": request.method, "SCRIPT_NAME": "", "PATH_INFO": unquote(u.path), "QUERY_STRING": u.query,
               "SERVER_NAME": u.hostname, "SERVER_PORT": str(u.port or 80), "SERVER_PROTOCOL": "HTTP/1.1",
               "wsgi.version": (1, 0), "wsgi.url_scheme": "http", "wsgi.input": io.BytesIO(b""),
               "wsgi.errors": sys.stderr, "wsgi.multithread": False, "wsgi.multiprocess": False, "wsgi.run_once": False}
        st = {}

        def sr(status, headers, exc=None):
            st["s"], st["h"] = status, headers
        body = b"".join(self.app(env, sr))
        code = int(st["s"].split()[0])
        raw = urllib3.HTTPResponse(body=io.BytesIO(body), headers=dict(st["h"]), status=code, preload_content=False,
                                   reason="OK")
        r = requests.Response()
        r.status_code, r.raw, r.url, r.request, r.reason = code, raw, request.url, request, "OK"
        r.headers = requests.structures.CaseInsensitiveDict(st["h"])
        r.encoding = requests.utils.get_encoding_from_headers(r.headers)
        return r

    def close(self):
        pass


def make_session(kind, app, wire_log):
    if kind == "plain":
        s = requests.Session()
    else:
        import requests_cache

        s = requests_cache.CachedSession(backend="memory")
        if kind == "cached+keys":
            from pydap.client import patch_session_for_shared_dap_cache

            patch_session_for_shared_dap_cache(s, shared_vars={"x[0:1:1]", "y[0:1:2]"},
                                               known_url_list=["http://dap.test/data/a.nc", "http://dap.test/data/b.nc"])
    s.mount("http://", WSGIAdapter(app, wire_log))
    s.mount("https://", WSGIAdapter(app, wire_log))
    return s


# ------------------------------------------------------------------------------------------------
TR = None          # the active tracer
_installed = False


def install_wrappers():
    global _installed
    if _installed:
        return
    _installed = True
    import pydap.handlers.dap as hd

    o_gi, o_cp, o_it = hd.SequenceProxy.__getitem__, hd.SequenceProxy.__copy__, hd.SequenceProxy.__iter__
    o_a2, o_a4 = hd.BaseProxyDap2.__getitem__, hd.BaseProxyDap4.__getitem__

    def gi(self, key):
        t = TR
        if t is None or t.depth:
            return o_gi(self, key)
        r = t.ref(self)
        t.depth += 1
        try:
            out = o_gi(self, key)
        except Exception:
            t.event("(get %d %s)" % (r, key_sexp(key)))
            raise
        finally:
            t.depth -= 1
        t.register(out)
        t.event("(get %d %s)" % (r, key_sexp(key)))
        return out

    def cp(self):
        t = TR
        if t is None or t.depth:
            return o_cp(self)
        r = t.ref(self)
        t.depth += 1
        try:
            out = o_cp(self)
        finally:
            t.depth -= 1
        t.register(out)
        t.event("(copy %d)" % r)
        return out

    def it(self):
        t = TR
        if t is not None and not t.depth:
            t.depth += 1
            try:
                return o_it(self)
            finally:
                t.depth -= 1
                t.event("(iter %d)" % t.ref(self))
        return o_it(self)

    def mk(orig):
        def ag(self, index):
            t = TR
            if t is None or t.depth or id(self) not in t.refs:
                return orig(self, index)
            tup = index if isinstance(index, tuple) else (index,)
            t.depth += 1
            try:
                return orig(self, index)
            finally:
                t.depth -= 1
                from props.c03 import tup_sexp
                t.event("(aget %d %s)" % (t.ref(self), tup_sexp(tup)))
        return ag

    hd.SequenceProxy.__getitem__, hd.SequenceProxy.__copy__, hd.SequenceProxy.__iter__ = gi, cp, it
    hd.BaseProxyDap2.__getitem__ = mk(o_a2)
    hd.BaseProxyDap4.__getitem__ = mk(o_a4)

    # BaseType.__getitem__(index) and GridType.__getitem__(non-string key) of *registered* objects (the in-process
    # server indexes its own, unregistered, variables): one top-level event each, the objects they return are
    # registered (children of a returned grid first, then the grid), the GETs they issue are nested
    import pydap.model as pm
    from props.c03 import tup_sexp

    o_bt, o_gt = pm.BaseType.__getitem__, pm.GridType.__getitem__

    def bt(self, index):
        t = TR
        if t is None or t.depth or id(self) not in t.refs:
            return o_bt(self, index)
        tup = index if isinstance(index, tuple) else (index,)
        r = t.refs[id(self)]
        t.depth += 1
        out = None
        try:
            out = o_bt(self, index)
            return out
        finally:
            t.depth -= 1
            if out is not None:
                t.register(out)
            t.event("(vget %d %s)" % (r, tup_sexp(tup)))

    def gt(self, key):
        t = TR
        if (t is None or t.depth or id(self) not in t.refs or isinstance(key, str)
                or (isinstance(key, tuple) and len(key) > 0 and all(isinstance(k, str) for k in key))):
            return o_gt(self, key)
        tup = key if isinstance(key, tuple) else (key,)
        r = t.refs[id(self)]
        t.depth += 1
        out = None
        try:
            out = o_gt(self, key)
            return out
        finally:
            t.depth -= 1
            if isinstance(out, pm.GridType):
                for child in out._dict.values():
                    t.register(child)
                t.register(out)
            elif out is not None:
                t.register(out)
            t.event("(ggrid %d %s)" % (r, tup_sexp(tup)))

    pm.BaseType.__getitem__, pm.GridType.__getitem__ = bt, gt


def key_sexp(key):
    from pydap.handlers.lib import ConstraintExpression

    if isinstance(key, str):
        return "(name %s)" % hx(key)
    if isinstance(key, list):
        return "(cols%s)" % "".join(" " + hx(k) for k in key)
    if isinstance(key, ConstraintExpression):
        return "(ce%s)" % "".join(" " + hx(k) for k in str(key).split("&"))
    if isinstance(key, slice):
        S = lambda x: "none" if x is None else str(x)
        return "(sl %s %s %s)" % (S(key.start), S(key.stop), S(key.step))
    return "(idx %d)" % key


SLAB = re.compile(r"\[(\d+):(\d+):(\d+)\]")


def req_parts(url):
    """(ext, ids, triples, selection) of a request URL, textually"""
    u = urlsplit(url)
    ext = u.path.rsplit(".", 1)[1]
    q = unquote(u.query)
    if q.startswith("dap4.ce="):
        q = q[len("dap4.ce="):]
    parts = [p for p in q.split("&")]
    proj, sel = parts[0], [p for p in parts[1:] if p]
    if "(" in proj:
        ids, triples = [proj], []
    else:
        # observables at the level the property speaks about: the variable ids and the per-axis triples, wherever
        # in an item the hyperslab is written (`s.t,s.f[0:1:8]` and `s[0:1:8].t,s.f` name the same request)
        ids, triples = [], []
        for item in (proj.split(",") if proj else []):
            slabs = re.findall(r"(?:\[[^\]]*\])+", item)
            ids.append(re.sub(r"\[[^\]]*\]", "", item))
            if slabs and not triples:
                triples = SLAB.findall("".join(slabs))
    return ext, ids, triples, sel


def req_sexp(ids, triples, sel):
    return "(%s) (%s) (%s)" % (" ".join(hx(i) for i in ids), " ".join("(%s %s %s)" % t for t in triples),
                               " ".join(hx(s) for s in sel))


class Tracer:
    def __init__(self, sess):
        self.sess = sess
        self.refs = {}
        self.keep = []
        self.objs = []          # ref -> object
        self.next = N_FIXED
        self.depth = 0
        self.events = []
        self.snaps = []
        self.root_seen = False

    def sess_label(self, s):
        return str(SESS_LABEL) if s is self.sess else "none" if s is None else "99"

    def ref(self, obj):
        if id(obj) not in self.refs:
            if not self.root_seen:      # the first unknown proxy is the root sequence proxy (during open_url)
                self.root_seen = True
                self.set_ref(obj, 0)
            else:
                self.register(obj)
        return self.refs[id(obj)]

    def set_ref(self, obj, r):
        self.refs[id(obj)] = r
        self.keep.append(obj)
        while len(self.objs) <= r:
            self.objs.append(None)
        self.objs[r] = obj

    def register(self, obj):
        self.set_ref(obj, self.next)
        self.next += 1

    def event(self, text):
        self.events.append(text)
        self.snaps.append(self.snapshot())

    def obs(self, o):
        import pydap.handlers.dap as hd
        from pydap.client import Functions, ServerFunction, ServerFunctionResult

        if o is None:
            return "unregistered"
        if isinstance(o, hd.SequenceProxy):
            try:
                ext, ids, triples, sel = req_parts(o.url)
                t = o.template
                cols = [c.name for c in t.children()] or [t.id]
                return "(seq %s (%s) %s)" % (req_sexp(ids, triples, sel), " ".join(hx(c) for c in cols),
                                             self.sess_label(o.session))
            except Exception as e:
                return "escaped:" + type(e).__name__
        if isinstance(o, hd.BaseProxyDap2):
            from props.c03 import tup_sexp
            return "(arr %s %s %s)" % (hx(o.id), tup_sexp(tuple(o.slice)), self.sess_label(o.session))
        import pydap.model as pm
        if isinstance(o, pm.GridType):
            return "(grid (%s) %d)" % (" ".join(str(self.refs.get(id(c), "unregistered")) for c in o._dict.values()),
                                       1 if o.output_grid else 0)
        if isinstance(o, pm.BaseType):
            return "(var %s %s)" % (hx(o.id), self.data_obs(o.id, o._data))
        if isinstance(o, Functions):
            return "(o %s %s)" % (hx(o.baseurl), self.sess_label(o.session))
        if isinstance(o, ServerFunction):
            return "(o %s %s %s)" % (hx(o.baseurl), hx(o.name), self.sess_label(o.session))
        if isinstance(o, ServerFunctionResult):
            return "(o %s %s %s)" % (hx(BASE), hx(o.id), self.sess_label(o.session))
        return "?"

    def data_obs(self, vid, d):
        """what a variable holds: `(p ref)` for a registered proxy, else the received array as shape + the source
        positions per source axis (decoded from the values: the sources hold distinct values)"""
        if id(d) in self.refs:
            return "(p %d)" % self.refs[id(d)]
        try:
            a = np.asarray(d)
            off, shape = SOURCE[vid]
            flat = a.astype("i8").ravel() - off
            if a.size == 0:
                return "(v (%s) (%s))" % (" ".join(map(str, a.shape)), " ".join("()" for _ in shape))
            if flat.min() < 0 or flat.max() >= int(np.prod(shape)):
                return "(v-undecodable %r)" % (a.shape,)
            ax = np.unravel_index(flat, shape)
            return "(v (%s) (%s))" % (" ".join(map(str, a.shape)),
                                      " ".join("(%s)" % " ".join(str(int(x)) for x in sorted(set(c.tolist()))) for c in ax))
        except Exception as e:
            return "escaped:" + type(e).__name__

    def snapshot(self):
        return [None if o is None else self.obs(o) for o in self.objs]

    def snap_text(self, snap):
        # slots of the fixed objects that were not yet registered while open_url was running: their observables
        # (id / url text, session) are immutable attributes, read now
        return "(" + " ".join(self.obs(self.objs[i]) if x is None else x for i, x in enumerate(snap)) + ")"


class Sim:
    """one opened dataset on one session, traced"""

    def __init__(self, kind="plain", trace=True, output_grid=False, gzip=False):
        global TR
        from pydap.client import open_url
        from pydap.handlers.lib import BaseHandler
        from pydap.wsgi.ssf import ServerSideFunctions
        import pydap.handlers.dap as hd

        block_network()
        install_wrappers()
        self.kind = kind
        self.output_grid = output_grid
        self.wire = []                 # URLs that reached the adapter
        self.app_hits = []
        self.gzip = gzip               # the server compresses its answers (Content-Encoding: gzip)
        inner = ServerSideFunctions(BaseHandler(make_dataset(), gzip=True) if gzip else BaseHandler(make_dataset()))

        def app(environ, start_response):
            self.app_hits.append(environ["PATH_INFO"] + "?" + environ["QUERY_STRING"])
            return inner(environ, start_response)
        self.sess = make_session(kind, app, self.wire)
        self.sent = []                 # URLs handed to the session
        orig_request = self.sess.request

        def request(method, url, *a, **k):
            self.sent.append(url)
            return orig_request(method, url, *a, **k)
        self.sess.request = request
        self.tr = Tracer(self.sess) if trace else None
        TR = self.tr
        try:
            self.ds = open_url(BASE, session=self.sess, protocol="dap2", output_grid=output_grid)
            self.a4 = hd.BaseProxyDap4(BASE, "a4", np.dtype("i4"), ASHAPE, session=self.sess)
            if self.tr:
                t = self.tr
                if not t.root_seen:
                    t.ref(self.ds["s"].data)
                g = self.ds["g"]
                fixed = [self.ds["a"].data, g["g"].data, g["x"].data, g["y"].data, self.a4, self.ds.functions,
                         self.ds["a"], g["g"], g["x"], g["y"], g]
                for i, o in enumerate(fixed):
                    t.set_ref(o, 1 + i)
                t.snaps.insert(0, None)
        finally:
            TR = None
        self.mark = len(self.sent)

    def __enter__(self):
        global TR
        TR = self.tr
        return self

    def __exit__(self, *a):
        global TR
        TR = None

    # ---- model line ---------------------------------------------------------------------------
    def model_line(self, old=False):
        arrays = " ".join("(%s (%s) %d)" % (hx(n), " ".join(map(str, sh)), d4) for n, sh, d4 in ARRAYS)
        vars_ = " ".join("(%s %d)" % (hx(n), r) for n, r in VARS)
        grids = "((%s) %d)" % (" ".join(map(str, GRID_KIDS)), 1 if self.output_grid else 0)
        return "px-rung %d (open %s () %d %s (%s %s %s) (%s)) (%s) (%s) (%s)" % (
            1 if old else 0, hx(BASE), SESS_LABEL, hx("s"), hx("i"), hx("f"), hx("t"), arrays, vars_, grids,
            " ".join(self.tr.events))

    def impl_output(self):
        """same shape as the driver's answer: observables after every event (the state right after open is
        recomputed now: nothing observable of the fixed objects can have changed, which the model also says),
        then the log of GETs handed to the session after open"""
        t = self.tr
        snaps = [None] + [t.snap_text(x) for x in t.snaps[1:]]
        snaps[0] = "(" + " ".join(t.obs(o) for o in t.objs[:N_FIXED]) + ")"
        log = []
        for url in self.sent[self.mark:]:
            ext, ids, triples, sel = req_parts(url)
            log.append("(get %d %s %s)" % (SESS_LABEL, ext, req_sexp(ids, triples, sel)))
        return "((%s) (%s))" % (" ".join(snaps), " ".join(log))


# ------------------------------------------------------------------------------------------------
# user-level histories
def canon(x):
    if isinstance(x, (bytes, np.bytes_)):
        return x.decode()
    if isinstance(x, np.ndarray):
        return x.tolist() if x.shape else canon(x[()])
    if isinstance(x, np.generic):
        return x.item()
    return x


def read_obj(kind, obj):
    if kind == "seq":
        return [tuple(canon(v) for v in row) for row in obj.iterdata()]
    if kind == "col":
        return [canon(v) for v in obj]
    raise ValueError(kind)


OPS = {">": "__gt__", "<": "__lt__", ">=": "__ge__", "<=": "__le__", "=": "__eq__", "!=": "__ne__"}


def apply_derivation(obj, step, root=None):
    k = step[0]
    if k == "colfilt":      # a single column narrowed by a condition on a column of the opened sequence
        return obj[getattr(root[step[1]], OPS[step[2]])(step[3])]
    if k == "cols":
        return obj[tuple(step[1])]
    if k == "filt":
        return obj[getattr(obj[step[1]], OPS[step[2]])(step[3])]
    if k == "slice":
        return obj[slice(step[1], step[2], step[3])]
    if k == "int":
        return obj[step[1]]
    if k == "child":
        return obj[step[1]]
    raise ValueError(step)


_PYOPS = {">": lambda a, b: a > b, "<": lambda a, b: a < b, ">=": lambda a, b: a >= b, "<=": lambda a, b: a <= b,
          "=": lambda a, b: a == b, "!=": lambda a, b: a != b}


def ref_selection(kind, rec):
    """by-name reference of a derivation chain on ROWS (no pydap code involved)"""
    names = ["i", "f", "t"]
    rows = list(ROWS)
    for st in rec:
        if st[0] in ("filt", "colfilt"):
            j = names.index(st[1])
            rows = [r for r in rows if _PYOPS[st[2]](r[j], st[3])]
    for st in rec:
        if st[0] == "slice":
            rows = rows[slice(st[1], st[2], st[3])]
        elif st[0] == "int":
            rows = rows[st[1]:st[1] + 1]
    cols = names
    for st in rec:
        if st[0] == "cols":
            cols = list(st[1])
        elif st[0] == "child":
            cols = [st[1]]
    out = [tuple(r[names.index(c)] for c in cols) for r in rows]
    if kind == "col":
        return [r[0] for r in out]
    return out


def gen_history(rng, n_ops):
    """user-level ops; targets are indices into the list of live objects (0 = dataset.s)"""
    live = [("seq", ["i", "f", "t"])]      # kinds and visible columns, mirrored symbolically
    ops = []
    for _ in range(n_ops):
        r = rng.random()
        seqs = [i for i, (k, _) in enumerate(live) if k == "seq"]
        if r < 0.14:
            k = rng.choice(seqs)
            cols = live[k][1]
            pick = rng.sample(cols, rng.randint(1, len(cols)))
            ops.append(("derive", k, ("cols", pick)))
            live.append(("seq", pick))
        elif r < 0.28:
            k = rng.choice(seqs)
            num = [c for c in live[k][1] if c in ("i", "f")]
            if not num:
                continue
            name = rng.choice(num)
            ops.append(("derive", k, ("filt", name, rng.choice(list(OPS)), rng.choice([1, 2, 3, 4, 2.5]))))
            live.append(("seq", live[k][1]))
        elif r < 0.40:
            k = rng.choice(seqs)
            a = rng.choice([None, 0, 1, 2])
            b = rng.choice([None, 3, 4, 6, 9])
            ops.append(("derive", k, ("slice", a, b, rng.choice([None, 1, 2]))))
            live.append(("seq", live[k][1]))
        elif r < 0.44:
            k = rng.choice(seqs)
            ops.append(("derive", k, ("int", rng.randint(0, 3))))
            live.append(("seq", live[k][1]))
        elif r < 0.50:
            k = rng.choice(seqs)
            ops.append(("derive", k, ("child", rng.choice(live[k][1]))))
            live.append(("col", None))
        elif r < 0.58:
            # derive again from a single column: col[a:b:k] or col[root.name OP value]
            cols_ = [i for i, (kk, _) in enumerate(live) if kk == "col"]
            if not cols_:
                continue
            k = rng.choice(cols_)
            if rng.random() < 0.5:
                ops.append(("derive", k, ("slice", rng.choice([None, 0, 1]), rng.choice([None, 3, 6]), rng.choice([None, 1, 2]))))
            else:
                ops.append(("derive", k, ("colfilt", rng.choice(["i", "f"]), rng.choice(list(OPS)), rng.choice([1, 2, 3, 2.5]))))
            live.append(("col", None))
        elif r < 0.76:
            ops.append(("read", rng.randrange(len(live))))
        elif r < 0.82:
            ops.append(("array", rng.choice([(0,), (slice(None), 1), (Ellipsis, slice(0, 2)), (1, slice(1, None)), ()])))
        elif r < 0.90:
            ops.append(("grid", rng.choice([(0,), (slice(None), 1), (Ellipsis, slice(0, 2)), (1, slice(1, None))])))
        elif r < 0.95:
            ops.append(("dap4", rng.choice([(0,), (slice(None), 1)])))
        else:
            ops.append(("fn",))
    return ops


_OPNAMES = {">": "gt", "<": "lt", ">=": "ge", "<=": "le", "=": "eq", "!=": "ne"}


def step_sexp(st):
    """a derivation step in the syntax of the `dv-run` driver command (lean/Driver/Derive.lean)"""
    import seqtab

    k = st[0]
    if k == "cols":
        return "(cols (%s))" % " ".join(st[1])
    if k in ("filt", "colfilt"):
        return "(%s (cmp %s %s (val %s)))" % (k, st[1], _OPNAMES[st[2]], seqtab.val_sexp(st[3]))
    if k == "slice":
        S = lambda x: "none" if x is None else str(x)
        return "(sl %s %s %s)" % (S(st[1]), S(st[2]), S(st[3]))
    if k == "int":
        return "(idx %d)" % st[1]
    if k == "child":
        return "(child %s)" % st[1]
    raise ValueError(st)


def derive_case(kind, rec, url, got, case):
    """one correspondence case for `C14_derived_reads_reference`: the model derives along `rec` on its heap, writes
    the request, evaluates `refSelection` and lets the server model of C04 answer the request; the implementation
    side is the query text of the real derived proxy, the harness's own `ref_selection` and the rows really read"""
    import seqtab

    line = "dv-run s %s (%s)" % (seqtab.table_sexp(["i", "f", "t"], ROWS), " ".join(step_sexp(st) for st in rec))
    rows_text = lambda rows: "[" + " ".join(seqtab.item_text(r if isinstance(r, tuple) else (r,)) for r in rows) + "]"
    q = unquote(urlsplit(url).query)
    impl = "%s %s %s" % (hx(q), rows_text(ref_selection(kind, rec)), rows_text(got))
    return (line, impl, dict(case, derived=ops_json(rec)))


class HistoryRun:
    """runs one user-level history on a Sim; records reads and applies the direct oracles"""

    def __init__(self, ctx, sim, ops, case):
        self.ctx, self.sim, self.ops, self.case = ctx, sim, ops, case
        self.live = [("seq", sim.ds["s"], [])]      # (kind, object, recipe)
        self.first = {}                             # live index -> first read
        self.created = {}                           # live index -> (url, columns) at creation
        self.reads = []                             # every read value in order (for cross-session comparison)
        self.failed = False
        self.grids = []                             # grids returned by grid reads (output_grid on)
        self.derive_cases = []                      # (model line, impl output, meta): client model ∘ server model
        self.grid_first = []                        # their content when they were returned

    def fail(self, what, observed, expected):
        self.failed = True
        self.ctx.oracle_fail(what, self.case, observed, expected, size=len(self.ops) * 100 + len(repr(self.ops)))

    def stamp(self, i):
        kind, obj, _ = self.live[i]
        p = obj.data
        t = p.template
        cols = [c.name for c in t.children()] or [t.id]
        return (p.url, tuple(cols), p.session is self.sim.sess)

    def read(self, i):
        kind, obj, _ = self.live[i]
        try:
            v = read_obj(kind, obj)
        except Exception as e:
            v = "escaped:" + type(e).__name__
            if "gaierror" in repr(e) or "resolution" in repr(e):
                v += ":gaierror"
        self.reads.append(v)
        if i in self.first:
            if v != self.first[i]:
                self.fail("an earlier object returns something else when read again", v, self.first[i])
        else:
            self.first[i] = v
            # an empty derived range makes the server answer with an error document (C03/C04's domain: empty
            # selections have no hyperslab text); that is a stable value here.  A connection-level failure means
            # the request left the dataset's session.
            if isinstance(v, str) and any(k in v for k in ("Connection", "gaierror", "Retry", "Timeout", "SSL")):
                self.fail("reading a derived object failed at connection level: request outside the dataset's session",
                          v, "rows")
        return v

    def check_all(self):
        for i in range(len(self.live)):
            s = self.stamp(i)
            if i not in self.created:
                self.created[i] = s
            elif s != self.created[i]:
                self.fail("deriving/reading changed the url, columns or session of an earlier object", list(s),
                          list(self.created[i]))
            if not s[2]:
                self.fail("a derived object does not carry the dataset's session", "session is not the dataset's",
                          "dataset session")
        for i in range(len(self.live)):
            self.read(i)
        # grids handed out by earlier reads are objects of their own: later reads and derivations leave them as they were
        for j, g in enumerate(self.grids[:len(self.grid_first)]):
            now = [canon(np.asarray(c.data)) for c in g.children()]
            if now != self.grid_first[j]:
                self.fail("a grid returned by an earlier read holds other values after later operations", now,
                          self.grid_first[j])

    def run(self):
        sim = self.sim
        with sim:
            self.check_all()
            for op in self.ops:
                try:
                    if op[0] == "derive":
                        kind, obj, rec = self.live[op[1]]
                        new = apply_derivation(obj, op[2], sim.ds["s"])
                        self.live.append(("col" if (op[2][0] in ("child", "colfilt") or kind == "col") else "seq", new,
                                          rec + [op[2]]))
                    elif op[0] == "read":
                        self.read(op[1])
                    elif op[0] == "array":
                        self.reads.append(canon(np.asarray(sim.ds["a"][op[1]].data)))
                    elif op[0] == "grid":
                        g = sim.ds["g"][op[1]]
                        if hasattr(g, "array"):
                            self.grids.append(g)
                            self.reads.append([canon(np.asarray(c.data)) for c in g.children()])
                            self.grid_first.append(self.reads[-1])
                        else:
                            self.reads.append(canon(np.asarray(g.data)))
                    elif op[0] == "gmap":           # a map (or the array) of the opened grid, read on its own
                        self.reads.append(canon(np.asarray(sim.ds["g"][op[1]][op[2]].data)))
                    elif op[0] in ("gsub", "gvar"):  # index a grid an earlier read returned / one of its variables
                        if self.grids:
                            g = self.grids[op[1] % len(self.grids)]
                            try:
                                if op[0] == "gsub":
                                    r = g[op[2]]
                                    self.grids.append(r)
                                    self.reads.append([canon(np.asarray(c.data)) for c in r.children()])
                                    self.grid_first.append(self.reads[-1])
                                else:
                                    self.reads.append(canon(np.asarray(g[op[2]][op[3]].data)))
                            except IndexError:
                                self.reads.append("IndexError")     # numpy: too many indices / out of bounds locally
                    elif op[0] == "dap4":
                        try:
                            sim.a4[op[1]]
                        except Exception:
                            pass           # no DAP4 server: only the request and its session are observed
                    elif op[0] == "fn":
                        t = sim.tr
                        f = sim.ds.functions.mean
                        if t:
                            t.register(f)
                            t.event("(fattr %d %s)" % (t.ref(sim.ds.functions), hx("mean")))
                        n_sent = len(sim.sent)
                        res = f(sim.ds["a"], 0)
                        if t:
                            t.register(res)
                            t.event("(fcall %d %s)" % (t.ref(f), hx("a,0")))
                        try:
                            res["a"]
                            dec = 1
                        except AttributeError:
                            dec = 0        # open_dods_url uses `r.body`, absent on requests.Response (C19's finding)
                        if len(sim.sent) == n_sent:
                            self.fail("a server-function result was fetched without a request through the dataset's "
                                      "session (other datasets were opened on the same URL with other sessions before)",
                                      "no request handed to this dataset's session", "at least one GET through it")
                        if t:
                            t.event("(rget %d %d)" % (t.ref(res), dec))
                except Exception as e:
                    self.fail("operation %r raised" % (op,), "escaped:" + type(e).__name__ + ":" + str(e)[:80], "no exception")
                self.check_all()
        # every request went through the dataset's session and reached the server only through its adapter
        if len(sim.wire) != len(sim.app_hits):
            self.fail("requests reached the server outside the session's adapter", len(sim.app_hits), len(sim.wire))
        if sim.kind == "plain" and len(sim.sent) != len(sim.wire):
            self.fail("requests handed to the session and requests on the wire differ", len(sim.wire), len(sim.sent))
        return self

    def fresh_equiv(self):
        """every derived live object reads what a fresh client applying the same selection reads"""
        for i, (kind, obj, rec) in enumerate(self.live):
            if not rec or i not in self.first:
                continue
            fresh = Sim(self.sim.kind, trace=False, gzip=getattr(self.sim, "gzip", False))
            o = fresh.ds["s"]
            try:
                for st in rec:
                    o = apply_derivation(o, st, fresh.ds["s"])
                v = read_obj(kind, o)
            except Exception as e:
                v = "escaped:" + type(e).__name__
            if v != self.first[i]:
                self.fail("a derived object reads other data than a fresh client applying the same selection",
                          self.first[i], v)
            # independent of the client: the selection evaluated by name on the source rows (all conditions, then the
            # record ranges in the order they were applied, then the columns of the last column list / the child)
            want = ref_selection(kind, rec)
            got = self.first[i]
            if isinstance(got, str) and got.startswith("escaped:") and not want:
                continue        # an empty selection has no hyperslab text: the server's error document (C03/C04)
            if got != want:
                self.fail("a derived object reads other rows/columns than its selection names on the source rows",
                          got, want)
            if not isinstance(got, str):
                try:
                    self.derive_cases.append(derive_case(kind, rec, obj.data.url, got, self.case))
                except Exception as e:      # a value outside the driver's value domain: not a case
                    self.ctx.tags["derive-case-skipped:" + type(e).__name__] += 1


GRID_IDX = [(0,), (1,), (-1,), (slice(None), 1), (slice(None), slice(0, 3, 2)), (Ellipsis, slice(0, 2)), (1, slice(1, None)),
            (slice(0, 1),), (Ellipsis,), (), (slice(None, None, 2), slice(1, 5, 3)), (Ellipsis, -1), (slice(-1, None), Ellipsis),
            (0, 2), (slice(1, 4, 3), slice(None))]
SUB_IDX = [(0,), (slice(None),), (slice(0, 1),), (Ellipsis,), (slice(None, None, 2),), (slice(None), 0), (Ellipsis, slice(0, 1)),
           (-1,), (slice(None), slice(None), 0)]
MAP_IDX = [(0,), (slice(None),), (slice(0, 2),), (slice(None, None, 2),), (-1,), (slice(1, 5, 3),), (Ellipsis,)]


def gen_grid_ops(rng, n_ops):
    """read histories on the opened grid, its maps, the grids earlier reads returned and their variables"""
    ops = []
    for _ in range(n_ops):
        r = rng.random()
        if r < 0.45:
            ops.append(("grid", rng.choice(GRID_IDX)))
        elif r < 0.6:
            ops.append(("gmap", rng.choice(["g", "x", "y"]), rng.choice(MAP_IDX)))
        elif r < 0.78:
            ops.append(("gsub", rng.randrange(8), rng.choice(SUB_IDX)))
        elif r < 0.9:
            ops.append(("gvar", rng.randrange(8), rng.choice(["g", "x", "y"]), rng.choice(MAP_IDX)))
        else:
            ops.append(("array", rng.choice(GRID_IDX)))
    return ops


def ops_json(ops):
    def enc(x):
        if isinstance(x, slice):
            return {"slice": [x.start, x.stop, x.step]}
        if x is Ellipsis:
            return "..."
        if isinstance(x, (tuple, list)):
            return [enc(y) for y in x]
        return x
    return enc(ops)


def ops_unjson(j):
    def dec(x, top=False):
        if isinstance(x, dict):
            return slice(*x["slice"])
        if x == "...":
            return Ellipsis
        if isinstance(x, list):
            return tuple(dec(y) for y in x)
        return x
    out = []
    for op in j:
        op = dec(op)
        if op[0] == "derive":
            st = list(op[2])
            if st[0] == "cols":
                st[1] = list(st[1])
            op = ("derive", op[1], tuple(st))
        out.append(op)
    return out
