"""C10 — DAP4 responses decode to the served values for any chunking and byte order; DAP4 indexing.
Proof: lean/Props/C10.lean.  Tie: decode_chunktype (all 256 field values), stream2bytearray (payloads x adversarial
partitions, well formed and malformed), safe_dmr_and_data, UNPACKDAP4DATA / open_dap_file on generated responses
(both byte orders) vs the Lean model; the dap4.ce request built by BaseProxyDap4.__getitem__ vs the model.
Oracle: the generator's arrays (bit patterns); numpy indexing through an independent reference DAP4 server."""
import io
import os
import sys
import tempfile
import warnings

import numpy as np

import common
from common import hexb
from oracle import gen_dap4 as G
from oracle import refdap4 as R

LEVEL = "proof"


def load():
    from pydap.client import open_dap_file, open_url
    from pydap.handlers.dap import UNPACKDAP4DATA, decode_chunktype, stream2bytearray
    from pydap.lib import BytesReader, walk
    from pydap.model import BaseType

    return dict(open_dap_file=open_dap_file, open_url=open_url, UNPACK=UNPACKDAP4DATA, decode_chunktype=decode_chunktype,
                stream2bytearray=stream2bytearray, BytesReader=BytesReader, walk=walk, BaseType=BaseType)


def err_class(e):
    return type(e).__name__


# ------------------------------------------------------------------------------------------------
def check_chunktype(ctx, fns):
    cases = []
    for t in range(256):
        try:
            last, err, endian = fns["decode_chunktype"](t)
            impl = "(%d %d %s)" % (int(last), int(err), endian)
        except Exception as e:
            impl = "(err %s)" % err_class(e)
        cases.append(("dap4-chunktype 1 %d" % t, impl, {"t": t}))
        exp = "(%d %d %s)" % (t & 1, (t >> 1) & 1, "<" if t & 4 else ">")
        if impl != exp:
            ctx.oracle_fail("chunk type flags misread", {"kind": "chunktype", "t": t}, impl, exp, size=t)
        ctx.count(("ct", t), t != 0, tag="chunktype")
    ctx.correspond("decode_chunktype", cases)


def dechunk_impl(fns, data):
    try:
        with warnings.catch_warnings():
            warnings.simplefilter("ignore")
            return bytes(fns["stream2bytearray"](data)), None
    except Exception as e:
        return None, err_class(e)


def check_dechunk(ctx, fns, n):
    rng = ctx.rng("dechunk")
    cases = []
    for i in range(n):
        size = rng.choice([0, 1, 3, 4, 5, 8, 17, 64, rng.randint(0, 300)])
        payload = bytes(rng.randrange(256) if rng.random() < 0.7 else rng.choice([0, 1, 4, 5, 255]) for _ in range(size))
        little = rng.random() < 0.5
        sizes = R.random_partition(rng, size)
        wire = R.chunked(payload, sizes, little)
        mode = rng.choice(["ok", "ok", "ok", "junk", "trunc", "nolast", "garbage"])
        if mode == "junk":
            wire += bytes(rng.randrange(256) for _ in range(rng.randint(1, 9)))
        elif mode == "trunc" and len(wire) > 0:
            wire = wire[: rng.randint(0, len(wire) - 1)]
        elif mode == "nolast":
            wire = b"".join(R.chunk_header(k, last=False, little=little) + payload[sum(sizes[:j]):sum(sizes[:j + 1])]
                            for j, k in enumerate(sizes))
        elif mode == "garbage":
            wire = bytes(rng.choice([0, 0, 1, 4, 5, rng.randrange(256)]) for _ in range(rng.randint(0, 24)))
        got, err = dechunk_impl(fns, wire)
        impl = "(ok %s)" % hexb(got) if err is None else "(err %s)" % err
        cases.append(("dap4-dechunk %s" % hexb(wire), impl, {"mode": mode, "sizes": sizes[:40]}))
        if mode in ("ok", "junk"):
            if got != payload:
                ctx.oracle_fail("reassembled payload differs from the payload sent",
                                {"kind": "dechunk", "payload": payload.hex(), "sizes": sizes, "little": little,
                                 "junk": wire[len(R.chunked(payload, sizes, little)):].hex()},
                                impl[:200], payload.hex()[:200], size=len(wire))
        ctx.count(("dechunk", wire), len(sizes) > 1, tag="dechunk:%s:%s" % (mode, "multi" if len(sizes) > 1 else "single"))
    ctx.correspond("stream2bytearray", cases)


def check_dechunk_big(ctx, fns, n):
    """payloads with chunks of 65 536 bytes and more: the size field really is 24 bits wide"""
    rng = ctx.rng("dechunk-big")
    cases = []
    for i in range(n):
        size = 70000 + rng.randint(0, 200000)
        payload = bytes(rng.getrandbits(8) for _ in range(size))
        little = rng.random() < 0.5
        sizes = big_partition(rng, size)
        wire = R.chunked(payload, sizes, little)
        got, err = dechunk_impl(fns, wire)
        impl = "(ok %s)" % hexb(got) if err is None else "(err %s)" % err
        cases.append(("dap4-dechunk %s" % hexb(wire), impl, {"mode": "big", "sizes": sizes[:40]}))
        if got != payload:
            ctx.oracle_fail("reassembled payload differs from the payload sent",
                            {"kind": "dechunk", "payload": payload.hex(), "sizes": sizes, "little": little, "junk": ""},
                            (impl[:100] + " len=%d" % len(got or b"")), payload.hex()[:100] + " len=%d" % size, size=len(wire))
        ctx.count(("dechunk-big", wire[:64], size), True, tag="dechunk:big:%d-chunks" % len(sizes))
    ctx.correspond("stream2bytearray (chunks >= 64 KiB)", cases)


def split_impl(fns, resp):
    from webob.response import Response
    u = object.__new__(fns["UNPACK"])
    u.user_charset = "ascii"
    u.r = Response()
    u.raw = fns["BytesReader"](resp)
    try:
        dmr, data, endian = u.safe_dmr_and_data()
        return "(ok %s %s %s)" % (hexb(dmr.encode("ascii")), endian, hexb(data))
    except Exception as e:
        return "(err %s)" % err_class(e)


class OrderSpy(object):
    """records the order in which unpack_dap4_data consumes the variables (it calls get_count once per variable,
    right before cutting that variable's bytes from the buffer)"""

    def __init__(self):
        import pydap.handlers.dap as D
        self.D = D
        self.seen = []

    def __enter__(self):
        self.orig = self.D.get_count

        def spy(variable):
            path = variable.path
            self.seen.append(variable.name if path is None else path + "/" + variable.name)
            return self.orig(variable)
        self.D.get_count = spy
        return self

    def __exit__(self, *a):
        self.D.get_count = self.orig


def unpack_impl(fns, resp, via_file=False):
    """the real decoder on a whole response -> (dataset | None, error class | None)"""
    with warnings.catch_warnings():
        warnings.simplefilter("ignore")
        try:
            if via_file:
                fd, path = tempfile.mkstemp(suffix=".dap")
                try:
                    with os.fdopen(fd, "wb") as f:
                        f.write(resp)
                    return fns["open_dap_file"](path), None
                finally:
                    os.unlink(path)
            return fns["UNPACK"](io.BufferedReader(io.BytesIO(resp))).dataset, None
        except Exception as e:
            return None, err_class(e)


def judge_response(ctx, fns, spec, arrays, ds, err, little, sizes, where):
    case = {"kind": "response", "spec": spec, "arrays": {k: G.be_hex(v) for k, v in arrays.items()},
            "little": little, "sizes": sizes if len(sizes) <= 64 else None}
    size = sum(a.size for a in arrays.values()) * 10 + len(repr(spec)) // 50
    if ds is None:
        ctx.oracle_fail("a valid DAP4 response does not decode", case, err, "a dataset", size=size)
        return
    for path, v in R.walk_vars(spec):
        fq = R.fqn(path, v["name"])
        try:
            with warnings.catch_warnings():
                warnings.simplefilter("ignore")
                # pydap addresses a variable by its stored name (`.` quoted as %2E)
                var = ds[G.dap_quote(fq)] if path else ds[G.dap_quote(v["name"])]
                if var is not (ds[fq] if path else ds[v["name"]]):
                    raise KeyError("declared spelling finds something else")
            data = np.asarray(var.data)
        except Exception as e:
            ctx.oracle_fail("declared variable missing from the decoded dataset", dict(case, var=fq), err_class(e), fq,
                            size=size)
            continue
        if not G.same_bits(data, arrays[fq]):
            ctx.oracle_fail("decoded values/shape/type differ from what was served (%s)" % where, dict(case, var=fq),
                            [str(data.dtype), list(data.shape), G.be_hex(data)[:80]],
                            [str(arrays[fq].dtype), list(arrays[fq].shape), G.be_hex(arrays[fq])[:80]], size=size)


def big_spec(rng, i):
    """a dataset whose serialisation exceeds 64 KiB, so that chunks of 65 536 bytes and more occur (the 24-bit size
    field): one long variable between two small ones, optionally inside a group"""
    ty = rng.choice(["Int8", "UInt16", "Float64", "Int32"])
    width = int(R.NUMERIC[ty][1])
    n = (70000 + rng.randint(0, 70000)) // width
    long_var = {"k": "var", "type": ty, "name": "long", "dims": [{"size": n}], "attrs": [], "maps": []}
    a = {"k": "var", "type": "Int16", "name": "a", "dims": [{"size": 2}], "attrs": [], "maps": []}
    b = {"k": "var", "type": "UInt8", "name": "b", "dims": [], "attrs": [], "maps": []}
    if i % 2:
        return {"name": "big", "items": [a, {"k": "group", "name": "g", "items": [long_var]}, b]}
    return {"name": "big", "items": [a, long_var, b]}


def big_partition(rng, n):
    """partitions with at least one chunk of 65 536 bytes or more (sizes that differ from their low 16 bits)"""
    style = rng.choice(["one", "two", "64k+1", "many"])
    if style == "one":
        return [n]
    if style == "two":
        k = rng.randint(65536, n - 1)
        return [k, n - k]
    if style == "64k+1":
        return [65537, n - 65537] if n > 65537 else [n]
    sizes, left = [], n
    while left > 0:
        k = min(left, rng.choice([65536, 65536 + rng.randint(1, 4000), 3, 1000]))
        sizes.append(k)
        left -= k
    return sizes


def check_responses(ctx, fns, n, label, big=False, **kw):
    rng = ctx.rng(label)
    cases, split_cases, order_cases = [], [], []
    for i in range(n):
        spec = big_spec(rng, i) if big else G.gen_spec(rng, attrs=False, **kw)
        arrays = G.gen_arrays(rng, spec)
        ordered = [arrays[R.fqn(p, v["name"])] for p, v in R.walk_vars(spec)]
        text = R.render_dmr(spec)
        for little in (True, False):
            body = R.serialise(ordered, little)
            sizes = big_partition(rng, len(body)) if big else R.random_partition(rng, len(body))
            resp = R.encode_response(text, ordered, little, sizes)
            via_file = rng.random() < 0.1
            with OrderSpy() as spy:
                ds, err = unpack_impl(fns, resp, via_file)
            judge_response(ctx, fns, spec, arrays, ds, err, little, sizes, "file" if via_file else "buffer")
            doc_order = [R.fqn(p, v["name"]) if p else v["name"] for p, v in R.walk_vars(spec)]
            spy_seen_quoted = list(spy.seen)
            spy.seen = [G.dap_unquote(k) for k in spy.seen]
            if ds is not None and spy.seen != doc_order:
                ctx.oracle_fail("variables are decoded in another order than the DMR declares them",
                                {"kind": "response", "spec": spec, "arrays": {k: G.be_hex(v) for k, v in arrays.items()},
                                 "little": little, "sizes": sizes if len(sizes) <= 64 else None},
                                spy.seen, doc_order, size=len(doc_order))
            if little:
                x0 = G.xnode_sexp(G.et_of_dmr(text))
                order_cases.append(("dmr-order " + x0, "(ok" + "".join(" " + G.hexs(k) for k in spy_seen_quoted) + ")"
                                    if ds is not None else "(err %s)" % err, {"spec": spec}))
                for t in G.layout_tags(spec):
                    ctx.tags[label + ":" + t] += 1
                if big:
                    ctx.tags["chunk>=65536"] += sum(1 for k in sizes if k >= 65536)
            if ds is None:
                impl = "(err %s)" % err
            else:
                impl = "(ok %s" % ("<" if little else ">")
                # listed in the order the implementation consumed them (the model lists its `decodeOrder`);
                # values as bit patterns
                by_key = {G.var_key(v): v for v in fns["walk"](ds, fns["BaseType"])}
                for qkey in spy_seen_quoted:
                    var = by_key.get(qkey)
                    key = G.dap_unquote(qkey)
                    if var is None:
                        impl += " (%s missing)" % G.hexs(qkey)
                        continue
                    ck = var.attributes.get("checksum")
                    ck = "none" if ck is None or len(ck) == 0 else str(int(ck[0]))
                    impl += " (%s (%s %s))" % (G.hexs(qkey), G.be_hex(var.data), ck)
                impl += ")"
            x = G.xnode_sexp(G.et_of_dmr(text))
            cases.append(("dap4-response %s %s" % (x, hexb(resp)), impl, {"spec": spec, "little": little}))
            if i % 10 == 0:
                split_cases.append(("dap4-split %s" % hexb(resp), split_impl(fns, resp), {}))
                cut = rng.randint(0, len(resp))
                split_cases.append(("dap4-split %s" % hexb(resp[:cut]), split_impl(fns, resp[:cut]), {"cut": cut}))
            nv = len(ordered)
            ctx.count(("resp", resp), nv > 1 or len(sizes) > 1,
                      tag="%s:%s:depth=%d:%s" % (label, "LE" if little else "BE", R.max_depth(spec),
                                                 "multi" if len(sizes) > 1 else "single"),
                      sample={"dmr": text[:300], "chunks": sizes[:10]} if i == 0 and little else None)
    ctx.correspond("UNPACKDAP4DATA (whole response)%s" % (" large chunks" if big else ""), cases)
    ctx.correspond("safe_dmr_and_data", split_cases)
    ctx.correspond("unpack_dap4_data decode order (decodeOrder, C10_decode_order)", order_cases)


# ------------------------------------------------------------------------------------------------
def gen_index(rng, shape):
    """index expressions of C02: ints (also negative), slices with steps, Ellipsis, short tuples; every entry is
    drawn for the axis it will address (entries after an Ellipsis address the LAST axes), so that negative bounds
    stay within [-N, …) as the property's domain says"""
    def entry(n):
        if rng.random() < 0.3:
            return rng.randint(-n, n - 1)
        a = rng.choice([None, rng.randint(-n, n)])
        b = rng.choice([None, rng.randint(-n, n + 2)])
        return slice(a, b, rng.choice([None, 1, 2, 3]))

    rank = len(shape)
    if rng.random() < 0.3:
        pre = rng.randint(0, rank)
        post = rng.randint(0, rank - pre)
        return tuple([entry(n) for n in shape[:pre]] + [Ellipsis] + [entry(n) for n in shape[rank - post:]])
    return tuple(entry(n) for n in shape[: rng.randint(0, rank)])


def idx_sexp(x):
    if x is Ellipsis:
        return "e"
    if isinstance(x, slice):
        return "(s %s %s %s)" % tuple("none" if y is None else str(y) for y in (x.start, x.stop, x.step))
    return "(i %d)" % x


def idx_json(idx):
    return [("e" if x is Ellipsis else [x.start, x.stop, x.step] if isinstance(x, slice) else int(x)) for x in idx]


def idx_from_json(j):
    return tuple(Ellipsis if x == "e" else slice(*x) if isinstance(x, list) else x for x in j)


def index_once(fns, spec, arrays, fq, idx, little, rng=None):
    server = R.RefServer(spec, arrays, little=little, rng=rng)
    with warnings.catch_warnings():
        warnings.simplefilter("ignore")
        ds = fns["open_url"]("http://localhost/ds", application=server, protocol="dap4")
        var = ds[fq] if fq.count("/") > 1 else ds[fq[1:]]
        got = np.asarray(var[idx])
    return got, server


def ce4_canon(fns, q):
    """parse_ce(q, "dap4") in the grammar of Driver/Handler.lean `hProjItem`"""
    from pydap.parsers import parse_ce
    try:
        proj, sel = parse_ce(q, "dap4")
    except Exception as e:
        return "(err %s)" % err_class(e)

    def sl(x):
        return "(s %s %s %s)" % tuple("none" if y is None else str(y) for y in (x.start, x.stop, x.step))
    items = []
    for it in proj:
        if isinstance(it, str):
            items.append("(call %s)" % G.hexs(it))
        else:
            items.append("(path%s)" % "".join(" (%s (%s))" % (G.hexs(n), " ".join(sl(x) for x in slc)) for n, slc in it))
    return "(ok (%s) (%s))" % (" ".join(items), " ".join(G.hexs(x) for x in sel))


CE4_FIXED = ["", "dap4.ce=", "a[0]", "a", "dap4.ce=a", "dap4.ce=a;b[1:2]", "dap4.ce=/g/v[0:1:3]|x>1", "dap4.ce=f(a;b);c",
             "dap4.ce=s.m[1]", "dap4.ce=a[1:2:3:4]", "dap4.ce=a[x]", "dap4.ce=a%5B1%5D", "dap4.ce=/g%20h/v[2]",
             "dap4.ce=a[1][2:3]|b<3|c=~x", "dap4.ce=x>1", "dap4.ce=a,b", "dap4.ce=/g/a[0:2:9];/g/b", "dap4.ce=|a",
             "dap4.ce=a[]", "dap4.ce=a[", "dap4.ce=(a;b", "dap4.cf=a"]


def check_parse_ce4(ctx, fns, requests):
    """the DAP4 branch of parse_ce on the requests BaseProxyDap4 built in this run and on fixed shapes of queries"""
    cases = []
    for q in CE4_FIXED + requests:
        if not G.is_ascii(q):
            continue
        cases.append(("dap4-parsece %s" % G.hexs(q), ce4_canon(fns, q), {"q": q}))
        ctx.count(("ce4", q), q.startswith("dap4.ce=") and len(q) > 8, tag="parse_ce-dap4")
    ctx.correspond("parse_ce(protocol='dap4') (parseCE4)", cases)
    # what the DAP4 constraint-expression grammar says about a few fixed queries (written by hand from the DAP4
    # specification: `;` separates projected variables, `|` filters, hyperslab [start:stride:last])
    h = G.hexs
    expect = {
        "dap4.ce=a": "(ok ((path (%s ()))) ())" % h("a"),
        "dap4.ce=a;b[1:2]": "(ok ((path (%s ())) (path (%s ((s 1 3 1))))) ())" % (h("a"), h("b")),
        "dap4.ce=/g/v[0:1:3]|x>1": "(ok ((path (%s ((s 0 4 1))))) (%s))" % (h("/g/v"), h("x>1")),
        "dap4.ce=/g/a[0:2:9];/g/b": "(ok ((path (%s ((s 0 10 2)))) (path (%s ()))) ())" % (h("/g/a"), h("/g/b")),
        "a[0]": "(err ConstraintExpressionError)",
        "dap4.ce=a[1:2:3:4]": "(err ConstraintExpressionError)",
    }
    for q, exp in expect.items():
        got = ce4_canon(fns, q)
        if got != exp:
            ctx.oracle_fail("parse_ce (DAP4 branch) does not read a DAP4 constraint expression as the grammar says",
                            {"kind": "ce4", "q": q, "expected": exp}, got, exp, size=len(q))
    # the reference server's own parser reads the proxy's requests the same way
    for q in requests:
        try:
            name, slices = R.parse_dap4_ce(q[len("dap4.ce="):])
            exp = "(ok ((path (%s (%s)))) ())" % (G.hexs(name), " ".join(
                "(s %d %d %d)" % (x.start, x.stop, x.step) for x in slices))
        except Exception as e:
            exp = "(err %s)" % err_class(e)
        got = ce4_canon(fns, q)
        if got != exp and "%" not in q[8:] and "." not in q[8:]:
            ctx.oracle_fail("parse_ce (DAP4 branch) reads the proxy's request differently from the reference parser",
                            {"kind": "ce4", "q": q}, got, exp, size=len(q))


def check_index(ctx, fns, n):
    rng = ctx.rng("index")
    cases = []
    e2e_cases = []
    requests = []
    done = 0
    while done < n:
        quoted = rng.random() < 0.2
        spec = G.gen_spec(rng, attrs=False, maxvars=3) if not quoted else \
            G.gen_spec(rng, attrs=False, maxvars=3, var_names=G.NAMES[:2] + [x for x in G.QUOTED_ASCII if "[" not in x],
                       group_names=G.GROUP_NAMES[:2] + [x for x in G.QUOTED_GROUPS[:3] if "[" not in x])
        # (names with brackets are left out here: net.GET quotes the query of an in-process application, after which
        #  the brackets of a name, already %5B/%5D, and those of the hyperslab are the same text)
        arrays = G.gen_arrays(rng, spec)
        names = sorted(arrays)
        if not names:
            continue
        little = rng.random() < 0.5
        for _ in range(4):
            fq = rng.choice(names)
            arr = arrays[fq]
            idx = gen_index(rng, arr.shape)
            try:
                exp = arr[idx]
            except IndexError:
                continue
            done += 1
            case = {"kind": "index", "spec": spec, "arrays": {k: G.be_hex(v) for k, v in arrays.items()}, "var": fq,
                    "index": idx_json(idx), "little": little}
            size = arr.size * 10 + len(repr(idx))
            if exp.size == 0:
                # empty selections have no DAP4 hyperslab (same exclusion as C03's text round trip)
                ctx.count(("index-empty", fq, repr(idx)), False, tag="index:empty-skipped")
                continue
            try:
                got, server = index_once(fns, spec, arrays, fq, idx, little, rng)
            except Exception as e:
                ctx.oracle_fail("indexing a DAP4 variable raised", case, err_class(e) + ": " + str(e)[:100],
                                G.be_hex(exp)[:80], size=size)
                continue
            if server.overshoot:
                ctx.tags["index:last-index-beyond-extent(clipped by the reference server)"] += 1
            reqs = [q for (p, q) in server.requests if p.endswith(".dap")]
            ce = reqs[-1] if reqs else ""
            ident = G.dap_quote(fq if fq.count("/") > 1 else fq[1:])
            if "%" not in ident:
                # (the reference server records the query after urllib's unquote: for ids with percent-escapes it
                #  is not the text the proxy built)
                cases.append(("dap4-ce %s (%s) (%s)" % (G.hexs(ident), " ".join(map(str, arr.shape)),
                                                        " ".join(idx_sexp(x) for x in idx)),
                              G.hexs(ce), {"var": fq, "index": repr(idx)}))
            requests.append(ce)
            if quoted:
                ctx.tags["index:quoted-name"] += 1
            if server.last is not None and "%" not in ident:
                # the whole chain on the model: request, parse_ce (DAP4), numpy slicing of the source, serialisation
                # in this byte order, the chunking the server used, decode, lookup  (fetchIndex4, C10_e2e_index)
                last = server.last
                e2e_cases.append((
                    "dap4-e2e %d %s %d (%s) %s (%s) %s %s (%s) %d" % (
                        1 if little else 0, G.hexs(ident), arr.dtype.itemsize, " ".join(map(str, arr.shape)),
                        G.be_hex(arr), " ".join(idx_sexp(x) for x in idx), G.xnode_sexp(G.et_of_dmr(last["dmr"])),
                        hexb(last["dmr"].encode("ascii") + b"\r\n"), " ".join(map(str, last["sizes"])), last["crc"]),
                    "(ok (%s) %s)" % (" ".join(map(str, got.shape)), G.be_hex(got)),
                    {"var": fq, "index": repr(idx), "little": little}))
            # numpy drops integer-indexed axes; the DAP4 response keeps them with extent 1 (as in DAP2): compare
            # the selected elements in order and the extents of the non-integer axes
            if got.size != exp.size or G.be_hex(got.reshape(-1)) != G.be_hex(exp.reshape(-1)) \
                    or [k for k in got.shape if k != 1] != [k for k in exp.shape if k != 1] \
                    or (got.dtype.kind, got.dtype.itemsize) != (exp.dtype.kind, exp.dtype.itemsize):
                ctx.oracle_fail("DAP4 indexing returns other elements than numpy selects", case,
                                [list(got.shape), G.be_hex(got)[:80]], [list(exp.shape), G.be_hex(exp)[:80]], size=size)
            ctx.count(("index", fq, repr(idx), G.be_hex(arr)[:40]), len(idx) > 0,
                      tag="index:rank=%d:%s" % (arr.ndim, "group" if fq.count("/") > 1 else "root"))
    ctx.correspond("BaseProxyDap4.__getitem__ request", cases)
    ctx.correspond("var[index] end to end (fetchIndex4, C10_e2e_index)", e2e_cases)
    check_parse_ce4(ctx, fns, requests)


# ------------------------------------------------------------------------------------------------
def run(ctx):
    ctx.rule = ("all 256 chunk-type values; seeded random payloads x adversarial chunk partitions (one chunk, 1-byte "
                "chunks, fixed small sizes, random sizes, empty chunks; trailing junk, truncation, missing last flag, "
                "garbage; a few payloads with chunks of 65 536 bytes and more); random datasets (10 numeric types, rank 0-3, shared/anonymous/mixed dimensions, groups to depth "
                "3) serialised in both byte orders with random chunkings, decoded from a buffer and from a file; index "
                "expressions (ints, negative, strided slices, Ellipsis, short tuples) through the reference DAP4 server "
                "(one dataset in five with names that DAP quoting changes), each also run through the model's whole "
                "chain (dap4-e2e); parse_ce(protocol='dap4') on fixed query shapes and on every request of the run; "
                "a case is non-trivial when it has several chunks or variables / a non-empty index")
    ctx.assumptions = ["host byte order is little-endian (sys.byteorder == %r here); decode_chunktype on a big-endian "
                       "host is characterised by C10_host_order_matters, not exercised" % sys.byteorder,
                       "the DMR chunk's text -> element tree is ElementTree's; the model gets ET's tree of that text",
                       "datasets opened with a hyperslab already in the URL are out of scope here (C02 / agent-client)",
                       "empty index selections are excluded (no DAP4 hyperslab denotes them)"]
    ctx.proof_phase()
    fns = load()
    explore(ctx, fns, ctx.tier)
    return ctx.finish(search=lambda c: explore(c, fns, "thorough"))


def explore(ctx, fns, tier):
    k = 1 if tier == "quick" else 10
    check_chunktype(ctx, fns)
    check_dechunk(ctx, fns, 1500 * k)
    check_responses(ctx, fns, 150 * k, "flat", groups=False)
    check_responses(ctx, fns, 300 * k, "groups")
    # names that DAP quoting changes (ASCII only: the DMR chunk of a response is decoded as ASCII)
    check_responses(ctx, fns, 60 * k, "quoted-names", var_names=G.NAMES[:3] + G.QUOTED_NAMES + G.QUOTED_ASCII,
                    group_names=G.GROUP_NAMES[:2] + G.QUOTED_GROUPS[:3], dim_names=G.NAMES[:3] + G.QUOTED_DIMS)
    check_responses(ctx, fns, 1 if tier == "quick" else 6, "big", big=True)
    check_dechunk_big(ctx, fns, 1 if tier == "quick" else 6)
    check_index(ctx, fns, 250 * k)


def replay(payload):
    fns = load()
    f = payload.get("failure")
    if not f:
        print("nothing to replay: %s" % payload.get("no_longer_checks"))
        return False
    c = f["case"]
    ctx = common.Ctx("C10", "quick", 0)
    if c["kind"] == "chunktype":
        t = c["t"]
        got = fns["decode_chunktype"](t)
        exp = (bool(t & 1), bool(t & 2), "<" if t & 4 else ">")
        print("observed", got, "expected", exp)
        return tuple(got) == exp
    if c["kind"] == "ce4":
        got = ce4_canon(fns, c["q"])
        exp = c.get("expected")
        if exp is None:
            name, slices = R.parse_dap4_ce(c["q"][len("dap4.ce="):])
            exp = "(ok ((path (%s (%s)))) ())" % (G.hexs(name), " ".join(
                "(s %d %d %d)" % (x.start, x.stop, x.step) for x in slices))
        print("observed", got, "expected", exp)
        return got == exp
    if c["kind"] == "dechunk":
        payload_b = bytes.fromhex(c["payload"])
        wire = R.chunked(payload_b, c["sizes"], c["little"]) + bytes.fromhex(c.get("junk", ""))
        got, err = dechunk_impl(fns, wire)
        print("observed", (got or b"").hex()[:80], err, "expected", payload_b.hex()[:80])
        return got == payload_b
    spec = c["spec"]
    arrays = {}
    for path, v in R.walk_vars(spec):
        fq = R.fqn(path, v["name"])
        dt = np.dtype(R.NUMERIC[v["type"]])
        arrays[fq] = np.frombuffer(bytes.fromhex(c["arrays"][fq][1:]), dtype=dt.newbyteorder(">")).astype(dt) \
            .reshape(R.var_shape(spec, v))
    if c["kind"] == "response":
        ordered = [arrays[R.fqn(p, v["name"])] for p, v in R.walk_vars(spec)]
        body = R.serialise(ordered, c["little"])
        sizes = c.get("sizes") or [len(body)]
        resp = R.encode_response(R.render_dmr(spec), ordered, c["little"], sizes)
        with OrderSpy() as spy:
            ds, err = unpack_impl(fns, resp)
        judge_response(ctx, fns, spec, arrays, ds, err, c["little"], sizes, "replay")
        doc_order = [R.fqn(p, v["name"]) if p else v["name"] for p, v in R.walk_vars(spec)]
        if ds is not None and [G.dap_unquote(k) for k in spy.seen] != doc_order:
            ctx.oracle_fail("decode order differs from document order", c, spy.seen, doc_order)
    else:
        idx = idx_from_json(c["index"])
        exp = arrays[c["var"]][idx]
        try:
            got, _ = index_once(fns, spec, arrays, c["var"], idx, c["little"])
            if got.size != exp.size or G.be_hex(got.reshape(-1)) != G.be_hex(exp.reshape(-1)):
                ctx.oracle_fail("index", c, G.be_hex(got)[:80], G.be_hex(exp)[:80])
        except Exception as e:
            ctx.oracle_fail("index", c, err_class(e), G.be_hex(exp)[:80])
    for fl in ctx.oracle_failures[:3]:
        print("observed", fl["observed"], "expected", fl["expected"], "--", fl["what"])
    return not ctx.oracle_failures
