"""C01 — DAP2 end-to-end fidelity.  Proof: lean/Props/C01.lean (decImpl ∘ encImpl = id through the DDS/Data:
split and any lossless content coding).  Tie: the real body vs `encImpl`, the client's decoding of the real
body vs `decImpl`.  Oracle: source values / shape / DAP2 type vs what the pydap client returns, over
{in-process WSGI app, requests.Session on a WSGI transport adapter, CachedSession} x {gzip on/off} and the
saved .dods file reopened with open_dods_file."""
import gzip
import json
import os
import socket

import numpy as np

import common
import xdrlib as X
from common import hexb
from props import c05 as B

import warnings

LEVEL = "proof"
warnings.filterwarnings("ignore")

# a request that escapes the session must fail at once, never wait for a network
_real_getaddrinfo = socket.getaddrinfo


def _no_dns(*a, **k):
    raise socket.gaierror("verification sandbox: no name resolution")


class GzipApp(object):
    """WSGI middleware: gzip-codes every response body (what a front-end server does)"""

    def __init__(self, app):
        self.app = app

    def __call__(self, environ, start_response):
        box = {}

        def sr(status, headers, exc_info=None):
            box["status"], box["headers"] = status, headers

        body = b"".join(self.app(environ, sr))
        body = gzip.compress(body)
        headers = [(k, v) for k, v in box["headers"] if k.lower() not in ("content-length", "content-encoding")]
        headers += [("Content-Encoding", "gzip"), ("Content-Length", str(len(body)))]
        start_response(box["status"], headers)
        return [body]


CONFIGS = ["app", "app-gzip", "session", "session-gzip", "cached", "file",
           # open_dods_url (what ServerFunctionResult uses): the whole dataset decoded through a StreamReader
           "dods-url", "dods-url-gzip", "dods-url-session", "dods-url-session-gzip",
           # the same application behind a re-chunking hop: sequences are streamed (SequenceProxy.__iter__ searches
           # `Data:` and decodes over the chunks as they come), arrays are read from the joined body
           "app-chunk-bytes", "app-chunk-last1", "app-chunk-random", "app-gzip-chunk-bytes", "dods-url-chunk-bytes"]


def open_with(config, app, t, d):
    """returns a callable var_tmpl -> raw client value for the top-level variable"""
    from pydap.client import open_dods_file, open_dods_url, open_url

    url = "http://localhost:8001/d"
    if config == "app":
        ds = open_url(url, application=app)
    elif config == "app-gzip":
        ds = open_url(url, application=GzipApp(app))
    elif config == "session":
        ds = open_url(url, session=X.wsgi_session(app))
    elif config == "session-gzip":
        ds = open_url(url, session=X.wsgi_session(app, gz=True))
    elif config.startswith("dods-url"):
        if config == "dods-url":
            kw = {"application": app}
        elif config == "dods-url-gzip":
            kw = {"application": GzipApp(app)}
        elif config == "dods-url-chunk-bytes":
            kw = {"application": X.Rechunk(app, "bytes")}
        else:
            kw = {"session": X.wsgi_session(app, gz=config.endswith("gzip"))}
        return open_dods_url(url + ".dods", **kw), "file"
    elif config.startswith("app-chunk-"):
        ds = open_url(url, application=X.Rechunk(app, config[len("app-chunk-"):], seed=len(json.dumps(B.pack(d)))))
    elif config == "app-gzip-chunk-bytes":
        ds = open_url(url, application=X.Rechunk(GzipApp(app), "bytes"))
    elif config == "cached":
        import requests_cache

        s0 = X.wsgi_session(app)
        s = requests_cache.CachedSession(backend="memory")
        for prefix, ad in s0.adapters.items():
            s.mount(prefix, ad)
        ds = open_url(url, session=s)
    else:
        r = X.get(app, "/d.dods")
        path = X.save_dods(r.body)
        try:
            ds = open_dods_file(path)
        finally:
            os.unlink(path)
        return ds, "file"
    return ds, "proxy"


read_file_var = X.read_decoded_var   # values of a dataset returned by open_dods_file / open_dods_url


def declared_ok(v, t, probs, path=""):
    """the client-side declaration carries the source's DAP2 type and shape"""
    name = t[3] if t[0] == "b" else t[1]
    if t[0] == "b":
        try:
            dt = np.dtype(v.dtype)
            if not X.type_ok(t[1], dt):
                probs.append("%s declared %s, source is %s" % (path + name, dt, t[1]))
            if t[2] and tuple(v.shape) != tuple(t[2]):
                probs.append("%s declared shape %s, source %s" % (path + name, v.shape, t[2]))
        except Exception as e:
            probs.append("%s: %s" % (path + name, type(e).__name__))
        return
    for c in t[2]:
        cn = c[3] if c[0] == "b" else c[1]
        if t[0] == "sq" and c[0] == "b":
            # a sequence column's data is the column of the SequenceProxy; only the declaration is inspected
            try:
                if cn not in list(v.keys()):
                    probs.append("%s.%s missing" % (path + name, cn))
            except Exception as e:
                probs.append("%s: %s" % (path + name, type(e).__name__))
            continue
        try:
            declared_ok(v[cn], c, probs, path + name + ".")
        except Exception as e:
            probs.append("%s.%s: %s" % (path + name, cn, type(e).__name__))


def judge(t, d, config):
    """oracle: what the client delivers under `config` equals the source; list of (what, observed, expected)"""
    from pydap.handlers.lib import BaseHandler

    fails = []
    socket.getaddrinfo = _no_dns
    try:
        app = BaseHandler(X.build_dataset(t, d))
        try:
            ds, kind = open_with(config, app, t, d)
        except Exception as e:
            return [("%s: opening the dataset raised %s" % (config, type(e).__name__), repr(e)[:300], "a dataset")]
        for c, x in zip(t[2], d):
            name = c[3] if c[0] == "b" else c[1]
            try:
                v = ds[name]
                probs = []
                declared_ok(v, c, probs)
                raw = read_file_var(v, c) if kind == "file" else X.read_client_var(v, c)
                got = X.canon(c, raw, probs)
            except Exception as e:
                fails.append(("%s: reading a variable raised %s" % (config, type(e).__name__), repr(e)[:300],
                              B.pack(x)))
                continue
            if got != x:
                fails.append(("%s: the client returns other values than the server holds" % config, B.pack(got),
                              B.pack(x)))
            elif probs:
                fails.append(("%s: the client reports another type or shape" % config, probs[:3], "source type/shape"))
    finally:
        socket.getaddrinfo = _real_getaddrinfo
    return fails


def classify(t, d, config=None):
    return B.classify(t, d)


def check(ctx, t, d, configs, cases, where):
    cls = classify(t, d)
    for config in configs:
        fails = judge(t, d, config)
        case = {"tmpl": B.pack(t), "data": B.pack(d), "config": config}
        size = len(json.dumps(case))
        for what, obs, exp in fails:
            ctx.oracle_fail(what, case, obs, exp, cls=cls, size=size)
        ctx.tags["config:" + config] += 1
    # correspondence on the real body: encImpl, then decImpl on those very bytes vs the client's decoder
    ts, dsx = X.tmpl_sexp(t), X.data_sexp(t, d)
    meta = {"tmpl": B.pack(t), "data": B.pack(d), "cls": cls}
    try:
        app, r = B.serve(t, d)
        raw = r.body
    except Exception:
        raw = b""
    if raw.startswith(b"Dataset {") and b"Data:\n" in raw:
        dds, xdr = X.split_body(raw)
        cases.append(("xdr-enc %s %s" % (ts, dsx), hexb(xdr), meta))
        try:
            dataset, values, rest = B.decode_with_client(dds.decode("ascii"), xdr)
            got = X.canon(t, X.decoded_to_raw(values, t))
            impl = "(ok %s %s)" % (X.data_sexp(t, got), hexb(rest))
        except Exception:
            impl = "(err)"
        cases.append(("xdr-dec %s %s" % (ts, hexb(xdr)), impl, meta))
        # the data part in the chunks the server itself yields (one per block/record), through a StreamReader
        try:
            from pydap.handlers.dap import unpack_dap2_data
            from pydap.lib import StreamReader
            from pydap.parsers.dds import dds_to_dataset
            pos, xchunks = 0, []
            for c in X.get(app, "/d.dods").app_iter:
                lo = max(len(dds) + 6 - pos, 0)
                pos += len(c)
                if lo < len(c) or (pos >= len(dds) + 6 and not c):
                    xchunks.append(bytes(c[lo:]))
            it = iter(xchunks)
            reader = StreamReader(it)
            values = unpack_dap2_data(reader, dds_to_dataset(dds.decode("ascii")))
            got = X.canon(t, X.decoded_to_raw(values, t))
            impl = "(ok %s %s)" % (X.data_sexp(t, got), hexb(bytes(reader.buf) + b"".join(it)))
            if got != d and cls is None:
                ctx.oracle_fail("StreamReader over the server's own chunks: other values than the server holds",
                                {"tmpl": B.pack(t), "data": B.pack(d), "config": "dods-url"}, B.pack(got), B.pack(d))
        except Exception:
            impl = "(err)"
        if b"".join(xchunks) == xdr:
            cases.append(("xdr-dec-sr %s (%s)" % (ts, " ".join(hexb(c) for c in xchunks)), impl, dict(meta, path="server-chunks")))
            ctx.tags["server-chunks:%s" % ("1" if len(xchunks) == 1 else "2-4" if len(xchunks) < 5 else "5+")] += 1
    tg = B.tags_of(t)
    for g in set(tg):
        ctx.tags[where + ":" + g] += 1
    nontrivial = any(g.startswith("seq") or g.startswith("array") or g in ("struct", "grid") for g in tg)
    ctx.count((ts, dsx), nontrivial, sample={"tmpl": ts[:200], "data": dsx[:200]})


def explore(ctx, tier, search=False):
    rng = ctx.rng("datasets")
    cases = []
    try:
        import requests_cache  # noqa: F401
        configs_all = list(CONFIGS)
    except Exception:
        configs_all = [c for c in CONFIGS if c != "cached"]
        ctx.notes.append("requests_cache not importable: CachedSession configuration skipped")
    for t in B.focused(rng):
        nrows_list = (0, 2) if X.has_seq(t) else (None,)
        for nrows in nrows_list:
            d = [X.gen_data(rng, c, nrows=nrows) if c[0] == "sq" else X.gen_data(rng, c) for c in t[2]]
            check(ctx, t, d, ["app", rng.choice(configs_all[1:])], cases, "focused")
    streaming = [c for c in configs_all if c.startswith("dods-url") or "chunk" in c]
    for kind, t, d in X.last_variable_datasets(rng, ctx.budget(4, 30)):
        check(ctx, t, d, ["dods-url", rng.choice(streaming), rng.choice(configs_all)], cases, "last")
        ctx.tags["last-variable:" + kind] += 1
    n = ctx.budget(700, 12000) * (3 if search else 1)
    for i in range(n):
        t = X.gen_dataset(rng)
        d = X.gen_data(rng, t)
        configs = configs_all if i % 4 == 0 else ["app", rng.choice(configs_all[1:])]
        check(ctx, t, d, configs, cases, "random")
    ctx.correspond("encImpl / decImpl vs the real body and the client's decoder", cases,
                   known_class=lambda m: m.get("cls"))


def witness_lazy():
    t, d = B.WITNESS_LAZY
    return bool(judge(t, d, "app"))


def run(ctx):
    ctx.rule = ("datasets generated type-directed over the DAP2 domain (8 types with edge values incl. NaN payloads, "
                "inf, -0.0, extremes, empty strings; int8 carried as Int16; ranks 0..3 incl. zero extents; "
                "structures/grids to depth 3; numpy- and IterData-backed sequences with 0..4 records and one inner "
                "sequence) x configurations {in-process app, app behind gzip, requests session on a WSGI adapter, "
                "the same with gzip, CachedSession, saved .dods file, open_dods_url x {app, gzip, requests, requests+gzip, "
                "1-byte chunks}, open_url behind a re-chunking hop x {1-byte, boundary before the last byte, random, "
                "gzip+1-byte}}; a family whose last variable makes the decoder's final read zero-length; (value, representation) pairs as in C05 (dtype char, byte order, layout, scalar forms, str/bytes), each read back through the client; a dataset is non-trivial when it has an array, "
                "a container or a sequence; distinct by (declaration, data)")
    ctx.assumptions = ["gzip.decompress(gzip.compress(b)) = b (hypothesis of C01_transport, exercised by the oracle)",
                       "webob/requests/requests_cache plumbing, file I/O and the DDS text round trip (C07) are "
                       "outside the theorems: covered by the oracle only"]
    ctx.proof_phase()
    explore(ctx, ctx.tier)
    from props import c05_rep
    c05_rep.explore(ctx, "representations", ctx.budget(120, 2000), client=True)
    return ctx.finish(search=lambda c: (explore(c, "thorough", search=True),
                                        c05_rep.explore(c, "representations-search", 1500, client=True)),
                      witnesses={"C01.lazy_type_peek": witness_lazy})


def replay(payload):
    f = payload.get("failure")
    if not f:
        print("nothing to replay: %s" % payload.get("no_longer_checks"))
        return False
    c = f["case"]
    if "obj" in c or "cells" in c or "reps" in c or "recarray" in c:
        from props import c05_rep
        return c05_rep.replay_case(c)
    t = B.unpack_t(c["tmpl"])
    d = B.unpack_d(t, c["data"])
    fails = judge(t, d, c.get("config", "app"))
    for what, obs, exp in fails:
        print("FAILS:", what, "| observed", str(obs)[:300], "| expected", str(exp)[:300])
    return not fails
