"""C01 — DAP2 end-to-end fidelity.  Proof: lean/Props/C01.lean (decImpl ∘ encImpl = id through the DDS/Data:
split and any lossless content coding).  Tie: the real body vs `encImpl`, the client's decoding of the real
body vs `decImpl`.  Oracle: source values / shape / DAP2 type vs what the pydap client returns, over
{in-process WSGI app, requests.Session on a WSGI transport adapter, CachedSession} x {gzip on/off} and the
saved .dods file reopened with open_dods_file."""
import gzip
import json
import os
import socket

import numpy as np

import common
import xdrlib as X
from common import hexb
from props import c05 as B

import warnings

LEVEL = "proof"
warnings.filterwarnings("ignore")

# a request that escapes the session must fail at once, never wait for a network
_real_getaddrinfo = socket.getaddrinfo


def _no_dns(*a, **k):
    raise socket.gaierror("verification sandbox: no name resolution")


class GzipApp(object):
    """WSGI middleware: gzip-codes every response body (what a front-end server does)"""

    def __init__(self, app):
        self.app = app

    def __call__(self, environ, start_response):
        box = {}

        def sr(status, headers, exc_info=None):
            box["status"], box["headers"] = status, headers

        body = b"".join(self.app(environ, sr))
        body = gzip.compress(body)
        headers = [(k, v) for k, v in box["headers"] if k.lower() not in ("content-length", "content-encoding")]
        headers += [("Content-Encoding", "gzip"), ("Content-Length", str(len(body)))]
        start_response(box["status"], headers)
        return [body]


CONFIGS = ["app", "app-gzip", "session", "session-gzip", "cached", "file",
           # open_dods_url (what ServerFunctionResult uses): the whole dataset decoded through a StreamReader
           "dods-url", "dods-url-gzip", "dods-url-session", "dods-url-session-gzip",
           # the same application behind a re-chunking hop: sequences are streamed (SequenceProxy.__iter__ searches
           # `Data:` and decodes over the chunks as they come), arrays are read from the joined body
           "app-chunk-bytes", "app-chunk-last1", "app-chunk-random", "app-gzip-chunk-bytes", "dods-url-chunk-bytes"]


def open_with(config, app, t, d):
    """returns a callable var_tmpl -> raw client value for the top-level variable"""
    from pydap.client import open_dods_file, open_dods_url, open_url

    url = "http://localhost:8001/d"
    if config == "app":
        ds = open_url(url, application=app)
    elif config == "app-gzip":
        ds = open_url(url, application=GzipApp(app))
    elif config == "session":
        ds = open_url(url, session=X.wsgi_session(app))
    elif config == "session-gzip":
        ds = open_url(url, session=X.wsgi_session(app, gz=True))
    elif config.startswith("dods-url"):
        if config == "dods-url":
            kw = {"application": app}
        elif config == "dods-url-gzip":
            kw = {"application": GzipApp(app)}
        elif config == "dods-url-chunk-bytes":
            kw = {"application": X.Rechunk(app, "bytes")}
        else:
            kw = {"session": X.wsgi_session(app, gz=config.endswith("gzip"))}
        return open_dods_url(url + ".dods", **kw), "file"
    elif config.startswith("app-chunk-"):
        ds = open_url(url, application=X.Rechunk(app, config[len("app-chunk-"):], seed=len(json.dumps(B.pack(d)))))
    elif config == "app-gzip-chunk-bytes":
        ds = open_url(url, application=X.Rechunk(GzipApp(app), "bytes"))
    elif config == "cached":
        import requests_cache

        s0 = X.wsgi_session(app)
        s = requests_cache.CachedSession(backend="memory")
        for prefix, ad in s0.adapters.items():
            s.mount(prefix, ad)
        ds = open_url(url, session=s)
    else:
        r = X.get(app, "/d.dods")
        path = X.save_dods(r.body)
        try:
            ds = open_dods_file(path)
        finally:
            os.unlink(path)
        return ds, "file"
    return ds, "proxy"


read_file_var = X.read_decoded_var   # values of a dataset returned by open_dods_file / open_dods_url


def observe_open_dods_file(raw, t):
    """the real `open_dods_file` on a file holding `raw`.  Observed, not re-implemented: the text it hands to
    `dds_to_dataset` (the `dds` its text-mode loop accumulated) and the reader it decodes from are captured by
    wrapping the two names in pydap.client for the duration of the call.  Returns (dds text | None, canonical
    decoding as `xdr-dec` prints it | None when the DDS parser itself refused the text)"""
    import pydap.client as C

    box = {}
    real_dds, real_reader = C.dds_to_dataset, C.BytesReader

    def spy_dds(text):
        box["dds"] = text
        out = real_dds(text)
        box["parsed"] = True
        return out

    class SpyReader(real_reader):
        def __init__(self, data):
            real_reader.__init__(self, data)
            box["reader"] = self

    path = X.save_dods(raw)
    C.dds_to_dataset, C.BytesReader = spy_dds, SpyReader
    try:
        try:
            ds = C.open_dods_file(path)
            vals = [read_file_var(ds[c[3] if c[0] == "b" else c[1]], c) for c in t[2]]
            got = X.canon(t, vals)
            impl = "(ok %s %s)" % (X.data_sexp(t, got), hexb(bytes(box["reader"].data)))
        except Exception:
            impl = "(err)" if box.get("parsed") else None
    finally:
        C.dds_to_dataset, C.BytesReader = real_dds, real_reader
        os.unlink(path)
    return box.get("dds"), impl


def file_case(ctx, cases, t, raw, meta, label):
    """one `xdr-file` correspondence case: Xdr.openDodsFile on the bytes of the file vs the real function"""
    text, impl = observe_open_dods_file(raw, t)
    if text is None or impl is None:
        ctx.tags["open_dods_file:skipped-dds-unparsable"] += 1
        return None
    cases.append(("xdr-file %s %s" % (X.tmpl_sexp(t), hexb(raw)),
                  "(%s) %s" % (hexb(text.encode("ascii")), impl), dict(meta, path="open_dods_file", label=label)))
    # evidence keeps the 60 most frequent tags: the one-off files are counted per family, the label stays in `meta`
    ctx.tags["open_dods_file:" + (label if label in ("focused", "last", "random") else
                                  "crafted-" + label.split("-")[0])] += 1
    return text, impl


def adversarial_files(ctx, cases, rng):
    """files built to separate `open_dods_file`'s text loop from what follows it: XDR parts that contain the marker,
    newlines and bytes the ASCII text decoder drops; marker lines that only match after `str.strip()`; no marker at
    all; non-ASCII bytes in the DDS text (outside C01's domain: the model must still predict the misplaced offset)"""
    out = []
    i32 = lambda n, k: ("b", "Int32", (), "%s%d" % (n, k), False)

    def served(label, t, d):
        app, r = B.serve(t, d)
        out.append((label, t, d, r.body))

    t1 = ("st", "d", [("b", "Byte", (8,), "a", False), ("b", "Int32", (), "b", False)])
    served("data-contains-marker", t1, [[10, 68, 97, 116, 97, 58, 10, 200], -2147483638])
    t2 = ("st", "d", [i32("v", 0), i32("v", 1), i32("v", 2)])
    served("data-starts-with-marker", t2, [0x44617461, 0x3A0A4461, 0x74613A0A])
    t3 = ("st", "d", [("b", "Int32", (8,), "a", False), ("b", "Byte", (5,), "b", False), ("b", "Byte", (), "c", False)])
    served("data-newlines", t3, [[168430090] * 8, [10] * 5, 10])
    t4 = ("st", "d", [("b", "UInt32", (6,), "a", False), ("b", "Byte", (7,), "b", False)])
    for _ in range(6):
        served("data-high-bytes", t4, [[rng.randrange(0x80808080, 2 ** 32) for _ in range(6)],
                                      [rng.randrange(128, 256) for _ in range(7)]])
    for _ in range(6):
        t5 = ("st", "d", [("b", "Byte", (24,), "a", False)])
        served("data-random-lines", t5, [[rng.choice([10, 10, 13, 32, 58, 68, 97, 116, 128, 255]) for _ in range(24)]])
    # every byte value right after the marker
    t6 = ("st", "d", [("b", "Byte", (256,), "a", False)])
    served("data-all-bytes", t6, [list(range(256))])
    for label, t, d, raw in out:
        got = file_case(ctx, cases, t, raw, {"tmpl": B.pack(t), "data": B.pack(d), "cls": None}, label)
        want = "(ok %s x)" % X.data_sexp(t, d)
        if got is None or got[0].encode("ascii") != X.split_body(raw)[0] or got[1] != want:
            ctx.oracle_fail("open_dods_file on a saved body: other DDS text / values than the server sent (%s)" % label,
                            {"tmpl": B.pack(t), "data": B.pack(d), "config": "file"}, str(got)[:300], want[:300])
    # -- files that are not bodies of this server: only model = implementation is asked
    t7 = ("st", "d", [i32("v", k) for k in range(4)])
    d7 = [0x0A446174, 0x613A0A00, 5, -1]
    dds7 = X.ref_dds(t7).encode("ascii")
    xdr7 = X.ref_enc(t7, d7)
    meta = {"tmpl": B.pack(t7), "data": B.pack(d7), "cls": None}
    crafted = [
        ("marker-spaced", dds7 + b"  Data: \r\n" + xdr7),
        ("marker-fs-us", dds7 + b"\x1cData:\x1f\n" + xdr7),
        ("marker-vt-ff", dds7 + b"\x0bData:\x0c\n" + xdr7),
        ("marker-high-bytes-dropped", dds7 + b"\xa0\x85Data:\xff\n" + xdr7),
        ("marker-nul-not-stripped", dds7 + b"\x00Data:\n" + xdr7),
        ("marker-last-line-no-newline", dds7 + b"Data:"),
        ("marker-missing", dds7),
        ("marker-missing-then-data", dds7 + xdr7),
        ("marker-twice", dds7 + b"Data:\nData:\n" + xdr7),
        ("data-truncated", dds7 + b"Data:\n" + xdr7[:-2]),
        ("data-trailing", dds7 + b"Data:\n" + xdr7 + b"\nData:\n\x80"),
        ("dds-non-ascii-name", dds7.replace(b"} d;", b"} d\xc3\xa9;") + b"Data:\n" + xdr7),
        ("dds-non-ascii-many", dds7.replace(b"Dataset {", b"Dataset {\x80\x81\x82\x83\xfe") + b"Data:\n" + xdr7),
        ("dds-cr-lf", dds7.replace(b"\n", b"\r\n") + b"Data:\n" + xdr7),
        ("dds-blank-lines", b"\n \n" + dds7 + b"\n\t\n" + b"Data:\n" + xdr7),
        ("empty-file", b""),
    ]
    for label, raw in crafted:
        file_case(ctx, cases, t7, raw, meta, label)


def declared_ok(v, t, probs, path=""):
    """the client-side declaration carries the source's DAP2 type and shape"""
    name = t[3] if t[0] == "b" else t[1]
    if t[0] == "b":
        try:
            dt = np.dtype(v.dtype)
            if not X.type_ok(t[1], dt):
                probs.append("%s declared %s, source is %s" % (path + name, dt, t[1]))
            if t[2] and tuple(v.shape) != tuple(t[2]):
                probs.append("%s declared shape %s, source %s" % (path + name, v.shape, t[2]))
        except Exception as e:
            probs.append("%s: %s" % (path + name, type(e).__name__))
        return
    for c in t[2]:
        cn = c[3] if c[0] == "b" else c[1]
        if t[0] == "sq" and c[0] == "b":
            # a sequence column's data is the column of the SequenceProxy; only the declaration is inspected
            try:
                if cn not in list(v.keys()):
                    probs.append("%s.%s missing" % (path + name, cn))
            except Exception as e:
                probs.append("%s: %s" % (path + name, type(e).__name__))
            continue
        try:
            declared_ok(v[cn], c, probs, path + name + ".")
        except Exception as e:
            probs.append("%s.%s: %s" % (path + name, cn, type(e).__name__))


def judge(t, d, config):
    """oracle: what the client delivers under `config` equals the source; list of (what, observed, expected)"""
    from pydap.handlers.lib import BaseHandler

    fails = []
    socket.getaddrinfo = _no_dns
    try:
        app = BaseHandler(X.build_dataset(t, d))
        try:
            ds, kind = open_with(config, app, t, d)
        except Exception as e:
            return [("%s: opening the dataset raised %s" % (config, type(e).__name__), repr(e)[:300], "a dataset")]
        for c, x in zip(t[2], d):
            name = c[3] if c[0] == "b" else c[1]
            try:
                v = ds[name]
                probs = []
                declared_ok(v, c, probs)
                raw = read_file_var(v, c) if kind == "file" else X.read_client_var(v, c)
                got = X.canon(c, raw, probs)
            except Exception as e:
                fails.append(("%s: reading a variable raised %s" % (config, type(e).__name__), repr(e)[:300],
                              B.pack(x)))
                continue
            if got != x:
                fails.append(("%s: the client returns other values than the server holds" % config, B.pack(got),
                              B.pack(x)))
            elif probs:
                fails.append(("%s: the client reports another type or shape" % config, probs[:3], "source type/shape"))
    finally:
        socket.getaddrinfo = _real_getaddrinfo
    return fails


def classify(t, d, config=None):
    return B.classify(t, d)


def check(ctx, t, d, configs, cases, where):
    cls = classify(t, d)
    for config in configs:
        fails = judge(t, d, config)
        case = {"tmpl": B.pack(t), "data": B.pack(d), "config": config}
        size = len(json.dumps(case))
        for what, obs, exp in fails:
            ctx.oracle_fail(what, case, obs, exp, cls=cls, size=size)
        ctx.tags["config:" + config] += 1
    # correspondence on the real body: encImpl, then decImpl on those very bytes vs the client's decoder
    ts, dsx = X.tmpl_sexp(t), X.data_sexp(t, d)
    meta = {"tmpl": B.pack(t), "data": B.pack(d), "cls": cls}
    try:
        app, r = B.serve(t, d)
        raw = r.body
    except Exception:
        raw = b""
    if raw.startswith(b"Dataset {") and b"Data:\n" in raw:
        dds, xdr = X.split_body(raw)
        cases.append(("xdr-enc %s %s" % (ts, dsx), hexb(xdr), meta))
        try:
            dataset, values, rest = B.decode_with_client(dds.decode("ascii"), xdr)
            got = X.canon(t, X.decoded_to_raw(values, t))
            impl = "(ok %s %s)" % (X.data_sexp(t, got), hexb(rest))
        except Exception:
            impl = "(err)"
        cases.append(("xdr-dec %s %s" % (ts, hexb(xdr)), impl, meta))
        if "file" in configs:
            # the same body saved and reopened: Xdr.openDodsFile (text loop, offset, binary re-read) vs open_dods_file
            got = file_case(ctx, cases, t, raw, meta, where)
            if got is not None and got[0].encode("ascii") != dds and cls is None:
                ctx.oracle_fail("open_dods_file hands another text to the DDS parser than the DDS the server sent",
                                {"tmpl": B.pack(t), "data": B.pack(d), "config": "file"}, got[0][:300],
                                dds.decode("ascii", "replace")[:300])
        # the data part in the chunks the server itself yields (one per block/record), through a StreamReader
        try:
            from pydap.handlers.dap import unpack_dap2_data
            from pydap.lib import StreamReader
            from pydap.parsers.dds import dds_to_dataset
            pos, xchunks = 0, []
            for c in X.get(app, "/d.dods").app_iter:
                lo = max(len(dds) + 6 - pos, 0)
                pos += len(c)
                if lo < len(c) or (pos >= len(dds) + 6 and not c):
                    xchunks.append(bytes(c[lo:]))
            it = iter(xchunks)
            reader = StreamReader(it)
            values = unpack_dap2_data(reader, dds_to_dataset(dds.decode("ascii")))
            got = X.canon(t, X.decoded_to_raw(values, t))
            impl = "(ok %s %s)" % (X.data_sexp(t, got), hexb(bytes(reader.buf) + b"".join(it)))
            if got != d and cls is None:
                ctx.oracle_fail("StreamReader over the server's own chunks: other values than the server holds",
                                {"tmpl": B.pack(t), "data": B.pack(d), "config": "dods-url"}, B.pack(got), B.pack(d))
        except Exception:
            impl = "(err)"
        if b"".join(xchunks) == xdr:
            cases.append(("xdr-dec-sr %s (%s)" % (ts, " ".join(hexb(c) for c in xchunks)), impl, dict(meta, path="server-chunks")))
            ctx.tags["server-chunks:%s" % ("1" if len(xchunks) == 1 else "2-4" if len(xchunks) < 5 else "5+")] += 1
    tg = B.tags_of(t)
    for g in set(tg):
        ctx.tags[where + ":" + g] += 1
    nontrivial = any(g.startswith("seq") or g.startswith("array") or g in ("struct", "grid") for g in tg)
    ctx.count((ts, dsx), nontrivial, sample={"tmpl": ts[:200], "data": dsx[:200]})


def explore(ctx, tier, search=False):
    rng = ctx.rng("datasets")
    cases = []
    try:
        import requests_cache  # noqa: F401
        configs_all = list(CONFIGS)
    except Exception:
        configs_all = [c for c in CONFIGS if c != "cached"]
        ctx.notes.append("requests_cache not importable: CachedSession configuration skipped")
    for t in B.focused(rng):
        nrows_list = (0, 2) if X.has_seq(t) else (None,)
        for nrows in nrows_list:
            d = [X.gen_data(rng, c, nrows=nrows) if c[0] == "sq" else X.gen_data(rng, c) for c in t[2]]
            check(ctx, t, d, ["app", rng.choice(configs_all[1:])], cases, "focused")
    streaming = [c for c in configs_all if c.startswith("dods-url") or "chunk" in c]
    for kind, t, d in X.last_variable_datasets(rng, ctx.budget(4, 30)):
        check(ctx, t, d, ["dods-url", rng.choice(streaming), rng.choice(configs_all)], cases, "last")
        ctx.tags["last-variable:" + kind] += 1
    n = ctx.budget(700, 12000) * (3 if search else 1)
    for i in range(n):
        t = X.gen_dataset(rng)
        d = X.gen_data(rng, t)
        configs = configs_all if i % 4 == 0 else ["app", rng.choice(configs_all[1:])]
        check(ctx, t, d, configs, cases, "random")
    if not search:
        adversarial_files(ctx, cases, ctx.rng("dods-files"))
        nf = [c[2].get("label") for c in cases if c[0].startswith("xdr-file ")]
        ctx.notes.append("xdr-file (Xdr.openDodsFile vs the real open_dods_file on a temp file): %d cases, %d of them crafted files"
                         % (len(nf), sum(1 for x in nf if x not in ("focused", "last", "random"))))
    ctx.correspond("encImpl / decImpl / openDodsFile vs the real body, the client's decoder and open_dods_file", cases,
                   known_class=lambda m: m.get("cls"))


def witness_lazy():
    t, d = B.WITNESS_LAZY
    return bool(judge(t, d, "app"))


def run(ctx):
    ctx.rule = ("datasets generated type-directed over the DAP2 domain (8 types with edge values incl. NaN payloads, "
                "inf, -0.0, extremes, empty strings; int8 carried as Int16; ranks 0..3 incl. zero extents; "
                "structures/grids to depth 3; numpy- and IterData-backed sequences with 0..4 records and one inner "
                "sequence) x configurations {in-process app, app behind gzip, requests session on a WSGI adapter, "
                "the same with gzip, CachedSession, saved .dods file (open_dods_file also tied to Xdr.openDodsFile on the bytes of every such file and on crafted files: marker/newlines/bytes >= 128 inside the data, marker lines that match only after strip(), no marker, non-ASCII DDS), open_dods_url x {app, gzip, requests, requests+gzip, "
                "1-byte chunks}, open_url behind a re-chunking hop x {1-byte, boundary before the last byte, random, "
                "gzip+1-byte}}; a family whose last variable makes the decoder's final read zero-length; (value, representation) pairs as in C05 (dtype char, byte order, layout, scalar forms, str/bytes), each read back through the client; a dataset is non-trivial when it has an array, "
                "a container or a sequence; distinct by (declaration, data)")
    ctx.assumptions = ["gzip.decompress(gzip.compress(b)) = b (hypothesis of C01_transport, exercised by the oracle)",
                       "webob/requests/requests_cache plumbing, the operating system's file I/O and the DDS text round "
                       "trip (C07) are outside the theorems: covered by the oracle only (what open_dods_file does with "
                       "the bytes of the file is modelled: Xdr.openDodsFile, tied by the xdr-file correspondence)"]
    ctx.proof_phase()
    explore(ctx, ctx.tier)
    from props import c05_rep
    c05_rep.explore(ctx, "representations", ctx.budget(120, 2000), client=True)
    return ctx.finish(search=lambda c: (explore(c, "thorough", search=True),
                                        c05_rep.explore(c, "representations-search", 1500, client=True)),
                      witnesses={"C01.lazy_type_peek": witness_lazy})


def replay(payload):
    f = payload.get("failure")
    if not f:
        print("nothing to replay: %s" % payload.get("no_longer_checks"))
        return False
    c = f["case"]
    if "obj" in c or "cells" in c or "reps" in c or "recarray" in c:
        from props import c05_rep
        return c05_rep.replay_case(c)
    t = B.unpack_t(c["tmpl"])
    d = B.unpack_d(t, c["data"])
    fails = judge(t, d, c.get("config", "app"))
    for what, obs, exp in fails:
        print("FAILS:", what, "| observed", str(obs)[:300], "| expected", str(exp)[:300])
    return not fails
