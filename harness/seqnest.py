"""C17, one nested sequence level: tables whose outer sequence has base children and sequence children (of base
columns), programs of stream operations on them, their encoding for the Lean driver (`nest-run`), and the plain-Python
by-name reference: filter the source (outer rows by the clauses on outer base columns, the records of a nested
sequence by the clauses on its columns), then the column/child selections by name in order, then the slices."""
import seqtab
from seqtab import NAMES, OPS, POOL, hexs, lit_text, val_sexp, val_text

def gen_table(rng):
    """header: [(name, kind)] with kind in 'ift' or [(inner name, kind)]; rows: tuples, nested cells = lists of tuples"""
    ncols = rng.randint(1, 4)
    names = rng.sample(NAMES, ncols)
    hdr = [(n, rng.choice("ift")) for n in names]
    k = rng.choice([1, 1, 1, 2]) if rng.random() < 0.92 else 0
    for j in rng.sample(range(ncols), min(k, ncols)):
        inner = rng.sample(NAMES, rng.randint(1, 3))
        hdr[j] = (hdr[j][0], [(n, rng.choice("ift")) for n in inner])
    rows = []
    for _ in range(rng.randint(0, 5)):
        row = []
        for _, kind in hdr:
            if isinstance(kind, list):
                row.append([tuple(rng.choice(POOL[k]) for _, k in kind) for _ in range(rng.randint(0, 3))])
            else:
                row.append(rng.choice(POOL[kind]))
        rows.append(tuple(row))
    return hdr, rows


def hdr_sexp(hdr):
    return "(" + " ".join("(%s (%s))" % (n, " ".join(x for x, _ in k)) if isinstance(k, list) else "(%s)" % n
                          for n, k in hdr) + ")"


def rows_sexp(rows):
    def cell(v):
        if isinstance(v, list):
            return "(q (%s))" % " ".join("(" + " ".join(val_sexp(x) for x in ir) + ")" for ir in v)
        return val_sexp(v)
    return "(" + " ".join("(" + " ".join(cell(v) for v in r) + ")" for r in rows) + ")"


def item_text(it):
    """canonical text of an item after inner streams were listed (tuples = records, lists = inner listings)"""
    if isinstance(it, tuple) or type(it).__name__ in ("void", "record"):
        return "(" + " ".join(item_text(v) for v in it) + ")"
    if isinstance(it, list):
        return "[" + " ".join(item_text(v) for v in it) + "]"
    return val_text(it)


def gen_clause(rng, sid, hdr, junk=0.1):
    """(id1, opsym, id2, resolved); resolved = ('outer', c1, op, rhs) | ('inner', n, c1, op, rhs) | None,
    rhs = ('name', c2) | ('const', v)"""
    opsym = rng.choice(list(OPS))
    base = [(n, k) for n, k in hdr if not isinstance(k, list)]
    nested = [(n, k) for n, k in hdr if isinstance(k, list)]
    r = rng.random()
    if r < junk:
        which = rng.choice(["seqcol", "deep", "cross", "nochild", "lit", "nocol"])
        if which == "seqcol" and nested:          # the nested child itself as a column: list compared with a number
            return ("%s.%s" % (sid, nested[0][0]), opsym, "1", None)
        if which == "deep" and nested:
            n, ks = nested[0]
            return ("%s.%s.%s.z" % (sid, n, ks[0][0]), opsym, "1", None)
        if which == "cross" and nested and base:  # an outer column against an inner one
            n, ks = nested[0]
            pair = ["%s.%s" % (sid, base[0][0]), "%s.%s.%s" % (sid, n, ks[0][0])]
            rng.shuffle(pair)
            return (pair[0], opsym, pair[1], None)
        if which == "nochild":
            return ("%s.nope.x" % sid, opsym, "1", None)
        if which == "lit":
            return ("%s.%s" % (sid, hdr[0][0]) if base else "%s.nope" % sid, opsym, "{{", None)
        return ("%s.nope" % sid, opsym, "1", None)
    if nested and (not base or rng.random() < 0.55):
        n, ks = rng.choice(nested)
        prefix, cols, mk = "%s.%s" % (sid, n), ks, lambda c1, rhs: ("inner", n, c1, opsym, rhs)
    elif base:
        prefix, cols, mk = sid, base, lambda c1, rhs: ("outer", c1, opsym, rhs)
    else:
        return ("%s.nope" % sid, opsym, "1", None)
    c1, k1 = rng.choice(cols)
    same = [n for n, k in cols if (k == "t") == (k1 == "t") and n != c1]
    if same and rng.random() < 0.3:
        c2 = rng.choice(same)
        return ("%s.%s" % (prefix, c1), opsym, "%s.%s" % (prefix, c2), mk(c1, ("name", c2)))
    pool = POOL[k1] if k1 == "t" else rng.choice([POOL["i"], POOL["f"]])
    v = rng.choice([x for x in pool if not (isinstance(x, str) and " " in x)])
    return ("%s.%s" % (prefix, c1), opsym, lit_text(v), mk(c1, ("const", v)))


def gen_program(rng, sid, hdr, maxlen=6):
    kinds = dict(hdr)
    names = [n for n, _ in hdr]
    ops, resolved = [], []
    layout = ("table", list(names))
    for _ in range(rng.randint(0, maxlen)):
        r = rng.random()
        wild = rng.random() < 0.1
        if layout[0] in ("column", "innerColumn") and not wild and r >= 0.3:
            r = 0.75 + (r - 0.3) / 0.7 * 0.25      # only clauses and slices apply to a column
        if r < 0.3:
            id1, o, id2, rc = gen_clause(rng, sid, hdr)
            ops.append(("cond", id1, o, id2))
            resolved.append(rc)
            continue
        resolved.append(None)
        if layout[0] == "table":
            vis, pool = layout[1], names
        elif layout[0] == "innerTable":
            vis, pool = layout[2], [n for n, _ in kinds[layout[1]]]
        else:
            vis, pool = names, names
        if r < 0.5:
            src = pool if wild else vis
            ks = rng.sample(src, rng.randint(1, len(src)))
            if wild and rng.random() < 0.3:
                ks.append(rng.choice(["nope", ks[0]]))
            ops.append(("list", ks))
            if layout[0] == "table" and all(k in vis for k in ks):
                layout = ("table", ks)
            elif layout[0] == "innerTable" and all(k in vis for k in ks):
                layout = ("innerTable", layout[1], ks)
        elif r < 0.75:
            nest_first = [n for n in vis if layout[0] == "table" and isinstance(kinds.get(n), list)]
            k = rng.choice(nest_first) if nest_first and rng.random() < 0.6 else rng.choice(pool if wild else vis)
            ops.append(("str", k))
            if layout[0] == "table" and k in vis:
                layout = ("innerTable", k, [n for n, _ in kinds[k]]) if isinstance(kinds[k], list) else ("column", k)
            elif layout[0] == "innerTable" and k in vis:
                layout = ("innerColumn", layout[1], k)
        elif r < 0.83:
            # (negative bounds are left to the flat programs: itertools.islice validates its arguments before any
            # row is read, so with a failing filter/map in the same stream the error class depends on that order)
            ops.append(("int", rng.choice([0, 0, 1, 2, 3])))
        else:
            a = rng.choice([None, None, 0, 1, 2])
            # (a stop of 0 is left to the flat programs too: islice then never pulls a row, so a filter that would
            # raise on every row — a clause comparing the nested cell itself — is never evaluated, while the model
            # evaluates filters eagerly; that difference only concerns programs the reference rejects)
            b = rng.choice([None, None, 1, 2, 4, 6])
            k = rng.choice([None, None, 1, 2, 3])
            ops.append(("sl", a, b, k))
    return ops, resolved


def _holds(names, row, c1, opsym, rhs):
    a = row[names.index(c1)]
    b = row[names.index(rhs[1])] if rhs[0] == "name" else rhs[1]
    return OPS[opsym][1](a, b)


def reference(hdr, rows, ops, resolved):
    """([expected item list per accepted prefix], index of the first step that is a clause while the layout is not the
    outer table — after a child selection — or None); a clause is accepted on every layout"""
    kinds = dict(hdr)
    names = [n for n, _ in hdr]
    layout, oconds, iconds, slices = ("table", list(names)), [], [], []
    out, first_inner_cond = [], None

    def evaluate():
        items = []
        for r in rows:
            if not all(_holds(names, r, c1, o, rhs) for (c1, o, rhs) in oconds):
                continue
            r = list(r)
            for j, (n, k) in enumerate(hdr):
                if isinstance(k, list):
                    inames = [x for x, _ in k]
                    r[j] = [ir for ir in r[j] if all(_holds(inames, ir, c1, o, rhs) for (m, c1, o, rhs) in iconds if m == n)]
            if layout[0] == "table":
                items.append(tuple(r[names.index(n)] for n in layout[1]))
            elif layout[0] == "column":
                items.append(r[names.index(layout[1])])
            else:
                inames = [x for x, _ in kinds[layout[1]]]
                inner = r[names.index(layout[1])]
                if layout[0] == "innerTable":
                    items.append([tuple(ir[inames.index(x)] for x in layout[2]) for ir in inner])
                else:
                    items.append([ir[inames.index(layout[2])] for ir in inner])
        for (a, b, k) in slices:
            items = items[slice(a, b, k)]
        return items

    out.append(evaluate())
    for n, (k, rc) in enumerate(zip(ops, resolved)):
        if k[0] == "str":
            if layout[0] == "table" and k[1] in layout[1]:
                layout = ("innerTable", k[1], [x for x, _ in kinds[k[1]]]) if isinstance(kinds[k[1]], list) else ("column", k[1])
            elif layout[0] == "innerTable" and k[1] in layout[2]:
                layout = ("innerColumn", layout[1], k[1])
            else:
                return out, first_inner_cond
        elif k[0] == "list":
            if layout[0] == "table" and all(x in layout[1] for x in k[1]):
                layout = ("table", list(k[1]))
            elif layout[0] == "innerTable" and all(x in layout[2] for x in k[1]):
                layout = ("innerTable", layout[1], list(k[1]))
            else:
                return out, first_inner_cond
        elif k[0] == "int":
            if k[1] < 0:
                return out, first_inner_cond
            slices.append((k[1], k[1] + 1, None))
        elif k[0] == "sl":
            if any(x is not None and x < 0 for x in k[1:3]) or (k[3] is not None and k[3] < 1):
                return out, first_inner_cond
            slices.append(k[1:])
        else:
            if rc is None:
                return out, first_inner_cond
            if layout[0] != "table" and first_inner_cond is None:
                first_inner_cond = n
            if rc[0] == "outer":
                oconds.append(rc[1:])
            else:
                iconds.append(rc[1:])
        out.append(evaluate())
    return out, first_inner_cond
