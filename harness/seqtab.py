"""Shared by C17 and C04: small typed tables (Int32, dyadic Float64, ASCII strings), their encoding for
the Lean driver (numbers scaled by 16, strings as hex), clause texts, and the plain-Python by-name
reference (filter the source rows, select columns by name, slice)."""
import operator

INTS = [-3, -1, 0, 1, 2, 3, 4, 7]
FLOATS = [-2.0, -0.5, 0.0, 0.25, 0.5, 1.0, 1.5, 2.0, 2.75, 4.0]
STRS = ["", "a", "ab", "b", "cd", "abc", "Z", "a b"]
NAMES = ["i", "f", "t", "a", "b", "c2", "idx", "u_v", "w-s", "a~b"]  # the last two: legal DAP names that are not \w+ words
OPS = {"<": ("lt", operator.lt), ">": ("gt", operator.gt), "!=": ("ne", operator.ne), "=": ("eq", operator.eq),
       ">=": ("ge", operator.ge), "<=": ("le", operator.le)}
POOL = {"i": INTS, "f": FLOATS, "t": STRS}


def hexs(s):
    return "x" + s.encode("ascii").hex()


def val_sexp(v):
    if isinstance(v, str):
        return "(s %s)" % hexs(v)
    x = float(v) * 16
    assert x == int(x), v
    return "(n %d)" % int(x)


def val_text(v):
    """canonical text of a cell as the driver prints it"""
    if isinstance(v, bytes):
        v = v.decode("ascii")
    if isinstance(v, str):
        return "s" + hexs(v)
    x = float(v) * 16
    if x != int(x):
        return "n?%r" % (v,)
    return "n%d" % int(x)


def item_text(it):
    if isinstance(it, (tuple, list)) or type(it).__name__ in ("void", "record"):
        return "(" + " ".join(val_text(v) for v in it) + ")"
    return val_text(it)


def lit_text(v):
    if isinstance(v, str):
        return '"%s"' % v
    if isinstance(v, int):
        return str(v)
    return repr(float(v))


def gen_table(rng, nrows=None, ncols=None):
    ncols = ncols or rng.randint(1, 5)
    nrows = rng.randint(0, 8) if nrows is None else nrows
    names = rng.sample(NAMES, ncols)
    kinds = [rng.choice("ift") for _ in names]
    rows = [tuple(rng.choice(POOL[k]) for k in kinds) for _ in range(nrows)]
    if ncols == 1:
        # Python's csv module cannot round-trip a record whose only field is the empty string
        # (csv.reader with QUOTE_NONNUMERIC reads it back as a number): not pydap's doing, keep it out
        rows = [tuple("e" if v == "" else v for v in r) for r in rows]
    return names, kinds, rows


def table_sexp(names, rows):
    return "(%s) (%s)" % (" ".join(names), " ".join("(" + " ".join(val_sexp(v) for v in r) + ")" for r in rows))


def gen_clause(rng, sid, names, kinds, junk=0.0):
    """(id1, opsym, id2, resolved) — resolved = (c1, opsym, ('name', c2) | ('const', v)) or None when junk"""
    j = rng.randrange(len(names))
    c1, k1 = names[j], kinds[j]
    opsym = rng.choice(list(OPS))
    r = rng.random()
    if r < junk:
        which = rng.choice(["col", "rhs", "lit"])
        if which == "col":
            return ("%s.%s" % (sid, "nope"), opsym, lit_text(rng.choice(POOL[k1])), None)
        if which == "rhs":
            return ("%s.%s" % (sid, c1), opsym, "%s.%s" % (sid, "nope"), None)
        return ("%s.%s" % (sid, c1), opsym, "{{", None)
    same = [n for n, k in zip(names, kinds) if (k == "t") == (k1 == "t") and n != c1]
    if same and r < junk + 0.25:
        c2 = rng.choice(same)
        return ("%s.%s" % (sid, c1), opsym, "%s.%s" % (sid, c2), (c1, opsym, ("name", c2)))
    pool = POOL[k1] if k1 == "t" else rng.choice([POOL["i"], POOL["f"]])
    v = rng.choice(pool)
    return ("%s.%s" % (sid, c1), opsym, lit_text(v), (c1, opsym, ("const", v)))


def clause_holds(names, row, rc):
    c1, opsym, (kind, x) = rc
    a = row[names.index(c1)]
    b = row[names.index(x)] if kind == "name" else x
    return OPS[opsym][1](a, b)


def ref_filter(names, rows, clauses):
    return [r for r in rows if all(clause_holds(names, r, rc) for rc in clauses)]
