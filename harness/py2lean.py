"""Translator from the source text of pydap's loop-free slice-arithmetic blocks to MiniPy syntax trees
(lean/PydapModel/MiniPy.lean).  Pure syntax → syntax: every Python construct outside the fragment makes the
translation fail loudly (the generated definition is then `[Stmt.raise "UNTRANSLATABLE: …"]`, which breaks the
theorems that mention it).  Output: lean/PydapModel/Generated/SliceSrc.lean, rewritten only when it changes."""
import ast
import os


class Untranslatable(Exception):
    pass


def lstr(s):
    return '"' + s.replace("\\", "\\\\").replace('"', '\\"') + '"'


def expr(e):
    if isinstance(e, ast.Constant):
        if e.value is None:
            return ".none"
        if isinstance(e.value, bool):
            raise Untranslatable("bool constant")
        if isinstance(e.value, int):
            return "(.int (%d))" % e.value
        raise Untranslatable("constant %r" % (e.value,))
    if isinstance(e, ast.Name):
        if e.id == "MAXSIZE":
            return ".maxsize"
        return "(.var %s)" % lstr(e.id)
    if isinstance(e, ast.Attribute):
        return "(.attr %s %s)" % (expr(e.value), lstr(e.attr))
    if isinstance(e, ast.BinOp):
        op = {ast.Add: "add", ast.Sub: "sub", ast.Mult: "mul"}.get(type(e.op))
        if not op:
            raise Untranslatable("binop %s" % type(e.op).__name__)
        return "(.%s %s %s)" % (op, expr(e.left), expr(e.right))
    if isinstance(e, ast.Compare):
        if len(e.ops) != 1:
            raise Untranslatable("chained comparison")
        op, r = e.ops[0], e.comparators[0]
        if isinstance(op, ast.Is) and isinstance(r, ast.Constant) and r.value is None:
            return "(.isNone %s)" % expr(e.left)
        if isinstance(op, ast.IsNot) and isinstance(r, ast.Constant) and r.value is None:
            return "(.isNotNone %s)" % expr(e.left)
        name = {ast.Lt: "lt", ast.LtE: "le", ast.Gt: "gt", ast.GtE: "ge", ast.Eq: "eq"}.get(type(op))
        if not name:
            raise Untranslatable("comparison %s" % type(op).__name__)
        return "(.%s %s %s)" % (name, expr(e.left), expr(r))
    if isinstance(e, ast.BoolOp):
        name = "or_" if isinstance(e.op, ast.Or) else "and_"
        vals = [expr(v) for v in e.values]
        out = vals[-1]
        for v in reversed(vals[:-1]):
            out = "(.%s %s %s)" % (name, v, out)
        return out
    if isinstance(e, ast.UnaryOp) and isinstance(e.op, ast.Not):
        return "(.not_ %s)" % expr(e.operand)
    if isinstance(e, ast.Call) and isinstance(e.func, ast.Name) and not e.keywords:
        f, a = e.func.id, e.args
        if f == "min" and len(a) == 2:
            return "(.min2 %s %s)" % (expr(a[0]), expr(a[1]))
        if f == "slice" and len(a) in (1, 2, 3):
            if len(a) == 1:   # slice(stop)
                return "(.mkSlice .none %s .none)" % expr(a[0])
            parts = [expr(x) for x in a] + [".none"] * (3 - len(a))
            return "(.mkSlice %s)" % " ".join(parts)
        if f == "isinstance" and len(a) == 2 and isinstance(a[1], ast.Name) and a[1].id == "int":
            return "(.isInt %s)" % expr(a[0])
        if f == "len" and len(a) == 1:
            return "(.len %s)" % expr(a[0])
    if isinstance(e, ast.Subscript) and isinstance(e.slice, ast.Constant) and isinstance(e.slice.value, int) \
            and e.slice.value >= 0:
        return "(.idx %s %d)" % (expr(e.value), e.slice.value)
    raise Untranslatable(ast.dump(e)[:80])


def stmts(body, sink):
    out = ".skip"
    for s in reversed(body):
        out = "(.seq %s %s)" % (stmt(s, sink), out) if out != ".skip" else stmt(s, sink)
    return out


def stmt(s, sink):
    if isinstance(s, ast.Assign) and len(s.targets) == 1 and isinstance(s.targets[0], ast.Name):
        return "(.assign %s %s)" % (lstr(s.targets[0].id), expr(s.value))
    if isinstance(s, ast.AugAssign) and isinstance(s.target, ast.Name) and isinstance(s.op, ast.Add):
        return "(.augAdd %s %s)" % (lstr(s.target.id), expr(s.value))
    if isinstance(s, ast.If):
        return "(.ite %s %s %s)" % (expr(s.test), stmts(s.body, sink), stmts(s.orelse, sink))
    if isinstance(s, ast.Raise):
        exc = s.exc
        name = exc.func.id if isinstance(exc, ast.Call) and isinstance(exc.func, ast.Name) else \
            exc.id if isinstance(exc, ast.Name) else None
        if name:
            return "(.raise %s)" % lstr(name)
    if isinstance(s, ast.Expr) and isinstance(s.value, ast.Call) and isinstance(s.value.func, ast.Attribute) \
            and s.value.func.attr == "append" and isinstance(s.value.func.value, ast.Name) \
            and s.value.func.value.id == sink and len(s.value.args) == 1:
        # `out.append(e)` of the enclosing loop: the item produced for this axis
        return "(.assign %s %s)" % (lstr("@item"), expr(s.value.args[0]))
    raise Untranslatable(ast.dump(s)[:80])


def find_function(tree, name):
    for n in ast.walk(tree):
        if isinstance(n, ast.FunctionDef) and n.name == name:
            return n
    raise Untranslatable("function %s not found" % name)


def loops(fn):
    return [n for n in fn.body if isinstance(n, ast.For)]


def block(name, doc, fn_get):
    try:
        body = fn_get()
    except Untranslatable as e:
        body = '(.raise %s)' % lstr("UNTRANSLATABLE: %s" % e)
    except Exception as e:   # pragma: no cover
        body = '(.raise %s)' % lstr("UNTRANSLATABLE: %r" % (e,))
    return "/-- %s -/\ndef %s : Stmt :=\n  %s\n" % (doc, name, body)


def generate(repo):
    with open(os.path.join(repo, "src", "pydap", "lib.py"), encoding="utf-8") as f:
        lib = ast.parse(f.read())
    with open(os.path.join(repo, "src", "pydap", "parsers", "__init__.py"), encoding="utf-8") as f:
        par = ast.parse(f.read())

    def fix_body():
        fn = find_function(lib, "fix_slice")
        lp = loops(fn)[-1]            # `for s, N in zip(slice_, shape):`
        return stmts(lp.body, "out")

    def combine_body():
        fn = find_function(lib, "combine_slices")
        lp = loops(fn)[-1]            # `for exp1, exp2 in zip_longest(...)`
        return stmts(lp.body, "out")

    def parse_body():
        fn = find_function(par, "parse_hyperslab")
        lp = loops(fn)[-1]            # `for expr in exprs:`
        body = [s for s in lp.body
                if not (isinstance(s, ast.Assign) and isinstance(s.targets[0], ast.Name)
                        and s.targets[0].id == "tokens")]      # `tokens = list(map(int, …))` is the input
        if len(body) != len(lp.body) - 1:
            raise Untranslatable("expected exactly one `tokens = …` assignment")
        return stmts(body, "out")

    def hyper_triple():
        fn = find_function(lib, "hyperslab")
        for n in ast.walk(fn):
            if isinstance(n, ast.BinOp) and isinstance(n.op, ast.Mod) and isinstance(n.left, ast.Constant) \
                    and isinstance(n.left.value, str) and isinstance(n.right, ast.Tuple) and len(n.right.elts) == 3:
                if n.left.value != "[%s:%s:%s]":
                    raise Untranslatable("format string is %r" % n.left.value)
                a = ["(.assign %s %s)" % (lstr("@t%d" % i), expr(x)) for i, x in enumerate(n.right.elts)]
                return "(.seq %s (.seq %s %s))" % tuple(a)
        raise Untranslatable("no '[%s:%s:%s]' % (…) in hyperslab")

    parts = ["/- GENERATED by harness/py2lean.py from the repository's current source text. Do not edit. -/\n"
             "import PydapModel.MiniPy\nnamespace Pydap.Gen\nopen Pydap.MiniPy Pydap.MiniPy.Expr Pydap.MiniPy.Stmt\n",
             block("src_fix_slice_axis", "lib.py fix_slice: body of `for s, N in zip(slice_, shape)`; `out.append(e)` "
                   "is the assignment `@item = e`", fix_body),
             block("src_combine_slices_axis", "lib.py combine_slices: body of the zip_longest loop", combine_body),
             block("src_parse_hyperslab_group", "parsers/__init__.py parse_hyperslab: body of `for expr in exprs` after "
                   "`tokens = list(map(int, expr.split(':')))`", parse_body),
             block("src_hyperslab_triple", "lib.py hyperslab: the three values formatted as '[%s:%s:%s]'", hyper_triple),
             "end Pydap.Gen\n"]
    return "\n".join(parts)


def write(repo, verif):
    text = generate(repo)
    path = os.path.join(verif, "lean", "PydapModel", "Generated", "SliceSrc.lean")
    os.makedirs(os.path.dirname(path), exist_ok=True)
    old = open(path, encoding="utf-8").read() if os.path.exists(path) else None
    if old != text:
        with open(path, "w", encoding="utf-8") as f:
            f.write(text)
        return True
    return False


if __name__ == "__main__":
    print(generate(os.environ.get("VERIF_REPO", "/repo")))
