"""Translator from the source text of pydap's loop-free slice-arithmetic blocks to MiniPy syntax trees
(lean/PydapModel/MiniPy.lean).  Pure syntax → syntax: every Python construct outside the fragment makes the
translation fail loudly (the generated definition is then `[Stmt.raise "UNTRANSLATABLE: …"]`, which breaks the
theorems that mention it).  Output: lean/PydapModel/Generated/SliceSrc.lean, rewritten only when it changes."""
import ast
import os
import re


class Untranslatable(Exception):
    pass


def lstr(s):
    return '"' + s.replace("\\", "\\\\").replace('"', '\\"') + '"'


# Opaque inputs of the block being translated: exact source text (ast.unparse) of an expression → the name of
# the MiniPy variable that stands for its value.  Set per block by `abstracting(...)`; the theorem about the block
# quantifies over the values of these variables.  Purely textual: nothing is evaluated.
ABSTRACT = {}
# Names (or abstracted expressions) of the block that hold text: `==` / `!=` on them is string comparison.
STR_VARS = set()
# When set, `return <expr>` of the block is translated as `@ret = "<source text of expr>"` (a routing decision).
RETURN_TAGS = False
# Abstracted calls whose arguments are recorded: exact source text of the call → the source texts of the argument
# expressions (each must occur inside the call).  The simple statement that contains the call is preceded by
# `<var>.arg<i> = <argument>` (`<var>` = the variable the call is abstracted to): the values the source passes, at the
# point where it passes them.
CALL_ARGS = {}


class abstracting(object):
    def __init__(self, table, str_vars=(), return_tags=False, call_args=None):
        self.table, self.str_vars, self.return_tags = table, set(str_vars), return_tags
        self.call_args = call_args or {}

    def __enter__(self):
        global ABSTRACT, STR_VARS, RETURN_TAGS, CALL_ARGS
        self.old = (ABSTRACT, STR_VARS, RETURN_TAGS, CALL_ARGS)
        ABSTRACT, STR_VARS, RETURN_TAGS, CALL_ARGS = self.table, self.str_vars, self.return_tags, self.call_args

    def __exit__(self, *a):
        global ABSTRACT, STR_VARS, RETURN_TAGS, CALL_ARGS
        ABSTRACT, STR_VARS, RETURN_TAGS, CALL_ARGS = self.old


def codes(text):
    return "[%s]" % ", ".join(str(ord(c)) for c in text)


def is_str(e):
    if (isinstance(e, ast.Constant) and isinstance(e.value, str)) or (STR_VARS and ast.unparse(e) in STR_VARS):
        return True
    # text + anything is text
    return isinstance(e, ast.BinOp) and isinstance(e.op, ast.Add) and (is_str(e.left) or is_str(e.right))


def is_strconst(e):
    return isinstance(e, ast.Constant) and isinstance(e.value, str)


def is_intconst(e):
    return isinstance(e, ast.Constant) and isinstance(e.value, int) and not isinstance(e.value, bool)


def expr(e):
    if ABSTRACT:
        key = ast.unparse(e)
        if key in ABSTRACT:
            return "(.var %s)" % lstr(ABSTRACT[key])
    if isinstance(e, ast.Constant):
        if e.value is None:
            return ".none"
        if isinstance(e.value, bool):
            return "(.boolc %s)" % ("true" if e.value else "false")
        if isinstance(e.value, int):
            return "(.int (%d))" % e.value
        if isinstance(e.value, str):
            return "(.strc %s)" % codes(e.value)
        raise Untranslatable("constant %r" % (e.value,))
    if isinstance(e, ast.Name):
        if e.id == "MAXSIZE":
            return ".maxsize"
        return "(.var %s)" % lstr(e.id)
    if isinstance(e, ast.Attribute):
        if isinstance(e.value, ast.Name) and e.value.id == "sys" and e.attr == "byteorder":
            return "(.var %s)" % lstr("sys.byteorder")      # the host byte order is an input of the block
        return "(.attr %s %s)" % (expr(e.value), lstr(e.attr))
    if isinstance(e, ast.BinOp) and isinstance(e.op, ast.Add) and is_tuple_call(e.left) and is_tuple_call(e.right):
        return "(.tconcat %s %s)" % (expr(e.left), expr(e.right))             # tuple(a) + tuple(b)
    if isinstance(e, ast.BinOp):
        if is_strconst(e.left) and isinstance(e.op, ast.Mod):
            raise Untranslatable("string formatting with %")
        if isinstance(e.op, ast.Add) and (is_str(e.left) or is_str(e.right)):
            return "(.concat %s %s)" % (expr(e.left), expr(e.right))          # text + text
        if isinstance(e.op, ast.Mult) and is_str(e.left) and not is_str(e.right):
            return "(.strRepeat %s %s)" % (expr(e.left), expr(e.right))       # text * n
        if isinstance(e.op, ast.Mult) and is_str(e.right) and not is_str(e.left):
            return "(.strRepeat %s %s)" % (expr(e.right), expr(e.left))       # n * text
        op = {ast.Add: "add", ast.Sub: "sub", ast.Mult: "mul", ast.BitAnd: "band", ast.BitOr: "bor",
              ast.RShift: "shr", ast.LShift: "shl", ast.Mod: "mod", ast.FloorDiv: "floordiv"}.get(type(e.op))
        if not op:
            raise Untranslatable("binop %s" % type(e.op).__name__)
        return "(.%s %s %s)" % (op, expr(e.left), expr(e.right))
    if isinstance(e, ast.UnaryOp) and isinstance(e.op, ast.USub):
        return "(.neg %s)" % expr(e.operand)
    if isinstance(e, ast.Compare):
        if len(e.ops) != 1:
            # `a < b <= c` is `a < b and b <= c` (the operands of the fragment have no side effects)
            terms = [e.left] + list(e.comparators)
            pairs = [expr(ast.Compare(left=terms[i], ops=[e.ops[i]], comparators=[terms[i + 1]]))
                     for i in range(len(e.ops))]
            out = pairs[-1]
            for v in reversed(pairs[:-1]):
                out = "(.and_ %s %s)" % (v, out)
            return out
        op, r = e.ops[0], e.comparators[0]
        if isinstance(op, ast.Is) and isinstance(r, ast.Constant) and r.value is None:
            return "(.isNone %s)" % expr(e.left)
        if isinstance(op, ast.IsNot) and isinstance(r, ast.Constant) and r.value is None:
            return "(.isNotNone %s)" % expr(e.left)
        if isinstance(op, (ast.Eq, ast.NotEq)) and (is_str(e.left) or is_str(r)):
            return "(.%s %s %s)" % ("eqStr" if isinstance(op, ast.Eq) else "neStr", expr(e.left), expr(r))
        if isinstance(op, ast.In) and isinstance(r, (ast.Tuple, ast.List)) and all(is_intconst(x) for x in r.elts):
            return "(.inInts %s [%s])" % (expr(e.left), ", ".join("(%d)" % x.value for x in r.elts))
        if isinstance(op, ast.In) and is_strconst(e.left) and e.left.value:
            return "(.inStr %s %s)" % (expr(e.left), expr(r))                  # "." in text
        if isinstance(op, ast.NotIn) and is_strconst(e.left) and e.left.value:
            return "(.not_ (.inStr %s %s))" % (expr(e.left), expr(r))          # "?" not in text
        name = {ast.Lt: "lt", ast.LtE: "le", ast.Gt: "gt", ast.GtE: "ge", ast.Eq: "eq", ast.NotEq: "ne"}.get(type(op))
        if not name:
            raise Untranslatable("comparison %s" % type(op).__name__)
        return "(.%s %s %s)" % (name, expr(e.left), expr(r))
    if isinstance(e, ast.BoolOp):
        name = "or_" if isinstance(e.op, ast.Or) else "and_"
        vals = [expr(v) for v in e.values]
        out = vals[-1]
        for v in reversed(vals[:-1]):
            out = "(.%s %s %s)" % (name, v, out)
        return out
    if isinstance(e, ast.UnaryOp) and isinstance(e.op, ast.Not):
        return "(.not_ %s)" % expr(e.operand)
    if isinstance(e, ast.IfExp):
        return "(.ifExp %s %s %s)" % (expr(e.test), expr(e.body), expr(e.orelse))          # a if c else b
    if isinstance(e, ast.Call) and isinstance(e.func, ast.Name) and not e.keywords:
        f, a = e.func.id, e.args
        if f == "min" and len(a) == 2:
            return "(.min2 %s %s)" % (expr(a[0]), expr(a[1]))
        if f == "slice" and len(a) in (1, 2, 3):
            if len(a) == 1:   # slice(stop)
                return "(.mkSlice .none %s .none)" % expr(a[0])
            parts = [expr(x) for x in a] + [".none"] * (3 - len(a))
            return "(.mkSlice %s)" % " ".join(parts)
        if f == "isinstance" and len(a) == 2 and isinstance(a[1], ast.Tuple) and len(a[1].elts) >= 2 \
                and all(isinstance(c, ast.Name) and c.id in ("int", "slice", "float", "str", "list") for c in a[1].elts):
            # isinstance(x, (A, B)) is isinstance(x, A) or isinstance(x, B)
            tests = [expr(ast.Call(func=e.func, args=[a[0], c], keywords=[])) for c in a[1].elts]
            out = tests[-1]
            for t in reversed(tests[:-1]):
                out = "(.or_ %s %s)" % (t, out)
            return out
        if f == "isinstance" and len(a) == 2 and isinstance(a[1], ast.Name) and a[1].id == "list":
            return "(.isList %s)" % expr(a[0])
        if f == "iter" and len(a) == 1:
            return "(.iterOf %s)" % expr(a[0])
        if f == "filter" and len(a) == 2:
            return "(.pyFilter %s %s)" % (expr(a[0]), expr(a[1]))
        if f == "map" and len(a) == 2:
            return "(.pyMap %s %s)" % (expr(a[0]), expr(a[1]))
        if f == "str" and len(a) == 1:
            return "(.fmtArg %s)" % expr(a[0])                                  # str(text or int)
        if f == "tuple" and len(a) == 1 and isinstance(a[0], ast.GeneratorExp):
            g = a[0]
            if len(g.generators) != 1 or g.generators[0].ifs or g.generators[0].is_async \
                    or not isinstance(g.generators[0].target, ast.Name) \
                    or any(isinstance(n, ast.Name) and n.id == g.generators[0].target.id for n in ast.walk(g.elt)):
                raise Untranslatable("generator expression other than `c for _ in e` with `c` independent of `_`")
            return "(.repeatFor %s %s)" % (expr(g.elt), expr(g.generators[0].iter))
        if f == "tuple" and len(a) == 1:
            return "(.tupleOf %s)" % expr(a[0])
        if f == "isinstance" and len(a) == 2 and isinstance(a[1], ast.Name) and a[1].id == "int":
            return "(.isInt %s)" % expr(a[0])
        if f == "isinstance" and len(a) == 2 and isinstance(a[1], ast.Name) and a[1].id == "slice":
            return "(.isSlice %s)" % expr(a[0])
        if f == "isinstance" and len(a) == 2 and isinstance(a[1], ast.Name) and a[1].id == "float":
            return "(.isFloat %s)" % expr(a[0])
        if f == "isinstance" and len(a) == 2 and isinstance(a[1], ast.Name) and a[1].id == "str":
            return "(.isStrInst %s)" % expr(a[0])
        if f == "len" and len(a) == 1:
            if isinstance(a[0], ast.Constant) and isinstance(a[0].value, bytes):
                return "(.len (.strc [%s]))" % ", ".join(str(b) for b in a[0].value)   # length of a bytes literal
            return "(.len %s)" % expr(a[0])
        if f == "int" and len(a) == 1:
            x = a[0]
            if isinstance(x, ast.Call) and isinstance(x.func, ast.Attribute) and x.func.attr == "prod" \
                    and isinstance(x.func.value, ast.Name) and x.func.value.id in ("np", "numpy") \
                    and len(x.args) == 1 and not x.keywords:
                return "(.prod %s)" % expr(x.args[0])          # int(np.prod(shape))
            return "(.intOf %s)" % expr(x)
        if f == "bool" and len(a) == 1:
            return "(.boolOf %s)" % expr(a[0])
    if isinstance(e, ast.Call) and isinstance(e.func, ast.Attribute) and e.func.attr == "format" \
            and is_strconst(e.func.value) and len(e.args) == 1 and not e.keywords:
        m = re.fullmatch(r"\{0:0(\d+)b\}", e.func.value.value)
        if not m:
            return format_call(e)
        return "(.fmtBin %d %s)" % (int(m.group(1)), expr(e.args[0]))
    if isinstance(e, ast.Call) and isinstance(e.func, ast.Attribute) and e.func.attr == "format" \
            and is_strconst(e.func.value):
        return format_call(e)
    if isinstance(e, ast.Call) and ast.unparse(e.func) == "itertools.islice" and len(e.args) == 4 and not e.keywords:
        return "(.pyIslice %s)" % " ".join(expr(x) for x in e.args)
    if isinstance(e, ast.Call) and isinstance(e.func, ast.Attribute) and e.func.attr == "index" \
            and len(e.args) == 1 and not e.keywords:
        return "(.indexOf %s %s)" % (expr(e.func.value), expr(e.args[0]))      # keys.index(k)
    if isinstance(e, ast.Call) and isinstance(e.func, ast.Attribute) and e.func.attr == "startswith" \
            and len(e.args) == 1 and not e.keywords:
        return "(.startswith %s %s)" % (expr(e.func.value), expr(e.args[0]))
    if isinstance(e, ast.Call) and isinstance(e.func, ast.Attribute) and e.func.attr == "group" \
            and len(e.args) == 1 and not e.keywords and is_intconst(e.args[0]) and e.args[0].value >= 0:
        return "(.group %s %d)" % (expr(e.func.value), e.args[0].value)        # match.group(n)
    if isinstance(e, ast.Call) and isinstance(e.func, ast.Attribute) and e.func.attr == "join" \
            and is_strconst(e.func.value) and len(e.args) == 1 and not e.keywords:
        return "(.joinStr %s %s)" % (expr(e.func.value), expr(e.args[0]))      # ",".join(ids)
    if isinstance(e, ast.Call) and isinstance(e.func, ast.Attribute) and e.func.attr == "rpartition" \
            and len(e.args) == 1 and not e.keywords:
        return "(.rpartition %s %s)" % (expr(e.func.value), expr(e.args[0]))
    if isinstance(e, ast.List) and e.elts and all(is_strconst(x) for x in e.elts):
        return "(.slistc [%s])" % ", ".join(codes(x.value) for x in e.elts)    # ["a", "b"]
    if isinstance(e, (ast.List, ast.Tuple)) and not e.elts:
        return ".emptyList"                                                    # [] / ()
    if isinstance(e, ast.Call) and isinstance(e.func, ast.Attribute) and e.func.attr == "get" \
            and len(e.args) == 1 and not e.keywords:
        return "(.getAttr %s %s)" % (expr(e.func.value), expr(e.args[0]))      # element.get(key)
    if isinstance(e, ast.Call) and isinstance(e.func, ast.Attribute) and e.func.attr == "replace" \
            and len(e.args) == 2 and not e.keywords:
        return "(.replace %s %s %s)" % (expr(e.func.value), expr(e.args[0]), expr(e.args[1]))
    if isinstance(e, ast.Call) and isinstance(e.func, ast.Attribute) and e.func.attr == "find" \
            and len(e.args) == 2 and not e.keywords and is_intconst(e.args[1]) and e.args[1].value >= 0:
        return "(.findFrom %s %s %d)" % (expr(e.func.value), expr(e.args[0]), e.args[1].value)
    if isinstance(e, ast.Call) and ast.unparse(e.func) == "os.path.join" and len(e.args) == 2 and not e.keywords \
            and isinstance(e.args[1], ast.Constant) and e.args[1].value == "":
        return "(.joinEmpty %s)" % expr(e.args[0])
    if isinstance(e, ast.Subscript) and is_intconst(e.slice) and e.slice.value == 0 \
            and isinstance(e.value, ast.Call) and isinstance(e.value.func, ast.Attribute) \
            and e.value.func.attr == "split" and len(e.value.args) == 1 and not e.value.keywords:
        return "(.splitHead %s %s)" % (expr(e.value.func.value), expr(e.value.args[0]))    # x.split(sep)[0]
    if isinstance(e, ast.Subscript) and isinstance(e.slice, ast.Slice):
        sl = e.slice
        if sl.step is None and sl.lower is None and sl.upper is not None and is_intconst(sl.upper) \
                and sl.upper.value >= 0:
            return "(.takeN %s %d)" % (expr(e.value), sl.upper.value)          # x[:n]
        if sl.step is None and sl.upper is None and sl.lower is not None and is_intconst(sl.lower) \
                and sl.lower.value >= 0:
            return "(.dropN %s %d)" % (expr(e.value), sl.lower.value)          # x[n:]
        if sl.lower is None and sl.upper is None and isinstance(sl.step, ast.UnaryOp) \
                and isinstance(sl.step.op, ast.USub) and is_intconst(sl.step.operand) and sl.step.operand.value == 1:
            return "(.rev %s)" % expr(e.value)                   # x[::-1]
        if sl.step is None and sl.lower is not None and sl.upper is not None:
            return "(.slice2 %s %s %s)" % (expr(e.value), expr(sl.lower), expr(sl.upper))   # x[a:b]
        if sl.step is None and sl.lower is not None and sl.upper is None:
            return "(.dropE %s %s)" % (expr(e.value), expr(sl.lower))                       # x[a:] (computed a)
        raise Untranslatable("slice subscript")
    if isinstance(e, ast.Subscript) and isinstance(e.value, ast.Dict):
        d = e.value
        if d.keys and all(k is not None and is_strconst(k) for k in d.keys) and all(is_strconst(v) for v in d.values):
            tbl = ", ".join("(%s, %s)" % (codes(k.value), codes(v.value)) for k, v in zip(d.keys, d.values))
            return "(.strMap [%s] %s)" % (tbl, expr(e.slice))
        raise Untranslatable("dict literal")
    if isinstance(e, ast.Subscript) and is_intconst(e.slice) and e.slice.value == 0 \
            and isinstance(e.value, ast.Call) and ast.unparse(e.value.func) in ("numpy.frombuffer", "np.frombuffer") \
            and len(e.value.args) == 1 and len(e.value.keywords) == 1 and e.value.keywords[0].arg == "dtype" \
            and is_strconst(e.value.keywords[0].value) and e.value.keywords[0].value.value == ">u4":
        return "(.beU32 %s)" % expr(e.value.args[0])          # numpy.frombuffer(b, dtype=">u4")[0]
    if isinstance(e, ast.Subscript) and isinstance(e.slice, ast.Constant) and isinstance(e.slice.value, int) \
            and e.slice.value >= 0:
        return "(.idx %s %d)" % (expr(e.value), e.slice.value)
    if isinstance(e, ast.Subscript) and isinstance(e.value, ast.Name) and isinstance(e.slice, (ast.Name, ast.Call)):
        return "(.subscr %s %s)" % (expr(e.value), expr(e.slice))              # d[key]
    raise Untranslatable(ast.dump(e)[:80])


def is_tuple_call(e):
    return isinstance(e, ast.Call) and isinstance(e.func, ast.Name) and e.func.id == "tuple" and len(e.args) == 1 \
        and not e.keywords


def format_call(e):
    """`"…{name}…{0}…".format(a, name=b)` as the concatenation of its literal pieces and its (text or int) arguments;
    only plain fields `{name}` / `{N}` and the escapes `{{` `}}`"""
    fmt = e.func.value.value
    kw = dict((k.arg, k.value) for k in e.keywords)
    if None in kw:
        raise Untranslatable("format(**…)")
    pieces, lit, i, used = [], "", 0, set()
    while i < len(fmt):
        c = fmt[i]
        if fmt.startswith("{{", i) or fmt.startswith("}}", i):
            lit += c
            i += 2
        elif c == "{":
            j = fmt.find("}", i)
            field = fmt[i + 1:j] if j > 0 else None
            if field is None or not re.fullmatch(r"[A-Za-z_]\w*|\d+", field):
                raise Untranslatable("format field in %r" % fmt)
            if field.isdigit():
                if int(field) >= len(e.args):
                    raise Untranslatable("format field {%s} without argument" % field)
                arg = e.args[int(field)]
            else:
                if field not in kw:
                    raise Untranslatable("format field {%s} without argument" % field)
                arg = kw[field]
            used.add(field)
            if lit:
                pieces.append("(.strc %s)" % codes(lit))
                lit = ""
            pieces.append("(.fmtArg %s)" % expr(arg))
            i = j + 1
        elif c == "}":
            raise Untranslatable("single } in format string %r" % fmt)
        else:
            lit += c
            i += 1
    if lit or not pieces:
        pieces.append("(.strc %s)" % codes(lit))
    out = pieces[-1]
    for q in reversed(pieces[:-1]):
        out = "(.concat %s %s)" % (q, out)
    return out


def stmts(body, sink, tail=False):
    """`tail`: the block is the last thing its function does, so a `return` at its end may be translated
    (as assignments to `@ret` / `@ret0…`); a `return` anywhere else is outside the fragment."""
    body = [s for s in body if not (isinstance(s, ast.Expr) and is_strconst(s.value))]      # docstrings
    if tail:
        # `if c: <body that always returns>` followed by more statements is `if c: body else: <the rest>`
        for i, s in enumerate(body[:-1]):
            if isinstance(s, ast.If) and always_returns(s.body) and not always_returns(s.orelse):
                rest = list(s.orelse) + body[i + 1:]
                head = stmts(body[:i], sink, False) if i else None
                t = "(.ite %s %s %s)" % (expr(s.test), stmts(s.body, sink, True), stmts(rest, sink, True))
                return t if head is None else "(.seq %s %s)" % (head, t)
    # in a loop body: `if c: …; continue` followed by more statements is `if c: … else: <the rest>`
    for i, s in enumerate(body):
        if isinstance(s, ast.If) and s.body and isinstance(s.body[-1], ast.Continue):
            if s.orelse or any(isinstance(n, ast.Continue) for x in s.body[:-1] for n in ast.walk(x)):
                raise Untranslatable("continue outside the pattern `if c: …; continue`")
            t = "(.ite %s %s %s)" % (expr(s.test), stmts(s.body[:-1], sink, False),
                                     stmts(body[i + 1:], sink, tail))
            return t if i == 0 else "(.seq %s %s)" % (stmts(body[:i], sink, False), t)
    out = None
    for i, s in reversed(list(enumerate(body))):
        t = stmt(s, sink, tail and i == len(body) - 1)
        out = t if out is None else "(.seq %s %s)" % (t, out)
    return out or ".skip"


def always_returns(body):
    if not body:
        return False
    last = body[-1]
    if isinstance(last, (ast.Return, ast.Raise)):
        return True
    return isinstance(last, ast.If) and always_returns(last.body) and always_returns(last.orelse)


# functions whose calls are inlined (name → FunctionDef): `f(a)` inside a simple statement becomes
# `f.p = a; <body of f, locals renamed f.x, return e as f.@ret = e>` followed by the statement with `f.@ret` for the call
INLINE = {}


class inlining(object):
    def __init__(self, fns):
        self.fns = dict((f.name, f) for f in fns)

    def __enter__(self):
        global INLINE
        self.old, INLINE = INLINE, self.fns

    def __exit__(self, *a):
        global INLINE
        INLINE = self.old


def inline_call(s):
    """(prelude text or None, statement with the call replaced)"""
    import copy
    if not INLINE or not isinstance(s, (ast.Expr, ast.Assign, ast.AugAssign, ast.Return)):
        return None, s
    def walk_visible(n):
        # (an abstracted sub-expression is an input of the block: calls inside it are not inlined)
        if ABSTRACT and isinstance(n, ast.expr) and ast.unparse(n) in ABSTRACT:
            return
        yield n
        for c in ast.iter_child_nodes(n):
            for x in walk_visible(c):
                yield x

    calls = [n for n in walk_visible(s) if isinstance(n, ast.Call) and isinstance(n.func, ast.Name) and n.func.id in INLINE]
    if not calls:
        return None, s
    if len(calls) != 1:
        raise Untranslatable("more than one inlined call in a statement")
    call, fn = calls[0], INLINE[calls[0].func.id]
    params = [a.arg for a in fn.args.args]
    if call.keywords or len(call.args) != len(params) or fn.args.defaults or fn.args.vararg or fn.args.kwarg \
            or fn.args.kwonlyargs:
        raise Untranslatable("inlined call with other than plain positional arguments")
    pre = fn.name + "."
    local = set(params) | set(n.id for n in ast.walk(fn) if isinstance(n, ast.Name) and isinstance(n.ctx, ast.Store))

    class R(ast.NodeTransformer):
        def visit_Name(self, n):
            return ast.copy_location(ast.Name(id=pre + n.id, ctx=n.ctx), n) if n.id in local else n

    body = [R().visit(copy.deepcopy(x)) for x in fn.body]
    binds = ["(.assign %s %s)" % (lstr(pre + p), expr(a)) for p, a in zip(params, call.args)]
    saved = (ABSTRACT, STR_VARS, RETURN_TAGS)
    with abstracting({}, str_vars=(), return_tags=False):
        with inlining([]):
            text = stmts(body, None, True).replace(lstr("@ret"), lstr(pre + "@ret"))
    for b in reversed(binds):
        text = "(.seq %s %s)" % (b, text)

    class C(ast.NodeTransformer):
        def visit_Call(self, n):
            if n is call_copy[0]:
                return ast.Name(id=pre + "@ret", ctx=ast.Load())
            return self.generic_visit(n)

    s2 = copy.deepcopy(s)
    # locate the same call in the copy (same position in walk order)
    idx = [i for i, n in enumerate(ast.walk(s)) if n is call][0]
    call_copy = [list(ast.walk(s2))[idx]]
    s2 = C().visit(s2)
    return text, s2


def recorded_args(s):
    """`<var>.arg<i> = <argument>` for every abstracted call of the simple statement `s` listed in CALL_ARGS"""
    if not CALL_ARGS or not isinstance(s, (ast.Expr, ast.Assign, ast.AugAssign, ast.Return)):
        return []
    out = []
    for n in ast.walk(s):
        if isinstance(n, ast.Call) and ast.unparse(n) in CALL_ARGS:
            text = ast.unparse(n)
            if text not in ABSTRACT:
                raise Untranslatable("recorded call %s is not abstracted" % text)
            inside = set(ast.unparse(x) for x in ast.walk(n) if isinstance(x, ast.expr) and x is not n)
            for i, a in enumerate(CALL_ARGS[text]):
                if a not in inside:
                    raise Untranslatable("%s is not an argument expression of %s" % (a, text))
                out.append("(.assign %s %s)" % (lstr("%s.arg%d" % (ABSTRACT[text], i)), expr(ast.parse(a, mode="eval").body)))
    return out


def stmt(s, sink, tail=False):
    rec = recorded_args(s)
    prelude, s = inline_call(s)
    t = stmt1(s, sink, tail)
    if prelude is not None:
        t = "(.seq %s %s)" % (prelude, t)
    for r in reversed(rec):
        t = "(.seq %s %s)" % (r, t)
    return t


def stmt1(s, sink, tail=False):
    if isinstance(s, ast.Return):
        if not tail:
            raise Untranslatable("return that is not in tail position")
        if RETURN_TAGS:
            return "(.assign %s (.strc %s))" % (lstr("@ret"), codes(ast.unparse(s.value) if s.value else "None"))
        if s.value is None:
            return "(.assign %s .none)" % lstr("@ret")
        if isinstance(s.value, ast.Tuple):
            parts = ["(.assign %s %s)" % (lstr("@ret%d" % i), expr(x)) for i, x in enumerate(s.value.elts)]
            out = parts[-1]
            for q in reversed(parts[:-1]):
                out = "(.seq %s %s)" % (q, out)
            return out
        return "(.assign %s %s)" % (lstr("@ret"), expr(s.value))
    if isinstance(s, ast.Assign) and len(s.targets) == 1 and isinstance(s.targets[0], ast.Name):
        return "(.assign %s %s)" % (lstr(s.targets[0].id), expr(s.value))
    if isinstance(s, ast.Assign) and len(s.targets) == 1 and isinstance(s.targets[0], ast.Attribute) \
            and ABSTRACT.get(ast.unparse(s.targets[0])) == ast.unparse(s.targets[0]):
        return "(.assign %s %s)" % (lstr(ast.unparse(s.targets[0])), expr(s.value))       # out.level = e (a field as a variable)
    if isinstance(s, ast.AugAssign) and isinstance(s.target, ast.Attribute) and isinstance(s.op, ast.Add) \
            and ABSTRACT.get(ast.unparse(s.target)) == ast.unparse(s.target) and not isinstance(s.value, ast.Tuple):
        return "(.augAdd %s %s)" % (lstr(ast.unparse(s.target)), expr(s.value))            # out.level += e
    if isinstance(s, ast.Assign) and len(s.targets) == 1 and isinstance(s.targets[0], ast.Tuple) \
            and len(s.targets[0].elts) == 2 and all(isinstance(t, ast.Name) for t in s.targets[0].elts) \
            and ABSTRACT.get(ast.unparse(s.value), "").startswith("@"):
        # a, b = <abstracted call>: the two results are the inputs `<var>.0`, `<var>.1`
        v = ABSTRACT[ast.unparse(s.value)]
        return "(.seq (.assign %s (.var %s)) (.assign %s (.var %s)))" % (
            lstr(s.targets[0].elts[0].id), lstr(v + ".0"), lstr(s.targets[0].elts[1].id), lstr(v + ".1"))
    if isinstance(s, ast.Expr) and isinstance(s.value, ast.Call) and isinstance(s.value.func, ast.Attribute) \
            and s.value.func.attr == "append" and isinstance(s.value.func.value, ast.Attribute) \
            and ABSTRACT.get(ast.unparse(s.value.func.value)) == ast.unparse(s.value.func.value) \
            and len(s.value.args) == 1 and not s.value.keywords:
        return "(.append %s %s)" % (lstr(ast.unparse(s.value.func.value)), expr(s.value.args[0]))   # out.imap.append(e)
    if isinstance(s, ast.Expr) and isinstance(s.value, ast.Call) and isinstance(s.value.func, ast.Attribute) \
            and s.value.func.attr == "insert" and len(s.value.args) == 2 and not s.value.keywords \
            and is_intconst(s.value.args[0]) and s.value.args[0].value == 0 \
            and (isinstance(s.value.func.value, ast.Name)
                 or ABSTRACT.get(ast.unparse(s.value.func.value)) == ast.unparse(s.value.func.value)):
        return "(.insertFront %s %s)" % (lstr(ast.unparse(s.value.func.value)), expr(s.value.args[1]))  # x.insert(0, e)
    if isinstance(s, ast.Try):
        if s.orelse or s.finalbody or len(s.handlers) != 1 or len(s.body) != 1 \
                or not isinstance(s.body[0], ast.Assign) or not isinstance(s.handlers[0].type, ast.Name) \
                or s.handlers[0].name is not None:
            raise Untranslatable("try statement other than `try: <one assignment> except C: …`")
        return "(.tryExcept %s %s %s)" % (stmt(s.body[0], sink, False), lstr(s.handlers[0].type.id),
                                          stmts(s.handlers[0].body, sink, tail))
    if isinstance(s, ast.AugAssign) and isinstance(s.target, ast.Name) and isinstance(s.op, ast.Add) \
            and isinstance(s.value, ast.Tuple) and len(s.value.elts) == 1:
        return "(.append %s %s)" % (lstr(s.target.id), expr(s.value.elts[0]))          # t += (e,)
    if isinstance(s, ast.Assign) and len(s.targets) == 1 and isinstance(s.targets[0], ast.Tuple) \
            and len(s.targets[0].elts) == 3 and all(isinstance(t, ast.Name) for t in s.targets[0].elts):
        a, b, c = [t.id for t in s.targets[0].elts]
        return "(.unpack3 %s %s %s %s)" % (lstr(a), lstr(b), lstr(c), expr(s.value))       # a, b, c = e
    if isinstance(s, ast.Assign) and len(s.targets) == 1 and isinstance(s.targets[0], ast.Subscript) \
            and isinstance(s.targets[0].value, ast.Name) and is_intconst(s.targets[0].slice) \
            and s.targets[0].slice.value >= 0:
        return "(.setIdx %s %d %s)" % (lstr(s.targets[0].value.id), s.targets[0].slice.value, expr(s.value))   # x[n] = e
    if isinstance(s, ast.For) and isinstance(s.target, ast.Tuple) and len(s.target.elts) == 2 and not s.orelse \
            and all(isinstance(t, ast.Name) for t in s.target.elts) and isinstance(s.iter, ast.Call) \
            and isinstance(s.iter.func, ast.Name) and s.iter.func.id == "zip" and len(s.iter.args) == 2 \
            and not s.iter.keywords:
        if any(isinstance(n, (ast.Break, ast.Return)) for x in s.body for n in ast.walk(x)):
            raise Untranslatable("break / return inside a for loop")
        return "(.forZip %s %s %s %s %s)" % (lstr(s.target.elts[0].id), lstr(s.target.elts[1].id),
                                             expr(s.iter.args[0]), expr(s.iter.args[1]),
                                             stmts(s.body, None, False))                    # for x, y in zip(a, b)
    if isinstance(s, ast.For) and isinstance(s.target, ast.Name) and not s.orelse:
        if any(isinstance(n, (ast.Break, ast.Return)) for x in s.body for n in ast.walk(x)):
            raise Untranslatable("break / return inside a for loop")
        return "(.forIn %s %s %s)" % (lstr(s.target.id), expr(s.iter), stmts(s.body, None, False))
    if isinstance(s, ast.AugAssign) and isinstance(s.target, ast.Name) and isinstance(s.op, ast.Add):
        return "(.augAdd %s %s)" % (lstr(s.target.id), expr(s.value))
    if isinstance(s, ast.If):
        return "(.ite %s %s %s)" % (expr(s.test), stmts(s.body, sink, tail), stmts(s.orelse, sink, tail))
    if isinstance(s, ast.Raise):
        exc = s.exc
        name = exc.func.id if isinstance(exc, ast.Call) and isinstance(exc.func, ast.Name) else \
            exc.id if isinstance(exc, ast.Name) else None
        if name:
            return "(.raise %s)" % lstr(name)
    if isinstance(s, ast.Expr) and isinstance(s.value, ast.Call) and isinstance(s.value.func, ast.Attribute) \
            and s.value.func.attr == "append" and isinstance(s.value.func.value, ast.Name) \
            and s.value.func.value.id == sink and len(s.value.args) == 1:
        # `out.append(e)` of the enclosing loop: the item produced for this axis
        a0 = s.value.args[0]
        if isinstance(a0, ast.Tuple):
            parts = ["(.assign %s %s)" % (lstr("@item%d" % i), expr(x)) for i, x in enumerate(a0.elts)]
            out = parts[-1]
            for q in reversed(parts[:-1]):
                out = "(.seq %s %s)" % (q, out)
            return out
        return "(.assign %s %s)" % (lstr("@item"), expr(a0))
    if isinstance(s, ast.Expr) and isinstance(s.value, ast.Call) and isinstance(s.value.func, ast.Attribute) \
            and s.value.func.attr == "append" and isinstance(s.value.func.value, ast.Name) \
            and len(s.value.args) == 1 and not s.value.keywords:
        return "(.append %s %s)" % (lstr(s.value.func.value.id), expr(s.value.args[0]))     # x.append(e)
    if isinstance(s, ast.Expr) and isinstance(s.value, ast.Call) and isinstance(s.value.func, ast.Attribute) \
            and s.value.func.attr == "sort" and isinstance(s.value.func.value, ast.Name) and not s.value.args \
            and len(s.value.keywords) == 1 and s.value.keywords[0].arg == "key" \
            and isinstance(s.value.keywords[0].value, ast.Attribute) and s.value.keywords[0].value.attr == "index":
        return "(.sortByIndex %s %s)" % (lstr(s.value.func.value.id), expr(s.value.keywords[0].value.value))
    if isinstance(s, ast.Break):
        if not tail:
            raise Untranslatable("break that is not the last thing the loop body does")
        return "(.assign %s (.boolc true))" % lstr("@break")
    raise Untranslatable(ast.dump(s)[:80])


def find_function(tree, name):
    for n in ast.walk(tree):
        if isinstance(n, ast.FunctionDef) and n.name == name:
            return n
    raise Untranslatable("function %s not found" % name)


def loops(fn):
    return [n for n in fn.body if isinstance(n, ast.For)]


def block(name, doc, fn_get):
    try:
        body = fn_get()
    except Untranslatable as e:
        body = '(.raise %s)' % lstr("UNTRANSLATABLE: %s" % e)
    except Exception as e:   # pragma: no cover
        body = '(.raise %s)' % lstr("UNTRANSLATABLE: %r" % (e,))
    return "/-- %s -/\ndef %s : Stmt :=\n  %s\n" % (doc, name, body)


def generate(repo):
    with open(os.path.join(repo, "src", "pydap", "lib.py"), encoding="utf-8") as f:
        lib = ast.parse(f.read())
    with open(os.path.join(repo, "src", "pydap", "parsers", "__init__.py"), encoding="utf-8") as f:
        par = ast.parse(f.read())

    def fix_body():
        fn = find_function(lib, "fix_slice")
        lp = loops(fn)[-1]            # `for s, N in zip(slice_, shape):`
        return stmts(lp.body, "out")

    def combine_body():
        fn = find_function(lib, "combine_slices")
        lp = loops(fn)[-1]            # `for exp1, exp2 in zip_longest(...)`
        return stmts(lp.body, "out")

    def parse_body():
        fn = find_function(par, "parse_hyperslab")
        lp = loops(fn)[-1]            # `for expr in exprs:`
        body = [s for s in lp.body
                if not (isinstance(s, ast.Assign) and isinstance(s.targets[0], ast.Name)
                        and s.targets[0].id == "tokens")]      # `tokens = list(map(int, …))` is the input
        if len(body) != len(lp.body) - 1:
            raise Untranslatable("expected exactly one `tokens = …` assignment")
        return stmts(body, "out")

    def hyper_triple():
        fn = find_function(lib, "hyperslab")
        for n in ast.walk(fn):
            if isinstance(n, ast.BinOp) and isinstance(n.op, ast.Mod) and isinstance(n.left, ast.Constant) \
                    and isinstance(n.left.value, str) and isinstance(n.right, ast.Tuple) and len(n.right.elts) == 3:
                if n.left.value != "[%s:%s:%s]":
                    raise Untranslatable("format string is %r" % n.left.value)
                a = ["(.assign %s %s)" % (lstr("@t%d" % i), expr(x)) for i, x in enumerate(n.right.elts)]
                return "(.seq %s (.seq %s %s))" % tuple(a)
        raise Untranslatable("no '[%s:%s:%s]' % (…) in hyperslab")

    parts = ["/- GENERATED by harness/py2lean.py from the repository's current source text. Do not edit. -/\n"
             "import PydapModel.MiniPy\nnamespace Pydap.Gen\nopen Pydap.MiniPy Pydap.MiniPy.Expr Pydap.MiniPy.Stmt\n",
             block("src_fix_slice_axis", "lib.py fix_slice: body of `for s, N in zip(slice_, shape)`; `out.append(e)` "
                   "is the assignment `@item = e`", fix_body),
             block("src_combine_slices_axis", "lib.py combine_slices: body of the zip_longest loop", combine_body),
             block("src_parse_hyperslab_group", "parsers/__init__.py parse_hyperslab: body of `for expr in exprs` after "
                   "`tokens = list(map(int, expr.split(':')))`", parse_body),
             block("src_hyperslab_triple", "lib.py hyperslab: the three values formatted as '[%s:%s:%s]'", hyper_triple),
             "end Pydap.Gen\n"]
    return "\n".join(parts)


HEADER = ("/- GENERATED by harness/py2lean.py from the repository's current source text. Do not edit. -/\n"
          "import PydapModel.MiniPy\nnamespace Pydap.Gen\nopen Pydap.MiniPy Pydap.MiniPy.Expr Pydap.MiniPy.Stmt\n")


def parse_src(repo, *rel):
    with open(os.path.join(repo, "src", "pydap", *rel), encoding="utf-8") as f:
        return ast.parse(f.read())


def find_method(tree, cls, name):
    for n in ast.walk(tree):
        if isinstance(n, ast.ClassDef) and n.name == cls:
            return find_function(n, name)
    raise Untranslatable("class %s not found" % cls)


def assignments(fn, names):
    """the assignments `x = e` (x in names) of a function, in source order, as one block"""
    found = [n for n in ast.walk(fn) if isinstance(n, ast.Assign) and len(n.targets) == 1
             and isinstance(n.targets[0], ast.Name) and n.targets[0].id in names]
    found.sort(key=lambda n: (n.lineno, n.col_offset))
    if [n.targets[0].id for n in found] != list(names):
        raise Untranslatable("expected exactly the assignments %s, found %s"
                             % (list(names), [n.targets[0].id for n in found]))
    return stmts(found, None)


def generate_dap(repo):
    """handlers/dap.py: DAP4 chunk-header decoding (C10, C09)"""
    dap = parse_src(repo, "handlers", "dap.py")

    def chunktype():
        return stmts(find_function(dap, "decode_chunktype").body, None, tail=True)

    def s2b_fields():
        return assignments(find_function(dap, "stream2bytearray"), ["chunk_size", "chunk_type"])

    def s2b_body():
        fn = find_function(dap, "stream2bytearray")
        lp = [n for n in fn.body if isinstance(n, ast.While)]
        if len(lp) != 1 or ast.unparse(lp[0].test) != "offset < len(data)":
            raise Untranslatable("expected one `while offset < len(data):`")
        # the call is set aside: `last` is an input of the block (its value is tied by src_decode_chunktype,
        # its argument by the exact text required here)
        body = drop_statements(lp[0].body, ["last, _, _ = decode_chunktype(chunk_type)"])
        return "(.seq (.assign %s (.boolc false)) %s)" % (lstr("@break"), stmts(body, "chunk_positions", tail=True))

    def dmr_fields():
        return assignments(find_method(dap, "UNPACKDAP4DATA", "safe_dmr_and_data"), ["dmr_length", "chunk_type"])

    def endian_fields():
        return assignments(find_function(dap, "get_endianness"), ["chunk_type"])

    parts = [HEADER,
             block("src_decode_chunktype", "handlers/dap.py decode_chunktype: the whole body; `return a, b, c` is "
                   "`@ret0 = a; @ret1 = b; @ret2 = c`; `sys.byteorder` is the input variable `sys.byteorder`",
                   chunktype),
             block("src_stream2bytearray_fields", "handlers/dap.py stream2bytearray: `chunk_size = …; chunk_type = …` "
                   "computed from `chunk_header`", s2b_fields),
             block("src_stream2bytearray_turn", "handlers/dap.py stream2bytearray: one turn of `while offset < len(data)`; "
                   "`chunk_positions.append((a, b))` is `@item0 = a; @item1 = b`, `break` is `@break = True` (initially "
                   "False); `last, _, _ = decode_chunktype(chunk_type)` is set aside (`last` is an input)", s2b_body),
             block("src_safe_dmr_and_data_fields", "handlers/dap.py UNPACKDAP4DATA.safe_dmr_and_data: "
                   "`dmr_length = …; chunk_type = …` computed from `chunk_header`", dmr_fields),
             block("src_get_endianness_fields", "handlers/dap.py get_endianness: `chunk_type = …` computed from "
                   "`chunk_header`", endian_fields),
             "end Pydap.Gen\n"]
    return "\n".join(parts)


def pad_exprs(fn, expected):
    """every `-x % c` (x a name, c an int literal) of a function, in source order: `@pad<i> = -x % c`"""
    found = [n for n in ast.walk(fn) if isinstance(n, ast.BinOp) and isinstance(n.op, ast.Mod)
             and isinstance(n.left, ast.UnaryOp) and isinstance(n.left.op, ast.USub)
             and isinstance(n.left.operand, ast.Name) and is_intconst(n.right)]
    found.sort(key=lambda n: (n.lineno, n.col_offset))
    if len(found) != expected:
        raise Untranslatable("expected %d padding expressions `-x %% c`, found %d" % (expected, len(found)))
    parts = ["(.assign %s %s)" % (lstr("@pad%d" % i), expr(x)) for i, x in enumerate(found)]
    out = parts[-1]
    for q in reversed(parts[:-1]):
        out = "(.seq %s %s)" % (q, out)
    return out


def generate_dods(repo):
    """responses/dods.py (+ the reading side in handlers/dap.py): XDR size and padding arithmetic (C05)"""
    dods = parse_src(repo, "responses", "dods.py")
    dap = parse_src(repo, "handlers", "dap.py")

    def is_isinstance(test, var, cls):
        return isinstance(test, ast.Call) and isinstance(test.func, ast.Name) and test.func.id == "isinstance" \
            and len(test.args) == 2 and isinstance(test.args[0], ast.Name) and test.args[0].id == var \
            and isinstance(test.args[1], ast.Name) and test.args[1].id == cls

    def calc_base():
        fn = find_function(dods, "calculate_size")
        lp = loops(fn)[-1]                                  # `for var in walk(dataset):`
        branch = [n for n in ast.walk(lp) if isinstance(n, ast.If) and is_isinstance(n.test, "var", "BaseType")]
        if len(branch) != 1 or branch[0].orelse:
            raise Untranslatable("expected one `elif isinstance(var, BaseType):` without else")
        body = [x for x in branch[0].body
                if not (isinstance(x, ast.Assign) and isinstance(x.targets[0], ast.Name)
                        and x.targets[0].id == "DAP2_dtype")]   # `DAP2_dtype = DAP2_response_dtypemap(…)`: an input
        if len(body) != len(branch[0].body) - 1:
            raise Untranslatable("expected exactly one `DAP2_dtype = …` assignment")
        with abstracting({"var.shape": "var.shape", "DAP2_dtype == np.ubyte": "@is_ubyte",
                          "DAP2_dtype.itemsize": "@itemsize"}):
            return stmts(body, None)

    def calc_tail():
        fn = find_function(dods, "calculate_size")
        tail = [x for x in fn.body if isinstance(x, (ast.AugAssign, ast.Return))]
        if len(tail) != 2:
            raise Untranslatable("expected `length += …; return length` after the loop")
        with abstracting({"len(''.join(dds(dataset)))": "@dds_len"}):
            return stmts(tail, None, tail=True)

    def dods_pads():
        return "(.seq %s %s)" % (pad_exprs(find_function(dods, "_sequencetype"), 1).replace("@pad0", "@seqpad0"),
                                 pad_exprs(find_function(dods, "_basetype"), 2))

    def dap_pads():
        return pad_exprs(find_function(dap, "convert_stream_to_list"), 3)

    parts = [HEADER,
             block("src_calculate_size_base", "responses/dods.py calculate_size: body of `elif isinstance(var, BaseType):` "
                   "without `DAP2_dtype = DAP2_response_dtypemap(…)`; inputs: `var.shape`, `@is_ubyte` for "
                   "`DAP2_dtype == np.ubyte`, `@itemsize` for `DAP2_dtype.itemsize`", calc_base),
             block("src_calculate_size_tail", "responses/dods.py calculate_size: `length += len(dds) + len(b\"Data:\\n\"); "
                   "return length` (the DDS length is an input)", calc_tail),
             block("src_dods_paddings", "responses/dods.py: the padding counts `-length % 4` of _sequencetype (1) and "
                   "_basetype (2)", dods_pads),
             block("src_convert_stream_paddings", "handlers/dap.py convert_stream_to_list: the three `stream.read(-k % 4)` "
                   "counts", dap_pads),
             "end Pydap.Gen\n"]
    return "\n".join(parts)



def drop_statements(body, texts):
    """remove, anywhere in `body`, the statements whose source text is listed; each must occur exactly once"""
    seen = []

    class T(ast.NodeTransformer):
        def generic_visit(self, node):
            super().generic_visit(node)
            for field in ("body", "orelse"):
                lst = getattr(node, field, None)
                if isinstance(lst, list):
                    keep = []
                    for x in lst:
                        if isinstance(x, ast.stmt) and ast.unparse(x) in texts:
                            seen.append(ast.unparse(x))
                        else:
                            keep.append(x)
                    setattr(node, field, keep)
            return node

    holder = ast.Module(body=list(body), type_ignores=[])
    T().visit(holder)
    if sorted(seen) != sorted(texts):
        raise Untranslatable("statements to set aside not found exactly once: %s"
                             % sorted(set(texts) ^ set(seen)))
    return holder.body


def generate_app(repo):
    """wsgi/app.py DapServer.__call__: containment test and routing order (C16)"""
    app = parse_src(repo, "wsgi", "app.py")

    def call_body():
        fn = find_method(app, "DapServer", "__call__")
        body = [x for x in fn.body if not (isinstance(x, ast.Expr) and is_strconst(x.value))]
        first = body[0]
        if not (isinstance(first, ast.Assign) and isinstance(first.targets[0], ast.Name)
                and first.targets[0].id == "path"):
            raise Untranslatable("expected `path = …` first")
        # `path = os.path.abspath(os.path.join(self.path, *req.path_info.split("/")))` is the input;
        # the statements set aside below do not take part in the routing decision
        rest = drop_statements(body[1:], [
            "base, ext = os.path.splitext(path)",
            "req.environ['pydap.jinja2.environment'] = self.env",
            "app = ServerSideFunctions(get_handler(base, self.handlers))"])
        table = {"self.path": "self.path",
                 "os.path.exists(path)": "@exists", "os.path.isdir(path)": "@isdir",
                 "os.path.basename(path)": "@basename",
                 "os.path.isdir(os.path.dirname(path))": "@isdir_parent",
                 "os.path.isfile(base)": "@isfile_base"}
        with abstracting(table, str_vars={"path", "self.path", "os.path.basename(path)"}, return_tags=True):
            return stmts(rest, None, tail=True)

    parts = [HEADER,
             block("src_dapserver_call", "wsgi/app.py DapServer.__call__ after `path = …`: the containment test and the "
                   "routing order; `return e` is `@ret = \"<source text of e>\"`; file-system tests are input "
                   "variables (`@exists`, `@isdir`, `@basename`, `@isdir_parent`, `@isfile_base`)", call_body),
             "end Pydap.Gen\n"]
    return "\n".join(parts)


def generate_ce(repo):
    """parsers/__init__.py parse_ce: the protocol / `dap4.ce=` prefix guard (C15's `parseCE`)"""
    par = parse_src(repo, "parsers", "__init__.py")

    def guard():
        fn = find_function(par, "parse_ce")
        body = [x for x in fn.body if not (isinstance(x, ast.Expr) and is_strconst(x.value))]
        first = body[0]
        if not (isinstance(first, ast.If) and ast.unparse(first.test) == "protocol == 'dap2'"):
            raise Untranslatable("expected `if protocol == \"dap2\":` first")
        return stmt(first, None)

    parts = [HEADER,
             block("src_parse_ce_guard", "parsers/__init__.py parse_ce: the first statement, `if protocol == \"dap2\": … "
                   "elif protocol == \"dap4\": …` (separator key, `dap4.ce=` prefix test, prefix removal)", guard),
             "end Pydap.Gen\n"]
    return "\n".join(parts)


def generate_lib(repo):
    """lib.py `_quote` / `unquote` (C12's `Quote.quote` / `Quote.unquote`)"""
    lib = parse_src(repo, "lib.py")
    QUOTED = "quote_(name.encode('utf-8'), safe=safe)"

    def body_of(name):
        fn = find_function(lib, name)
        return [x for x in fn.body if not (isinstance(x, ast.Expr) and is_strconst(x.value))]

    def quote_split():
        body = body_of("_quote")
        cut = [i for i, x in enumerate(body) if QUOTED in ast.unparse(x)]
        if len(cut) != 1:
            raise Untranslatable("expected exactly one statement that calls %s" % QUOTED)
        return stmts(body[:cut[0]], None)

    def quote_whole():
        with abstracting({QUOTED: "@quoted"}, str_vars={"prefix"}):
            return stmts(body_of("_quote"), None, tail=True)

    def unquote_body():
        body = body_of("unquote")
        last = body[-1]
        if not (isinstance(last, ast.Return) and ast.unparse(last.value) == "unquote_(name)"):
            raise Untranslatable("expected `return unquote_(name)` last")
        return stmts(body[:-1], None)

    parts = [HEADER,
             block("src_quote_split", "lib.py _quote: everything before the statement that calls urllib's quote "
                   "(`safe = …`, the dap4-prefix test, `prefix` / `name` split)", quote_split),
             block("src_quote", "lib.py _quote: the whole body; `quote_(name.encode('utf-8'), safe=safe)` is the input "
                   "`@quoted` (its argument `name` is tied by src_quote_split), `return e` is `@ret = e`", quote_whole),
             block("src_unquote_replaces", "lib.py unquote: everything before `return unquote_(name)` (the three "
                   "`.replace` passes on `name`)", unquote_body),
             "end Pydap.Gen\n"]
    return "\n".join(parts)


def generate_dmr(repo):
    """parsers/dmr.py `_dim_key`, `get_dim_names`, `get_dim_sizes` (C11's `getDimNames`, `dimSize`, `varShape`)"""
    dmr = parse_src(repo, "parsers", "dmr.py")

    def body_after_findall(name):
        fn = find_function(dmr, name)
        body = [x for x in fn.body if not (isinstance(x, ast.Expr) and is_strconst(x.value))]
        if ast.unparse(body[0]) != "dimension_elements = element.findall('Dim')":
            raise Untranslatable("expected `dimension_elements = element.findall(\"Dim\")` first")
        return body[1:]

    def dim_key():
        return stmts(find_function(dmr, "_dim_key").body, None, tail=True)

    def dim_names():
        with inlining([find_function(dmr, "_dim_key")]):
            return stmts(body_after_findall("get_dim_names"), None, tail=True)

    def dim_sizes():
        with inlining([find_function(dmr, "_dim_key")]):
            return stmts(body_after_findall("get_dim_sizes"), None, tail=True)

    parts = [HEADER,
             block("src_dim_key", "parsers/dmr.py _dim_key: the whole body (`return e` is `@ret = e`)", dim_key),
             block("src_get_dim_names", "parsers/dmr.py get_dim_names after `dimension_elements = element.findall(\"Dim\")` "
                   "(an input: the list of elements); the loop is a MiniPy `forIn`, `if …: continue` is `if … else <rest>`, "
                   "the call `_dim_key(name)` is inlined (variables `_dim_key.name`, `_dim_key.@ret`)", dim_names),
             block("src_get_dim_sizes", "parsers/dmr.py get_dim_sizes after `dimension_elements = element.findall(\"Dim\")`; "
                   "`dimension_sizes += (e,)` is an append; `named_dimensions` is an input (None or a dict str → int)",
                   dim_sizes),
             "end Pydap.Gen\n"]
    return "\n".join(parts)


def generate_ssf(repo):
    """wsgi/ssf.py ServerSideFunctions.handle: the pass-through test (C19's `Ssf.route`)"""
    ssf = parse_src(repo, "wsgi", "ssf.py")

    def pass_test():
        fn = find_method(ssf, "ServerSideFunctions", "handle")
        at = [i for i, x in enumerate(fn.body) if ast.unparse(x) == "(path, response) = req.path.rsplit('.', 1)"
              or ast.unparse(x) == "path, response = req.path.rsplit('.', 1)"]
        if not at or at[0] + 1 >= len(fn.body) or not isinstance(fn.body[at[0] + 1], ast.If):
            raise Untranslatable("expected `path, response = req.path.rsplit(\".\", 1)` followed by an if statement")
        with abstracting({}, str_vars={"response"}, return_tags=True):
            return stmts([fn.body[at[0] + 1]], None, tail=True)

    FMATCH, RSEARCH = "FUNCTION.match(selection)", "RELOP.search(match.group(1))"

    def is_call_body():
        fn = find_function(ssf, "is_call")
        with abstracting({FMATCH: "@function_match", RSEARCH: "@relop_search"}):
            return stmts(body_of(fn), None, tail=True)

    def is_call_arg():
        fn = find_function(ssf, "is_call")
        body = body_of(fn)
        if len(body) != 2 or ast.unparse(body[0]) != "match = " + FMATCH:
            raise Untranslatable("expected `match = %s` first" % FMATCH)
        calls = [n for n in ast.walk(body[1]) if isinstance(n, ast.Call) and ast.unparse(n.func) == "RELOP.search"]
        if len(calls) != 1 or len(calls[0].args) != 1 or calls[0].keywords:
            raise Untranslatable("expected exactly one call RELOP.search(<one argument>)")
        with abstracting({FMATCH: "@function_match"}):
            return "(.seq %s (.assign %s %s))" % (stmts(body[:1], None), lstr("@arg"), expr(calls[0].args[0]))

    parts = [HEADER,
             block("src_is_call", "wsgi/ssf.py is_call: the whole body; the two regexp calls are inputs: `@function_match` for "
                   "`FUNCTION.match(selection)` (None or a match object, given by its groups) and `@relop_search` for "
                   "`RELOP.search(match.group(1))` (None or a match object); `return e` is `@ret = e`", is_call_body),
             block("src_is_call_relop_arg", "wsgi/ssf.py is_call: `match = FUNCTION.match(selection)` followed by the "
                   "argument the source passes to `RELOP.search` (`@arg = match.group(1)`)", is_call_arg),
             block("src_ssf_pass_test", "wsgi/ssf.py ServerSideFunctions.handle: the statement after the first "
                   "`path, response = req.path.rsplit(\".\", 1)` (DAS requests and requests without calls are passed "
                   "through); `called` and `response` are inputs, `return e` is `@ret = \"<source text of e>\"`",
                   pass_test),
             "end Pydap.Gen\n"]
    return "\n".join(parts)


def body_of(fn):
    return [x for x in fn.body if not (isinstance(x, ast.Expr) and is_strconst(x.value))]


def generate_proj(repo):
    """handlers/dap.py `SequenceProxy._projection` and `SequenceProxy.id` (C04's `SeqClient.projText` / `proxyId`)"""
    dap = parse_src(repo, "handlers", "dap.py")
    table = {"self.sub_children": "self.sub_children",
             "list(self.template.children())": "@children",
             "[child.id for child in self.template.children()]": "@child_ids",
             "(child.id for child in self.template.children())": "@child_ids",
             "self.template.id": "self.template.id",
             "hyperslab(self.slice)": "@hyperslab",
             "isinstance(self.template, SequenceType)": "@template_is_sequence",
             "self.id": "self.id"}
    strs = {"seq", "name", "hyperslab(self.slice)", "self.id", "self.template.id"}

    def projection():
        fn = find_method(dap, "SequenceProxy", "_projection")
        with abstracting(table, str_vars=strs):
            return stmts(body_of(fn), None, tail=True)

    def ident():
        fn = find_method(dap, "SequenceProxy", "id")
        with abstracting(table, str_vars=strs):
            return stmts(body_of(fn), None, tail=True)

    parts = [HEADER,
             block("src_seq_projection", "handlers/dap.py SequenceProxy._projection: the whole body; inputs: `self.sub_children`, "
                   "`@children` for `list(self.template.children())`, `@child_ids` for the comprehension "
                   "`[child.id for child in self.template.children()]`, `self.template.id`, `@hyperslab` for "
                   "`hyperslab(self.slice)`, `@template_is_sequence` for `isinstance(self.template, SequenceType)`, `self.id`; "
                   "`return e` is `@ret = e`", projection),
             block("src_seq_id", "handlers/dap.py SequenceProxy.id: the whole body; `@child_ids` stands for the generator "
                   "`(child.id for child in self.template.children())`", ident),
             "end Pydap.Gen\n"]
    return "\n".join(parts)


def generate_das(repo):
    """responses/das.py `type_convert` / `get_type` (C08's `Das.typeConvert` / `Das.listType`)"""
    das = parse_src(repo, "responses", "das.py")

    def convert():
        return stmts(body_of(find_function(das, "type_convert")), None, tail=True)

    def get_type():
        table = {"hasattr(values, 'dtype')": "@has_dtype",
                 "NUMPY_TO_DAP2_TYPEMAP[values.dtype.char]": "@numpy_type",
                 "isinstance(values, Iterable)": "@is_iterable",
                 "[type_convert(val) for val in values]": "@types"}
        with abstracting(table):
            with inlining([find_function(das, "type_convert")]):
                return stmts(body_of(find_function(das, "get_type")), None, tail=True)

    parts = [HEADER,
             block("src_type_convert", "responses/das.py type_convert: the whole body (`return e` is `@ret = e`)", convert),
             block("src_get_type", "responses/das.py get_type: the whole body; inputs: `@has_dtype` for `hasattr(values, \"dtype\")`, "
                   "`@numpy_type` for `NUMPY_TO_DAP2_TYPEMAP[values.dtype.char]`, `@is_iterable` for `isinstance(values, Iterable)`, "
                   "`@types` for the comprehension `[type_convert(val) for val in values]`; the call `type_convert(values)` is "
                   "inlined; `types.sort(key=precedence.index)` is `sortByIndex`", get_type),
             "end Pydap.Gen\n"]
    return "\n".join(parts)


def generate_dds(repo):
    """responses/dds.py: the text of every line the DDS printer yields (C07's `Dds.printT` / `printBase` / `shapeText`)"""
    dds = parse_src(repo, "responses", "dds.py")
    table = {"var.name": "var.name", "NUMPY_TO_DAP2_TYPEMAP[var.dtype.char]": "@type", "var.dims": "var.dims",
             "var.shape": "var.shape", "isinstance(var.data, DummyData)": "@nodata",
             "''.join(map('[{0[0]} = {0[1]}]'.format, zip(var.dims, shape)))": "@dims_text",
             "''.join(('[{0}]'.format(len) for len in shape))": "@anon_text"}
    strs = {"INDENT", "var.name"}

    def indent():
        found = [n for n in dds.body if isinstance(n, ast.Assign) and len(n.targets) == 1
                 and isinstance(n.targets[0], ast.Name) and n.targets[0].id == "INDENT"]
        if len(found) != 1:
            raise Untranslatable("expected exactly one module-level `INDENT = …`")
        return stmts(found, None)

    def lines(name):
        def go():
            fn = find_function(dds, name)
            ys = [x for x in body_of(fn) if isinstance(x, ast.Expr) and isinstance(x.value, ast.Yield)]
            inner = [n for x in body_of(fn) if not (isinstance(x, ast.Expr) and isinstance(x.value, ast.Yield))
                     for n in ast.walk(x) if isinstance(n, ast.Yield) and not isinstance(n.value, ast.Name)]
            if not ys or inner:
                raise Untranslatable("expected the lines of %s as top-level `yield <text>` statements" % name)
            with abstracting(table, str_vars=strs):
                parts = ["(.assign %s %s)" % (lstr("@line%d" % i), expr(y.value.value)) for i, y in enumerate(ys)]
            out = parts[-1]
            for q in reversed(parts[:-1]):
                out = "(.seq %s %s)" % (q, out)
            return out
        return go

    def base_shape():
        fn = find_function(dds, "_basetype")
        body = [x for x in body_of(fn) if not (isinstance(x, ast.Expr) and isinstance(x.value, ast.Yield))]
        if len(body) != len(body_of(fn)) - 1:
            raise Untranslatable("expected exactly one yield in _basetype")
        with abstracting(table, str_vars=strs):
            return stmts(body, None)

    parts = [HEADER,
             block("src_dds_indent", "responses/dds.py: the module constant `INDENT = …`", indent),
             block("src_dds_dataset_lines", "responses/dds.py dds(DatasetType): the texts of its top-level `yield`s, in order "
                   "(`@line0`, `@line1`); inputs `level`, `INDENT`, `var.name`", lines("_")),
             block("src_dds_sequence_lines", "responses/dds.py _sequencetype: the texts of its top-level `yield`s",
                   lines("_sequencetype")),
             block("src_dds_structure_lines", "responses/dds.py _structuretype: the texts of its top-level `yield`s",
                   lines("_structuretype")),
             block("src_dds_grid_lines", "responses/dds.py _gridtype: the texts of its top-level `yield`s "
                   "(`Grid {`, `Array:`, `Maps:`, `} name;`)", lines("_gridtype")),
             block("src_dds_base_line", "responses/dds.py _basetype: the text of its `yield`; inputs `level`, `INDENT`, "
                   "`@type` for `NUMPY_TO_DAP2_TYPEMAP[var.dtype.char]`, `var.name`, `shape` (the text computed before)",
                   lines("_basetype")),
             block("src_dds_base_shape", "responses/dds.py _basetype: everything before the `yield` (the record axes dropped, "
                   "the three forms of the shape text); inputs `var.shape`, `@nodata` for `isinstance(var.data, DummyData)`, "
                   "`sequence`, `var.dims`, `var.name`, `@dims_text` / `@anon_text` for the two joins over generators",
                   base_shape),
             "end Pydap.Gen\n"]
    return "\n".join(parts)


def generate_hlib(repo):
    """handlers/lib.py `check_hyperslab` (C15/C02's `Handler.validSl` / the guard of `Handler.sliceBase`)"""
    hlib = parse_src(repo, "handlers", "lib.py")

    def check():
        return stmts(body_of(find_function(hlib, "check_hyperslab")), None, tail=True)

    parts = [HEADER,
             block("src_check_hyperslab", "handlers/lib.py check_hyperslab: the whole body; `slice_` (a tuple of ints and "
                   "slice objects) and `shape` (a tuple of ints) are the inputs; the loop is a MiniPy `forZip`; the "
                   "message of the exception is not carried", check),
             "end Pydap.Gen\n"]
    return "\n".join(parts)



def generate_iterdata(repo):
    """handlers/lib.py `IterData.__getitem__` / `IterData.__iter__` (C17's `IterData.getitem` / `IterData.iter`)"""
    hlib = parse_src(repo, "handlers", "lib.py")
    ITEM = "deep_map(operator.itemgetter(col), out.level)"
    PROJ = "deep_map(lambda row: tuple((row[i] for i in cols)), out.level + 1)"
    BUILD = "build_filter(key, self.root)"
    fields = ["out.level", "out.template", "out.imap", "out.ifilter", "out.islice", "out.template._visible_keys",
              "self.root", "self.stream", "self.ifilter", "self.imap", "self.islice"]
    table = dict((f, f) for f in fields)
    table.update({"list(self.template.keys())": "@visible_keys", "out.template[key]": "@child_template",
                  "[list(self.template.keys()).index(k) for k in key]": "@cols",
                  "isinstance(key, ConstraintExpression)": "@is_ce",
                  ITEM: "@item_map", PROJ: "@proj_map", BUILD: "@build_filter"})
    args = {ITEM: ["col", "out.level"], PROJ: ["cols", "out.level + 1"], BUILD: ["key", "self.root"]}

    def getitem():
        fn = find_method(hlib, "IterData", "__getitem__")
        body = drop_statements(body_of(fn), ["out = copy.copy(self)"])
        with abstracting(table, call_args=args):
            return stmts(body, None, tail=True)

    def iterate():
        fn = find_method(hlib, "IterData", "__iter__")
        with abstracting(table):
            return stmts(body_of(fn), None, tail=True)

    parts = [HEADER,
             block("src_iterdata_getitem", "handlers/lib.py IterData.__getitem__ after `out = copy.copy(self)` (set aside: the "
                   "fields `out.level`, `out.template`, `out.imap`, `out.ifilter`, `out.islice` are variables that hold the "
                   "copies); inputs: `key`, `@visible_keys` for `list(self.template.keys())`, `@child_template` for "
                   "`out.template[key]`, `@cols` for the comprehension `[list(self.template.keys()).index(k) for k in key]`, "
                   "`@is_ce` for `isinstance(key, ConstraintExpression)`, the closures `@item_map` / `@proj_map` for the two "
                   "`deep_map(…)` calls and `@build_filter.0` / `@build_filter.1` for the pair `build_filter(key, self.root)` "
                   "returns; the arguments the source passes to these three calls are recorded as `<var>.arg<i>`", getitem),
             block("src_iterdata_iter", "handlers/lib.py IterData.__iter__: the whole body; `iter`, `filter`, `map`, "
                   "`itertools.islice` build a lazy pipeline (MiniPy `pipe`: the stages in the order they are wrapped)", iterate),
             "end Pydap.Gen\n"]
    return "\n".join(parts)



def comprehension_elt(fn, name, loop_var):
    """the element expression of the one list comprehension `[<elt> for <loop_var> in …]` in the assignment `name = …`"""
    found = [n for n in ast.walk(fn) if isinstance(n, ast.Assign) and len(n.targets) == 1
             and isinstance(n.targets[0], ast.Name) and n.targets[0].id == name]
    if len(found) != 1:
        raise Untranslatable("expected exactly one assignment `%s = …`" % name)
    comps = [n for n in ast.walk(found[0].value) if isinstance(n, ast.ListComp)]
    if len(comps) != 1 or len(comps[0].generators) != 1 or comps[0].generators[0].ifs \
            or not isinstance(comps[0].generators[0].target, ast.Name) or comps[0].generators[0].target.id != loop_var:
        raise Untranslatable("expected one comprehension `[… for %s in …]` in `%s = …`" % (loop_var, name))
    return comps[0].elt


def generate_client(repo):
    """client.py `consolidate_metadata`: the texts it builds (C18's `Cons.declText`, `dimReq`, `dmrReq`, `baseUrlText`)"""
    cl = parse_src(repo, "client.py")
    SIZE = "results[0].dimensions[dim]"

    def fn():
        return find_function(cl, "consolidate_metadata")

    def elt(name, var, out, table, strs):
        def go():
            with abstracting(table, str_vars=strs):
                return "(.assign %s %s)" % (lstr(out), expr(comprehension_elt(fn(), name, var)))
        return go

    def base_url():
        with abstracting({"URLs[0]": "@URL0"}, str_vars={"URLs[0]"}):
            return assignments(fn(), ["base_url"])

    parts = [HEADER,
             block("src_consolidate_dim_ce", "client.py consolidate_metadata: the element of the comprehension in `dim_ces = set([…])`; "
                   "`dim` is an input, `@size` stands for `results[0].dimensions[dim]`",
                   elt("dim_ces", "dim", "@elt", {SIZE: "@size"}, {"dim"})),
             block("src_consolidate_new_url", "client.py consolidate_metadata: the element of the comprehension in `new_urls = […]`; "
                   "`base_url`, `dim` are inputs, `@size` stands for `results[0].dimensions[dim]`",
                   elt("new_urls", "dim", "@elt", {SIZE: "@size"}, {"dim", "base_url"})),
             block("src_consolidate_http_url", "client.py consolidate_metadata: the element of `URLs = [\"http\" + urls[i][4:] …]`; "
                   "`@url` stands for `urls[i]`", elt("URLs", "i", "@elt", {"urls[i]": "@url"}, {"urls[i]"})),
             block("src_consolidate_dmr_url", "client.py consolidate_metadata: the element of `dmr_urls = [… for url in URLs]`",
                   elt("dmr_urls", "url", "@elt", {}, {"url"})),
             block("src_consolidate_base_url", "client.py consolidate_metadata: `base_url = URLs[0].split(\"?\")[0]`; `@URL0` "
                   "stands for `URLs[0]`", base_url),
             "end Pydap.Gen\n"]
    return "\n".join(parts)



def generate_proxy(repo):
    """handlers/dap.py `pad_hyperslab` and the projection text of `BaseProxyDap2.__getitem__` (C02's `openSlice` / `requestText`)"""
    dap = parse_src(repo, "handlers", "dap.py")
    COMBINED = "combine_slices(self.slice, fix_slice(index, self.shape))"

    def pad():
        return stmts(body_of(find_function(dap, "pad_hyperslab")), None, tail=True)

    def request():
        fn = find_method(dap, "BaseProxyDap2", "__getitem__")
        body = body_of(fn)
        if ast.unparse(body[0]) != "index = " + COMBINED:
            raise Untranslatable("expected `index = %s` first" % COMBINED)
        calls = [n for n in ast.walk(body[2]) if isinstance(n, ast.Call) and ast.unparse(n.func) == "urlunparse"] \
            if len(body) > 2 else []
        if len(calls) != 1 or len(calls[0].args) != 1 or not isinstance(calls[0].args[0], ast.Tuple) \
                or len(calls[0].args[0].elts) != 6:
            raise Untranslatable("expected `url = urlunparse((six parts))…` as the third statement")
        table = {COMBINED: "@combined", "self.id": "self.id", "hyperslab(index)": "@hyperslab",
                 "_quote(query)": "@quoted_query"}
        with abstracting(table, str_vars={"self.id", "hyperslab(index)", "_quote(query)"},
                         call_args={"hyperslab(index)": ["index"]}):
            q = ast.Assign(targets=[ast.Name(id="@query", ctx=ast.Store())], value=calls[0].args[0].elts[4])
            return "(.seq %s %s)" % (stmt(body[0], None), stmt(q, None))

    parts = [HEADER,
             block("src_pad_hyperslab", "handlers/dap.py pad_hyperslab: the whole body; `index` (a tuple of slices) and `shape` are "
                   "the inputs, `return e` is `@ret = e`", pad),
             block("src_proxy_request", "handlers/dap.py BaseProxyDap2.__getitem__: `index = combine_slices(self.slice, "
                   "fix_slice(index, self.shape))` (the call is the input `@combined`) followed by the query part handed to "
                   "`urlunparse` (`@query = self.id + hyperslab(index) + \"&\" + _quote(query)`); `@hyperslab` stands for "
                   "`hyperslab(index)` (its argument is recorded as `@hyperslab.arg0`), `@quoted_query` for `_quote(query)`",
                   request),
             "end Pydap.Gen\n"]
    return "\n".join(parts)


GENERATORS = [("ProxySrc.lean", generate_proxy), ("ClientSrc.lean", generate_client), ("IterDataSrc.lean", generate_iterdata), ("DdsSrc.lean", generate_dds), ("DasSrc.lean", generate_das), ("HlibSrc.lean", generate_hlib), ("ProjSrc.lean", generate_proj), ("SsfSrc.lean", generate_ssf), ("DmrSrc.lean", generate_dmr), ("LibSrc.lean", generate_lib), ("SliceSrc.lean", generate), ("DapSrc.lean", generate_dap), ("DodsSrc.lean", generate_dods),
              ("AppSrc.lean", generate_app), ("CeSrc.lean", generate_ce)]


def attr_targets_as_names(body):
    """`x.attr = e` is read as the assignment of the variable named `x.attr` (purely syntactic; MiniPy has values, no
    object graph: what the theorem then says is *which value the block stores under that name*)"""
    class T(ast.NodeTransformer):
        def visit_Assign(self, node):
            self.generic_visit(node)
            if len(node.targets) == 1 and isinstance(node.targets[0], ast.Attribute) \
                    and isinstance(node.targets[0].value, ast.Name):
                t = node.targets[0]
                return ast.copy_location(ast.Assign(targets=[ast.Name(id="%s.%s" % (t.value.id, t.attr), ctx=ast.Store())],
                                                    value=node.value), node)
            return node

    holder = ast.Module(body=list(body), type_ignores=[])
    T().visit(holder)
    return holder.body


def generate_model(repo):
    """model.py `BaseType.__getitem__`, `BaseType._get_data_index` (C14's `Proxy.varGetitem` / `readData`): the only
    thing done with the data an object holds is to READ `data[index]`; the result is stored on the NEW object.
    (The loop of `GridType.__getitem__` is not tied by translation: mutants/C14/harmless_grid_loop.diff, a rewrite of
    that loop that must stay quiet, leaves the fragment; the loop is covered by the traced correspondence.)"""
    model = parse_src(repo, "model.py")
    DAP4_ATTRS = ("if type(self.data).__name__ == 'BaseProxyDap4':\n    out.attributes['checksum'] = self.data.checksum\n"
                  "    out.attributes['Maps'] = self.Maps")

    def getitem():
        fn = find_method(model, "BaseType", "__getitem__")
        body = attr_targets_as_names(drop_statements(body_of(fn), [DAP4_ATTRS]))
        with abstracting({"copy.copy(self)": "@copy", "self._get_data_index(index)": "@indexed"}):
            return stmts(body, None, tail=True)

    def get_data_index():
        fn = find_method(model, "BaseType", "_get_data_index")
        with abstracting({"self._is_string_dtype": "@is_string", "isinstance(self._data, np.ndarray)": "@is_ndarray",
                          "np.vectorize(decode_np_strings)(self._data[index])": "@decoded", "self._data[index]": "@plain"}):
            return stmts(body_of(fn), None, tail=True)

    parts = [HEADER,
             block("src_basetype_getitem", "model.py BaseType.__getitem__: the whole body but the statement that copies the "
                   "DAP4 attributes `checksum` / `Maps` (set aside, named in the generator); inputs: `@copy` for "
                   "`copy.copy(self)`, `@indexed` for `self._get_data_index(index)`; `out.data = e` is the assignment of the "
                   "variable `out.data`; `return e` is `@ret = e`", getitem),
             block("src_get_data_index", "model.py BaseType._get_data_index: the whole body; inputs: `@is_string` for "
                   "`self._is_string_dtype`, `@is_ndarray` for `isinstance(self._data, np.ndarray)`, `@plain` for "
                   "`self._data[index]`, `@decoded` for `np.vectorize(decode_np_strings)(self._data[index])`", get_data_index),
             "end Pydap.Gen\n"]
    return "\n".join(parts)


GENERATORS.append(("ModelSrc.lean", generate_model))


def write(repo, verif):
    changed = False
    for fname, gen in GENERATORS:
        text = gen(repo)
        path = os.path.join(verif, "lean", "PydapModel", "Generated", fname)
        os.makedirs(os.path.dirname(path), exist_ok=True)
        old = open(path, encoding="utf-8").read() if os.path.exists(path) else None
        if old != text:
            with open(path, "w", encoding="utf-8") as f:
                f.write(text)
            changed = True
    return changed


if __name__ == "__main__":
    for fname, gen in GENERATORS:
        print("-- " + fname)
        print(gen(os.environ.get("VERIF_REPO", "/repo")))
