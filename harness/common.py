"""Shared machinery of all checks: paths, PRNG sub-streams, Lean build + axiom audit, the model
driver (line protocol), correspondence bookkeeping, oracle failures, known findings, replays,
evidence, and the violation protocol of DESIGN.md §5.
"""
import fcntl
import hashlib
import json
import os
import random
import re
import subprocess
import sys
import time
from collections import Counter

HARNESS = os.path.dirname(os.path.abspath(__file__))
VERIF = os.path.dirname(HARNESS)
LEAN = os.path.join(VERIF, "lean")
REPO = os.environ.get("VERIF_REPO", "/repo")

# pydap is always imported from the working tree under test
_src = os.path.join(REPO, "src")
if _src not in sys.path:
    sys.path.insert(0, _src)
os.environ.setdefault("PYDAP_VERIF", "1")

ALLOWED_AXIOMS = {"propext", "Classical.choice", "Quot.sound"}
FORBIDDEN = re.compile(r"\bsorry\b|\badmit\b|^\s*axiom\s|native_decide|bv_decide|implemented_by|\bunsafe\s|maxHeartbeats\s+0",
                       re.M)

TRUSTED_BASE = [
    "Lean 4.33.0 kernel; axioms of every property theorem audited to be within {propext, Classical.choice, Quot.sound}",
    "harness/extract.py (ast literal extraction of tables/markers from the working tree)",
    "harness correspondence: generators, canonicalisers and the line-protocol driver (lean/Main.lean)",
    "numpy/webob/requests/ElementTree/netCDF4 behaviour is modelled, not verified (DESIGN.md section 3)",
]


def sh(cmd, cwd=None, timeout=None, env=None):
    p = subprocess.run(cmd, cwd=cwd, stdout=subprocess.PIPE, stderr=subprocess.STDOUT, timeout=timeout,
                       env=env, text=True, errors="replace")
    return p.returncode, p.stdout


class InfraError(Exception):
    pass


def strip_comments(text):
    """remove Lean block and line comments (nested block comments handled)"""
    out = []
    i, depth, n = 0, 0, len(text)
    while i < n:
        if text.startswith("/-", i):
            depth += 1
            i += 2
        elif depth and text.startswith("-/", i):
            depth -= 1
            i += 2
        elif depth:
            i += 1
        elif text.startswith("--", i):
            while i < n and text[i] != "\n":
                i += 1
        else:
            out.append(text[i])
            i += 1
    return "".join(out)


class Lean:
    """build + audit, serialised across concurrently running checks by a file lock"""

    def __init__(self):
        self.lock_path = os.path.join(LEAN, ".verif.lock")

    def _locked(self):
        os.makedirs(LEAN, exist_ok=True)
        f = open(self.lock_path, "w")
        fcntl.flock(f, fcntl.LOCK_EX)
        return f

    def prepare(self, prop):
        """regenerate tables, build the property's theorems and the driver, audit axioms.
        Returns dict(ok, tables_changed, build_log, theorems=[(name, axioms)], problems=[...])."""
        import extract

        res = {"ok": True, "problems": [], "theorems": [], "build_log": "", "driver_ok": True}
        lock = self._locked()
        try:
            res["tables_changed"] = extract.write_tables(REPO, VERIF)
            import py2lean
            res["source_translation_changed"] = py2lean.write(REPO, VERIF)
            import gen_roots
            gen_roots.main()
            t0 = time.time()
            rc, out = sh(["lake", "build", "Props.%s" % prop], cwd=LEAN, timeout=1500)
            res["build_s"] = round(time.time() - t0, 1)
            res["build_log"] = out[-6000:]
            if rc != 0:
                res["ok"] = False
                res["problems"].append("lake build Props.%s failed" % prop)
            rc2, out2 = sh(["lake", "build", "driver"], cwd=LEAN, timeout=1500)
            if rc2 != 0:
                res["driver_ok"] = False
                res["driver_log"] = out2[-6000:]
            if res["ok"]:
                self._audit(prop, res)
            if res["ok"] and os.environ.get("VERIF_TIER_EFFECTIVE") == "thorough":
                # independent re-check of the compiled theorems by leanchecker (thorough tier only)
                rc3, out3 = sh(["lake", "env", "leanchecker", "Props.%s" % prop], cwd=LEAN, timeout=3000)
                res["leanchecker"] = "ok" if rc3 == 0 else out3[-1500:]
                if rc3 != 0:
                    res["ok"] = False
                    res["problems"].append("leanchecker rejected Props.%s" % prop)
        finally:
            fcntl.flock(lock, fcntl.LOCK_UN)
            lock.close()
        return res

    def _audit(self, prop, res):
        src_path = os.path.join(LEAN, "Props", "%s.lean" % prop)
        with open(src_path, encoding="utf-8") as f:
            src = f.read()
        names = re.findall(r"^\s*theorem\s+([A-Za-z0-9_'.]+)", strip_comments(src), re.M)
        ns = re.search(r"^namespace\s+(\S+)", src, re.M)
        prefix = (ns.group(1) + ".") if ns else ""
        audit_dir = os.path.join(LEAN, "Audit")
        os.makedirs(audit_dir, exist_ok=True)
        path = os.path.join(audit_dir, "%s.lean" % prop)
        text = "import Props.%s\n" % prop + "".join("#print axioms %s%s\n" % (prefix, n) for n in names)
        old = open(path).read() if os.path.exists(path) else None
        if old != text:
            with open(path, "w") as f:
                f.write(text)
        rc, out = sh(["lake", "env", "lean", path], cwd=LEAN, timeout=900)
        if rc != 0:
            res["ok"] = False
            res["problems"].append("axiom audit failed to run: " + out[-500:])
            return
        out1 = re.sub(r"\s+", " ", out)
        found = {}
        for m in re.finditer(r"'([^']+)' depends on axioms: \[([^\]]*)\]", out1):
            found[m.group(1)] = [a.strip() for a in m.group(2).split(",") if a.strip()]
        for m in re.finditer(r"'([^']+)' does not depend on any axioms", out1):
            found[m.group(1)] = []
        for n in names:
            full = prefix + n
            if full not in found:
                res["ok"] = False
                res["problems"].append("no axiom report for %s" % full)
                continue
            bad = [a for a in found[full] if a not in ALLOWED_AXIOMS]
            res["theorems"].append((full, found[full]))
            if bad:
                res["ok"] = False
                res["problems"].append("theorem %s depends on non-standard axioms %s" % (full, bad))
        # forbidden tokens in every Lean source that can reach the theorem
        for root in ("PydapModel", "Proofs", "Props", "Driver"):
            d = os.path.join(LEAN, root)
            for dirpath, _, files in os.walk(d):
                for fn in files:
                    if fn.endswith(".lean"):
                        with open(os.path.join(dirpath, fn), encoding="utf-8") as f:
                            body = strip_comments(f.read())
                        m = FORBIDDEN.search(body)
                        if m:
                            res["ok"] = False
                            res["problems"].append("forbidden token %r in %s" % (m.group(0), os.path.join(root, fn)))
        if not names:
            res["ok"] = False
            res["problems"].append("no theorems found in Props/%s.lean" % prop)


def run_driver(lines, timeout=1200):
    """feed `lines` to the compiled model driver (fallback: `lake env lean --run Main.lean`)"""
    exe = os.path.join(LEAN, ".lake", "build", "bin", "driver")
    data = "".join(l + "\n" for l in lines)
    if os.path.exists(exe):
        cmd = [exe]
    else:
        cmd = ["lake", "env", "lean", "--run", "Main.lean"]
    p = subprocess.run(cmd, cwd=LEAN, input=data, stdout=subprocess.PIPE, stderr=subprocess.PIPE, text=True,
                       timeout=timeout)
    if p.returncode != 0:
        raise InfraError("model driver failed: " + p.stderr[-2000:])
    out = p.stdout.split("\n")
    if out and out[-1] == "":
        out.pop()
    if len(out) != len(lines):
        raise InfraError("model driver returned %d lines for %d inputs" % (len(out), len(lines)))
    return out


def hexb(b):
    return "x" + bytes(b).hex()


class Ctx:
    def __init__(self, prop, tier, seed, level="proof"):
        self.prop = prop
        self.tier = tier
        self.seed = seed
        self.level = level
        self.t0 = time.time()
        self.evaluations = 0
        self.distinct = set()
        self.tags = Counter()
        self.samples = []
        self.corr_checked = 0
        self.corr_disagreements = []       # outside known classes
        self.corr_known_class = 0
        self.oracle_failures = []          # dicts: case, observed, expected, what, cls
        self.known_hits = Counter()
        self.notes = []
        self.proof = None
        self.extra = {}
        self.findings = load_findings(prop)
        self.rule = ""
        self.assumptions = []
        self.exhaustive = False

    # ---- randomness -------------------------------------------------------------------------
    def rng(self, label):
        h = hashlib.sha256(("%d/%s/%s" % (self.seed, self.prop, label)).encode()).digest()
        return random.Random(int.from_bytes(h[:8], "big"))

    def budget(self, quick, thorough):
        return thorough if self.tier == "thorough" else quick

    def elapsed(self):
        return time.time() - self.t0

    # ---- proof side -------------------------------------------------------------------------
    def proof_phase(self):
        os.environ["VERIF_TIER_EFFECTIVE"] = self.tier
        self.proof = Lean().prepare(self.prop)
        if "leanchecker" in self.proof:
            self.extra["leanchecker"] = self.proof["leanchecker"]
        if not self.proof["driver_ok"]:
            # without a driver no correspondence can run; this is infrastructure unless the
            # generated tables are what broke it (then the proof side is broken too)
            if self.proof["ok"]:
                raise InfraError("driver build failed: " + self.proof.get("driver_log", ""))
        return self.proof["ok"]

    # ---- bookkeeping ------------------------------------------------------------------------
    def count(self, key, nontrivial=True, tag=None, sample=None):
        self.evaluations += 1
        if nontrivial:
            self.distinct.add(key if isinstance(key, (str, int, tuple)) else repr(key))
        if tag:
            self.tags[tag] += 1
        if sample is not None and len(self.samples) < 8:
            self.samples.append(sample)

    def correspond(self, what, cases, known_class=None):
        """cases: iterable of (model_line, impl_output:str, meta).  `known_class(meta)` returns
        a finding key when the case lies inside a listed finding class (disagreements there are
        logged only)."""
        cases = list(cases)
        if not cases:
            return
        outs = run_driver([c[0] for c in cases])
        for (line, impl, meta), mod in zip(cases, outs):
            self.corr_checked += 1
            if mod != impl:
                k = known_class(meta) if known_class else None
                if k:
                    self.corr_known_class += 1
                else:
                    if len(self.corr_disagreements) < 50:
                        self.corr_disagreements.append({"function": what, "line": line, "impl": impl,
                                                        "model": mod, "meta": meta})
                    else:
                        self.corr_disagreements.append(None)
        return outs

    def oracle_fail(self, what, case, observed, expected, cls=None, size=None):
        """record a direct failure of the property on the implementation. `cls` is the key of a
        known-findings entry when the failing input lies in that entry's class."""
        if cls is not None and self.finding(cls) is not None and self.finding(cls).get("status") == "open":
            self.known_hits[cls] += 1
            return
        self.oracle_failures.append({"what": what, "case": case, "observed": observed, "expected": expected,
                                     "size": size if size is not None else len(repr(case))})

    def finding(self, key):
        for f in self.findings:
            if f.get("key") == key:
                return f
        return None

    # ---- outcome ----------------------------------------------------------------------------
    def write_replay(self, payload, suffix=""):
        d = os.path.join(VERIF, "replays")
        os.makedirs(d, exist_ok=True)
        if os.environ.get("VERIF_HISTORY_REPLAY"):
            suffix += ".history-replay"       # a replay repeating a run must not overwrite the file it replays
        path = os.path.join(d, "%s-%s-%d%s.json" % (self.prop, self.tier, self.seed, suffix))
        with open(path, "w") as f:
            json.dump(payload, f, indent=1, default=repr)
        return os.path.relpath(path, VERIF)

    def write_evidence(self, violations):
        if os.environ.get("VERIF_HISTORY_REPLAY"):
            return                           # evidence describes checks, not replays
        proof = self.proof or {}
        thms = proof.get("theorems", [])
        n_obl = len(thms)
        n_ok = len([1 for (_, ax) in thms if all(a in ALLOWED_AXIOMS for a in ax)]) if proof.get("ok") else 0
        cov = {
            "obligations": max(n_obl, 1),
            "discharged": n_ok if proof.get("ok") else 0,
            "checker_cmd": "cd lean && lake build Props.%s && lake env lean Audit/%s.lean  (#print axioms per theorem)"
                           % (self.prop, self.prop),
            "trusted_base": TRUSTED_BASE + self.assumptions,
            "theorems": [{"name": n, "axioms": ax} for (n, ax) in thms],
            "tables_regenerated_from_source": True,
            "evaluations": self.evaluations,
            "distinct_nontrivial": len(self.distinct),
            "rule": self.rule,
            "samples": self.samples[:8] or ["(no cases generated)"],
            "exhaustive": bool(self.exhaustive),
            "correspondence_cases": self.corr_checked,
            "correspondence_disagreements": len(self.corr_disagreements),
            "correspondence_disagreements_inside_known_finding_classes": self.corr_known_class,
            "oracle_failures": len(self.oracle_failures),
            "known_finding_hits": dict(self.known_hits),
            "distribution": dict(self.tags.most_common(60)),
            "proof_problems": proof.get("problems", []),
            "notes": self.notes,
        }
        cov.update(self.extra)
        ev = {
            "property_id": self.prop,
            "tier": self.tier,
            "seed": self.seed,
            "level": self.level,
            "coverage": cov,
            "assumptions": TRUSTED_BASE + self.assumptions,
            "wall_s": round(self.elapsed(), 2),
            "violations": violations,
        }
        d = os.path.join(VERIF, "evidence")
        os.makedirs(d, exist_ok=True)
        with open(os.path.join(d, "%s.json" % self.prop), "w") as f:
            json.dump(ev, f, indent=1, default=repr)

    def finish(self, search=None, witnesses=None):
        if os.environ.get("VERIF_HISTORY_REPLAY"):
            search = None                    # a replay repeats the run; it does not start a new search
        """Apply the violation protocol. `search(ctx)` is the failing-input search run when the
        proof side or the correspondence broke without an oracle failure; it records through
        ctx.oracle_fail.  `witnesses` maps known-finding key -> callable returning True when the
        recorded witness still fails on the implementation."""
        proof_ok = bool(self.proof and self.proof["ok"])
        lines = []
        stale = []
        for f in self.findings:
            if f.get("status") != "open":
                continue
            k = f["key"]
            still = True
            if witnesses and k in witnesses:
                try:
                    still = bool(witnesses[k]())
                except Exception as e:  # the witness itself blew up: treat as still failing only if it says so
                    self.notes.append("witness %s raised %r" % (k, e))
                    still = True
            if still:
                lines.append("KNOWN-FINDING: property=%s %s" % (self.prop, f["what_fails"]))
            else:
                stale.append(k)
        broken = (not proof_ok) or bool(self.corr_disagreements) or bool(stale)
        if broken and not self.oracle_failures and search is not None:
            self.notes.append("proof/correspondence broke; running failing-input search")
            try:
                search(self)
            except InfraError:
                raise
            except Exception as e:
                self.notes.append("search raised %r" % (e,))
        rc = 0
        if self.oracle_failures:
            best = min(self.oracle_failures, key=lambda d: d["size"])
            payload = {"property": self.prop, "kind": "failing-input", "seed": self.seed, "tier": self.tier,
                       "failure": best, "other_failures": len(self.oracle_failures) - 1,
                       "proof_ok": proof_ok,
                       "proof_problems": (self.proof or {}).get("problems", []),
                       "correspondence_disagreements": [d for d in self.corr_disagreements if d][:3],
                       "replay": "./check %s --replay <this file>" % self.prop}
            path = self.write_replay(payload)
            lines.append("VIOLATION property=%s replay=%s" % (self.prop, path))
            rc = 1
        elif broken:
            payload = {"property": self.prop, "kind": "no-failing-input-found", "seed": self.seed, "tier": self.tier,
                       "no_longer_checks": ((self.proof or {}).get("problems", []) if not proof_ok else [])
                       + (["correspondence of %s" % d["function"] for d in self.corr_disagreements[:3] if d])
                       + (["known finding %s: recorded witness no longer fails (model still predicts it)" % k
                           for k in stale]),
                       "build_log": (self.proof or {}).get("build_log", "")[-3000:] if not proof_ok else "",
                       "first_disagreements": [d for d in self.corr_disagreements if d][:3]}
            path = self.write_replay(payload)
            lines.append("VIOLATION property=%s replay=%s no-failing-input-found" % (self.prop, path))
            rc = 1
        self.write_evidence(1 if rc else 0)
        for l in lines:
            print(l)
        sys.stdout.flush()
        return rc


def load_findings(prop):
    """known_findings.json is the committed file; known_findings.d/*.json are fragments written by
    work in progress on single properties (merged into the main file before release)"""
    out = []
    paths = [os.path.join(VERIF, "known_findings.json")]
    d = os.path.join(VERIF, "known_findings.d")
    if os.path.isdir(d):
        paths += [os.path.join(d, fn) for fn in sorted(os.listdir(d)) if fn.endswith(".json")]
    for path in paths:
        if not os.path.exists(path):
            continue
        with open(path) as f:
            data = json.load(f)
        out += [e for e in data.get("findings", []) if e.get("property") == prop]
    return out
