"""Random chains of IterData steps on tables with one nested level, against the by-name reference
(verif/harness/seqnest.py), including clauses that arrive after the inner child selection.

usage: PYTHONPATH=<pydap src> python scratch_nested_test.py [N] [seed]
"""
import copy
import random
import sys
from collections import Counter

sys.path.insert(0, "/tmp/w/lazy3/verif/harness")
import seqnest  # noqa: E402
from seqtab import OPS, POOL, lit_text  # noqa: E402

import pydap  # noqa: E402
from pydap.handlers.lib import ConstraintExpression as CE  # noqa: E402
from pydap.handlers.lib import IterData  # noqa: E402
from pydap.model import BaseType, SequenceType  # noqa: E402

SID = "s"
print("pydap from", pydap.__file__)

# fixed tables: (header, rows); kinds i/f/t, nested = list of (name, kind)
T1 = ([("i", "i"), ("n", [("x", "i"), ("y", "t")]), ("t", "t")],
      [(1, [(0, "a"), (3, "b"), (4, "ab")], "a"), (2, [], "b"), (3, [(7, "cd")], "cd"), (4, [(1, "a"), (2, "Z")], "Z")])
# same names across levels: outer x,y and inner x,y (other positions, other types)
T2 = ([("y", "t"), ("x", "i"), ("n", [("z", "i"), ("x", "i"), ("y", "t")])],
      [("a", 1, [(1, 2, "a"), (3, 1, "b")]), ("b", 3, [(0, 0, "b")]), ("ab", 0, []), ("b", 2, [(4, 7, "ab"), (2, 2, "a"), (3, 4, "Z")])])
# two nested children, nested first, inner names equal to outer names
T3 = ([("n", [("a", "i"), ("b", "i")]), ("i", "i"), ("m", [("i", "i")]), ("a", "f")],
      [([(1, 2), (2, 1), (3, 3)], 1, [(1,), (4,)], 0.5), ([], 2, [(2,)], 1.5), ([(0, 4)], 3, [], 2.0), ([(7, 7), (1, 0)], 0, [(0,), (3,), (7,)], 0.25)])
FIXED = [T1, T2, T3]


def make(hdr, rows):
    s = SequenceType(SID)
    for n, k in hdr:
        if isinstance(k, list):
            c = s[n] = SequenceType(n)
            for x, _ in k:
                c[x] = BaseType(x)
        else:
            s[n] = BaseType(n)
    return IterData([tuple(r) for r in rows], copy.copy(s))


def conv(x):
    if isinstance(x, IterData):
        return [conv(r) for r in x]
    if isinstance(x, tuple):
        return tuple(conv(v) for v in x)
    if isinstance(x, list):
        return [conv(v) for v in x]
    return x


def key_py(k):
    if k[0] == "str":
        return k[1]
    if k[0] == "list":
        return list(k[1])
    if k[0] == "int":
        return k[1]
    if k[0] == "sl":
        return slice(k[1], k[2], k[3])
    return CE(k[1] + k[2] + k[3])


def listing(d):
    try:
        return [conv(r) for r in d]
    except Exception as e:  # noqa
        return "iter:" + type(e).__name__


def state(d):
    t = d.template
    return (tuple(getattr(t, "_visible_keys", ())), t.id, len(d.ifilter), len(d.imap), len(d.islice), d.level,
            tuple(map(id, d.ifilter)), tuple(map(id, d.imap)), tuple(d.islice))


def gen_chain(rng, hdr, maxlen=5):
    """valid chains, biased to clauses after selections (own generator; resolved clauses as seqnest wants them)"""
    kinds = dict(hdr)
    names = [n for n, _ in hdr]
    nested = [n for n, k in hdr if isinstance(k, list)]
    ops, res = [], []
    layout = ("table", list(names))
    for _ in range(rng.randint(1, maxlen)):
        r = rng.random()
        if layout[0] in ("column", "innerColumn"):
            r = 0.8 + 0.2 * r if r > 0.25 else 0.0   # clauses on a column layout are rejected by the reference: rare
        if r < 0.4:
            id1, o, id2, rc = seqnest.gen_clause(rng, SID, hdr, junk=0.0)
            ops.append(("cond", id1, o, id2)); res.append(rc)
            continue
        res.append(None)
        if r < 0.55 and layout[0] in ("table", "innerTable"):
            vis = layout[1] if layout[0] == "table" else layout[2]
            ks = rng.sample(vis, rng.randint(1, len(vis)))
            if layout[0] == "table" and nested and rng.random() < 0.6 and not any(n in ks for n in nested):
                cand = [n for n in nested if n in vis]
                if cand:
                    ks.insert(rng.randrange(len(ks) + 1), rng.choice(cand))
            ops.append(("list", ks))
            layout = ("table", ks) if layout[0] == "table" else ("innerTable", layout[1], ks)
        elif r < 0.8 and layout[0] in ("table", "innerTable"):
            vis = layout[1] if layout[0] == "table" else layout[2]
            nf = [n for n in vis if layout[0] == "table" and n in nested]
            k = rng.choice(nf) if nf and rng.random() < 0.75 else rng.choice(vis)
            ops.append(("str", k))
            if layout[0] == "table":
                layout = ("innerTable", k, [x for x, _ in kinds[k]]) if k in nested else ("column", k)
            else:
                layout = ("innerColumn", layout[1], k)
        elif r < 0.88:
            ops.append(("int", rng.choice([0, 1, 2])))
        else:
            ops.append(("sl", rng.choice([None, 0, 1]), rng.choice([None, 2, 3]), rng.choice([None, 1, 2])))
    return ops, res


def shape_of(ops, hdr):
    kinds = dict(hdr)
    out, inner = [], False
    for k in ops:
        if k[0] == "cond":
            deep = k[1].count(".") == 2
            vs = "." in k[3] and not k[3].replace(".", "").replace("-", "").isdigit() and not k[3].startswith('"')
            out.append("CE(%s%s)%s" % ("inner" if deep else "outer", ",colcol" if vs else "", "@inner" if inner else ""))
        elif k[0] == "str":
            if not inner and isinstance(kinds.get(k[1]), list):
                inner = True
                out.append("[n]")
            else:
                out.append("[col]")
        elif k[0] == "list":
            out.append("[[..]]")
        else:
            out.append(k[0])
    return " ".join(out)


def check(hdr, rows, ops, res, stats, fails):
    exp, inner_cond = seqnest.reference(hdr, rows, ops, res)
    cur = make(hdr, rows)
    seen = [(cur, listing(cur), state(cur))]
    err = None
    for k in ops:
        try:
            cur = cur[key_py(k)]
        except Exception as e:  # noqa
            err = "getitem:" + type(e).__name__
            break
        seen.append((cur, listing(cur), state(cur)))
    valid = len(exp) == len(ops) + 1
    tag = "valid" if valid else "rejected"
    if inner_cond is not None:
        tag += ":inner-cond"
    stats[tag] += 1
    bad = None
    for n, (stream, first, st) in enumerate(seen):
        if n < len(exp) and first != exp[n]:
            bad = ("listing after %d steps" % n, first, exp[n])
            break
        # purity / re-iterability: every prefix lists the same again after all later steps, pipeline unchanged
        if listing(stream) != first or state(stream) != st:
            bad = ("prefix %d changed" % n, listing(stream), first)
            break
    if bad is None and valid and err:
        bad = ("valid program raised", err, None)
    if bad:
        fails.append((shape_of(ops, hdr), hdr, ops, bad))
    return bad is None


def commute_check(hdr, rows, ops, stats, fails):
    """filters first: the chain lists what the chain with all its clauses moved to the front lists (covers clauses
    arriving on a column / inner column layout, which the reference does not accept)"""
    conds = [k for k in ops if k[0] == "cond"]
    rest = [k for k in ops if k[0] != "cond"]
    outs = []
    for prog in (ops, conds + rest):
        cur = make(hdr, rows)
        try:
            for k in prog:
                cur = cur[key_py(k)]
            outs.append(listing(cur))
        except Exception as e:  # noqa
            outs.append("getitem:" + type(e).__name__)
    if isinstance(outs[1], str):   # the clauses-first chain is itself ill-formed: nothing to compare
        return
    stats["commute"] += 1
    if outs[0] != outs[1]:
        fails.append(("commute: " + shape_of(ops, hdr), hdr, ops, ("chain vs clauses-first", outs[0], outs[1])))


def main():
    n = int(sys.argv[1]) if len(sys.argv) > 1 else 600
    rng = random.Random(int(sys.argv[2]) if len(sys.argv) > 2 else 17)
    stats, fails = Counter(), []

    # the chains named in the task, on T1
    hdr, rows = T1
    IN = ("cond", "s.n.x", ">", "2"); INR = ("inner", "n", "x", ">", ("const", 2))
    OUT = ("cond", "s.i", ">", "1"); OUTR = ("outer", "i", ">", ("const", 1))
    named = [
        ([("str", "n"), IN], [None, INR]),
        ([("str", "n"), ("list", ["y"]), IN], [None, None, INR]),
        ([("str", "n"), OUT], [None, OUTR]),
        ([("str", "n"), ("list", ["y"]), OUT, IN, ("sl", 1, None, None)], [None, None, OUTR, INR, None]),
        ([("list", ["i", "t"]), ("cond", "s.n.y", "!=", '"a"')], [None, ("inner", "n", "y", "!=", ("const", "a"))]),
        ([("list", ["t", "n"]), ("str", "n"), ("cond", "s.n.y", "!=", '"a"'), ("str", "x")],
         [None, None, ("inner", "n", "y", "!=", ("const", "a")), None]),
    ]
    for ops, res in named:
        ok = check(hdr, rows, ops, res, stats, fails)
        print("named", "ok  " if ok else "FAIL", ops)
    for ops in ([("str", "n"), ("str", "x"), IN], [("str", "i"), OUT], [("str", "n"), ("str", "y"), OUT, IN]):
        before = len(fails)
        commute_check(hdr, rows, ops, stats, fails)
        print("named", "ok  " if len(fails) == before else "FAIL", "(clauses-first)", ops)

    T2h, T2r = T2
    ops = [("str", "n"), ("cond", "s.n.x", ">", "s.n.z"), ("list", ["y"])]
    ok = check(T2h, T2r, ops, [None, ("inner", "n", "x", ">", ("name", "z")), None], stats, fails)
    print("named", "ok  " if ok else "FAIL", ops)

    for j in range(n):
        hdr, rows = seqnest.gen_table(rng) if j % 4 == 3 else FIXED[j % 3]
        if j % 2:
            ops, res = gen_chain(rng, hdr)
        else:
            ops, res = seqnest.gen_program(rng, SID, hdr, maxlen=5)
        check(hdr, rows, ops, res, stats, fails)
        commute_check(hdr, rows, ops, stats, fails)

    print("programs:", dict(stats))
    shapes = Counter(f[0] for f in fails)
    print("failures: %d" % len(fails))
    for s, c in shapes.most_common(40):
        print("  %4d  %s" % (c, s))
    for f in fails[:5]:
        print("example:", f[1], f[2], f[3])
    return 1 if fails else 0


if __name__ == "__main__":
    sys.exit(main())
