#!/usr/bin/env python3
"""usage: new_seed.py <PROP> <suffix> <kinds text>  — scratch worktree /tmp/seed/<name> of /repo HEAD and its prompt
/tmp/seed/<name>.prompt.md (property text only + the changes already delivered for it; nothing else from /verif)."""
import glob, json, os, subprocess, sys
P, suf, kinds = sys.argv[1], sys.argv[2], sys.argv[3]
name = P.lower() + suf
d = "/tmp/seed/" + name
os.makedirs("/tmp/seed", exist_ok=True)
subprocess.check_call(["git", "-C", "/repo", "worktree", "add", "-q", "--detach", d, "HEAD"])
prop = [json.loads(l) for l in open("/verif/properties.jsonl") if json.loads(l)["id"] == P][0]
ptext = "%s — %s\n\nStatement: %s\n\nQuantified over: %s\n\nWhere it lives: %s" % (
    P, prop["title"], prop["statement"], prop["quantifier"]["text"],
    ", ".join(prop["anchors"]["files"]))
t = open("/verif/tools/PROMPT_SEED.md").read().replace("@DIR@", d).replace("@PROPERTY@", ptext)
prev = []
for m in sorted(glob.glob("/verif/seeded/%s-*/meta.json" % P)):
    prev.append("  - " + str(json.load(open(m)).get("what_changed", ""))[:260].replace("\n", " "))
t += "\n\nADDITIONAL CONSTRAINTS: other engineers already delivered these changes for this property (yours must use a DIFFERENT mechanism in a DIFFERENT function):\n" + "\n".join(prev)
t += "\nFor this round, make the fault one of these kinds (whichever fits the code best): " + kinds
t += "\nThe repository's recent git history contains many `fix:` commits; your change must break the property on the CURRENT tree and must not simply revert one of those commits.\n"
t += "Put all demo code under `if __name__ == \"__main__\":` (pytest --doctest-modules imports every .py file in the tree).\n"
open(d + ".prompt.md", "w").write(t)
print(name)
