#!/bin/bash
# usage: import_seed.sh <seedname e.g. c12a> <PROP e.g. C12>   -> /verif/seeded/<PROP>-<suffix>/
n=$1; P=$2; suf=${n#c??}; d=/verif/seeded/$P-$suf; mkdir -p $d
cp /tmp/seed/$n/_seed/patch.diff /tmp/seed/$n/_seed/demo.py $d/
python3 - $n $d $P <<'PY'
import json,sys
n,d,P=sys.argv[1:]
m=json.load(open('/tmp/seed/%s/_seed/meta.json'%n))
m['property_text']=m.get('property'); m['property']=P
json.dump(m,open(d+'/meta.json','w'),indent=1)
PY
# confirm: demo passes on clean /repo, fails on a scratch copy with the patch
tmp=$(mktemp -d /tmp/seedchk-XXXX); git -C /repo worktree add -q --detach $tmp/repo HEAD
/venv/bin/python $d/demo.py /repo >/dev/null 2>&1; c=$?
if git -C $tmp/repo apply $d/patch.diff 2>/dev/null; then
  /venv/bin/python $d/demo.py $tmp/repo >/dev/null 2>&1; m=$?
  t=$(cd $tmp/repo && PYTHONPATH=$tmp/repo/src /venv/bin/python -m pytest -q -p no:cacheprovider --timeout=900 --continue-on-collection-errors 2>&1 | tail -1)
else m="patch-does-not-apply"; t=""; fi
git -C /repo worktree remove --force $tmp/repo; rm -rf $tmp
echo "$P-$suf: demo clean rc=$c mutant rc=$m tests: $t"
