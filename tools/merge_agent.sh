#!/bin/bash
# usage: merge_agent.sh <name>   — merge branch agent-<name> into /verif main, regenerating generated roots
set -e
cd /verif
git merge --no-commit --no-ff agent-$1 >/tmp/merge_$1.log 2>&1 || true
git diff --name-only --diff-filter=U | grep "^evidence/" | xargs -r git checkout --ours -- 2>/dev/null || true
for f in lean/PydapModel.lean lean/Proofs.lean lean/Props.lean lean/Driver.lean lean/Main.lean MANIFEST.json; do
  git checkout --ours -- $f 2>/dev/null || true
done
/venv/bin/python harness/extract.py --write
python3 harness/manifest.py
git add -A
if git diff --cached --name-only --diff-filter=U | grep -q .; then echo "UNRESOLVED:"; git diff --name-only --diff-filter=U; exit 1; fi
git status --short | grep -E '^(UU|AA|DU|UD)' && { echo unresolved; exit 1; }
git commit -qm "merge agent-$1" && echo merged
