#!/bin/bash
# usage: new_agent.sh <name>  — scratch worktrees /tmp/w/<name>/{verif,repo} on branches agent-<name>, with a warm Lean build
set -e
n=$1; mkdir -p /tmp/w/$n
git -C /verif worktree add -q -b agent-$n /tmp/w/$n/verif HEAD
git -C /repo worktree add -q -b agent-$n /tmp/w/$n/repo HEAD
cp -r /verif/lean/.lake /tmp/w/$n/verif/lean/.lake 2>/dev/null || true
cp -r /verif/lean/PydapModel/Generated /tmp/w/$n/verif/lean/PydapModel/ 2>/dev/null || true
(cd /tmp/w/$n/verif && VERIF_REPO=/tmp/w/$n/repo /venv/bin/python harness/extract.py --write && cd lean && lake build PydapModel Driver Proofs Props driver 2>&1 | tail -1)
