"""(Re)generate the as-built sections at the end of DESIGN.md between the markers, from Props/*.lean, the manifest
sidecars, design_notes/, known_findings.json and seeded/results.json."""
import glob
import json
import os
import re

V = os.path.dirname(os.path.dirname(os.path.abspath(__file__)))
BEGIN = "<!-- BEGIN GENERATED AS-BUILT SECTIONS -->"
END = "<!-- END GENERATED AS-BUILT SECTIONS -->"


def strip_comments(text):
    out, i, depth, n = [], 0, 0, len(text)
    while i < n:
        if text.startswith("/-", i):
            depth += 1; i += 2
        elif depth and text.startswith("-/", i):
            depth -= 1; i += 2
        elif depth:
            i += 1
        elif text.startswith("--", i):
            while i < n and text[i] != "\n":
                i += 1
        else:
            out.append(text[i]); i += 1
    return "".join(out)


def theorems(pid):
    p = os.path.join(V, "lean", "Props", pid + ".lean")
    if not os.path.exists(p):
        return []
    return re.findall(r"^\s*theorem\s+([A-Za-z0-9_'.]+)", strip_comments(open(p).read()), re.M)


def main():
    props = [json.loads(l) for l in open(os.path.join(V, "properties.jsonl"))]
    out = [BEGIN, "", "## 13. As built — per property (generated; details in `design_notes/Cxx.md`)", ""]
    loc = {}
    for root in ("PydapModel", "Proofs", "Props", "Driver"):
        n = 0
        for f in glob.glob(os.path.join(V, "lean", root, "**", "*.lean"), recursive=True):
            n += sum(1 for _ in open(f))
        loc[root] = n
    out.append("Lean development: models %d lines, proofs %d, property files %d, drivers %d; harness %d lines of Python."
               % (loc["PydapModel"], loc["Proofs"], loc["Props"], loc["Driver"],
                  sum(sum(1 for _ in open(f)) for f in glob.glob(os.path.join(V, "harness", "**", "*.py"), recursive=True))))
    out.append("")
    for p in props:
        pid = p["id"]
        side = os.path.join(V, "harness", "props", pid.lower() + ".manifest.json")
        out.append("### %s — %s" % (pid, p["title"]))
        if not os.path.exists(side):
            out.append("*(no check registered)*\n")
            continue
        m = json.load(open(side))
        th = theorems(pid)
        ref = [t for t in th if "refuted" in t]
        par = [t for t in th if "partial" in t]
        out.append("*Theorems (%d; %d refuted / %d partial):* %s" % (len(th), len(ref), len(par), ", ".join("`%s`" % t for t in th)))
        out.append("")
        out.append("*What the check claims:* " + m["text"])
        out.append("")
        out.append("*Assumed / not covered:* " + m["note"])
        out.append("")
    # findings
    kf = json.load(open(os.path.join(V, "known_findings.json")))
    out += ["## 14. Defects found in pydap: repaired (`fix:` commits in /repo) and open findings (generated from known_findings.json)", ""]
    out.append("**Open findings (%d)** — each is a narrow input class with a witness that is replayed on every run; a violation "
               "outside the class is still reported." % len(kf["findings"]))
    out.append("")
    for f in kf["findings"]:
        out.append("* `%s` (%s): %s — witness: %s" % (f["key"], f["property"], f["what_fails"], str(f.get("witness"))[:200]))
    out.append("")
    out.append("**Repaired (%d `fix:` commits)**" % len(kf["fixed"]))
    out.append("")
    for line in kf["fixed"]:
        out.append("* " + line[len("fixed: "):] if line.startswith("fixed: ") else "* " + line)
    out.append("")
    # seeded
    rp = os.path.join(V, "seeded", "results.json")
    out += ["## 15. Which checks catch which changes (generated from seeded/results.json by tools/run_seeded.py)", ""]
    if os.path.exists(rp):
        res = json.load(open(rp))
        out.append("| change | check | outcome | what it needs in order to manifest |")
        out.append("|---|---|---|---|")
        for r in res:
            out.append("| %s | %s | %s | %s |" % (r["patch"].replace("/patch.diff", ""), r.get("check", ""), r["result"],
                                                  (r.get("needs") or r.get("detail", "")).replace("|", "/").replace("\n", " ")[:220]))
    else:
        out.append("(not yet generated)")
    out += ["", END, ""]
    text = open(os.path.join(V, "DESIGN.md")).read()
    if BEGIN in text:
        text = text[:text.index(BEGIN)] + "\n".join(out) + text[text.index(END) + len(END):].lstrip("\n")
    else:
        text = text.rstrip("\n") + "\n\n" + "\n".join(out)
    open(os.path.join(V, "DESIGN.md"), "w").write(text)


if __name__ == "__main__":
    main()
