/-
  C05 — data responses are byte-exact DAP2/XDR; the client decodes any conforming stream.
  Property statements only; helper lemmas are in `Proofs/Xdr*.lean`.
  `XdrSpec.enc` is the independent reference encoder, `Xdr.encImpl`/`Xdr.decImpl`/`Xdr.calcSize`/
  `Xdr.splitBody` model responses/dods.py and handlers/dap.py.
-/
import PydapModel.XdrTypes
import PydapModel.XdrSpec
import PydapModel.Xdr
import Proofs.XdrBasic
import Proofs.XdrEnc
import Proofs.XdrDec
import Proofs.XdrSize
import Proofs.XdrPrefix
import Proofs.DodsSrc
import Proofs.XdrStream
import Proofs.XdrFuel
import Proofs.XdrNoFuel
import Proofs.XdrSrc
import Proofs.XdrAudit
import PydapModel.Handler
import Proofs.Handler
import Proofs.HandlerWF
import Proofs.HandlerWire
import Proofs.HandlerTyped
import Proofs.HandlerDdsSplit
namespace Pydap.C05
open Pydap Pydap.Xdr
open Pydap.Stream (SR srRead absSR)

/-- numpy dtype chars of the property's domain: (kind, itemsize); kinds f(loat) i(nt) u(int) b(ool) S(tring) -/
def numpyInfo : List (String × Char × Nat) :=
  [("d", 'f', 8), ("f", 'f', 4), ("h", 'i', 2), ("H", 'u', 2), ("i", 'i', 4), ("I", 'u', 4),
   ("b", 'i', 1), ("B", 'u', 1), ("?", 'b', 1), ("S", 'S', 0), ("U", 'S', 0)]

/-- (kind, itemsize) of a wire dtype string -/
def wireInfo : String → Option (Char × Nat)
  | ">d" => some ('f', 8) | ">f" => some ('f', 4) | ">i" => some ('i', 4) | ">I" => some ('u', 4)
  | "B" => some ('u', 1) | "S" => some ('S', 0) | _ => none

/-- `astype` from (k, w) to (k', w') keeps every value -/
def lossless : Char × Nat → Char × Nat → Bool
  | ('f', w), ('f', w') => w == w'
  | ('i', w), ('i', w') => w ≤ w'
  | ('u', w), ('u', w') => w ≤ w'
  | ('u', w), ('i', w') => w < w'
  | ('b', _), ('u', _) => true
  | ('S', _), ('S', _) => true
  | _, _ => false

/-- **type tables** (re-elaborated against lib.py on every run): every numpy dtype of the domain is
    served as a DAP2 type whose wire dtype holds all its values; 64-bit integer dtypes (`l q L Q`, for
    which DAP2 has no type) are mapped to the 32-bit types; the wire widths are XDR's 4/4/4/4/4/8 with
    packed Bytes; the parser hands the client 1/2/2/4/4/4/8-byte values; the array length word is a
    big-endian signed 32-bit integer; the markers are 0x5A000000 / 0xA5000000 -/
theorem C05_widths :
    (∀ e ∈ numpyInfo, ∃ ty, tyOfNumpyChar e.1 = some ty ∧
        ((wireInfo (wireStr ty)).map (lossless e.2)) = some true) ∧
    (∀ c ∈ ["l", "q"], tyOfNumpyChar c = some .int32) ∧ (∀ c ∈ ["L", "Q"], tyOfNumpyChar c = some .uint32) ∧
    (Ty.all.map wireWidth = [1, 4, 4, 4, 4, 4, 8, 0]) ∧
    (Ty.all.map parserWidth = [1, 2, 2, 4, 4, 4, 8, 128]) ∧
    (Ty.all.map wireChar = ['B', 'i', 'I', 'i', 'I', 'f', 'd', 'S']) ∧
    (Ty.all.map parserChar = ['B', 'h', 'H', 'i', 'I', 'f', 'd', 'S']) ∧
    Gen.DAP2_ARRAY_LENGTH_NUMPY_TYPE = ">i" ∧
    Gen.START_OF_SEQUENCE = [0x5A, 0, 0, 0] ∧ Gen.END_OF_SEQUENCE = [0xA5, 0, 0, 0] := by
  decide

/-- **the encoder is byte-exact**: for every declaration and every value of it, pydap's `dods()`
    emits exactly the reference DAP2/XDR encoding (all types, ranks, nesting; flat and nested sequences,
    empty ones and empty strings included) -/
theorem C05_encoder_exact (t : Tmpl) (d : Data) (h : WF t d = true) :
    encImpl t d = XdrSpec.enc t d :=
  encImpl_eq t d h

/-- **the decoder accepts every conforming stream**: the client decodes a reference-encoded response
    to the reference values and consumes exactly the encoded bytes -/
theorem C05_decoder_total (t : Tmpl) (d : Data) (rest : Bytes) (h : WF t d = true) :
    decImpl t (XdrSpec.enc t d ++ rest) = .ok (d, rest) :=
  decImpl_enc t d rest h

/-- **the decoder reads strictly, and only what it consumes matters**: on *any* stream (conforming or
    not), a successful decode is unchanged when bytes are appended — the values are the same and the
    appended bytes are left unread (every `BytesReader.read` either delivers its `n` bytes or raises;
    no decision depends on what lies beyond the consumed bytes, nor on the fuel) -/
theorem C05_decoder_prefix_stable (t : Tmpl) (s q : Bytes) (d : Data) (r : Bytes)
    (h : decImpl t s = .ok (d, r)) : decImpl t (s ++ q) = .ok (d, r ++ q) :=
  decImpl_ext t s q d r h

/-- **a truncated response raises**: on every proper prefix of a conforming stream some `read` meets the end
    of the data — the result is the reader's end-of-data error (`EOFError` of the strict `BytesReader` of fix
    72d8e7c), not a value and not any other failure (in particular never the model's own `fuel`; before that
    fix a stream cut at a record boundary or inside a string decoded to fewer rows / shorter strings) -/
theorem C05_truncated_rejected (t : Tmpl) (d : Data) (p q : Bytes) (h : WF t d = true)
    (he : XdrSpec.enc t d = p ++ q) (hq : q ≠ []) : decImpl t p = .error .short :=
  decImpl_prefix_short t d p q h he hq

/-- … and through a `StreamReader` (`StopIteration`), for every chunking of the truncated stream -/
theorem C05_truncated_rejected_stream (t : Tmpl) (d : Data) (cs : List Bytes) (q : Bytes) (h : WF t d = true)
    (he : XdrSpec.enc t d = cs.flatten ++ q) (hq : q ≠ []) : absSR (decStream t cs) = .error .eof := by
  rw [decStream_eq, decImpl_prefix_short t d cs.flatten q h he hq]
  rfl

/-- **fuel adequacy on every stream** (conforming or not): the loops of the model never run out of the fuel
    `decImpl` passes — the model's own error `fuel` does not occur, every error it reports is one the Python raises -/
theorem C05_fuel_adequate (t : Tmpl) (s : Bytes) : decImpl t s ≠ .error .fuel :=
  decImpl_nf t s

/-- the fuel of the model is immaterial on *any* stream: every amount that covers the stream gives `decImpl` -/
theorem C05_fuel_immaterial (t : Tmpl) (s : Bytes) (f : Nat) (h : fuelFor t s ≤ f) : dec f t s = decImpl t s :=
  decImpl_fuel t s f h

/-- **Content-Length**: whenever `calculate_size` announces a length it is the length of the body
    (DDS ‖ `Data:\n` ‖ XDR) for every value of the declaration -/
theorem C05_content_length (dds : Bytes) (t : Tmpl) (d : Data) (n : Nat) (h : WF t d = true)
    (hc : calcSize dds t = some n) : n = (body dds t d).length := by
  unfold calcSize at hc
  cases hd : calcData t with
  | none => simp [hd] at hc
  | some m =>
    simp [hd] at hc
    have := calcData_length d t m h hd
    simp [body, encImpl_eq t d h, this]
    omega

/-- `calculate_size` declines (no header) exactly for declarations containing a sequence or a string:
    stated on the two leaf cases that make it decline -/
theorem C05_content_length_declines (dds : Bytes) (cs : List Tmpl) (sh : List Nat) :
    calcSize dds (.seq cs) = none ∧ calcSize dds (.base .string sh) = none := by
  have hS : wireChar .string = 'S' := by decide
  simp [calcSize, calcData, hS]

/-- **`calculate_size` declines exactly when it must** (round 7; replaces the two leaf cases above as the general
    statement): no Content-Length is announced if and only if the declaration contains a Sequence or a String
    variable at any depth (`Tmpl.streamed`, Proofs/XdrAudit.lean) — for every other declaration a length IS announced,
    and by `C05_content_length` it is the real one -/
theorem C05_content_length_declines_iff (dds : Bytes) (t : Tmpl) :
    calcSize dds t = none ↔ t.streamed = true :=
  calcSize_none_iff dds t

/-- … so for a declaration without Sequence and String the header is present and right, for every value -/
theorem C05_content_length_present (dds : Bytes) (t : Tmpl) (d : Data) (h : WF t d = true)
    (hs : t.streamed = false) : calcSize dds t = some (body dds t d).length := by
  cases hc : calcSize dds t with
  | none => rw [(calcSize_none_iff dds t).mp hc] at hs; cases hs
  | some n => rw [C05_content_length dds t d n h hc]

/-! ### the whole data response of a request (round 7: the clauses "from the same constrained dataset", "its embedded
    DDS equals the DDS response for the same request", "for all in-range constraint expressions")

`Handler.respond fmt ds ext q` (PydapModel/Handler.lean, tied by C06/C15's correspondence `h-handle`) is the answer of
`BaseHandler` to `/d.<ext>?q`; `Handler.constrained ds q` is `parse_ce` + selection + projection + hyperslabs.  The
theorem below composes that model with the codec: for every source dataset that is well formed and typed (every value a
value of the DAP2 type its variable declares) and EVERY query string that yields a constrained dataset (in-range
hyperslabs on arrays / grids / structure members, sequence projections, ranges, selections, repeated items), the body of
the data response is, byte for byte, the body of the DDS response for the same query, `Data:\n`, and the REFERENCE
encoding of the constrained dataset; an announced Content-Length is its length; and the client's decoder reads the
reference bytes back to the constrained data.  Hypothesis `Shaped`: the constrained declaration has no empty
container and no array of ≥ 2^31 elements (outside C01's domain).  The model's values are integers and strings: floats
occur as the bit patterns of integral values only (`f32bits`/`f64bits`); NaN/inf/−0.0 reach the wire through `encImpl`
(`C05_encoder_exact`, `C05_representation_exact`), not through this composition. -/
theorem C05_constrained_response_exact (fmt : Int → Handler.Str) (ds cds : Handler.Dataset) (q : Handler.Str)
    (hw : ds.WF) (ht : ds.TY) (h : Handler.constrained ds q = .ok cds) (hs : cds.Shaped) :
    Handler.respond fmt ds cs!"dds" q = .ok .dds (.complete (Handler.ddsText cds)) ∧
    Handler.respond fmt ds cs!"dods" q = .ok .dods (.complete (Handler.ddsText cds ++ cs!"Data:\n" ++
      Handler.bytesStr (XdrSpec.enc (Handler.tmplOf cds) (Handler.dataOf cds)))) ∧
    WF (Handler.tmplOf cds) (Handler.dataOf cds) = true ∧
    (∀ n, Handler.contentLength cds = some n → (Handler.ddsText cds ++ cs!"Data:\n" ++
      Handler.bytesStr (XdrSpec.enc (Handler.tmplOf cds) (Handler.dataOf cds))).length = n) ∧
    decImpl (Handler.tmplOf cds) (XdrSpec.enc (Handler.tmplOf cds) (Handler.dataOf cds))
      = .ok (Handler.dataOf cds, []) := by
  have hcw := Handler.constrained_wf ds cds q hw h
  have hx := Handler.xdrWF_of_typed cds hcw (Handler.constrained_ty ds cds q ht h) hs
  have hp : Handler.payload cds = XdrSpec.enc (Handler.tmplOf cds) (Handler.dataOf cds) := encImpl_eq _ _ hx
  have e1 : Handler.rsplitDot (cs!"/d." ++ cs!"dds") = some (cs!"/d", cs!"dds") := by decide
  have e2 : Handler.rsplitDot (cs!"/d." ++ cs!"dods") = some (cs!"/d", cs!"dods") := by decide
  have n1 : (cs!"dds" = cs!"das") = False := by decide
  have n2 : (cs!"dods" = cs!"das") = False := by decide
  have k1 : Handler.lookupKind cs!"dds" = some .dds := by decide
  have k2 : Handler.lookupKind cs!"dods" = some .dods := by decide
  refine ⟨?_, ?_, hx, ?_, ?_⟩
  · unfold Handler.respond Handler.handle
    rw [Handler.guarded_eq ds _ q _ _ e1]; simp only [n1, if_false, h, k1]; rfl
  · rw [← hp]
    unfold Handler.respond Handler.handle
    rw [Handler.guarded_eq ds _ q _ _ e2]; simp only [n2, if_false, h, k2]; rfl
  · intro n hn
    rw [← hp]
    exact Handler.contentLength_body cds hcw n hn
  · have := decImpl_enc (Handler.tmplOf cds) (Handler.dataOf cds) [] hx
    rwa [List.append_nil] at this

/-- non-vacuity of `C05_constrained_response_exact`: Byte flags[6] (values ≥ 128 too) followed by Int32 v[3], the
    request `flags[1:3],v` — every hypothesis is met, and the data response is DDS ‖ `Data:` ‖ 3 Bytes + 1 pad ‖ v -/
def exDs : Handler.Dataset := ⟨cs!"d", [
  .base { name := cs!"flags", ty := cs!"Byte", shape := [6], dims := [], data := [10, 200, 12, 255, 14, 15] },
  .base { name := cs!"v", ty := cs!"Int32", shape := [3], dims := [], data := [100, 200, 300] }]⟩
def exCds : Handler.Dataset := ⟨cs!"d", [
  .base { name := cs!"flags", ty := cs!"Byte", shape := [3], dims := [], data := [200, 12, 255],
          view := some ⟨[6], [10, 200, 12, 255, 14, 15], [⟨1, 4, 1⟩]⟩ },
  .base { name := cs!"v", ty := cs!"Int32", shape := [3], dims := [], data := [100, 200, 300] }]⟩
example : Handler.constrained exDs cs!"flags[1:3],v" = .ok exCds := by decide +kernel
example : exDs.WF := by
  intro v hv; simp [exDs] at hv; rcases hv with rfl | rfl <;> exact ⟨rfl, rfl, trivial⟩
example : exDs.TY ∧ exCds.Shaped := by
  refine ⟨?_, by simp [exCds], ?_⟩
  · intro v hv; simp [exDs] at hv
    rcases hv with rfl | rfl <;> intro x hx <;> simp [Handler.Base.srcData] at hx <;>
      rcases hx with rfl | rfl | rfl | rfl | rfl | rfl <;> (unfold Handler.okVal; decide)
  · intro v hv; simp [exCds] at hv
    rcases hv with rfl | rfl <;> simp [Handler.Var.Shaped, Handler.Base.Small, Handler.prod]
example : XdrSpec.enc (Handler.tmplOf exCds) (Handler.dataOf exCds)
    = [0,0,0,3, 0,0,0,3, 200,12,255,0,  0,0,0,3, 0,0,0,3, 0,0,0,100, 0,0,0,200, 0,0,1,44] := by decide +kernel
example : (Tmpl.struct [.base .int32 [2], .struct [.base .float64 []]]).streamed = false ∧
    (Tmpl.struct [.base .int32 [2], .struct [.base .string []]]).streamed = true ∧
    (Tmpl.struct [.struct [.seq [.base .int32 []]]]).streamed = true := by decide

/-- **the embedded DDS**: the body is DDS ‖ `Data:\n` ‖ XDR; when the separator `\nData:\n` does not
    occur earlier (no DDS line is `Data:`; checked on every real DDS by the harness) the client's split
    returns exactly the DDS (without its final newline) and the XDR bytes -/
theorem C05_dds_embedded (dds0 : Bytes) (t : Tmpl) (d : Data)
    (hno : ∀ i, i < dds0.length →
      ¬ splitPattern.isPrefixOf ((dds0 ++ splitPattern ++ encImpl t d).drop i) = true) :
    body (dds0 ++ [10]) t d = dds0 ++ splitPattern ++ encImpl t d ∧
    splitBody (body (dds0 ++ [10]) t d) = some (dds0, encImpl t d) := by
  have e : body (dds0 ++ [10]) t d = dds0 ++ splitPattern ++ encImpl t d := by
    simp [body, splitPattern]
  refine ⟨e, ?_⟩
  rw [e]
  exact splitFirst_at splitPattern (by decide) dds0 (encImpl t d) hno

/-- **the embedded DDS of a served response — the separator hypothesis discharged** (round 7).  `C05_dds_embedded`
    assumes that `\nData:\n` does not occur inside the DDS.  For the DDS the handler model prints this is now PROVED
    (`Handler.ddsText_sepFree`, Proofs/HandlerDdsSplit.lean: after the first line every line starts with a space or `}`),
    whenever the names, type names and dimension names of the constrained dataset are ASCII without a newline
    (`Dataset.Plain`; pydap %-quotes names, type names come from a table).  So, for every request as in
    `C05_constrained_response_exact`: the DDS response is `s0 ‖ \n`, and the client's `raw.split(b"\nData:\n", 1)` of the
    data response returns exactly `s0` — the DDS response without its final newline — and the reference bytes. -/
theorem C05_dds_embedded_served (fmt : Int → Handler.Str) (ds cds : Handler.Dataset) (q : Handler.Str)
    (hw : ds.WF) (ht : ds.TY) (h : Handler.constrained ds q = .ok cds) (hs : cds.Shaped) (hp : cds.Plain) :
    ∃ s0 body, Handler.respond fmt ds cs!"dds" q = .ok .dds (.complete (s0 ++ ['\n'])) ∧
      Handler.respond fmt ds cs!"dods" q = .ok .dods (.complete body) ∧
      splitBody (Handler.strBytes body)
        = some (Handler.strBytes s0, XdrSpec.enc (Handler.tmplOf cds) (Handler.dataOf cds)) := by
  obtain ⟨s0, e, hsf⟩ := Handler.ddsText_sepFree cds hp
  obtain ⟨r1, r2, _, _, _⟩ := C05_constrained_response_exact fmt ds cds q hw ht h hs
  refine ⟨s0, _, by rw [← e]; exact r1, r2, ?_⟩
  rw [e]
  have : Handler.strBytes (s0 ++ ['\n'] ++ cs!"Data:\n" ++
      Handler.bytesStr (XdrSpec.enc (Handler.tmplOf cds) (Handler.dataOf cds)))
      = Handler.strBytes s0 ++ splitPattern ++ XdrSpec.enc (Handler.tmplOf cds) (Handler.dataOf cds) := by
    rw [Handler.strBytes_append, Handler.strBytes_append, Handler.strBytes_append, Handler.strBytes_bytesStr]
    simp [splitPattern, dataMarker, Handler.strBytes]
  rw [this]
  exact E2E.split_sepFree _ _ hsf

example : exCds.Plain := by
  refine ⟨E2E.plain_lit _ (by decide), ?_⟩
  intro v hv; simp [exCds] at hv
  rcases hv with rfl | rfl <;>
    exact ⟨E2E.plain_lit _ (by decide), E2E.plain_lit _ (by decide), by simp⟩

/-! ### the streaming readers (`StreamReader`: `open_dods_url`, `SequenceProxy.__iter__`)

The decoder touches its stream only through `read n` (`decD`, the interaction tree of `dec`; the harness
compares the real decoder's logged reads with `decTrace`), and among those reads are reads of length 0:
`read(k)` of an empty string, `read(-k % 4)` / `read(-n % 4)` when no padding is due, `read(count)` of a
zero-length array — possibly as the very last read, when the stream is already exhausted. -/

/-- **a read of length 0 never touches the iterator**: in every reader state — the exhausted one included —
    `StreamReader.read(0)` returns `b""` and leaves the reader as it was -/
theorem C05_read_zero (r : SR) : srRead 0 r = .ok ([], r) := by
  obtain ⟨cs, buf⟩ := r
  cases cs <;> simp [srRead, Stream.srFill]

/-- **the streaming decoder is a function of the concatenated bytes**: over a `StreamReader` fed with *any*
    chunking `cs` (empty chunks, 1-byte chunks, a boundary anywhere, the stream exhausted before the final
    zero-length reads) of *any* byte string, conforming or not, `unpack_dap2_data` returns what it returns over
    a `BytesReader` on `cs.flatten` — the same value and the same bytes left unread, or the same error -/
theorem C05_stream_chunk_independent (t : Tmpl) (cs : List Bytes) :
    absSR (decStream t cs) = mapE (decImpl t cs.flatten) :=
  decStream_eq t cs

/-- … from any reader state (bytes already buffered, chunks still to come): `SequenceProxy.__iter__` starts
    its reader on the rest of the chunk in which `Data:\n` ended -/
theorem C05_stream_state_independent (t : Tmpl) (r : SR) :
    absSR (decStreamFrom t r) = mapE (decImpl t r.abs) :=
  decStreamFrom_eq t r

theorem C05_stream_two_chunkings (t : Tmpl) (cs cs' : List Bytes) (h : cs.flatten = cs'.flatten) :
    absSR (decStream t cs) = absSR (decStream t cs') := by
  rw [C05_stream_chunk_independent, C05_stream_chunk_independent, h]

/-- **the streaming client decodes every conforming response, however it is delivered**: the reference values,
    exactly the bytes that follow the encoding left in the reader (none when nothing follows: the final reads
    of length 0 succeed on the exhausted stream) -/
theorem C05_stream_decoder_total (t : Tmpl) (d : Data) (rest : Bytes) (cs : List Bytes) (h : WF t d = true)
    (hcs : cs.flatten = XdrSpec.enc t d ++ rest) : absSR (decStream t cs) = .ok (d, rest) := by
  rw [C05_stream_chunk_independent, hcs, C05_decoder_total t d rest h]
  rfl

/-- **`open_dods_url`** (`StreamReader(BytesIO(data))`: the chunks are the *lines* of the data part, i.e.
    decided by where 0x0A bytes happen to fall in the values) returns the DDS and the reference values for
    every conforming response (`hno`: the separator does not occur inside the DDS, as in `C05_dds_embedded`) -/
theorem C05_open_dods_url (dds0 : Bytes) (t : Tmpl) (d : Data) (tail : Bytes) (h : WF t d = true)
    (hno : ∀ i, i < dds0.length →
      ¬ splitPattern.isPrefixOf ((dds0 ++ splitPattern ++ (XdrSpec.enc t d ++ tail)).drop i) = true) :
    openDodsUrl t (dds0 ++ splitPattern ++ (XdrSpec.enc t d ++ tail)) = some (dds0, .ok d) := by
  rw [openDodsUrl_eq]
  unfold splitBody
  rw [splitFirst_at splitPattern (by decide) dds0 _ hno]
  simp [C05_decoder_total t d tail h, mapE, Stream.fstOf]

/-- **`SequenceProxy.__iter__`** (search for `Data:\n` across the chunks, `StreamReader` over the rest,
    `unpack_sequence` — any columns: strings, Bytes, 16-bit integers, inner sequences) is a function of the
    concatenated response -/
theorem C05_seq_proxy_chunk_independent (t : Tmpl) (cs : List Bytes) :
    seqProxy t cs = seqProxySpec t cs.flatten :=
  seqProxy_eq t cs

/-- … and yields the reference rows of every conforming sequence response, for every chunking
    (`hfirst`: the data part is what follows the first `Data:\n` of the response — see
    `C09_find_pattern_first_occurrence`) -/
theorem C05_seq_proxy_total (t : Tmpl) (d : Data) (tail : Bytes) (cs : List Bytes) (h : WF t d = true)
    (hfirst : Stream.afterFirst Stream.dataPattern cs.flatten = some (XdrSpec.enc t d ++ tail)) :
    seqProxy t cs = .ok d := by
  rw [seqProxy_eq]
  unfold seqProxySpec
  rw [hfirst]
  simp [C05_decoder_total t d tail h, mapE, Stream.fstOf]

/-! ### non-vacuity -/

def exT : Tmpl := .struct [.base .byte [3], .base .int16 [], .base .string [2],
  .seq [.base .int32 [], .base .string []], .seq [.base .byte [], .seq [.base .float64 []]]]
def exD : Data := .tuple [.array [.num 1, .num 2, .num 255], .scalar (.num (-2)),
  .array [.str [97, 98], .str []],
  .rows [.tuple [.scalar (.num 5), .scalar (.str [])], .tuple [.scalar (.num (-6)), .scalar (.str [97])]],
  .rows [.tuple [.scalar (.num 7), .rows []], .tuple [.scalar (.num 8), .rows [.tuple [.scalar (.num 4607182418800017408)]]]]]

example : WF exT exD = true := by decide
example : (XdrSpec.enc exT exD).length = 104 := by decide
example : calcSize [32, 10] (.struct [.base .byte [3], .base .int16 [], .base .float64 [2, 2]]) = some 64 := by
  decide
/-- truncated streams: cut at a record boundary (before the end marker), inside a string, and the
    whole stream -/
def exS : Tmpl := .struct [.seq [.base .int32 [], .base .string []]]
def exSD : Data := .tuple [.rows [.tuple [.scalar (.num 5), .scalar (.str [97])]]]
def isShort : Except Err (Data × Bytes) → Bool
  | .error .short => true
  | _ => false
example : WF exS exSD = true ∧ (XdrSpec.enc exS exSD).length = 20 := by decide
example : isShort (decImpl exS ((XdrSpec.enc exS exSD).take 16)) = true := by decide
example : isShort (decImpl exS ((XdrSpec.enc exS exSD).take 13)) = true := by decide
example : isShort (decImpl exS ((XdrSpec.enc exS exSD).take 20)) = false := by decide
example : decImpl exS ((XdrSpec.enc exS exSD).take 16) = .error .short :=
  C05_truncated_rejected exS exSD _ ((XdrSpec.enc exS exSD).drop 16) (by decide)
    (List.take_append_drop 16 _).symm (by decide)
example : absSR (decStream exS [(XdrSpec.enc exS exSD).take 7, [], ((XdrSpec.enc exS exSD).drop 7).take 9])
    = .error .eof :=
  C05_truncated_rejected_stream exS exSD _ ((XdrSpec.enc exS exSD).drop 16) (by decide) (by decide) (by decide)
example : ∃ dds0, ∀ i, i < dds0.length →
    ¬ splitPattern.isPrefixOf ((dds0 ++ splitPattern ++ encImpl exT exD).drop i) = true :=
  ⟨[32], by decide⟩

/-! ### the source representation: how the values are HELD does not reach the wire

`encImpl` speaks about values.  responses/dods.py sees an object: `_basetype` dispatches on `data.dtype.char`
(`DAP2_response_dtypemap`), on `data.shape`, iterates the first axis, converts every block with
`astype(wire dtype)` and sends `tobytes()`; strings are sent word by word, `str` and `bytes` by different branches.
`Xdr.NpArr` (PydapModel/XdrSrc.lean) is the array as numpy holds it — dtype char (item width and signedness), byte
order, characters per S/U item, shape, strides in bytes (any sign, 0 on broadcast axes: C, Fortran, strided,
reversed, transposed, offset views alike), offset and the memory viewed — and `Xdr.encArr` is `_basetype` on it.
`Holds a ty sh d`: the DDS declares `ty` for the dtype, the shape is `sh`, and indexing the array in logical order
reads the data `d`.  **Domain** of the theorems: every dtype char of `NUMPY_TO_DAP2_TYPEMAP` (1/2/4/8-byte signed
and unsigned integers, bool, float32, float64, S, U), both byte orders, every shape, strides, offset and buffer
— as long as the values read are values of the declared DAP2 type (`WF`): automatic for items no wider than the
wire type (`C05_rep_narrow_in_range`), a real restriction for the 8-byte integers `l q L Q`, which are declared
Int32/UInt32 (`C05_rep_wide_wraps`), and for text outside printable ASCII (`C05_rep_text_outside_ascii`);
float16, longdouble and object arrays have no DAP2 type at all (`C05_rep_unsupported_dtype`). -/

/-- **any representation, the reference bytes**: whatever dtype char, byte order, strides, offset and memory
    hold the data, `_basetype` emits the reference encoding of the data held -/
theorem C05_representation_exact (a : NpArr) (ty : Ty) (sh : List Nat) (d : Data) (h : Holds a ty sh d)
    (hwf : WF (.base ty sh) d = true) : encArr a = .ok (XdrSpec.enc (.base ty sh) d) := by
  obtain ⟨hty, hsh, hd⟩ := h
  subst hsh
  exact encArr_eq_spec a ty d hty hd hwf

/-- **representation independence**: two arrays that hold the same data of the same DAP2 type — in whatever item
    width, byte order, memory order, view, `str` or `bytes` items — are encoded to the same bytes -/
theorem C05_representation_independent (a b : NpArr) (ty : Ty) (sh : List Nat) (d : Data)
    (ha : Holds a ty sh d) (hb : Holds b ty sh d) (hwf : WF (.base ty sh) d = true) :
    encArr a = encArr b ∧ encArr a = .ok (XdrSpec.enc (.base ty sh) d) := by
  rw [C05_representation_exact a ty sh d ha hwf, C05_representation_exact b ty sh d hb hwf]
  exact ⟨rfl, rfl⟩

/-- … inside any dataset: a tree of structures/grids whose leaves are arrays in any representation (`Src.arr`) or
    members given at value level (`Src.val`: sequences), viewed as declaration `t` and data `d`, is encoded to the
    reference bytes of `(t, d)`; two such trees with the same view to the same bytes -/
theorem C05_representation_independent_dataset (s s' : Src) (t : Tmpl) (d : Data) (hs : s.view? = some (t, d))
    (hs' : s'.view? = some (t, d)) (hwf : WF t d = true) :
    encSrc s = encSrc s' ∧ encSrc s = .ok (XdrSpec.enc t d) := by
  rw [encSrc_eq s t d hs hwf, encSrc_eq s' t d hs' hwf]
  exact ⟨rfl, rfl⟩

/-- **items no wider than the wire type are always in range**: for the dtype chars `b h i B H I ? f d`, whatever
    bytes the memory holds, every item read is a value of the DAP2 type the DDS declares -/
theorem C05_rep_narrow_in_range (a : NpArr) (ty : Ty) (hty : a.ty? = some ty) (hn : a.char.narrow = true)
    (addr : Int) : ∃ v, readElem a addr = .num v ∧ wfVal ty (.num v) = true :=
  readElem_in_range a ty hty hn addr

/-- **64-bit integers outside 32 bits are NOT in the domain: they wrap silently**.  An int64 array holding
    2^32 + 5 is declared Int32 and sent as the bytes of 5 — the same response as for an array that holds 5 (DAP2
    has no 64-bit integer; `astype('>i4')` truncates).  Within 32 bits `l q L Q` arrays are covered by the
    theorems above. -/
theorem C05_rep_wide_wraps :
    let a : NpArr := storeC .l false [1] [4294967301]
    let b : NpArr := storeC .i true [1] [5]
    a.ty? = some .int32 ∧ a.elems = [.num 4294967301] ∧ b.ty? = some .int32 ∧ b.elems = [.num 5] ∧
    WF (.base .int32 [1]) (.array [.num 4294967301]) = false ∧
    encArr a = .ok [0, 0, 0, 1, 0, 0, 0, 1, 0, 0, 0, 5] ∧ encArr b = .ok [0, 0, 0, 1, 0, 0, 0, 1, 0, 0, 0, 5] :=
  ⟨by decide, by decide, by decide, by decide, by decide, by decide, by decide⟩

/-- dtypes without a DAP2 type (float16, longdouble, object): `NUMPY_TO_DAP2_TYPEMAP[dtype.char]` raises before any
    byte is sent (the handler answers with an Error document) -/
theorem C05_rep_unsupported_dtype (a : NpArr) (h : a.char = .e ∨ a.char = .g ∨ a.char = .O) :
    encArr a = .error .keyError := by
  have e1 : tyOfNumpyChar "e" = none := by decide
  have e2 : tyOfNumpyChar "g" = none := by decide
  have e3 : tyOfNumpyChar "O" = none := by decide
  unfold encArr
  rcases h with h | h | h <;> simp [h, NChar.code, e1, e2, e3]

/-- **text outside ASCII is NOT in the domain, and there the representation matters**: a `U` array holding "é"
    raises `UnicodeEncodeError` after the length words went out (the stream is cut), an `S` array holding the UTF-8
    bytes of the same text is sent as those two bytes -/
theorem C05_rep_text_outside_ascii :
    let u : NpArr := ⟨.U, false, 1, [1], [4], 0, [0xE9, 0, 0, 0]⟩
    let s : NpArr := ⟨.S, false, 2, [1], [2], 0, [0xC3, 0xA9]⟩
    u.ty? = some .string ∧ u.elems = [.ustr [0xE9]] ∧ valsOf? u.elems = none ∧ encArr u = .error .unicode ∧
    s.ty? = some .string ∧ s.elems = [.bstr [0xC3, 0xA9]] ∧
    encArr s = .ok [0, 0, 0, 1, 0, 0, 0, 2, 0xC3, 0xA9, 0, 0] := by
  decide

/-- **records of a sequence source** (the composite-record path of `_sequencetype`): a record whose cells hold
    the values `vs` — as numpy scalars or 0-d arrays of any dtype char of the column's type, Python `int`/`float`/
    `bool`, `str`, `numpy.str_`, or Python `bytes` (`if isinstance(value, (str, bytes)):`) — is sent as the flat
    record of the values; two records holding the same values in different forms as the same bytes -/
theorem C05_rep_record_independent (tys : List Ty) (cs cs' : List Cell) (vs : List Val)
    (h : cellVals? cs = some vs) (h' : cellVals? cs' = some vs)
    (hwf : WFs (tys.map fun ty => .base ty []) (vs.map Data.scalar) = true) :
    encCellsFlat tys cs = encCellsFlat tys cs' ∧
    encCellsFlat tys cs = .ok (flatRecord (tys.map fun ty => .base ty []) (vs.map Data.scalar)) := by
  rw [encCellsFlat_of_vals tys cs vs h hwf, encCellsFlat_of_vals tys cs' vs h' hwf]
  exact ⟨rfl, rfl⟩

/-- **scalars, whatever form they are given in**: `BaseType(name, x)` turns a Python `int`/`float`/`bool`/`str`/`bytes`
    or a numpy scalar into `np.array(x)` (`_set_data`); a 0-d array stays what it is (either byte order).  The 0-d
    array `Cell.toArr` builds for the form (dtype char of the value, `S<max(len,1)>` / `U<max(len,1)>` items,
    NUL padded) is sent as the reference encoding of the value -/
theorem C05_rep_scalar_forms (big : Bool) (c : Cell) (ty : Ty) (v : Val) (hv : c.val? = some v) (hok : c.ok = true)
    (hty : c.ty? = some ty) (hw : wfVal ty v = true) :
    Holds (c.toArr big) ty [] (.scalar v) ∧ encArr (c.toArr big) = .ok (XdrSpec.enc (.base ty []) (.scalar v)) :=
  ⟨toArr_data big c ty v hv hok hty hw, encArr_toArr big c ty v hv hok hty hw⟩

/-- **records on the general path of `_sequencetype`** (taken when a column is a Byte or an inner sequence: the
    record is assigned to a template structure — every value becomes `np.array(value)` — and `dods(struct)` runs
    `_basetype` on each): whatever forms the cells have, the record is sent as the reference encoding of its values -/
theorem C05_rep_record_general_path (tys : List Ty) (cs cs' : List (Bool × Cell)) (vs : List Val)
    (h : cellVals? (cs.map (·.2)) = some vs) (h' : cellVals? (cs'.map (·.2)) = some vs)
    (hok : ∀ c ∈ cs, c.2.ok = true) (hok' : ∀ c ∈ cs', c.2.ok = true)
    (ht : cs.map (·.2.ty?) = tys.map some) (ht' : cs'.map (·.2.ty?) = tys.map some)
    (hwf : WFs (tys.map fun ty => .base ty []) (vs.map Data.scalar) = true) :
    encCellsGeneral cs = encCellsGeneral cs' ∧
    encCellsGeneral cs = .ok (XdrSpec.encs (tys.map fun ty => .base ty []) (vs.map Data.scalar)) := by
  rw [encCellsGeneral_of_vals tys cs vs h hok ht hwf, encCellsGeneral_of_vals tys cs' vs h' hok' ht' hwf]
  exact ⟨rfl, rfl⟩

/-- **whole sequences, rows in any forms**: a lazy (`IterData`) source whose records are given as cells, and a
    numpy-backed sequence (`encSeqFields`: every field a strided view of the records, in its own dtype char and
    byte order; `SequenceType.iterdata` delivers numpy scalars and decodes `S` items to `str`), are sent as the
    reference encoding of the rows of values — flat or general path, whichever the column types select; two sources
    holding the same rows as the same bytes -/
theorem C05_rep_sequence_independent (tys : List Ty) (rows rows' : List (List (Bool × Cell))) (vss : List (List Val))
    (h : rowsVals? rows = some vss) (h' : rowsVals? rows' = some vss)
    (hok : ∀ r ∈ rows, ∀ c ∈ r, c.2.ok = true) (hok' : ∀ r ∈ rows', ∀ c ∈ r, c.2.ok = true)
    (ht : ∀ r ∈ rows, r.map (·.2.ty?) = tys.map some) (ht' : ∀ r ∈ rows', r.map (·.2.ty?) = tys.map some)
    (hwf : WF (.seq (tys.map fun ty => .base ty [])) (.rows (vss.map fun vs => .tuple (vs.map Data.scalar))) = true) :
    encRowsCells tys rows = encRowsCells tys rows' ∧
    encRowsCells tys rows = .ok (XdrSpec.enc (.seq (tys.map fun ty => .base ty []))
      (.rows (vss.map fun vs => .tuple (vs.map Data.scalar)))) := by
  simp only [WF, Bool.and_eq_true] at hwf
  rw [encRowsCells_eq tys rows vss h hok ht hwf.1.2 hwf.2, encRowsCells_eq tys rows' vss h' hok' ht' hwf.1.2 hwf.2]
  exact ⟨rfl, by simp [XdrSpec.enc]⟩

/-- **for every value and every two representations** (the statement with the representation as a parameter):
    `Rep` = dtype char (item width and signedness: any numeric char that maps to `ty` and can hold the values, e.g. int8 /
    int16 for Int16, int32 / int64 / longlong for Int32, bool / uint8 for Byte), byte order, `step` ≥ 1 (the array is
    every `step`-th item along the last axis of a larger C-contiguous buffer; 1 = contiguous), `pre` bytes of the buffer
    before the first item (a view starting inside its base), arbitrary `fill` bytes around the items.  `Rep.build`
    lays the values out accordingly; the bytes sent are the same for any two such representations and are the
    reference encoding.  (Fortran order, reversed, transposed and first-axis-strided views: covered by
    `C05_representation_independent`, which quantifies over all strides; not realised by this builder.) -/
theorem C05_representation_independent_built (ty : Ty) (n : Nat) (sh : List Nat) (vs : List Int) (r1 r2 : Rep)
    (h1 : tyOfNumpyChar r1.char.code = some ty) (h2 : tyOfNumpyChar r2.char.code = some ty)
    (s1 : 1 ≤ r1.step) (s2 : 1 ≤ r2.step) (hlen : vs.length = prod (n :: sh))
    (hv1 : ∀ v ∈ vs, r1.char.holds v = true) (hv2 : ∀ v ∈ vs, r2.char.holds v = true)
    (hwf : WF (.base ty (n :: sh)) (.array (vs.map Val.num)) = true) :
    encArr (r1.build (n :: sh) vs) = encArr (r2.build (n :: sh) vs) ∧
    encArr (r1.build (n :: sh) vs) = .ok (XdrSpec.enc (.base ty (n :: sh)) (.array (vs.map Val.num))) := by
  have hold : ∀ (r : Rep), tyOfNumpyChar r.char.code = some ty → 1 ≤ r.step → (∀ v ∈ vs, r.char.holds v = true) →
      Holds (r.build (n :: sh) vs) ty (n :: sh) (.array (vs.map Val.num)) := by
    intro r hty hs hv
    refine ⟨hty, rfl, ?_⟩
    unfold NpArr.data?
    have hsh : (r.build (n :: sh) vs).shape = n :: sh := rfl
    rw [hsh, build_elems r (n :: sh) vs hs hlen hv]
    simp only [List.isEmpty_cons, Bool.false_eq_true, if_false]
    rw [valsOf_nums]; rfl
  exact C05_representation_independent _ _ ty (n :: sh) _ (hold r1 h1 s1 hv1) (hold r2 h2 s2 hv2) hwf

/-- **every numeric representation exists**: the C-contiguous array `storeC` builds from in-range values in any
    numeric dtype char of the table, either byte order and any shape holds exactly those values (so the theorems
    above are not vacuous for any dtype char × byte order × shape) -/
theorem C05_rep_store_holds (c : NChar) (big : Bool) (ty : Ty) (n : Nat) (sh : List Nat) (vs : List Int)
    (hty : tyOfNumpyChar c.code = some ty) (hlen : vs.length = prod (n :: sh)) (hv : ∀ v ∈ vs, c.holds v = true) :
    Holds (storeC c big (n :: sh) vs) ty (n :: sh) (.array (vs.map Val.num)) := by
  refine ⟨hty, rfl, ?_⟩
  unfold NpArr.data?
  have hsh : (storeC c big (n :: sh) vs).shape = n :: sh := rfl
  rw [hsh, storeC_elems c big (n :: sh) vs hlen hv]
  simp only [List.isEmpty_cons, Bool.false_eq_true, if_false]
  rw [valsOf_nums]; rfl

/-! non-vacuity: the value [[1, -2, 3], [4, 5, -6]] (Int16) held as little-endian int16 in C order, as big-endian
    int16 in Fortran order inside a larger buffer (offset 2), as int8 reversed along the last axis (negative stride) -/
def exRepD : Data := .array [.num 1, .num (-2), .num 3, .num 4, .num 5, .num (-6)]
def exRepC : NpArr := storeC .h false [2, 3] [1, -2, 3, 4, 5, -6]
def exRepF : NpArr := ⟨.h, true, 0, [2, 3], [2, 4], 2, [9, 9, 0, 1, 0, 4, 0xFF, 0xFE, 0, 5, 0, 3, 0xFF, 0xFA, 9]⟩
def exRepR : NpArr := ⟨.b, false, 0, [2, 3], [3, -1], 2, [3, 0xFE, 1, 0xFA, 5, 4]⟩
example : Holds exRepC .int16 [2, 3] exRepD := ⟨by decide, by decide, by rfl⟩
example : Holds exRepF .int16 [2, 3] exRepD := ⟨by decide, by decide, by rfl⟩
example : Holds exRepR .int16 [2, 3] exRepD := ⟨by decide, by decide, by rfl⟩
example : WF (.base .int16 [2, 3]) exRepD = true := by decide
example : encArr exRepF = encArr exRepR :=
  (C05_representation_independent exRepF exRepR .int16 [2, 3] exRepD ⟨by decide, by decide, by rfl⟩
    ⟨by decide, by decide, by rfl⟩ (by decide)).1
example : encArr exRepC = .ok [0, 0, 0, 6, 0, 0, 0, 6, 0, 0, 0, 1, 0xFF, 0xFF, 0xFF, 0xFE, 0, 0, 0, 3, 0, 0, 0, 4,
    0, 0, 0, 5, 0xFF, 0xFF, 0xFF, 0xFA] := by decide
/-- strings: ["ab", ""] as `S3` items (NUL padded) and as big-endian `U2` items; a scalar as a 0-d array -/
def exRepS : NpArr := ⟨.S, false, 3, [2], [3], 0, [97, 98, 0, 0, 0, 0]⟩
def exRepU : NpArr := ⟨.U, true, 2, [2], [8], 0, [0, 0, 0, 97, 0, 0, 0, 98, 0, 0, 0, 0, 0, 0, 0, 0]⟩
example : Holds exRepS .string [2] (.array [.str [97, 98], .str []]) ∧
    Holds exRepU .string [2] (.array [.str [97, 98], .str []]) :=
  ⟨⟨by decide, by decide, by rfl⟩, ⟨by decide, by decide, by rfl⟩⟩
example : encArr exRepS = encArr exRepU ∧ encArr exRepS = .ok [0, 0, 0, 2, 0, 0, 0, 2, 97, 98, 0, 0, 0, 0, 0, 0] := by
  decide
example : Holds (storeC .d true [] [4607182418800017408]) .float64 [] (.scalar (.num 4607182418800017408)) :=
  ⟨by decide, by decide, by rfl⟩
/-- [1, -2, 3] (Int16) as contiguous little-endian int16, and as every third item of an int8 buffer, the view
    starting 5 bytes into its base and the gaps holding 0xEE -/
example : encArr ((Rep.mk .h false 1 0 0).build [3] [1, -2, 3]) = encArr ((Rep.mk .b true 3 5 0xEE).build [3] [1, -2, 3]) :=
  (C05_representation_independent_built .int16 3 [] [1, -2, 3] _ _ (by decide) (by decide) (by decide) (by decide)
    (by decide) (by decide) (by decide) (by decide)).1
example : ((Rep.mk .b true 3 5 0xEE).build [3] [1, -2, 3]).buf
    = [0xEE, 0xEE, 0xEE, 0xEE, 0xEE, 1, 0xEE, 0xEE, 0xFE, 0xEE, 0xEE, 3, 0xEE, 0xEE] := by decide
/-- int64 little-endian and int32 big-endian, values within 32 bits: both hold [7, -1] as Int32, same bytes -/
example : encArr (storeC .l false [2] [7, -1]) = encArr (storeC .i true [2] [7, -1]) :=
  (C05_representation_independent _ _ .int32 [2] _
    (C05_rep_store_holds .l false .int32 2 [] [7, -1] (by decide) (by decide) (by decide))
    (C05_rep_store_holds .i true .int32 2 [] [7, -1] (by decide) (by decide) (by decide)) (by decide)).1
/-- a Python bool, a Python bytes and a big-endian float64 0-d array as scalars -/
example : encArr ((Cell.num .bool 1).toArr false) = .ok [1, 0, 0, 0] ∧
    encArr ((Cell.bstr [104, 105]).toArr false) = .ok [0, 0, 0, 2, 104, 105, 0, 0] ∧
    encArr ((Cell.ustr [104, 105]).toArr true) = .ok [0, 0, 0, 2, 104, 105, 0, 0] :=
  ⟨(C05_rep_scalar_forms false _ .byte (.num 1) (by decide) (by decide) (by decide) (by decide)).2,
   (C05_rep_scalar_forms false _ .string (.str [104, 105]) (by decide) (by decide) (by decide) (by decide)).2,
   (C05_rep_scalar_forms true _ .string (.str [104, 105]) (by decide) (by decide) (by decide) (by decide)).2⟩
/-- a record (Byte, String) on the general path: (Python bool, `bytes`) and (uint8 scalar, `str`) -/
example : encCellsGeneral [(false, .num .bool 1), (false, .bstr [97])]
    = encCellsGeneral [(false, .num .B 1), (true, .ustr [97])] :=
  (C05_rep_record_general_path [.byte, .string] _ _ [.num 1, .str [97]] (by decide) (by decide) (by decide)
    (by decide) (by decide) (by decide) (by decide)).1
example : ∃ a : NpArr, a.char = .h ∧ a.char.narrow = true ∧ a.ty? = some .int16 := ⟨exRepC, by decide⟩
example : encArr { exRepC with char := .e } = .error .keyError := C05_rep_unsupported_dtype _ (Or.inl rfl)
/-- a record (Int32, String, Float64) held as (Python int, `str`, numpy float64) and as (big-endian int32 0-d array,
    Python `bytes`, Python float) -/
example : encCellsFlat [.int32, .string, .float64] [.num .l (-2), .ustr [104, 105], .num .d 4607182418800017408]
    = encCellsFlat [.int32, .string, .float64] [.num .i (-2), .bstr [104, 105], .num .d 4607182418800017408] :=
  (C05_rep_record_independent _ _ _ [.num (-2), .str [104, 105], .num 4607182418800017408] (by decide) (by decide)
    (by decide)).1
/-- a numpy-backed sequence (UInt16 big-endian, `S2`) of two records of 4 bytes, and the same rows from a lazy
    source as (Python-int-like uint16 scalar, `bytes`) cells: same bytes -/
def exFields : List NpArr :=
  [⟨.H, true, 0, [2], [4], 0, [0, 7, 97, 98, 1, 0, 99, 0]⟩, ⟨.S, false, 2, [2], [4], 2, [0, 7, 97, 98, 1, 0, 99, 0]⟩]
example : recordsOf exFields 2 = some [[(false, .num .H 7), (false, .ustr [97, 98])],
    [(false, .num .H 256), (false, .ustr [99])]] := by decide
example : encSeqFields [.uint16, .string] exFields 2
    = encRowsCells [.uint16, .string] [[(true, .num .H 7), (false, .bstr [97, 98])], [(false, .num .H 256), (false, .bstr [99])]] := by
  have e : encSeqFields [.uint16, .string] exFields 2 = encRowsCells [.uint16, .string]
      [[(false, .num .H 7), (false, .ustr [97, 98])], [(false, .num .H 256), (false, .ustr [99])]] := by
    have hr : recordsOf exFields 2 = some [[(false, .num .H 7), (false, .ustr [97, 98])],
        [(false, .num .H 256), (false, .ustr [99])]] := by decide
    simp only [encSeqFields, hr]
  rw [e]
  exact (C05_rep_sequence_independent [.uint16, .string] _ _ [[.num 7, .str [97, 98]], [.num 256, .str [99]]]
    (by decide) (by decide) (by decide) (by decide) (by decide) (by decide) (by decide)).1
def exSrc1 : Src := .struct [.arr exRepC, .val (.seq [.base .byte []]) (.rows [.tuple [.scalar (.num 7)]]), .arr exRepS]
def exSrc2 : Src := .struct [.arr exRepR, .val (.seq [.base .byte []]) (.rows [.tuple [.scalar (.num 7)]]), .arr exRepU]
def exSrcT : Tmpl := .struct [.base .int16 [2, 3], .seq [.base .byte []], .base .string [2]]
def exSrcD : Data := .tuple [exRepD, .rows [.tuple [.scalar (.num 7)]], .array [.str [97, 98], .str []]]
example : exSrc1.view? = some (exSrcT, exSrcD) ∧ exSrc2.view? = some (exSrcT, exSrcD) := ⟨by rfl, by rfl⟩
example : encSrc exSrc1 = encSrc exSrc2 :=
  (C05_representation_independent_dataset exSrc1 exSrc2 exSrcT exSrcD (by rfl) (by rfl) (by decide)).1
example : encArr exRepR = .ok (XdrSpec.enc (.base .int16 [2, 3]) exRepD) :=
  C05_representation_exact exRepR .int16 [2, 3] exRepD ⟨by decide, by decide, by rfl⟩ (by decide)
example : ∃ v, readElem exRepR 4 = .num v ∧ wfVal .int16 (.num v) = true :=
  C05_rep_narrow_in_range exRepR .int16 (by decide) (by decide) 4
/-- a 130-character string: longer than the placeholder width `|S128` the DDS parser declares for strings; the
    decoder's result has no width (`numpy.array([...], "S")` is sized by the data) -/
example : decImpl (.base .string [1]) (XdrSpec.enc (.base .string [1]) (.array [.str (List.replicate 130 120)]) ++ [9])
    = .ok (.array [.str (List.replicate 130 120)], [9]) :=
  C05_decoder_total (.base .string [1]) (.array [.str (List.replicate 130 120)]) [9] (by decide +kernel)

/-! ### the tie by translation: the *source text* of the size and padding arithmetic computes the model

`Pydap.Gen.src_…` (PydapModel/Generated/DodsSrc.lean) are MiniPy syntax trees regenerated from `responses/dods.py` and
`handlers/dap.py` on every run by `harness/py2lean.py`.  Inputs of the `calculate_size` block that the fragment does
not interpret are variables: `@is_ubyte` stands for `DAP2_dtype == np.ubyte`, `@itemsize` for `DAP2_dtype.itemsize`
(the dtype map itself is a generated table), `@dds_len` for `len("".join(dds(dataset)))`. -/

open MiniPy in
/-- `calculate_size`, one turn of the loop on a non-string BaseType: `length` grows by exactly `calcData (.base ty shape)`
    (array marker 8 when the shape is non-empty, `size + (-size % 4)` for bytes, `size * itemsize` otherwise),
    for every running length, wire type and shape -/
theorem C05_source_calculate_size_base (L : Nat) (ty : Ty) (shape : List Nat) (hS : wireChar ty ≠ 'S') :
    ∃ n, calcData (.base ty shape) = some n ∧
      runItem (calcEnv L ty shape) Gen.src_calculate_size_base "length" = .ok (.int ((L + n : Nat) : Int)) :=
  src_calculate_size_base_eq L ty shape hS

open MiniPy in
/-- `calculate_size`, after the loop: `length += len(dds) + len(b"Data:\n"); return length` returns `calcSize` -/
theorem C05_source_calculate_size_tail (dds : Bytes) (t : Tmpl) (n : Nat) (hn : calcData t = some n) :
    ∃ m, calcSize dds t = some m ∧
      runItem [("length", .int n), ("@dds_len", .int dds.length)] Gen.src_calculate_size_tail "@ret"
        = .ok (.int (m : Nat)) :=
  src_calculate_size_tail_eq dds t n hn

open MiniPy in
/-- the encoder's three padding counts `-length % 4` (`_sequencetype`: 1, `_basetype`: 2) are `pad4` -/
theorem C05_source_encoder_paddings (n : Nat) :
    runItem [("length", .int n)] Gen.src_dods_paddings "@seqpad0" = .ok (.int (pad4 n : Nat)) ∧
    runItem [("length", .int n)] Gen.src_dods_paddings "@pad0" = .ok (.int (pad4 n : Nat)) ∧
    runItem [("length", .int n)] Gen.src_dods_paddings "@pad1" = .ok (.int (pad4 n : Nat)) :=
  src_dods_paddings_eq n

open MiniPy in
/-- the decoder's three padding reads `stream.read(-k % 4)` / `stream.read(-n % 4)` of `convert_stream_to_list` are `pad4` -/
theorem C05_source_decoder_paddings (n : Nat) :
    runItem [("k", .int n), ("n", .int n)] Gen.src_convert_stream_paddings "@pad0" = .ok (.int (pad4 n : Nat)) ∧
    runItem [("k", .int n), ("n", .int n)] Gen.src_convert_stream_paddings "@pad1" = .ok (.int (pad4 n : Nat)) ∧
    runItem [("k", .int n), ("n", .int n)] Gen.src_convert_stream_paddings "@pad2" = .ok (.int (pad4 n : Nat)) :=
  src_convert_stream_paddings_eq n

-- non-vacuity: a Byte array of 3 elements after 10 bytes (8 + 3 + 1), an Int16 scalar (upconverted to 4 bytes)
open MiniPy in
example : runItem (calcEnv 10 .byte [3]) Gen.src_calculate_size_base "length" = .ok (.int 22) := by rfl
open MiniPy in
example : runItem (calcEnv 0 .int16 []) Gen.src_calculate_size_base "length" = .ok (.int 4) := by rfl
example : wireChar .byte ≠ 'S' ∧ wireChar .int16 ≠ 'S' := by decide
open MiniPy in
example : runItem [("length", .int 56), ("@dds_len", .int 2)] Gen.src_calculate_size_tail "@ret" = .ok (.int 64) := by
  rfl
open MiniPy in
example : runItem [("length", .int 5)] Gen.src_dods_paddings "@pad1" = .ok (.int 3) := by rfl
open MiniPy in
example : runItem [("k", .int 6), ("n", .int 6)] Gen.src_convert_stream_paddings "@pad2" = .ok (.int 2) := by rfl
/-- last variable "abcd", "" , Byte[4], Int32[0]: the decoder's last read has length 0 … -/
def exL : Tmpl := .struct [.base .int32 [], .base .string []]
def exLD : Data := .tuple [.scalar (.num 10), .scalar (.str [97, 98, 99, 100])]
example : decTrace exL (XdrSpec.enc exL exLD) = [4, 4, 4, 0] := by decide
example : decTrace (.struct [.base .string []]) (XdrSpec.enc (.struct [.base .string []]) (.tuple [.scalar (.str [])]))
    = [4, 0, 0] := by decide
example : decTrace (.struct [.base .byte [4]]) [0, 0, 0, 4, 0, 0, 0, 4, 1, 2, 3, 4] = [4, 4, 4, 0] := by decide
example : decTrace (.struct [.base .int32 [0]]) [0, 0, 0, 0, 0, 0, 0, 0] = [4, 4, 0] := by decide
/-- … and is answered on the exhausted stream, for 1-byte chunks, one chunk, a boundary before the last byte,
    the line chunking of `BytesIO` (the value 10 is a 0x0A byte) -/
example : (XdrSpec.enc exL exLD) = [0, 0, 0, 10, 0, 0, 0, 4, 97, 98, 99, 100] := by decide
example : absSR (decStream exL [[0, 0, 0, 10, 0, 0, 0, 4, 97, 98, 99, 100]]) = .ok (exLD, []) :=
  C05_stream_decoder_total exL exLD [] _ (by decide) (by decide)
example : absSR (decStream exL ((XdrSpec.enc exL exLD).map fun b => [b])) = .ok (exLD, []) :=
  C05_stream_decoder_total exL exLD [] _ (by decide) (by decide)
example : absSR (decStream exL [[0, 0, 0, 10, 0, 0, 0, 4, 97, 98, 99], [], [100], []]) = .ok (exLD, []) :=
  C05_stream_decoder_total exL exLD [] _ (by decide) (by decide)
example : lines (XdrSpec.enc exL exLD) = [[0, 0, 0, 10], [0, 0, 0, 4, 97, 98, 99, 100]] := by decide
example : openDodsUrl exL ([32] ++ splitPattern ++ (XdrSpec.enc exL exLD ++ [])) = some ([32], .ok exLD) :=
  C05_open_dods_url [32] exL exLD [] (by decide) (by decide)
example : srRead 0 ⟨[], []⟩ = .ok ([], ⟨[], []⟩) := C05_read_zero _
/-- a reader that pulls from its iterator on `read(0)` would fail exactly here: the model's reader state after
    the last non-empty read is the exhausted one -/
example : (Stream.srReadMany [4, 4, 4] ⟨[[0, 0, 0, 10, 0, 0, 0, 4, 97, 98, 99, 100]], []⟩).2 = none ∧
    (Stream.srReadMany [4, 4, 4, 1] ⟨[[0, 0, 0, 10, 0, 0, 0, 4, 97, 98, 99, 100]], []⟩).2 = some .eof := by decide
example : seqProxy (.seq [.base .int32 [], .base .string []])
      [[68, 97, 116], [97, 58, 10, 0x5a], [0, 0, 0, 0, 0, 0, 5, 0, 0, 0, 0], [0xa5, 0, 0], [0]]
    = .ok (.rows [.tuple [.scalar (.num 5), .scalar (.str [])]]) :=
  C05_seq_proxy_total _ _ [] _ (by decide) (by decide)

end Pydap.C05
