/-
  C02 — Remote subsetting selects exactly what numpy indexing selects.
  Property statements only; the chain model is `PydapModel.Subset`, lemmas are in
  `Proofs/Subset.lean`, the slice algebra (C03) is used as lemmas.

  Reading guide.  `shape` is the shape of the source array on the server, `pre` the hyperslab
  already in the URL (as `parse_hyperslab` returns it; `[]` = none), `padPre pre rank` the same
  padded with full slices.  For axis `i`, `Lᵢ = |sel shapeᵢ preᵢ|` is the length the client sees.
  `E` is numpy's expansion of the user's index to one entry per axis (`npExpand`, C03).
  `specList shape P E` is numpy's answer, per axis, as positions of the *source* axis:
  element `j` of the pre-selection for every `j` that entry `Eᵢ` selects from an axis of length
  `Lᵢ`, an integer entry selecting the single position it addresses (axis kept, length 1).
  `remoteIndex shape pre idx` runs the modelled code: open (stored slice), `__getitem__`
  (`fix_slice`, `combine_slices`), `hyperslab` text, server `parse_hyperslab`, `data[slices]`.
-/
import PydapModel.Subset
import Proofs.Subset
import Proofs.EndToEnd
import Proofs.EndToEndGrid
import Proofs.EndToEndText
import Props.C03
import Proofs.ProxySrc
import Proofs.SubsetAny
namespace Pydap.C02
open Pydap

/-- **Per-axis end-to-end law** (any axis length, any stored stride, any bounds): the request
    slice issued for entry `e` is printable, and the server's selection with it is exactly
    numpy's selection of `e` applied to the pre-sliced axis. -/
theorem C02_axis (N : Nat) (p : PSlice) (hp : NonNegSl p) (e : Idx)
    (he : ValidIdx (sel N p).length e) :
    NormSl (reqAxis N p e) ∧
    parseHyperslab (hyperslabText [reqAxis N p e]) = .ok [reqAxis N p e] ∧
    (sel N (reqAxis N p e)).map some = axisSpec N p e := by
  obtain ⟨h1, h2⟩ := axis_law N p hp e he
  exact ⟨h1, C03.C03_hyperslab_roundtrip [reqAxis N p e] (by intro s hs; simp at hs; subst hs; exact h1), h2⟩

/-- integer entries keep their axis with length one -/
theorem C02_int_keeps_axis (N : Nat) (p : PSlice) (hp : NonNegSl p) (i : Int)
    (he : ValidIdx (sel N p).length (Idx.int i)) :
    (sel N (reqAxis N p (Idx.int i))).length = 1 := by
  have h := (axis_law N p hp _ he).2
  have hl := congrArg List.length h
  simp only [List.length_map, axisSpec, axisSel] at hl
  rw [hl]
  obtain ⟨h1, h2⟩ := he
  unfold selInt
  by_cases h0 : 0 ≤ i ∧ i < ((sel N p).length : Int)
  · simp [h0]
  · rw [if_neg h0, if_pos ⟨h1, by omega⟩]; simp

/-- **Requested stop beyond the extent** (`fix_slice` normalises an open or over-long stop to
    `N + start`, so `x[1::3]` on 2 elements is requested as `[1:3:2]`, last index 2 ≥ N): a server
    that slices like numpy (`sel`, the specification function; compared with the pydap DAP2 server,
    `Arrayterator` and the reference DAP4 server in the check) serves for a stop at or beyond `N`
    what it serves for the open-ended slice.  `C02_axis` and the theorems below put no upper bound on
    a stop (`NonNegSl`, `ValidIdx` only bound fields from below), so they cover these requests. -/
theorem C02_stop_beyond_extent (N : Nat) (r : PSlice) (b : Int) (hb : r.stop = some b) (h : (N : Int) ≤ b) :
    sel N r = sel N ⟨r.start, none, r.step⟩ := by
  obtain ⟨st, sp, se⟩ := r
  simp only at hb
  subst hb
  simp only [sel, npBound]
  have : ¬ b < 0 := by omega
  simp [this]
  congr 2
  omega

/-- **Indexing without URL pre-constraint, index without Ellipsis** (short tuples included):
    the answer is numpy's, axis by axis. -/
theorem C02_index (shape : List Nat) (idx : List Idx) (h : NoEll idx) (hl : idx.length ≤ shape.length)
    (hv : ValidList shape (padPre [] shape.length) (npExpand idx none shape.length)) :
    ∃ R, remoteIndex shape [] idx = .ok R ∧
      R.map (List.map some) = specList shape (padPre [] shape.length) (npExpand idx none shape.length) := by
  obtain ⟨R, h1, h2, _⟩ := remoteIndex_spec shape [] idx (npExpand idx none shape.length) (by simp)
    (fun cshape hc => by rw [fixSlice_noEll idx cshape h (by omega), hc]) hv
  exact ⟨R, h1, h2⟩

/-- the same with one Ellipsis anywhere in the index -/
theorem C02_index_ellipsis (shape : List Nat) (a b : List Idx) (ha : NoEll a) (hb : NoEll b)
    (hl : a.length + b.length ≤ shape.length)
    (hv : ValidList shape (padPre [] shape.length) (npExpand a (some b) shape.length)) :
    ∃ R, remoteIndex shape [] (a ++ Idx.ell :: b) = .ok R ∧
      R.map (List.map some) = specList shape (padPre [] shape.length) (npExpand a (some b) shape.length) := by
  obtain ⟨R, h1, h2, _⟩ := remoteIndex_spec shape [] (a ++ Idx.ell :: b) (npExpand a (some b) shape.length)
    (by simp) (fun cshape hc => by rw [fixSlice_ell a b cshape ha hb (by omega), hc]) hv
  exact ⟨R, h1, h2⟩

/-- **Dataset opened with a hyperslab already in the URL, any strides**: indices address the
    pre-sliced variable. -/
theorem C02_preconstraint (shape : List Nat) (pre : List PSlice) (idx : List Idx)
    (hpl : pre.length ≤ shape.length) (h : NoEll idx) (hl : idx.length ≤ shape.length)
    (hv : ValidList shape (padPre pre shape.length) (npExpand idx none shape.length)) :
    ∃ R, remoteIndex shape pre idx = .ok R ∧
      R.map (List.map some) = specList shape (padPre pre shape.length) (npExpand idx none shape.length) := by
  obtain ⟨R, h1, h2, _⟩ := remoteIndex_spec shape pre idx (npExpand idx none shape.length) hpl
    (fun cshape hc => by rw [fixSlice_noEll idx cshape h (by omega), hc]) hv
  exact ⟨R, h1, h2⟩

theorem C02_preconstraint_ellipsis (shape : List Nat) (pre : List PSlice) (a b : List Idx)
    (hpl : pre.length ≤ shape.length) (ha : NoEll a) (hb : NoEll b)
    (hl : a.length + b.length ≤ shape.length)
    (hv : ValidList shape (padPre pre shape.length) (npExpand a (some b) shape.length)) :
    ∃ R, remoteIndex shape pre (a ++ Idx.ell :: b) = .ok R ∧
      R.map (List.map some) = specList shape (padPre pre shape.length) (npExpand a (some b) shape.length) := by
  obtain ⟨R, h1, h2, _⟩ := remoteIndex_spec shape pre (a ++ Idx.ell :: b) (npExpand a (some b) shape.length)
    hpl (fun cshape hc => by rw [fixSlice_ell a b cshape ha hb (by omega), hc]) hv
  exact ⟨R, h1, h2⟩

/-- what the repair of the stored slice removed: re-normalising the URL hyperslab `[0:2:9]`
    against the constrained shape `(5,)` stored `0:5:2`, and `a[:]` then asked for `0:5:2`
    (positions 0,2,4) instead of positions 0,2,4,6,8. -/
theorem C02_preconstraint_old_refuted :
    proxyIndex (openSliceOld [⟨some 0, some 10, some 2⟩] [5]) [5] [Idx.sl PSlice.all]
      = [⟨some 0, some 5, some 2⟩] ∧
    sel 10 ⟨some 0, some 5, some 2⟩ = [0, 2, 4] ∧
    proxyIndex (openSlice [⟨some 0, some 10, some 2⟩] [5]) [5] [Idx.sl PSlice.all]
      = [⟨some 0, some 10, some 2⟩] ∧
    sel 10 ⟨some 0, some 10, some 2⟩ = [0, 2, 4, 6, 8] := by
  refine ⟨?_, by decide, ?_, by decide⟩
  · simp [proxyIndex, openSliceOld, fixSlice, expandEll, zipFix, fixAxis, fixSl, orElse, combine, combine1,
      toSlice, PSlice.all]
  · simp [proxyIndex, openSlice, fixSlice, expandEll, zipFix, fixAxis, fixSl, orElse, combine, combine1,
      toSlice, PSlice.all]

/-! ### grids -/

/-- `output_grid = False`: only the array is indexed (one request) -/
theorem C02_grid_array_only (rank : Nat) (key : List Idx) :
    gridGetitem false rank key = [(0, key)] := rfl

/-- **Grid, index without Ellipsis**: map `j` (child `j+1`) is indexed with entry `j` of the key
    for every `j` below the key's length, the remaining maps are left whole (not indexed), and the
    request a map then issues is exactly axis `j` of the array's request. -/
theorem C02_grid_maps (shape : List Nat) (P : List PSlice) (key : List Idx) (h : NoEll key)
    (hl : key.length ≤ shape.length)
    (hv : ValidList shape P (npExpand key none shape.length)) :
    (gridGetitem true shape.length key).length = key.length + 1 ∧
    proxyIndex (P.map Idx.sl) (selShape (selList shape P)) key
      = reqList shape P (npExpand key none shape.length) ∧
    ∀ j (hj : j < key.length),
      (gridGetitem true shape.length key)[j + 1]? = some (j + 1, [key[j]]) ∧
      ∃ r, (reqList shape P (npExpand key none shape.length))[j]? = some r ∧
        proxyIndex [Idx.sl (P[j]'(by rw [(validList_length hv).1]; omega))]
          [(sel (shape[j]'(by omega)) (P[j]'(by rw [(validList_length hv).1]; omega))).length] [key[j]] = [r] := by
  have hlen := validList_length hv
  refine ⟨?_, ?_, ?_⟩
  · simp [gridGetitem, expandKey_noEll key _ h, pairMaps_length]; omega
  · unfold proxyIndex
    rw [fixSlice_noEll key _ h (by simp [selShape, selList_length shape P hlen.1]; omega)]
    simp only [selShape, List.length_map, selList_length shape P hlen.1]
    exact combine_zipFix shape P _ hv
  · intro j hj
    refine ⟨?_, ?_⟩
    · simp only [gridGetitem, if_true, expandKey_noEll key _ h, List.getElem?_cons_succ]
      rw [pairMaps_getElem key 1 shape.length j hj (by omega), Nat.add_comm]
    · have hE : (npExpand key none shape.length)[j]'(by rw [hlen.2]; omega) = key[j] := by
        simp [npExpand, List.getElem_append_left, hj]
      refine ⟨_, reqList_getElem shape P _ hv j (by omega), ?_⟩
      rw [hE]
      exact map_request _ _ _ (h _ (List.getElem_mem hj))

/-- **Grid, index with an Ellipsis** (after the repair of `GridType.__getitem__`): every map `j`
    is indexed with entry `j` of numpy's expansion, and its request is axis `j` of the array's. -/
theorem C02_grid_maps_ellipsis (shape : List Nat) (P : List PSlice) (a b : List Idx)
    (ha : NoEll a) (hb : NoEll b) (hl : a.length + b.length ≤ shape.length)
    (hv : ValidList shape P (npExpand a (some b) shape.length)) :
    proxyIndex (P.map Idx.sl) (selShape (selList shape P)) (a ++ Idx.ell :: b)
      = reqList shape P (npExpand a (some b) shape.length) ∧
    ∀ j (hj : j < shape.length),
      (gridGetitem true shape.length (a ++ Idx.ell :: b))[j + 1]?
        = some (j + 1, [(npExpand a (some b) shape.length)[j]'(by rw [(validList_length hv).2]; exact hj)]) ∧
      ∃ r, (reqList shape P (npExpand a (some b) shape.length))[j]? = some r ∧
        proxyIndex [Idx.sl (P[j]'(by rw [(validList_length hv).1]; exact hj))]
          [(sel shape[j] (P[j]'(by rw [(validList_length hv).1]; exact hj))).length]
          [(npExpand a (some b) shape.length)[j]'(by rw [(validList_length hv).2]; exact hj)] = [r] := by
  have hlen := validList_length hv
  refine ⟨?_, ?_⟩
  · unfold proxyIndex
    rw [fixSlice_ell a b _ ha hb (by simp [selShape, selList_length shape P hlen.1]; omega)]
    simp only [selShape, List.length_map, selList_length shape P hlen.1]
    exact combine_zipFix shape P _ hv
  · intro j hj
    refine ⟨?_, ?_⟩
    · simp only [gridGetitem, if_true, List.getElem?_cons_succ]
      rw [expandKey_ell_np a b shape.length ha hl,
        pairMaps_getElem _ 1 shape.length j (by rw [hlen.2]; exact hj) hj, Nat.add_comm]
    · refine ⟨_, reqList_getElem shape P _ hv j hj, ?_⟩
      apply map_request
      intro he
      -- an Ellipsis entry would contradict validity of that axis
      have : ∀ (shape : List Nat) (P : List PSlice) (E : List Idx), ValidList shape P E →
          ∀ x ∈ E, x ≠ Idx.ell := by
        intro shape
        induction shape with
        | nil => intro P E h; cases P <;> cases E <;> simp_all [ValidList]
        | cons n ns ih =>
          intro P E h
          cases P with
          | nil => cases E <;> simp [ValidList] at h
          | cons p ps => cases E with
            | nil => simp [ValidList] at h
            | cons e es =>
              intro x hx
              simp only [List.mem_cons] at hx
              rcases hx with rfl | hx
              · intro hx'; subst hx'; exact h.2.1
              · exact ih ps es h.2.2 x hx
      exact this shape P _ hv _ (List.getElem_mem _) he

/-- what the repair removed: zipping the raw key `(…, 1)` with the maps of a rank-3 grid gave
    the first map `Ellipsis` and the second map `1`; numpy's expansion gives the second axis a
    full slice and the *third* axis `1`. -/
theorem C02_grid_old_refuted :
    gridGetitemOld true 3 [Idx.ell, Idx.int 1]
      = [(0, [Idx.ell, Idx.int 1]), (1, [Idx.ell]), (2, [Idx.int 1])] ∧
    gridGetitem true 3 [Idx.ell, Idx.int 1]
      = [(0, [Idx.ell, Idx.int 1]), (1, [Idx.sl PSlice.all]), (2, [Idx.sl PSlice.all]), (3, [Idx.int 1])] ∧
    npExpand [] (some [Idx.int 1]) 3 = [Idx.sl PSlice.all, Idx.sl PSlice.all, Idx.int 1] := by decide

/-! ### non-vacuity -/

/-- `a[0:2:9]` in the URL, then `[1:3]`: numpy gives source positions 2 and 4 -/
example : ValidList [10] (padPre [⟨some 0, some 10, some 2⟩] 1)
    (npExpand [Idx.sl ⟨some 1, some 3, none⟩] none 1) := by
  refine ⟨⟨by simp, by simp, by simp⟩, ⟨by simp, by simp, by simp, by decide⟩, trivial⟩
example : specList [10] (padPre [⟨some 0, some 10, some 2⟩] 1) (npExpand [Idx.sl ⟨some 1, some 3, none⟩] none 1)
    = [[some 2, some 4]] := by decide
example : reqAxis 10 ⟨some 0, some 10, some 2⟩ (Idx.sl ⟨some 1, some 3, none⟩) = ⟨some 2, some 6, some 2⟩ := by
  decide
/-- rank 3, Ellipsis and a negative integer, stride in the URL on the last axis -/
example : ValidList [2, 3, 6] (padPre [PSlice.all, PSlice.all, ⟨some 1, some 6, some 2⟩] 3)
    (npExpand [] (some [Idx.int (-1)]) 3) := by
  refine ⟨nonNeg_all, ⟨by simp [PSlice.all], by simp [PSlice.all], by simp [PSlice.all], by decide⟩,
    nonNeg_all, ⟨by simp [PSlice.all], by simp [PSlice.all], by simp [PSlice.all], by decide⟩,
    ⟨by simp, by simp, by simp⟩, ⟨by decide, by decide⟩, trivial⟩
example : specList [2, 3, 6] (padPre [PSlice.all, PSlice.all, ⟨some 1, some 6, some 2⟩] 3)
    (npExpand [] (some [Idx.int (-1)]) 3) = [[some 0, some 1], [some 0, some 1, some 2], [some 5]] := by decide

/-- `x[1::3]` on 2 elements: the request is `1:3:3` (text `[1:3:2]`, last index beyond the extent) and
    the server's numpy slicing of it still selects numpy's single position 1; same for the unstrided `x[1:]` (`[1:1:2]`) -/
example : reqAxis 2 PSlice.all (Idx.sl ⟨some 1, none, some 3⟩) = ⟨some 1, some 3, some 3⟩ := by decide
example : npSlices [2] [reqAxis 2 PSlice.all (Idx.sl ⟨some 1, none, some 3⟩)] = .ok [[1]] := by decide
example : reqAxis 2 PSlice.all (Idx.sl ⟨some 1, none, none⟩) = ⟨some 1, some 3, some 1⟩ := by decide
example : npSlices [2] [reqAxis 2 PSlice.all (Idx.sl ⟨some 1, none, none⟩)] = .ok [[1]] := by decide
example : sel 2 ⟨some 1, some 3, some 3⟩ = sel 2 ⟨some 1, none, some 3⟩ :=
  C02_stop_beyond_extent 2 _ 3 rfl (by decide)
example : ValidIdx (sel 2 PSlice.all).length (Idx.sl ⟨some 1, none, some 3⟩) := by
  refine ⟨by simp, by simp, by simp, by decide⟩

/-! ### end to end on values: request ∘ server slicing ∘ XDR encode ∘ XDR decode = numpy indexing

  `E2E.fetchArray ty shape vals pre idx` (PydapModel/EndToEnd.lean) composes the models that were separate:
  `remoteIndex` above (client request, hyperslab text, server parse, per-axis positions), the server's
  `target.data = target[slice_]` on the *values* (`E2E.gather`, row-major), `Xdr.encImpl` (responses/dods.py)
  and `Xdr.decImpl` (the client's `unpack_dap2_data`).  `E2E.numpyIndex shape vals P E` is numpy's
  `source[P][E]` with integer axes kept: per-axis positions as in `specList`, values by the product
  semantics `E2E.npTake` — this is where "numpy's N-d basic indexing is the product of the per-axis
  selections" is a *definition* (`Proofs/EndToEnd.lean`: `gather_spec` proves the row-major gather equal
  to it pointwise); numpy itself is compared with it in the check (`e2e-array`). -/

/-- **(A) array, no Ellipsis** (short tuples included), any DAP2 type, rank, extents, values, URL
    pre-constraint with any strides: the client decodes exactly numpy's `source[pre][idx]` — shape
    (integer axes kept with length 1) and values — and consumes the whole response. -/
theorem C02_e2e_array (ty : Xdr.Ty) (shape : List Nat) (vals : List Xdr.Val) (pre : List PSlice) (idx : List Idx)
    (hw : E2E.WFArr ty shape vals) (hpl : pre.length ≤ shape.length) (h : NoEll idx)
    (hl : idx.length ≤ shape.length)
    (hv : ValidList shape (padPre pre shape.length) (npExpand idx none shape.length)) :
    ∃ cshape vs,
      E2E.numpyIndex shape vals (padPre pre shape.length) (npExpand idx none shape.length) = some (cshape, vs) ∧
      E2E.fetchArray ty shape vals pre idx = .ok (E2E.dataOf cshape vs, []) :=
  E2E.fetchArray_spec ty shape vals pre idx _ hw hpl
    (fun cshape hc => by rw [fixSlice_noEll idx cshape h (by omega), hc]) hv

/-- **(A) with one Ellipsis anywhere in the index** -/
theorem C02_e2e_array_ellipsis (ty : Xdr.Ty) (shape : List Nat) (vals : List Xdr.Val) (pre : List PSlice)
    (a b : List Idx) (hw : E2E.WFArr ty shape vals) (hpl : pre.length ≤ shape.length)
    (ha : NoEll a) (hb : NoEll b) (hl : a.length + b.length ≤ shape.length)
    (hv : ValidList shape (padPre pre shape.length) (npExpand a (some b) shape.length)) :
    ∃ cshape vs,
      E2E.numpyIndex shape vals (padPre pre shape.length) (npExpand a (some b) shape.length) = some (cshape, vs) ∧
      E2E.fetchArray ty shape vals pre (a ++ Idx.ell :: b) = .ok (E2E.dataOf cshape vs, []) :=
  E2E.fetchArray_spec ty shape vals pre _ _ hw hpl
    (fun cshape hc => by rw [fixSlice_ell a b cshape ha hb (by omega), hc]) hv

/-- **the row-major gather is numpy's N-d basic indexing** (the bridge from C02's per-axis position
    lists to values): for one position list per axis, all inside the source, the gathered list is —
    in row-major order of the result, of length `∏ |S_k|` — `source[S₀[j₀], …, S_{r-1}[j_{r-1}]]`. -/
theorem C02_e2e_gather_is_numpy {α : Type} (shape : List Nat) (S : List (List Nat)) (vals : List α)
    (hr : E2E.InRange shape S) (hl : vals.length = Xdr.prod shape) :
    (E2E.gather shape S vals).map some = (E2E.cart S).map (fun ix => vals[E2E.ravel shape ix]?) ∧
    (E2E.gather shape S vals).length = Xdr.prod (selShape S) ∧
    (E2E.cart S).length = Xdr.prod (selShape S) :=
  ⟨E2E.gather_spec shape S vals hr hl, E2E.gather_length shape S vals hr hl, E2E.cart_length S⟩

/-! ### (C) grids on values: `grid[key]` is one fetch per indexed child (`E2E.fetchGrid`)

  The source grid: array of type `ty`, shape `shape`, values `vals`; map `j` of type `(maps[j]).1` with the
  `shape[j]` values `(maps[j]).2`.  Opened with the URL pre-constraint `pre` (map `j` stores `pre[j]`). -/

/-- `output_grid = False`: one request, the array, and its value is numpy's (by (A)) -/
theorem C02_e2e_grid_array_only (ty : Xdr.Ty) (shape : List Nat) (vals : List Xdr.Val)
    (maps : List (Xdr.Ty × List Xdr.Val)) (pre : List PSlice) (key : List Idx)
    (hw : E2E.WFArr ty shape vals) (hpl : pre.length ≤ shape.length) (h : NoEll key)
    (hl : key.length ≤ shape.length)
    (hv : ValidList shape (padPre pre shape.length) (npExpand key none shape.length)) :
    ∃ cshape vs,
      E2E.numpyIndex shape vals (padPre pre shape.length) (npExpand key none shape.length) = some (cshape, vs) ∧
      E2E.fetchGrid false ty shape vals maps pre key = [(0, .ok (E2E.dataOf cshape vs, []))] := by
  obtain ⟨cs, vs, h1, h2⟩ := C02_e2e_array ty shape vals pre key hw hpl h hl hv
  exact ⟨cs, vs, h1, by rw [E2E.fetchGrid_off, h2]⟩

/-- **(C) grid, `output_grid` on, key without Ellipsis**: `key.length + 1` children are fetched; the
    array's value is numpy's `array[pre][key]`, and for every `j` below the key's length map `j`'s value is
    numpy's `map_j[pre_j][key_j]` (integer entries keep the axis); the remaining maps stay lazy. -/
theorem C02_e2e_grid (ty : Xdr.Ty) (shape : List Nat) (vals : List Xdr.Val)
    (maps : List (Xdr.Ty × List Xdr.Val)) (pre : List PSlice) (key : List Idx)
    (hw : E2E.WFArr ty shape vals) (hm : maps.length = shape.length)
    (hwm : ∀ j (h1 : j < maps.length) (h2 : j < shape.length), E2E.WFArr maps[j].1 [shape[j]] maps[j].2)
    (hpl : pre.length ≤ shape.length) (h : NoEll key) (hl : key.length ≤ shape.length)
    (hv : ValidList shape (padPre pre shape.length) (npExpand key none shape.length)) :
    (E2E.fetchGrid true ty shape vals maps pre key).length = key.length + 1 ∧
    (∃ cshape vs,
      E2E.numpyIndex shape vals (padPre pre shape.length) (npExpand key none shape.length) = some (cshape, vs) ∧
      (E2E.fetchGrid true ty shape vals maps pre key)[0]? = some (0, .ok (E2E.dataOf cshape vs, []))) ∧
    ∀ j (hj : j < key.length), ∃ cs vs,
      E2E.numpyIndex [shape[j]'(by omega)] (maps[j]'(by omega)).2
        [(padPre pre shape.length)[j]'(by rw [padPre_length pre _ hpl]; omega)] [key[j]] = some (cs, vs) ∧
      (E2E.fetchGrid true ty shape vals maps pre key)[j + 1]? = some (j + 1, .ok (E2E.dataOf cs vs, [])) := by
  obtain ⟨hlen, _, hmaps⟩ := C02_grid_maps shape (padPre pre shape.length) key h hl hv
  refine ⟨by simpa [E2E.fetchGrid] using hlen, ?_, ?_⟩
  · obtain ⟨cs, vs, h1, h2⟩ := C02_e2e_array ty shape vals pre key hw hpl h hl hv
    exact ⟨cs, vs, h1, by rw [E2E.fetchGrid_array, h2]⟩
  · intro j hj
    have hjs : j < shape.length := by omega
    have hE : (npExpand key none shape.length)[j]'(by rw [(validList_length hv).2]; exact hjs) = key[j] := by
      simp [npExpand, List.getElem_append_left, hj]
    have hvj := E2E.validList_getElem shape _ _ hv j hjs (by rw [(validList_length hv).1]; exact hjs)
      (by rw [(validList_length hv).2]; exact hjs)
    rw [hE] at hvj
    exact E2E.fetchGrid_map true ty shape vals maps pre key j key[j] hjs (by omega) hpl
      (hwm j (by omega) hjs) (h _ (List.getElem_mem hj)) (hmaps j hj).1 hvj.1 hvj.2

/-- **(C) grid, `output_grid` on, key with an Ellipsis** (after the repair of `GridType.__getitem__`): the
    array and *every* map are fetched; map `j`'s value is numpy's `map_j[pre_j][E_j]`, `E` being numpy's
    expansion of the key. -/
theorem C02_e2e_grid_ellipsis (ty : Xdr.Ty) (shape : List Nat) (vals : List Xdr.Val)
    (maps : List (Xdr.Ty × List Xdr.Val)) (pre : List PSlice) (a b : List Idx)
    (hw : E2E.WFArr ty shape vals) (hm : maps.length = shape.length)
    (hwm : ∀ j (h1 : j < maps.length) (h2 : j < shape.length), E2E.WFArr maps[j].1 [shape[j]] maps[j].2)
    (hpl : pre.length ≤ shape.length) (ha : NoEll a) (hb : NoEll b) (hl : a.length + b.length ≤ shape.length)
    (hv : ValidList shape (padPre pre shape.length) (npExpand a (some b) shape.length)) :
    (∃ cshape vs,
      E2E.numpyIndex shape vals (padPre pre shape.length) (npExpand a (some b) shape.length) = some (cshape, vs) ∧
      (E2E.fetchGrid true ty shape vals maps pre (a ++ Idx.ell :: b))[0]? = some (0, .ok (E2E.dataOf cshape vs, []))) ∧
    ∀ j (hj : j < shape.length), ∃ cs vs,
      E2E.numpyIndex [shape[j]] (maps[j]'(by omega)).2
        [(padPre pre shape.length)[j]'(by rw [padPre_length pre _ hpl]; exact hj)]
        [(npExpand a (some b) shape.length)[j]'(by rw [(validList_length hv).2]; exact hj)] = some (cs, vs) ∧
      (E2E.fetchGrid true ty shape vals maps pre (a ++ Idx.ell :: b))[j + 1]?
        = some (j + 1, .ok (E2E.dataOf cs vs, [])) := by
  obtain ⟨_, hmaps⟩ := C02_grid_maps_ellipsis shape (padPre pre shape.length) a b ha hb hl hv
  refine ⟨?_, ?_⟩
  · obtain ⟨cs, vs, h1, h2⟩ := C02_e2e_array_ellipsis ty shape vals pre a b hw hpl ha hb hl hv
    exact ⟨cs, vs, h1, by rw [E2E.fetchGrid_array, h2]⟩
  · intro j hj
    have hvj := E2E.validList_getElem shape _ _ hv j hj (by rw [(validList_length hv).1]; exact hj)
      (by rw [(validList_length hv).2]; exact hj)
    have hne : (npExpand a (some b) shape.length)[j]'(by rw [(validList_length hv).2]; exact hj) ≠ Idx.ell := by
      intro he; rw [he] at hvj; exact hvj.2
    exact E2E.fetchGrid_map true ty shape vals maps pre _ j _ hj (by omega) hpl
      (hwm j (by omega) hj) hne (hmaps j hj).1 hvj.1 hvj.2

/-! ### (B) the same through the response text

  `E2E.fetchArrayText` additionally runs the server's DDS printer (`Dds.printDs`, C07) on the constrained
  variable, concatenates `dds ‖ "Data:\n" ‖ xdr` (`Xdr.body`, C05), and on the client side
  `safe_dds_and_data`'s split (`Xdr.splitBody`), the DDS parser (`Dds.parseDds`, on the text *without* its final
  newline, as the client receives it), the conversion of the parsed declaration to the decoder's declaration
  (`E2E.tmplOfDataset`) and `Xdr.decImpl`.  That the printed DDS is ASCII and that `\nData:\n` cannot start inside
  it (`E2E.TextOk`) is *proved* from the names being in C07's domain (`C02_e2e_text_ok`), not assumed. -/

/-- the DDS the server prints for the constrained variable is ASCII and none of its newlines is followed by `D`
    (so `safe_dds_and_data` splits at the right place and the ASCII decode is lossless), for every DAP2 type, shape
    and names in C07's domain -/
theorem C02_e2e_text_ok (dsName name : Dds.Text) (dims : List Dds.Text) (ty : Xdr.Ty) (cshape : List Nat)
    (hds : Dds.NameOk dsName) (hn : Dds.NameOk name) (hdn : ∀ x ∈ dims, Dds.NameOk x) :
    E2E.TextOk (E2E.answerDs dsName name dims ty cshape) :=
  E2E.textOk_answerDs dsName name dims ty cshape hds hn hdn

/-- **(B) array through the response text, no Ellipsis**: the values decoded are numpy's `source[pre][idx]`, and
    the declaration the client holds is the printed one: dataset and variable name, parser dtype of `ty`, the
    constrained shape, the dimension names. -/
theorem C02_e2e_array_text (dsName name : Dds.Text) (dims : List Dds.Text) (ty : Xdr.Ty) (shape : List Nat)
    (vals : List Xdr.Val) (pre : List PSlice) (idx : List Idx)
    (hw : E2E.WFArr ty shape vals) (hpl : pre.length ≤ shape.length) (h : NoEll idx)
    (hl : idx.length ≤ shape.length)
    (hv : ValidList shape (padPre pre shape.length) (npExpand idx none shape.length))
    (hds : Dds.NameOk dsName) (hn : Dds.NameOk name) (hdn : ∀ x ∈ dims, Dds.NameOk x)
    (hd : dims = [] ∨ dims.length = shape.length) :
    ∃ cshape vs,
      E2E.numpyIndex shape vals (padPre pre shape.length) (npExpand idx none shape.length) = some (cshape, vs) ∧
      E2E.fetchArrayText dsName name dims ty shape vals pre idx
        = .ok (Dds.normDs (E2E.answerDs dsName name dims ty cshape), .tuple [E2E.dataOf cshape vs], []) :=
  E2E.fetchArrayText_spec dsName name dims ty shape vals pre idx _ hw hpl
    (fun cshape hc => by rw [fixSlice_noEll idx cshape h (by omega), hc]) hv hds hn hdn hd

theorem C02_e2e_array_text_ellipsis (dsName name : Dds.Text) (dims : List Dds.Text) (ty : Xdr.Ty) (shape : List Nat)
    (vals : List Xdr.Val) (pre : List PSlice) (a b : List Idx)
    (hw : E2E.WFArr ty shape vals) (hpl : pre.length ≤ shape.length)
    (ha : NoEll a) (hb : NoEll b) (hl : a.length + b.length ≤ shape.length)
    (hv : ValidList shape (padPre pre shape.length) (npExpand a (some b) shape.length))
    (hds : Dds.NameOk dsName) (hn : Dds.NameOk name) (hdn : ∀ x ∈ dims, Dds.NameOk x)
    (hd : dims = [] ∨ dims.length = shape.length) :
    ∃ cshape vs,
      E2E.numpyIndex shape vals (padPre pre shape.length) (npExpand a (some b) shape.length) = some (cshape, vs) ∧
      E2E.fetchArrayText dsName name dims ty shape vals pre (a ++ Idx.ell :: b)
        = .ok (Dds.normDs (E2E.answerDs dsName name dims ty cshape), .tuple [E2E.dataOf cshape vs], []) :=
  E2E.fetchArrayText_spec dsName name dims ty shape vals pre _ _ hw hpl
    (fun cshape hc => by rw [fixSlice_ell a b cshape ha hb (by omega), hc]) hv hds hn hdn hd

def exVals : List Xdr.Val := [.num 10, .num 11, .num 12, .num 13, .num 14, .num 15, .num 16, .num 17, .num 18, .num 19]

/-- Int16 source `[10,11,…,19]`, `a[0:2:9]` in the URL, then `[1:3]`: numpy gives shape `(2,)`, values 12, 14 -/
example : E2E.numpyIndex [10] exVals
    (padPre [⟨some 0, some 10, some 2⟩] 1) (npExpand [Idx.sl ⟨some 1, some 3, none⟩] none 1)
    = some ([2], [.num 12, .num 14]) := by decide
example : E2E.fetchArray .int16 [10] exVals
    [⟨some 0, some 10, some 2⟩] [Idx.sl ⟨some 1, some 3, none⟩] = .ok (.array [.num 12, .num 14], []) := by
  obtain ⟨cs, vs, h1, h2⟩ := C02_e2e_array .int16 [10] exVals
    [⟨some 0, some 10, some 2⟩] [Idx.sl ⟨some 1, some 3, none⟩]
    ⟨by decide, by decide, by decide⟩ (by decide) (by intro x hx; simp at hx; subst hx; simp) (by decide)
    (by refine ⟨⟨by simp, by simp, by simp⟩, ⟨by simp, by simp, by simp, by decide⟩, trivial⟩)
  have : E2E.numpyIndex [10] exVals
    (padPre [⟨some 0, some 10, some 2⟩] 1) (npExpand [Idx.sl ⟨some 1, some 3, none⟩] none 1)
    = some ([2], [.num 12, .num 14]) := by decide
  rw [show [10].length = 1 from rfl, this] at h1
  cases h1
  exact h2
/-- rank 2, strings, an integer and an Ellipsis: `x[..., -1]` on a 2×3 array of strings keeps the axis -/
example : E2E.numpyIndex [2, 3] ([[97], [98], [99], [100], [101], []].map Xdr.Val.str)
    (padPre [] 2) (npExpand [] (some [Idx.int (-1)]) 2) = some ([2, 1], [.str [99], .str []]) := by decide
example : E2E.WFArr .string [2, 3] ([[97], [98], [99], [100], [101], []].map Xdr.Val.str) :=
  ⟨by decide, by decide, by decide⟩
example : E2E.InRange [2, 3] [[1], [0, 2]] ∧ E2E.gather [2, 3] [[1], [0, 2]] [0, 1, 2, 3, 4, 5] = [3, 5] :=
  ⟨by simp [E2E.InRange], by decide⟩

/-- a 2×3 Int32 grid with a Float64 and a String map, `g[1]`: two children are fetched (array, first map), the
    second map stays lazy; hypotheses of `C02_e2e_grid` hold for it -/
def exGridVals : List Xdr.Val := [.num 0, .num 1, .num 2, .num 3, .num 4, .num (-5)]
def exGridMaps : List (Xdr.Ty × List Xdr.Val) :=
  [(.float64, [.num 4607182418800017408, .num 0]), (.string, [.str [97], .str [], .str [98, 99]])]
example : (E2E.fetchGrid true .int32 [2, 3] exGridVals exGridMaps [] [Idx.int 1]).length = 2 ∧
    (E2E.fetchGrid true .int32 [2, 3] exGridVals exGridMaps [] [Idx.int 1])[1]? = some (1, .ok (.array [.num 0], [])) := by
  have hwm : ∀ j (h1 : j < exGridMaps.length) (h2 : j < [2, 3].length),
      E2E.WFArr exGridMaps[j].1 [[2, 3][j]] exGridMaps[j].2 := by
    intro j h1 h2
    match j, h1 with
    | 0, _ => exact (show E2E.WFArr .float64 [2] [.num 4607182418800017408, .num 0] from ⟨by decide, by decide, by decide⟩)
    | 1, _ => exact (show E2E.WFArr .string [3] [.str [97], .str [], .str [98, 99]] from ⟨by decide, by decide, by decide⟩)
  have hv : ValidList [2, 3] (padPre [] 2) (npExpand [Idx.int 1] none 2) :=
    ⟨nonNeg_all, ⟨by decide, by decide⟩, nonNeg_all,
      ⟨by simp [PSlice.all], by simp [PSlice.all], by simp [PSlice.all], by decide⟩, trivial⟩
  obtain ⟨hlen, _, hm⟩ := C02_e2e_grid .int32 [2, 3] exGridVals exGridMaps [] [Idx.int 1]
    ⟨by decide, by decide, by decide⟩ rfl hwm (by decide) (by intro x hx; simp at hx; subst hx; simp) (by decide) hv
  obtain ⟨cs, vs, h1, h2⟩ := hm 0 (by decide)
  have : E2E.numpyIndex [2] [Xdr.Val.num 4607182418800017408, .num 0] [PSlice.all] [Idx.int 1]
      = some ([1], [.num 0]) := by decide
  rw [show E2E.numpyIndex [[2, 3][0]] (exGridMaps[0]).2 [(padPre [] [2, 3].length)[0]] [[Idx.int 1][0]]
      = E2E.numpyIndex [2] [Xdr.Val.num 4607182418800017408, .num 0] [PSlice.all] [Idx.int 1] from rfl, this] at h1
  cases h1
  exact ⟨hlen, h2⟩

/-- `TextOk` on a concrete text, by computation: `Dataset {\n    Int16 a[m0 = 2];\n} ds;` and the names are in C07's domain -/
example : E2E.TextOk (E2E.answerDs "ds".toList "a".toList ["m0".toList] .int16 [2]) := by
  intro s0 h
  have hp : Dds.printDs (E2E.answerDs "ds".toList "a".toList ["m0".toList] .int16 [2])
      = .ok ("Dataset {\n    Int16 a[m0 = 2];\n} ds;".toList ++ ['\n']) := by
    have l1 : Dds.lookup Gen.NUMPY_TO_DAP2_TYPEMAP (Dds.dtypeChar ['h']) = some "Int16".toList := by decide
    have i2 : intText 2 = ['2'] := by simp [intText, natDigits, digitChar]
    simp [E2E.answerDs, E2E.ddsBase, E2E.npChar, Dds.printDs, Dds.printL, Dds.printT, Dds.printBase, l1,
      Dds.shapeText, Dds.dimText, Dds.indent, Dds.closeText, Dds.effShape, i2]
  rw [hp] at h
  have := List.append_cancel_right (Except.ok.inj h)
  subst this
  exact ⟨by decide, by decide⟩
example : Dds.NameOk "ds".toList ∧ Dds.NameOk "a".toList ∧ Dds.NameOk "m0".toList :=
  ⟨⟨by decide, by decide⟩, ⟨by decide, by decide⟩, ⟨by decide, by decide⟩⟩

/-! ### the property's first two sentences as ONE statement over every basic index (round 7)

  `AtMostOneEll idx` is numpy's own condition on a tuple of integers, slices and `Ellipsis` (a second `Ellipsis` is an
  `IndexError`); `explicitAxes idx ≤ rank` likewise (more entries than axes is an `IndexError`); `npExpandIdx` is numpy's
  expansion (the tuple split at its Ellipsis, C03's `npExpand`).  `ValidList … (npExpandIdx …)` is the property's domain:
  every URL hyperslab non-negative with step ≥ 1, every entry relative to the PRE-SLICED axis an integer in `[-L, L)` or a
  slice with bounds ≥ `-L` (no upper bound), step ≥ 1, and a non-empty selection.  The theorem replaces the four
  case-split statements `C02_index(_ellipsis)`, `C02_preconstraint(_ellipsis)`, `C02_e2e_array(_ellipsis)` as the
  carrier of the clause (they are kept: DESIGN/MANIFEST name them, and they are its two cases). -/

/-- **Remote subsetting = numpy indexing, every basic index, with or without a hyperslab in the URL**: for every DAP2
    type, shape, values, URL pre-constraint (any strides) and every index tuple of integers, slices and at most one
    Ellipsis (short tuples included) in the property's domain — (1) the source positions the server's answer holds are
    numpy's, axis by axis, an integer entry keeping its axis with the single position it addresses; (2) the client
    decodes exactly numpy's `source[pre][idx]` with integer axes kept — shape and values — and nothing is left unread. -/
theorem C02_remote_subsetting (ty : Xdr.Ty) (shape : List Nat) (vals : List Xdr.Val) (pre : List PSlice)
    (idx : List Idx) (hw : E2E.WFArr ty shape vals) (hpl : pre.length ≤ shape.length)
    (h1 : AtMostOneEll idx) (hl : explicitAxes idx ≤ shape.length)
    (hv : ValidList shape (padPre pre shape.length) (npExpandIdx idx shape.length)) :
    (∃ R, remoteIndex shape pre idx = .ok R ∧
      R.map (List.map some) = specList shape (padPre pre shape.length) (npExpandIdx idx shape.length)) ∧
    (∃ cshape vs,
      E2E.numpyIndex shape vals (padPre pre shape.length) (npExpandIdx idx shape.length) = some (cshape, vs) ∧
      E2E.fetchArray ty shape vals pre idx = .ok (E2E.dataOf cshape vs, [])) := by
  rcases basic_cases idx h1 with ⟨h2, he, hne, hx⟩ | ⟨a, b, hs, he, ha, hb, hx⟩
  · have hE : npExpandIdx idx shape.length = npExpand idx none shape.length := by
      unfold npExpandIdx; rw [h2, ← he]
    rw [hE] at hv ⊢
    rw [hx] at hl
    exact ⟨C02_preconstraint shape pre idx hpl hne hl hv, C02_e2e_array ty shape vals pre idx hw hpl hne hl hv⟩
  · have hE : npExpandIdx idx shape.length = npExpand a (some b) shape.length := by
      unfold npExpandIdx; rw [hs]
    rw [hE] at hv ⊢
    rw [hx] at hl
    rw [he]
    exact ⟨C02_preconstraint_ellipsis shape pre a b hpl ha hb hl hv,
      C02_e2e_array_ellipsis ty shape vals pre a b hw hpl ha hb hl hv⟩

/-- **every integer entry keeps its axis with length one, every slice entry has numpy's length** — the shape the
    client sees, read off the same statement: axis `j` of the answer has as many positions as numpy's selection of
    entry `j` on the pre-sliced axis (1 for an integer). -/
theorem C02_answer_shape (shape : List Nat) (pre : List PSlice) (idx : List Idx)
    (hpl : pre.length ≤ shape.length) (h1 : AtMostOneEll idx) (hl : explicitAxes idx ≤ shape.length)
    (hv : ValidList shape (padPre pre shape.length) (npExpandIdx idx shape.length)) :
    ∃ R, remoteIndex shape pre idx = .ok R ∧
      R.map List.length = (specList shape (padPre pre shape.length) (npExpandIdx idx shape.length)).map List.length := by
  rcases basic_cases idx h1 with ⟨h2, he, hne, hx⟩ | ⟨a, b, hs, he, ha, hb, hx⟩
  · have hE : npExpandIdx idx shape.length = npExpand idx none shape.length := by
      unfold npExpandIdx; rw [h2, ← he]
    rw [hE] at hv ⊢
    rw [hx] at hl
    obtain ⟨R, hR, hS⟩ := C02_preconstraint shape pre idx hpl hne hl hv
    exact ⟨R, hR, by rw [← hS]; simp [Function.comp_def]⟩
  · have hE : npExpandIdx idx shape.length = npExpand a (some b) shape.length := by
      unfold npExpandIdx; rw [hs]
    rw [hE] at hv ⊢
    rw [hx] at hl
    rw [he]
    obtain ⟨R, hR, hS⟩ := C02_preconstraint_ellipsis shape pre a b hpl ha hb hl hv
    exact ⟨R, hR, by rw [← hS]; simp [Function.comp_def]⟩

/-- **the server accepts what the client asks for**: `apply_projection` rejects, before it slices, a hyperslab that
    `check_hyperslab` finds outside the array (fix 153ff3f; `Handler.validSl` is C15's model of it: start inside the axis,
    start < stop, stride ≥ 1, a stop beyond the extent allowed) — `serveSlab` in `remoteIndex` has no such guard.  On the
    property's domain the guard never fires: the request has exactly one slice per axis, and every one of them passes the
    check on the source axis it addresses.  (So the positions theorem speaks about requests the real server does slice.) -/
theorem C02_request_passes_check_hyperslab (shape : List Nat) (pre : List PSlice) (idx : List Idx)
    (hpl : pre.length ≤ shape.length) (h1 : AtMostOneEll idx) (hl : explicitAxes idx ≤ shape.length)
    (hv : ValidList shape (padPre pre shape.length) (npExpandIdx idx shape.length)) :
    (reqList shape (padPre pre shape.length) (npExpandIdx idx shape.length)).length = shape.length ∧
    ∀ (j : Nat) (hj : j < shape.length), ∃ r,
      (reqList shape (padPre pre shape.length) (npExpandIdx idx shape.length))[j]? = some r ∧
      Handler.validSl shape[j] r = true := by
  refine ⟨?_, request_list_accepted shape _ _ hv⟩
  have hlen := validList_length hv
  clear h1 hl hpl
  generalize padPre pre shape.length = P at hv hlen
  generalize npExpandIdx idx shape.length = E at hv hlen
  induction shape generalizing P E with
  | nil => cases P <;> cases E <;> simp_all [reqList]
  | cons n ns ih =>
    cases P with
    | nil => simp at hlen
    | cons p ps => cases E with
      | nil => simp at hlen
      | cons e es =>
        simp only [reqList, List.length_cons, Nat.add_right_cancel_iff]
        exact ih ps es hv.2.2 ⟨by simpa using hlen.1, by simpa using hlen.2⟩

/-- one axis: the request for `x[1::3]` on 2 elements (`1:3:3`, last index beyond the extent) passes the check; an
    inverted or out-of-range request — what an EMPTY selection would produce, outside the domain — does not -/
example : Handler.validSl 2 (reqAxis 2 PSlice.all (Idx.sl ⟨some 1, none, some 3⟩)) = true ∧
    Handler.validSl 5 ⟨some 3, some 2, some 1⟩ = false ∧ Handler.validSl 5 ⟨some 5, some 10, some 1⟩ = false := by
  decide

/-- **(4) grids, every basic key, `output_grid` on and off, with or without URL hyperslab — one statement**: `grid[key]`
    fetches the array, whose value is numpy's `array[pre][key]` (with `output_grid=False` that is the only request);
    and for EVERY axis `j`, with `e` entry `j` of numpy's expansion of the key: either map `j` is fetched and its value is
    numpy's `map_j[pre_j][e]` (integer entries keep the axis) — every axis the key reaches, all axes when the key has an
    Ellipsis — or the key does not reach axis `j` (`e` is the full slice numpy pads with) and map `j` is not fetched: it
    stays the proxy it was, carrying `pre_j` (reading it is `C02_remote_subsetting` on a rank-1 array).  So the maps are
    sliced along the matching axes, never along another one. -/
theorem C02_grid_subsetting (ty : Xdr.Ty) (shape : List Nat) (vals : List Xdr.Val)
    (maps : List (Xdr.Ty × List Xdr.Val)) (pre : List PSlice) (key : List Idx)
    (hw : E2E.WFArr ty shape vals) (hm : maps.length = shape.length)
    (hwm : ∀ j (h1 : j < maps.length) (h2 : j < shape.length), E2E.WFArr maps[j].1 [shape[j]] maps[j].2)
    (hpl : pre.length ≤ shape.length) (h1 : AtMostOneEll key) (hl : explicitAxes key ≤ shape.length)
    (hv : ValidList shape (padPre pre shape.length) (npExpandIdx key shape.length)) :
    (∃ cshape vs,
      E2E.numpyIndex shape vals (padPre pre shape.length) (npExpandIdx key shape.length) = some (cshape, vs) ∧
      (E2E.fetchGrid true ty shape vals maps pre key)[0]? = some (0, .ok (E2E.dataOf cshape vs, [])) ∧
      E2E.fetchGrid false ty shape vals maps pre key = [(0, .ok (E2E.dataOf cshape vs, []))]) ∧
    ∀ j, j < shape.length → ∃ n m p e, shape[j]? = some n ∧ maps[j]? = some m ∧
      (padPre pre shape.length)[j]? = some p ∧ (npExpandIdx key shape.length)[j]? = some e ∧
      ((∃ cs vs, E2E.numpyIndex [n] m.2 [p] [e] = some (cs, vs) ∧
          (E2E.fetchGrid true ty shape vals maps pre key)[j + 1]? = some (j + 1, .ok (E2E.dataOf cs vs, []))) ∨
       ((E2E.fetchGrid true ty shape vals maps pre key)[j + 1]? = none ∧ e = Idx.sl PSlice.all)) := by
  have hlenv := validList_length hv
  have hPl : (padPre pre shape.length).length = shape.length := padPre_length pre _ hpl
  rcases basic_cases key h1 with ⟨h2, he, hne, hx⟩ | ⟨a, b, hs, he, ha, hb, hx⟩
  · have hE : npExpandIdx key shape.length = npExpand key none shape.length := by
      unfold npExpandIdx; rw [h2, ← he]
    rw [hE] at hv hlenv ⊢
    rw [hx] at hl
    obtain ⟨hlen, ⟨cs, vs, hn, hf⟩, hmaps⟩ := C02_e2e_grid ty shape vals maps pre key hw hm hwm hpl hne hl hv
    refine ⟨⟨cs, vs, hn, hf, ?_⟩, ?_⟩
    · obtain ⟨cs', vs', hn', hf'⟩ := C02_e2e_grid_array_only ty shape vals maps pre key hw hpl hne hl hv
      rw [hn] at hn'; cases hn'; exact hf'
    · intro j hj
      have hjm : j < maps.length := by omega
      have hjE : j < (npExpand key none shape.length).length := by rw [hlenv.2]; exact hj
      refine ⟨shape[j], maps[j], (padPre pre shape.length)[j]'(by omega), (npExpand key none shape.length)[j],
        List.getElem?_eq_getElem hj, List.getElem?_eq_getElem hjm, List.getElem?_eq_getElem (by omega),
        List.getElem?_eq_getElem hjE, ?_⟩
      by_cases hjk : j < key.length
      · left
        have hEj : (npExpand key none shape.length)[j] = key[j] := by
          simp [npExpand, List.getElem_append_left, hjk]
        obtain ⟨cs', vs', hn', hf'⟩ := hmaps j hjk
        rw [hEj]
        exact ⟨cs', vs', hn', hf'⟩
      · right
        refine ⟨List.getElem?_eq_none (by omega), ?_⟩
        simp [npExpand, List.getElem_append_right (Nat.le_of_not_lt hjk)]
  · have hE : npExpandIdx key shape.length = npExpand a (some b) shape.length := by
      unfold npExpandIdx; rw [hs]
    rw [hE] at hv hlenv ⊢
    rw [hx] at hl
    subst he
    obtain ⟨⟨cs, vs, hn, hf⟩, hmaps⟩ := C02_e2e_grid_ellipsis ty shape vals maps pre a b hw hm hwm hpl ha hb hl hv
    refine ⟨⟨cs, vs, hn, hf, ?_⟩, ?_⟩
    · obtain ⟨cs', vs', hn', hf'⟩ := C02_e2e_array_ellipsis ty shape vals pre a b hw hpl ha hb hl hv
      rw [hn] at hn'; cases hn'
      rw [E2E.fetchGrid_off, hf']
    · intro j hj
      have hjm : j < maps.length := by omega
      have hjE : j < (npExpand a (some b) shape.length).length := by rw [hlenv.2]; exact hj
      obtain ⟨cs', vs', hn', hf'⟩ := hmaps j hj
      exact ⟨shape[j], maps[j], (padPre pre shape.length)[j]'(by omega), (npExpand a (some b) shape.length)[j],
        List.getElem?_eq_getElem hj, List.getElem?_eq_getElem hjm, List.getElem?_eq_getElem (by omega),
        List.getElem?_eq_getElem hjE, Or.inl ⟨cs', vs', hn', hf'⟩⟩

/-- both branches of the per-axis alternative occur: `g[1]` on the 2×3 example grid fetches map 0 and leaves map 1
    (entry 1 of numpy's expansion is the full slice; the result has 2 children, so child 2 is absent) -/
example : npExpandIdx [Idx.int 1] 2 = [Idx.int 1, Idx.sl PSlice.all] ∧ AtMostOneEll [Idx.int 1] ∧
    explicitAxes [Idx.int 1] = 1 := by
  refine ⟨rfl, ?_, rfl⟩
  intro b hb; simp [splitEll] at hb

/-- non-vacuity of the composed statement: `x[..., -1]` and `x[1]` and `x[0, ..., ::2]` are basic indices; two
    Ellipses are not; numpy's expansion on rank 3 -/
example : AtMostOneEll [Idx.ell, Idx.int (-1)] ∧ AtMostOneEll [Idx.int 1] ∧
    AtMostOneEll [Idx.int 0, Idx.ell, Idx.sl ⟨none, none, some 2⟩] ∧ ¬ AtMostOneEll [Idx.ell, Idx.ell] ∧
    explicitAxes [Idx.int 0, Idx.ell, Idx.sl ⟨none, none, some 2⟩] = 2 ∧
    npExpandIdx [Idx.int 0, Idx.ell, Idx.sl ⟨none, none, some 2⟩] 3
      = [Idx.int 0, Idx.sl PSlice.all, Idx.sl ⟨none, none, some 2⟩] ∧
    npExpandIdx [Idx.int 1] 3 = [Idx.int 1, Idx.sl PSlice.all, Idx.sl PSlice.all] := by
  refine ⟨?_, ?_, ?_, ?_, rfl, rfl, rfl⟩
  · intro b hb; simp [splitEll] at hb; subst hb; intro x hx; simp at hx; subst hx; simp
  · intro b hb; simp [splitEll] at hb
  · intro b hb; simp [splitEll] at hb; subst hb; intro x hx; simp at hx; subst hx; simp
  · intro h; exact h [Idx.ell] rfl Idx.ell (by simp) rfl
/-- … and the rank-3 example above (`x[..., -1]`, stride in the URL on the last axis) is in its domain -/
example : ValidList [2, 3, 6] (padPre [PSlice.all, PSlice.all, ⟨some 1, some 6, some 2⟩] 3)
    (npExpandIdx [Idx.ell, Idx.int (-1)] 3) := by
  refine ⟨nonNeg_all, ⟨by simp [PSlice.all], by simp [PSlice.all], by simp [PSlice.all], by decide⟩,
    nonNeg_all, ⟨by simp [PSlice.all], by simp [PSlice.all], by simp [PSlice.all], by decide⟩,
    ⟨by simp, by simp, by simp⟩, ⟨by decide, by decide⟩, trivial⟩

/-! ### the tie by translation: the *source text* of `pad_hyperslab` and of the projection `BaseProxyDap2.__getitem__` sends

`Gen.src_pad_hyperslab` is the whole body of handlers/dap.py `pad_hyperslab`, `Gen.src_proxy_request` the first statement
of `BaseProxyDap2.__getitem__` followed by the query part it hands to `urlunparse`, both translated on every run by
harness/py2lean.py from the working tree (PydapModel/Generated/ProxySrc.lean).  Interpreted by MiniPy they compute the
model's `openSlice` (every URL hyperslab, every constrained shape) and `requestText` followed by `"&"` and the quoted
query.  Opaque in the second block (named in the generator): `combine_slices(self.slice, fix_slice(index, self.shape))`,
`hyperslab(index)`, `_quote(query)` — what they compute per axis is tied by `C03_source_fix_slice`, `C03_source_combine_slices`,
`C03_source_hyperslab`; the loops of `fix_slice` / `combine_slices` (`zip_longest`, Ellipsis expansion) and `urlunparse` /
`rstrip("&")` are not carried.  Carried: the hyperslab that is printed is that of the COMBINED index (`@hyperslab.arg0`),
after the variable's id, before the `&`. -/

section SourceTie
open MiniPy

/-- `pad_hyperslab(index, shape)` is `openSlice`: the parsed slices as they are, then one `slice(None)` per remaining
    dimension of the constrained shape (none when the hyperslab has at least the rank) -/
theorem C02_source_pad_hyperslab (pre : List PSlice) (cshape : List Nat) :
    runItem [("index", .tuple (pre.map sliceItemOf)), ("shape", .ilist (cshape.map Int.ofNat))] Gen.src_pad_hyperslab "@ret"
      = .ok (.tuple ((openSlice pre cshape).map idxItem)) := src_pad_hyperslab_eq pre cshape

/-- the projection sent for `proxy[idx]` is `requestText` — the id, then the hyperslab of
    `combine_slices(self.slice, fix_slice(idx, self.shape))` — followed by `&` and the quoted query of the base URL -/
theorem C02_source_request (id q : List Char) (stored : List Idx) (cshape : List Nat) (idx : List Idx)
    (userIndex : MiniPy.Val) :
    let combined := MiniPy.Val.tuple ((proxyIndex stored cshape idx).map sliceItemOf)
    let env : Env := [("index", userIndex), ("self.id", .str (codesOf id)), ("@combined", combined),
      ("@hyperslab", .str (codesOf (hyperslabText (proxyIndex stored cshape idx)))), ("@quoted_query", .str (codesOf q))]
    runItem env Gen.src_proxy_request "@query"
      = .ok (.str (codesOf (requestText id stored cshape idx ++ '&' :: q))) ∧
    runItem env Gen.src_proxy_request "@hyperslab.arg0" = .ok combined :=
  src_proxy_request_eq id q stored cshape idx userIndex

/-- non-vacuity: a one-slice hyperslab on a rank-3 variable is padded with two `slice(None)`; a hyperslab longer than
    the rank is kept whole -/
example : runItem [("index", .tuple [.slice (some 1) (some 5) (some 2)]), ("shape", .ilist [2, 4, 6])]
      Gen.src_pad_hyperslab "@ret"
    = .ok (.tuple [.slice (some 1) (some 5) (some 2), .slice none none none, .slice none none none]) ∧
    openSlice [⟨some 1, some 5, some 2⟩, PSlice.all] [7] = [.sl ⟨some 1, some 5, some 2⟩, .sl PSlice.all] :=
  ⟨rfl, rfl⟩

end SourceTie

end Pydap.C02
