/-
  C17 — Lazy row streams obey the constraint normal form and are never consumed.
  Property statements only; the simulation proof is in `Proofs/IterData*.lean`.
  Model: `PydapModel/IterData.lean` (`IterData`/`CSVData` of handlers/lib.py and handlers/csv, flat tables).
-/
import PydapModel.IterData
import PydapModel.TableVal
import Proofs.IterDataSim
namespace Pydap.C17
open Pydap Pydap.IterData

variable {A : Type}

/-- **Normal form, every program.**  Take any table with distinct column names whose rows have one
    cell per column, either constructor (`IterData` / `CSVData`), and any chain `ops` of filters,
    column lists, child selections, integer and slice keys, in any order and of any length, that the
    by-name reference accepts (`refRun`: every selected name is among the currently selected
    columns, every clause reads `id.column OP id.column | literal`).  Then every `__getitem__` of
    the chain succeeds, and iterating the resulting stream yields exactly: the source rows filtered
    by all the clauses, the column/child selections applied by name in order, then the slices in
    order (`refEval`). -/
theorem C17_normal_form (cmp : Op → A → A → Bool) (lit : List Char → Option A)
    (id : Name) (all : List Name) (hnd : all.Nodup)
    (src : List (List A)) (hsrc : ∀ r ∈ src, r.length = all.length) (csv : Bool)
    (ops : List Key) (st : Ref A)
    (href : refRun lit id all ⟨[], .table all, []⟩ ops = some st) :
    ∃ s, chain lit (if csv then mkCSVData src ⟨id, all, all⟩ else mkIterData src ⟨id, all, all⟩) ops = .ok s
      ∧ s.src = src
      ∧ iter cmp s = refEval cmp all st src := by
  obtain ⟨s, h1, hrel, hs⟩ := chain_sim ops _ _ st (rel_init cmp id all hnd src csv) href
  have hsrc' : s.src = src := by
    rw [hs]; cases csv <;> rfl
  exact ⟨s, h1, hsrc', by rw [← hsrc']; exact iter_of_rel hrel (by rw [hsrc']; exact hsrc)⟩

/-- **Intermediate streams.**  The same holds for every prefix of a program at once: the stream
    obtained after the first `n` steps lists the reference rows of the first `n` steps, whatever
    steps follow (so listing it before or after later steps gives the same rows). -/
theorem C17_prefixes (cmp : Op → A → A → Bool) (lit : List Char → Option A)
    (id : Name) (all : List Name) (hnd : all.Nodup)
    (src : List (List A)) (hsrc : ∀ r ∈ src, r.length = all.length) (csv : Bool)
    (ops more : List Key) (st st' : Ref A)
    (href : refRun lit id all ⟨[], .table all, []⟩ ops = some st)
    (hmore : refRun lit id all st more = some st') :
    ∃ s s', chain lit (if csv then mkCSVData src ⟨id, all, all⟩ else mkIterData src ⟨id, all, all⟩) ops = .ok s
      ∧ chain lit s more = .ok s'
      ∧ iter cmp s = refEval cmp all st src
      ∧ iter cmp s' = refEval cmp all st' src := by
  obtain ⟨s, h1, hrel, hs⟩ := chain_sim ops _ _ st (rel_init cmp id all hnd src csv) href
  obtain ⟨s', h2, hrel', hs'⟩ := chain_sim more s st st' hrel hmore
  have hsrc1 : s.src = src := by rw [hs]; cases csv <;> rfl
  have hsrc2 : s'.src = src := by rw [hs', hsrc1]
  exact ⟨s, s', h1, h2,
    by rw [← hsrc1]; exact iter_of_rel hrel (by rw [hsrc1]; exact hsrc),
    by rw [← hsrc2]; exact iter_of_rel hrel' (by rw [hsrc2]; exact hsrc)⟩

/-- **Each step returns a new stream that only extends the recorded pipeline**: the source rows
    are shared, and the filter, map and slice lists of the result have those of the operand as
    prefixes (`__getitem__` works on `copy.copy(self)` and appends). -/
theorem C17_pure (lit : List Char → Option A) (s s' : Stream A) (k : Key)
    (h : getitem lit s k = .ok s') :
    s'.src = s.src ∧ s.ifilter <+: s'.ifilter ∧ s.imap <+: s'.imap ∧ s.islice <+: s'.islice := by
  cases k with
  | str key =>
    simp only [getitem] at h
    cases ht : s.template with
    | base _ => simp [ht] at h
    | seq t =>
      simp only [ht] at h
      cases hi : indexOf? t.visible key with
      | none => simp [hi] at h
      | some col =>
        simp [hi] at h
        subst h
        exact ⟨rfl, List.prefix_refl _, List.prefix_append _ _, List.prefix_refl _⟩
  | list keys =>
    simp only [getitem] at h
    cases ht : s.template with
    | base _ => simp [ht] at h
    | seq t =>
      simp only [ht] at h
      cases hi : keys.mapM (indexOf? t.visible) with
      | none => simp [hi] at h
      | some cols =>
        simp [hi] at h
        subst h
        exact ⟨rfl, List.prefix_refl _, List.prefix_append _ _, List.prefix_refl _⟩
  | int i =>
    simp only [getitem, Except.ok.injEq] at h
    subst h
    exact ⟨rfl, List.prefix_refl _, List.prefix_refl _, List.prefix_append _ _⟩
  | slice sl =>
    simp only [getitem, Except.ok.injEq] at h
    subst h
    exact ⟨rfl, List.prefix_refl _, List.prefix_refl _, List.prefix_append _ _⟩
  | cond c =>
    simp only [getitem] at h
    cases hb : buildFilter lit c s.template with
    | error e => simp [hb, bind, Except.bind] at h
    | ok p =>
      obtain ⟨f, m⟩ := p
      simp [hb, bind, Except.bind, pure, Except.pure] at h
      subst h
      exact ⟨rfl, List.prefix_append _ _, List.prefix_append _ _, List.prefix_refl _⟩

/-- **Iteration is `slices ∘ maps ∘ filters` over the source**, for every stream whatsoever
    (also one not built by `chain`): the pipeline normal form of `__iter__`. -/
theorem C17_iter_normal_form (cmp : Op → A → A → Bool) (s : Stream A) :
    iter cmp s =
      (filterE (evalFilts cmp s.ifilter) s.src >>= fun rows =>
        mapE (fun r => evalMaps s.imap (.row r)) rows >>= fun items =>
          applySlices s.islice items) := rfl

/-! ### non-vacuity: a concrete table and the two-step program of the property -/

section NonVacuity
open Pydap.TableVal

def exAll : List Name := [['i'], ['f'], ['t']]
def exSrc : List (List Val) :=
  [[.num 16, .num 8, .str ['a']], [.num 32, .num 24, .str ['b']], [.num 48, .num 40, .str ['a']]]
/-- `D[["f","i"]][s.t="a"]["i"][1:]` -/
def exOps : List Key :=
  [.list [['f'], ['i']], .cond ⟨['s', '.', 't'], .eq, ['"', 'a', '"']⟩, .str ['i'], .slice ⟨some 1, none, none⟩]

def listingIs (r : Except Err (Stream Val)) (expect : List (Item Val)) : Bool :=
  match r with
  | .ok s => match iter cmpVal s with
    | .ok l => l == expect
    | .error _ => false
  | .error _ => false

/-- the hypotheses of `C17_normal_form` are inhabited by a program that contains the two-step
    "column list, then child" chain, and the model lists the `i` column of the kept rows -/
example : exAll.Nodup ∧ (∀ r ∈ exSrc, r.length = exAll.length)
    ∧ (refRun litVal ['s'] exAll ⟨[], .table exAll, []⟩ exOps).isSome = true
    ∧ listingIs (chain litVal (mkIterData exSrc ⟨['s'], exAll, exAll⟩) exOps) [.cell (.num 48)] = true
    ∧ listingIs (chain litVal (mkCSVData exSrc ⟨['s'], exAll, exAll⟩) exOps) [.cell (.num 48)] = true := by
  refine ⟨by decide, by decide, by decide, by decide, by decide⟩

/-- `C17_pure` is not vacuous: a filter step succeeds and extends the pipeline -/
example : ∃ s', getitem litVal (mkIterData exSrc ⟨['s'], exAll, exAll⟩)
    (.cond ⟨['s', '.', 'i'], .gt, ['1']⟩) = .ok s' ∧ s'.ifilter.length = 1 := ⟨_, rfl, rfl⟩

end NonVacuity

end Pydap.C17
