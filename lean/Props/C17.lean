/-
  C17 — Lazy row streams obey the constraint normal form and are never consumed.
  Property statements only; the simulation proof is in `Proofs/IterData*.lean`.
  Model: `PydapModel/IterData.lean` (`IterData`/`CSVData` of handlers/lib.py and handlers/csv, flat tables);
  `PydapModel/IterNest.lean` (`IterData` over tables with one nested sequence level; section "one nested level").
-/
import PydapModel.IterData
import PydapModel.TableVal
import Proofs.IterDataSim
import PydapModel.IterNest
import Proofs.IterNestSim
import Proofs.IterDataSrc
import PydapModel.IterHeap
import Proofs.IterHeap
namespace Pydap.C17
open Pydap Pydap.IterData

variable {A : Type}

/-- **Normal form, every program.**  Take any table with distinct column names whose rows have one
    cell per column, either constructor (`IterData` / `CSVData`), and any chain `ops` of filters,
    column lists, child selections, integer and slice keys, in any order and of any length, that the
    by-name reference accepts (`refRun`: every selected name is among the currently selected
    columns, every clause reads `id.column OP id.column | literal` — a clause is accepted on every
    layout, also after a child selection).  Then every `__getitem__` of
    the chain succeeds, and iterating the resulting stream yields exactly: the source rows filtered
    by all the clauses, the column/child selections applied by name in order, then the slices in
    order (`refEval`). -/
theorem C17_normal_form (cmp : Op → A → A → Bool) (lit : List Char → Option A)
    (id : Name) (all : List Name) (hnd : all.Nodup)
    (src : List (List A)) (hsrc : ∀ r ∈ src, r.length = all.length) (csv : Bool)
    (ops : List Key) (st : Ref A)
    (href : refRun lit id all ⟨[], .table all, []⟩ ops = some st) :
    ∃ s, chain lit (if csv then mkCSVData src ⟨id, all, all⟩ else mkIterData src ⟨id, all, all⟩) ops = .ok s
      ∧ s.src = src
      ∧ iter cmp s = refEval cmp all st src := by
  obtain ⟨s, h1, hrel, hs⟩ := chain_sim ops _ _ st (rel_init cmp id all hnd src csv) href
  have hsrc' : s.src = src := by
    rw [hs]; cases csv <;> rfl
  exact ⟨s, h1, hsrc', by rw [← hsrc']; exact iter_of_rel hrel (by rw [hsrc']; exact hsrc)⟩

/-- **Intermediate streams.**  The same holds for every prefix of a program at once: the stream
    obtained after the first `n` steps lists the reference rows of the first `n` steps, whatever
    steps follow (so listing it before or after later steps gives the same rows). -/
theorem C17_prefixes (cmp : Op → A → A → Bool) (lit : List Char → Option A)
    (id : Name) (all : List Name) (hnd : all.Nodup)
    (src : List (List A)) (hsrc : ∀ r ∈ src, r.length = all.length) (csv : Bool)
    (ops more : List Key) (st st' : Ref A)
    (href : refRun lit id all ⟨[], .table all, []⟩ ops = some st)
    (hmore : refRun lit id all st more = some st') :
    ∃ s s', chain lit (if csv then mkCSVData src ⟨id, all, all⟩ else mkIterData src ⟨id, all, all⟩) ops = .ok s
      ∧ chain lit s more = .ok s'
      ∧ iter cmp s = refEval cmp all st src
      ∧ iter cmp s' = refEval cmp all st' src := by
  obtain ⟨s, h1, hrel, hs⟩ := chain_sim ops _ _ st (rel_init cmp id all hnd src csv) href
  obtain ⟨s', h2, hrel', hs'⟩ := chain_sim more s st st' hrel hmore
  have hsrc1 : s.src = src := by rw [hs]; cases csv <;> rfl
  have hsrc2 : s'.src = src := by rw [hs', hsrc1]
  exact ⟨s, s', h1, h2,
    by rw [← hsrc1]; exact iter_of_rel hrel (by rw [hsrc1]; exact hsrc),
    by rw [← hsrc2]; exact iter_of_rel hrel' (by rw [hsrc2]; exact hsrc)⟩

/-- **Each step returns a new stream that only extends the recorded pipeline**: the source rows and
    the template of the source rows (`root`) are shared; the filter and slice lists of the result have
    those of the operand as prefixes; the map list of the operand is kept as a whole, extended by one
    entry at the back (a selection: it acts on the items produced so far) or at the front (the map of
    a clause: it acts on the source row) (`__getitem__` works on `copy.copy(self)`). -/
theorem C17_pure (lit : List Char → Option A) (s s' : Stream A) (k : Key)
    (h : getitem lit s k = .ok s') :
    s'.src = s.src ∧ s'.root = s.root ∧ s.ifilter <+: s'.ifilter ∧
      (s.imap <+: s'.imap ∨ s.imap <:+ s'.imap) ∧ s'.imap.length ≤ s.imap.length + 1 ∧
      s.islice <+: s'.islice := by
  cases k with
  | str key =>
    simp only [getitem] at h
    cases ht : s.template with
    | base _ => simp [ht] at h
    | seq t =>
      simp only [ht] at h
      cases hi : indexOf? t.visible key with
      | none => simp [hi] at h
      | some col =>
        simp [hi] at h
        subst h
        exact ⟨rfl, rfl, List.prefix_refl _, Or.inl (List.prefix_append _ _), by simp, List.prefix_refl _⟩
  | list keys =>
    simp only [getitem] at h
    cases ht : s.template with
    | base _ => simp [ht] at h
    | seq t =>
      simp only [ht] at h
      cases hi : keys.mapM (indexOf? t.visible) with
      | none => simp [hi] at h
      | some cols =>
        simp [hi] at h
        subst h
        exact ⟨rfl, rfl, List.prefix_refl _, Or.inl (List.prefix_append _ _), by simp, List.prefix_refl _⟩
  | int i =>
    simp only [getitem, Except.ok.injEq] at h
    subst h
    exact ⟨rfl, rfl, List.prefix_refl _, Or.inl (List.prefix_refl _), by simp, List.prefix_append _ _⟩
  | slice sl =>
    simp only [getitem, Except.ok.injEq] at h
    subst h
    exact ⟨rfl, rfl, List.prefix_refl _, Or.inl (List.prefix_refl _), by simp, List.prefix_append _ _⟩
  | cond c =>
    simp only [getitem] at h
    cases hb : buildFilter lit c s.root with
    | error e => simp [hb, bind, Except.bind] at h
    | ok p =>
      obtain ⟨f, m⟩ := p
      simp [hb, bind, Except.bind, pure, Except.pure] at h
      subst h
      exact ⟨rfl, rfl, List.prefix_append _ _, Or.inr (List.suffix_cons _ _), by simp, List.prefix_refl _⟩

/-- **Iteration is `slices ∘ maps ∘ filters` over the source**, for every stream whatsoever
    (also one not built by `chain`): the pipeline normal form of `__iter__`. -/
theorem C17_iter_normal_form (cmp : Op → A → A → Bool) (s : Stream A) :
    iter cmp s =
      (filterE (evalFilts cmp s.ifilter) s.src >>= fun rows =>
        mapE (fun r => evalMaps s.imap (.row r)) rows >>= fun items =>
          applySlices s.islice items) := rfl

/-! ### non-vacuity: a concrete table and the two-step program of the property -/

section NonVacuity
open Pydap.TableVal

def exAll : List Name := [['i'], ['f'], ['t']]
def exSrc : List (List Val) :=
  [[.num 16, .num 8, .str ['a']], [.num 32, .num 24, .str ['b']], [.num 48, .num 40, .str ['a']]]
/-- `D[["f","i"]][s.t="a"]["i"][1:]` -/
def exOps : List Key :=
  [.list [['f'], ['i']], .cond ⟨['s', '.', 't'], .eq, ['"', 'a', '"']⟩, .str ['i'], .slice ⟨some 1, none, none⟩]

def listingIs (r : Except Err (Stream Val)) (expect : List (Item Val)) : Bool :=
  match r with
  | .ok s => match iter cmpVal s with
    | .ok l => l == expect
    | .error _ => false
  | .error _ => false

/-- the hypotheses of `C17_normal_form` are inhabited by a program that contains the two-step
    "column list, then child" chain, and the model lists the `i` column of the kept rows -/
example : exAll.Nodup ∧ (∀ r ∈ exSrc, r.length = exAll.length)
    ∧ (refRun litVal ['s'] exAll ⟨[], .table exAll, []⟩ exOps).isSome = true
    ∧ listingIs (chain litVal (mkIterData exSrc ⟨['s'], exAll, exAll⟩) exOps) [.cell (.num 48)] = true
    ∧ listingIs (chain litVal (mkCSVData exSrc ⟨['s'], exAll, exAll⟩) exOps) [.cell (.num 48)] = true := by
  refine ⟨by decide, by decide, by decide, by decide, by decide⟩

/-- a clause after a child selection (`D["i"][s.t="a"][s.f>1]`) is in the domain too: it is resolved
    against the source rows and filters them -/
example : (refRun litVal ['s'] exAll ⟨[], .table exAll, []⟩
      [.str ['i'], .cond ⟨['s', '.', 't'], .eq, ['"', 'a', '"']⟩, .cond ⟨['s', '.', 'f'], .gt, ['1']⟩]).isSome = true
    ∧ listingIs (chain litVal (mkCSVData exSrc ⟨['s'], exAll, exAll⟩)
      [.str ['i'], .cond ⟨['s', '.', 't'], .eq, ['"', 'a', '"']⟩, .cond ⟨['s', '.', 'f'], .gt, ['1']⟩])
        [.cell (.num 48)] = true := by
  refine ⟨by decide, by decide⟩

/-- `C17_pure` is not vacuous: a filter step succeeds, extends the filters at the back and the maps at
    the front -/
example : ∃ s', getitem litVal (mkIterData exSrc ⟨['s'], exAll, exAll⟩)
    (.cond ⟨['s', '.', 'i'], .gt, ['1']⟩) = .ok s' ∧ s'.ifilter.length = 1 ∧
      s'.imap = [.ident, .fixNested 3] := ⟨_, rfl, rfl, rfl⟩

end NonVacuity


/-! ## one nested level -/

section Nested
open Pydap.IterNest

/-- **Normal form with one nested level, every program.**  Any header with distinct names whose
    children are base columns or sequences of base columns, any well-shaped source, any chain — in any
    order and of any length — of clauses (on outer base columns, or on the columns of a nested sequence:
    `id.n.x OP id.n.y | literal`), column lists, child selections (into base children, into a nested
    sequence, and then into its columns), integer and slice keys that the by-name reference accepts
    (`refRun`: every selected name is among the currently selected ones; a clause is accepted on EVERY
    layout, also after a child selection into the nested sequence or into a column): every `__getitem__`
    succeeds and iteration yields the source rows filtered by the outer clauses, the records of each
    nested sequence filtered by the clauses on it, the selections applied by name in order, then the
    slices in order. -/
theorem C17_nested_normal_form (cmp : Op → A → A → Bool) (lit : List Char → Option A)
    (id : Name) (hdr : Hdr) (hh : wsHdr hdr = true)
    (src : List (List (NCell A))) (hsrc : ∀ r ∈ src, wsRow hdr r = true)
    (ops : List Key) (st : IterNest.Ref A)
    (href : IterNest.refRun lit id hdr ⟨[], [], .table hdr.names, []⟩ ops = some st) :
    ∃ s, IterNest.chain lit (IterNest.mkIterData src id hdr) ops = .ok s
      ∧ s.src = src
      ∧ IterNest.iter cmp s = IterNest.refEval cmp hdr st src := by
  obtain ⟨s, h1, hrel, hs⟩ := IterNest.chain_sim hh ops _ _ st (IterNest.rel_init cmp id hdr hh src) href
  have hsrc' : s.src = src := by rw [hs]; rfl
  exact ⟨s, h1, hsrc', by rw [← hsrc']; exact IterNest.iter_of_rel hrel (by rw [hsrc']; exact hsrc)⟩

/-- **Intermediate streams (nested).**  Every prefix of a program lists the reference rows of that
    prefix, whatever steps follow — in particular a clause applied later (whose map is recorded in
    FRONT of the maps of the operand) leaves the operand's listing unchanged. -/
theorem C17_nested_prefixes (cmp : Op → A → A → Bool) (lit : List Char → Option A)
    (id : Name) (hdr : Hdr) (hh : wsHdr hdr = true)
    (src : List (List (NCell A))) (hsrc : ∀ r ∈ src, wsRow hdr r = true)
    (ops more : List Key) (st st' : IterNest.Ref A)
    (href : IterNest.refRun lit id hdr ⟨[], [], .table hdr.names, []⟩ ops = some st)
    (hmore : IterNest.refRun lit id hdr st more = some st') :
    ∃ s s', IterNest.chain lit (IterNest.mkIterData src id hdr) ops = .ok s
      ∧ IterNest.chain lit s more = .ok s'
      ∧ IterNest.iter cmp s = IterNest.refEval cmp hdr st src
      ∧ IterNest.iter cmp s' = IterNest.refEval cmp hdr st' src := by
  obtain ⟨s, h1, hrel, hs⟩ := IterNest.chain_sim hh ops _ _ st (IterNest.rel_init cmp id hdr hh src) href
  obtain ⟨s', h2, hrel', hs'⟩ := IterNest.chain_sim hh more s st st' hrel hmore
  have hsrc1 : s.src = src := by rw [hs]; rfl
  have hsrc2 : s'.src = src := by rw [hs', hsrc1]
  exact ⟨s, s', h1, h2,
    by rw [← hsrc1]; exact IterNest.iter_of_rel hrel (by rw [hsrc1]; exact hsrc),
    by rw [← hsrc2]; exact IterNest.iter_of_rel hrel' (by rw [hsrc2]; exact hsrc)⟩

/-- **Each step returns a new stream that only extends the recorded pipeline**, nested tables
    included: the source rows, the sequence id and the header (the template of the source rows) are
    shared, the filter and slice lists of the result have those of the operand as prefixes, the map
    list of the operand is kept as a whole and extended by at most one entry, at the back (a selection)
    or at the front (the map of a clause). -/
theorem C17_nested_pure (lit : List Char → Option A) (s s' : IterNest.Stream A) (k : Key)
    (h : IterNest.getitem lit s k = .ok s') :
    s'.src = s.src ∧ s'.id = s.id ∧ s'.hdr = s.hdr ∧
      s.ifilter <+: s'.ifilter ∧ (s.imap <+: s'.imap ∨ s.imap <:+ s'.imap) ∧
      s'.imap.length ≤ s.imap.length + 1 ∧ s.islice <+: s'.islice := by
  cases k with
  | str key =>
    simp only [IterNest.getitem] at h
    split at h
    · cases h
    · split at h
      · cases h
      · split at h
        · cases h
        · simp only [Except.ok.injEq] at h
          subst h
          exact ⟨rfl, rfl, rfl, List.prefix_refl _, Or.inl (List.prefix_append _ _), by simp, List.prefix_refl _⟩
    · split at h
      · cases h
      · simp only [Except.ok.injEq] at h
        subst h
        exact ⟨rfl, rfl, rfl, List.prefix_refl _, Or.inl (List.prefix_append _ _), by simp, List.prefix_refl _⟩
  | list keys =>
    simp only [IterNest.getitem] at h
    split at h
    · cases h
    · split at h
      · cases h
      · simp only [Except.ok.injEq] at h
        subst h
        exact ⟨rfl, rfl, rfl, List.prefix_refl _, Or.inl (List.prefix_append _ _), by simp, List.prefix_refl _⟩
    · split at h
      · cases h
      · simp only [Except.ok.injEq] at h
        subst h
        exact ⟨rfl, rfl, rfl, List.prefix_refl _, Or.inl (List.prefix_append _ _), by simp, List.prefix_refl _⟩
  | int i =>
    simp only [IterNest.getitem, Except.ok.injEq] at h
    subst h
    exact ⟨rfl, rfl, rfl, List.prefix_refl _, Or.inl (List.prefix_refl _), by simp, List.prefix_append _ _⟩
  | slice sl =>
    simp only [IterNest.getitem, Except.ok.injEq] at h
    subst h
    exact ⟨rfl, rfl, rfl, List.prefix_refl _, Or.inl (List.prefix_refl _), by simp, List.prefix_append _ _⟩
  | cond c =>
    simp only [IterNest.getitem] at h
    cases hb : IterNest.buildFilter lit s.id s.hdr c with
    | error e => simp [hb, bind, Except.bind] at h
    | ok p =>
      simp [hb, bind, Except.bind, pure, Except.pure] at h
      subst h
      exact ⟨rfl, rfl, rfl, List.prefix_append _ _, Or.inr (List.suffix_cons _ _), by simp, List.prefix_refl _⟩

/-! ### non-vacuity (nested) -/
open Pydap.TableVal

def exHdr : Hdr := [(['i'], none), (['n'], some [['x'], ['y']]), (['t'], none)]
def exNSrc : List (List (NCell Val)) :=
  [[.base (.num 16), .seq [[.num 160, .str ['a']], [.num 176, .str ['b']]], .base (.str ['p'])],
   [.base (.num 32), .seq [], .base (.str ['q'])],
   [.base (.num 48), .seq [[.num 480, .str ['c']]], .base (.str ['r'])]]
/-- `D[["t","n"]][s.n.x>10][s.i>1]["n"][["y"]]["y"][0:5]` -/
def exNOps : List Key :=
  [.list [['t'], ['n']], .cond ⟨['s', '.', 'n', '.', 'x'], .gt, ['1', '0']⟩, .cond ⟨['s', '.', 'i'], .gt, ['1']⟩,
   .str ['n'], .list [['y']], .str ['y'], .slice ⟨some 0, some 5, none⟩]

def nlistingIs (r : Except Err (IterNest.Stream Val)) (expect : List (IterNest.Item Val)) : Bool :=
  match r with
  | .ok s => match IterNest.iter cmpVal s with
    | .ok l => l == expect
    | .error _ => false
  | .error _ => false

/-- the hypotheses of `C17_nested_normal_form` are inhabited by a program with a nested and an
    outer filter, a column list, the child selection into the nested sequence and into its column -/
example : wsHdr exHdr = true ∧ (∀ r ∈ exNSrc, wsRow exHdr r = true)
    ∧ (IterNest.refRun litVal ['s'] exHdr ⟨[], [], .table exHdr.names, []⟩ exNOps).isSome = true
    ∧ nlistingIs (IterNest.chain litVal (IterNest.mkIterData exNSrc ['s'] exHdr) exNOps)
        [.innerCol [], .innerCol [.str ['c']]] = true := by
  refine ⟨by decide, by decide, by decide, by decide⟩

/-- `D["n"][["y"]][s.n.x>10][s.i>1]["y"][s.n.y!="b"]`: clauses AFTER the child selection into the nested
    sequence (on a column that is no longer selected, on an outer column, and after the column selection) -/
def exNOps2 : List Key :=
  [.str ['n'], .list [['y']], .cond ⟨['s', '.', 'n', '.', 'x'], .gt, ['1', '0']⟩, .cond ⟨['s', '.', 'i'], .gt, ['1']⟩,
   .str ['y'], .cond ⟨['s', '.', 'n', '.', 'y'], .ne, ['"', 'b', '"']⟩]

/-- such a program is accepted by the reference, and the model lists the records of `n` filtered by the
    clauses on `n` for the outer rows the outer clause keeps (the former finding's chain
    `D["n"][CE("s.n.x>10")]` lists the filtered records, not `[]`) -/
example : (IterNest.refRun litVal ['s'] exHdr ⟨[], [], .table exHdr.names, []⟩ exNOps2).isSome = true
    ∧ nlistingIs (IterNest.chain litVal (IterNest.mkIterData exNSrc ['s'] exHdr) exNOps2)
        [.innerCol [], .innerCol [.str ['c']]] = true
    ∧ nlistingIs (IterNest.chain litVal (IterNest.mkIterData exNSrc ['s'] exHdr)
        [.str ['n'], .cond ⟨['s', '.', 'n', '.', 'x'], .gt, ['1', '0']⟩])
        [.inner [[.num 176, .str ['b']]], .inner [], .inner [[.num 480, .str ['c']]]] = true := by
  refine ⟨by decide, by decide, by decide⟩

/-- the hypotheses of `C17_nested_prefixes` are inhabited: the stream after `D["n"][["y"]]` and its
    continuation by clauses and a column selection are both accepted, and the intermediate stream lists the
    unfiltered `y` records -/
example : (IterNest.refRun litVal ['s'] exHdr ⟨[], [], .table exHdr.names, []⟩ (exNOps2.take 2)).isSome = true
    ∧ ((IterNest.refRun litVal ['s'] exHdr ⟨[], [], .table exHdr.names, []⟩ (exNOps2.take 2)).bind fun st =>
        IterNest.refRun litVal ['s'] exHdr st (exNOps2.drop 2)).isSome = true
    ∧ nlistingIs (IterNest.chain litVal (IterNest.mkIterData exNSrc ['s'] exHdr) (exNOps2.take 2))
        [.inner [[.str ['a']], [.str ['b']]], .inner [], .inner [[.str ['c']]]] = true := by
  refine ⟨by decide, by decide, by decide⟩

/-- `C17_nested_pure` is not vacuous: a nested filter step succeeds, extends the filters at the back and
    the maps at the front -/
example : ∃ s', IterNest.getitem litVal (IterNest.mkIterData exNSrc ['s'] exHdr)
    (.cond ⟨['s', '.', 'n', '.', 'x'], .gt, ['1', '0']⟩) = .ok s' ∧ s'.ifilter.length = 1 ∧
      s'.imap = [.nest 1 ⟨0, .gt, .lit (.num 160)⟩, .fixNested [none, some 2, none]] :=
  ⟨_, rfl, rfl, rfl⟩

end Nested

/-! ## the object level (theorem audit, round 7)

`C17_pure`, `C17_nested_pure` and "iterating twice" above are statements about RECORDS: `getitem` returns a new record
and cannot change its argument, `iter` is a function — they hold by construction of a model with value semantics and
say nothing about `copy.copy(self)`, `self.imap[:]`, `out.imap.append(…)`.  The theorems below are about
`PydapModel/IterHeap.lean`, where streams, their three lists, their templates and their sources are objects in a heap,
`__copy__` allocates, `__getitem__` writes through the references held by `out`, and a pass reads the source object. -/

section Heap
open Pydap.IterHeap

/-- **Each step returns a NEW stream and leaves everything that existed unchanged.**  For every heap, every stream
    object and every key: if `__getitem__` returns, the object returned did not exist before, and every object that
    existed — the operand, its filter/map/slice lists, its template, `root`, its source, every other stream — is
    still at its address with the same contents (`Ext`). -/
theorem C17_heap_step_fresh_frame (lit : List Char → Option A) (h h' : Heap A) (r r' : Nat) (k : Key)
    (hg : getitemH lit h r k = some (.ok (h', r'))) :
    h.length ≤ r' ∧ ∀ (i : Nat) (x : Obj A), h[i]? = some x → h'[i]? = some x :=
  ⟨(getitemH_frame lit h h' r r' k hg).2, (getitemH_frame lit h h' r r' k hg).1⟩

/-- **The object level refines the record level** (this is what makes `C17_normal_form`, `C17_prefixes`, `C17_pure`
    statements about stream OBJECTS): if object `r` stands for the record `s`, `__getitem__` raises exactly when
    `getitem lit s k` fails, with the same class, and otherwise returns an object standing for `getitem`'s result. -/
theorem C17_heap_refines (lit : List Char → Option A) (h : Heap A) (r : Nat) (s : Stream A) (k : Key)
    (hv : view h r = some s) :
    match getitem lit s k with
    | .error e => getitemH lit h r k = some (.error e)
    | .ok s' => ∃ h' r', getitemH lit h r k = some (.ok (h', r')) ∧ view h' r' = some s' :=
  getitemH_refines lit h r s k hv

/-- **Iterating twice gives the same rows**, for sources that can be read again (a list; the CSV file, re-opened by
    `CSVData.stream` on every pass): a complete pass lists `iter` of the record the object stands for and leaves the
    heap exactly as it was. -/
theorem C17_heap_reiterable (cmp : Op → A → A → Bool) (h : Heap A) (r : Nat) (s : Stream A) (hre : Reiterable h)
    (hv : view h r = some s) :
    iterH cmp h r = some (iter cmp s, h) := iterH_reiterable cmp h r s hre hv

/-- the hypothesis is necessary: `IterData(generator, template)` lists its rows once, then nothing (outside the
    property's domain — tables — but inside what the constructor accepts) -/
theorem C17_heap_generator_consumed (cmp : Op → A → A → Bool) (row : List A) :
    ∃ h1 h2, iterH cmp (mkHeap (.gen [row] false) ⟨[], [], []⟩ true) 5 = some (.ok [.row row], h1) ∧
      iterH cmp h1 5 = some (.ok [], h2) := iterH_generator_consumed cmp row

/-- **Histories: interleaved steps and passes.**  Start from any heap whose sources can be read again and run ANY
    history of `handles[i][key]` steps (on any stream made so far, failed steps included) and complete passes over
    any of them.  Every stream object `r` that existed at the start still stands for the same record `s` afterwards,
    and a pass over it — the first or a repeated one — lists `iter cmp s` and changes nothing. -/
theorem C17_heap_history (lit : List Char → Option A) (cmp : Op → A → A → Bool) (cmds : List Cmd)
    (h h' : Heap A) (hs hs' : List Nat) (hre : Reiterable h)
    (hrun : runHist lit cmp h hs cmds = some (h', hs')) (r : Nat) (s : Stream A) (hv : view h r = some s) :
    hs <+: hs' ∧ view h' r = some s ∧ iterH cmp h' r = some (iter cmp s, h') := by
  obtain ⟨e, p, re⟩ := runHist_stable lit cmp cmds h hs h' hs' hre hrun
  have hv' := view_ext e r s hv
  exact ⟨p, hv', iterH_reiterable cmp h' r s re hv'⟩

/-- the constructors: the object made by `IterData(rows, t)` / `CSVData(path, t)` stands for `mkIterData` / `mkCSVData` -/
theorem C17_heap_init (src : List (List A)) (t : SeqT) :
    view (mkHeap (.rows src) t false) 5 = some (mkIterData src t) ∧
    view (mkHeap (.csv src) t true) 5 = some (mkCSVData src t) ∧
    Reiterable (mkHeap (.rows src) t false) ∧ Reiterable (mkHeap (.csv src) t true) := by
  refine ⟨rfl, rfl, ?_, ?_⟩ <;>
  · intro i l c hi
    simp only [mkHeap] at hi
    match i, hi with
    | 0, hi => simp at hi
    | 1, hi => simp at hi
    | 2, hi => simp at hi
    | 3, hi => simp at hi
    | 4, hi => simp at hi
    | 5, hi => simp at hi
    | n + 6, hi => simp at hi

/-- a pass over object `r` of heap `h` lists `expect` -/
def hlists (h : Heap TableVal.Val) (r : Nat) (expect : List (Item TableVal.Val)) : Bool :=
  match iterH TableVal.cmpVal h r with
  | some (.ok l, _) => l == expect
  | _ => false

/-! non-vacuity: a history on the example table with a column list, a clause, a pass in between, a step on an OLD
    handle and a failing step; afterwards the first stream still lists all rows, the last one the second kept row -/
open Pydap.TableVal in
example :
    (match runHist litVal cmpVal (mkHeap (.rows exSrc) ⟨['s'], exAll, exAll⟩ false) [5]
        [.step 0 (.list [['f'], ['i']]), .pass 1, .step 1 (.cond ⟨['s', '.', 't'], .eq, ['"', 'a', '"']⟩),
         .step 0 (.str ['t']), .step 3 (.str ['t']), .pass 0, .step 2 (.slice ⟨some 1, none, none⟩)] with
     | some (h', hs') => decide (hs'.length = 5) && hlists h' 5 (exSrc.map Item.row) &&
         (match hs'[4]? with | some r => hlists h' r [.row [.num 40, .num 48]] | none => false)
     | none => false) = true := by
  decide

end Heap

/-! ### the tie by translation: the *source text* of `IterData.__getitem__` and `IterData.__iter__`

`Gen.src_iterdata_getitem` is the body of `__getitem__` after `out = copy.copy(self)`, `Gen.src_iterdata_iter` the whole
body of `__iter__`, both translated on every run by harness/py2lean.py from the working tree (PydapModel/Generated/
IterDataSrc.lean).  Interpreted by MiniPy, the source extends exactly the list the model's `getitem` extends, at the same
end, with the closure the model records — for every stream, every key and EVERY naming `E` of the opaque objects
(closures, templates) by tags.  Inputs of the block, bound in `giEnv` to what the model computes: `list(self.template.keys())`
(the visible keys), `out.template[key]`, the comprehension of column indices, and the results of the three calls that make
closures; the ARGUMENTS the source passes to these calls are part of the statements (`@item_map.arg0/1`: the column and
the level AFTER `out.level += 1`; `@proj_map.arg0/1`; `@build_filter.arg1`: `self.root`, not `self.template`).
Not carried: `copy.copy(self)` (the fields of `out` are inputs), the text of the `KeyError`, what `deep_map` /
`build_filter` compute from their arguments (hand-written model + correspondence run). -/

section SourceTie
open MiniPy

/-- **`stream["name"]`**: `KeyError` when the name is not visible; otherwise `out.level` is one more, `out.template` is
    the child, and `deep_map(itemgetter(col), out.level)` — called with the position of the name among the visible keys
    and the NEW level — is appended to `imap`; `ifilter` and `islice` are untouched -/
theorem C17_source_getitem_str (E : IEnc A) (lit : List Char → Option A) (s : Stream A) (t : SeqT) (k : Name)
    (ht : s.template = .seq t) (i : GiIn)
    (hv : i.vis = strListVal (t.visible.map codesOf))
    (hc : i.child = .obj (E.tmpl (.base (t.id ++ '.' :: k))))
    (hm : i.item = .obj (E.map (.item (t.visible.idxOf k) (s.level + 1)))) :
    runItems (giEnv E s (keyVal E (.str k)) false i) Gen.src_iterdata_getitem
        (streamFields ++ ["out.template", "@item_map.arg0", "@item_map.arg1"])
      = (match getitem lit s (.str k) with
         | .ok s' => .ok (streamVals E s' ++ [.obj (E.tmpl s'.template), .int (t.visible.idxOf k), .int s'.level])
         | .error _ => .error (.raised "KeyError")) :=
  src_getitem_str E lit s t k ht i hv hc hm

/-- **`stream[["a", "b"]]`**: the key becomes `_visible_keys` of the (copied) template, the row projection — called
    with the column indices and `out.level + 1` — is appended to `imap`; the level stays -/
theorem C17_source_getitem_list (E : IEnc A) (lit : List Char → Option A) (s s' : Stream A) (t : SeqT) (ks : List Name)
    (cols : List Nat) (ht : s.template = .seq t) (hcols : ks.mapM (IterData.indexOf? t.visible) = some cols) (i : GiIn)
    (hc : i.cols = .ilist (cols.map Int.ofNat))
    (hp : i.proj = .obj (E.map (.proj cols (s.level + 1))))
    (h : getitem lit s (.list ks) = .ok s') :
    runItems (giEnv E s (keyVal E (.list ks)) false i) Gen.src_iterdata_getitem
        (streamFields ++ ["out.template", "out.template._visible_keys", "@proj_map.arg0", "@proj_map.arg1"])
      = .ok (streamVals E s' ++ [.obj (E.tmpl s.template), strListVal (ks.map codesOf), .ilist (cols.map Int.ofNat),
              .int (s.level + 1)]) :=
  src_getitem_list E lit s s' t ks cols ht hcols i hc hp h

/-- **`stream[n]`**: `slice(n, n + 1)` is appended to `islice` -/
theorem C17_source_getitem_int (E : IEnc A) (lit : List Char → Option A) (s s' : Stream A) (n : Int) (i : GiIn)
    (h : getitem lit s (.int n) = .ok s') :
    runItems (giEnv E s (keyVal E (.int n)) false i) Gen.src_iterdata_getitem streamFields
      = .ok (streamVals E s') := src_getitem_int E lit s s' n i h

/-- **`stream[a:b:c]`**: the slice object is appended to `islice` as it is -/
theorem C17_source_getitem_slice (E : IEnc A) (lit : List Char → Option A) (s s' : Stream A) (p : PSlice) (i : GiIn)
    (h : getitem lit s (.slice p) = .ok s') :
    runItems (giEnv E s (keyVal E (.slice p)) false i) Gen.src_iterdata_getitem streamFields
      = .ok (streamVals E s') := src_getitem_slice E lit s s' p i h

/-- **`stream[clause]`**: `build_filter` is called with the key and `self.root`; its filter is appended to `ifilter`, its
    map is inserted at the FRONT of `imap` -/
theorem C17_source_getitem_cond (E : IEnc A) (lit : List Char → Option A) (s s' : Stream A) (c : Cond) (f : Filt A)
    (m : MapF) (i : GiIn) (hb : buildFilter lit c s.root = .ok (f, m))
    (h0 : i.bf0 = .obj (E.filt f)) (h1 : i.bf1 = .obj (E.map m))
    (h : getitem lit s (.cond c) = .ok s') :
    runItems (giEnv E s (keyVal E (.cond c)) true i) Gen.src_iterdata_getitem
        (streamFields ++ ["@build_filter.arg0", "@build_filter.arg1"])
      = .ok (streamVals E s' ++ [.obj (E.cond c), .obj E.root]) :=
  src_getitem_cond E lit s s' c f m i hb h0 h1 h

/-- any other key (None, a float, a tuple, some other object): `KeyError`, nothing is returned -/
theorem C17_source_getitem_other (E : IEnc A) (s : Stream A) (v : MiniPy.Val) (hv : otherKey v = true) (i : GiIn)
    (xs : List String) :
    runItems (giEnv E s v false i) Gen.src_iterdata_getitem xs = .error (.raised "KeyError") :=
  src_getitem_other E s v hv i xs

/-- **`__iter__`** wraps, around `iter(self.stream)`, one `filter` per entry of `ifilter` (in list order), then one `map`
    per entry of `imap`, then one `itertools.islice(data, s.start, s.stop, s.step)` per entry of `islice`: the stages of
    `C17_iter_normal_form`, in its order (`stagesOf`) -/
theorem C17_source_iter (E : IEnc A) (s : Stream A) (stream : Nat) :
    runItem [("self.stream", .obj stream), ("self.ifilter", .olist (s.ifilter.map E.filt)),
             ("self.imap", .olist (s.imap.map E.map)), ("self.islice", .tuple (s.islice.map isliceItem))]
        Gen.src_iterdata_iter "@ret"
      = .ok (.pipe stream ((stagesOf s).map (encStage E))) := src_iterdata_iter_eq E s stream

/-! non-vacuity of the source theorems: the streams of the example above -/

open Pydap.TableVal in
/-- a child selection and a clause on the example table: the hypotheses hold and the source, interpreted, returns the
    fields the theorems name (tags: every closure 7, every template 3, the clause 5, `self.root` 1, `out` 2) -/
example :
    let E : IEnc TableVal.Val := ⟨fun _ => 7, fun _ => 7, fun _ => 3, fun _ => 5, 1, 2⟩
    let s := mkIterData exSrc ⟨['s'], exAll, exAll⟩
    (∃ s', getitem litVal s (.str ['f']) = .ok s' ∧ s'.level = 1) ∧
    runItems (giEnv E s (keyVal E (.str ['f'])) false
        { vis := strListVal (exAll.map codesOf), child := .obj 3, item := .obj 7 }) Gen.src_iterdata_getitem
        ["out.level", "out.imap", "@item_map.arg0", "@item_map.arg1"]
      = .ok [.int 1, .olist [7, 7], .int 1, .int 1] ∧
    runItems (giEnv E s (keyVal E (.str ['z'])) false { vis := strListVal (exAll.map codesOf) })
        Gen.src_iterdata_getitem ["out.level"] = .error (.raised "KeyError") ∧
    runItems (giEnv E s (keyVal E (.cond ⟨['s', '.', 'i'], .gt, ['1']⟩)) true { bf0 := .obj 8, bf1 := .obj 9 })
        Gen.src_iterdata_getitem ["out.ifilter", "out.imap", "@build_filter.arg1"]
      = .ok [.olist [8], .olist [9, 7], .obj 1] := by
  exact ⟨⟨_, rfl, rfl⟩, rfl, rfl, rfl⟩

open Pydap.TableVal in
example :
    let E : IEnc TableVal.Val := ⟨fun _ => 7, fun _ => 8, fun _ => 3, fun _ => 5, 1, 2⟩
    (∃ s', chain litVal (mkIterData exSrc ⟨['s'], exAll, exAll⟩) exOps = .ok s' ∧
      (runItem [("self.stream", .obj 4), ("self.ifilter", .olist (s'.ifilter.map E.filt)),
             ("self.imap", .olist (s'.imap.map E.map)), ("self.islice", .tuple (s'.islice.map isliceItem))]
          Gen.src_iterdata_iter "@ret"
        = .ok (.pipe 4 [.filt 7, .map 8, .map 8, .map 8, .map 8, .islice (some 1) none none]))) := by
  exact ⟨_, rfl, rfl⟩

end SourceTie

end Pydap.C17
