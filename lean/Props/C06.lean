/-
  C06 — All response kinds describe the same constrained dataset.
  Property statements only; helper lemmas are in `Proofs/Handler.lean`.
  Model: `PydapModel/Handler.lean`.  `respond fmt ds ext q` is the answer to `/d.<ext>?q`;
  `constrained ds q` is `parse_ce` followed by `BaseHandler.parse` (selection, shorthand, projection).
-/
import PydapModel.Handler
import Proofs.Handler
import Proofs.HandlerWF
namespace Pydap.C06
open Pydap Pydap.Handler

/-- **One constrained dataset, three printers**: for every query that yields a constrained dataset,
    the DDS response is its declaration, the data response is that same declaration, `Data:`, and
    its values in wire order, and the ASCII response is that same declaration, the separator and
    the ASCII listing of that same dataset. -/
theorem C06_same_decl (fmt : Int → Str) (ds : Dataset) (q : Str) (cds : Dataset)
    (h : constrained ds q = .ok cds) :
    respond fmt ds cs!"dds" q = .ok .dds (.complete (ddsText cds)) ∧
    respond fmt ds cs!"dods" q
      = .ok .dods (.complete (ddsText cds ++ cs!"Data:\n" ++ valuesText (dodsValues cds))) ∧
    (∀ t, asciiData fmt cds = .ok t →
      respond fmt ds cs!"ascii" q = .ok .ascii (.complete (ddsText cds ++ dashes ++ t))) := by
  have e1 : rsplitDot (cs!"/d." ++ cs!"dds") = some (cs!"/d", cs!"dds") := by decide
  have e2 : rsplitDot (cs!"/d." ++ cs!"dods") = some (cs!"/d", cs!"dods") := by decide
  have e3 : rsplitDot (cs!"/d." ++ cs!"ascii") = some (cs!"/d", cs!"ascii") := by decide
  have n1 : (cs!"dds" = cs!"das") = False := by decide
  have n2 : (cs!"dods" = cs!"das") = False := by decide
  have n3 : (cs!"ascii" = cs!"das") = False := by decide
  have k1 : lookupKind cs!"dds" = some .dds := by decide
  have k2 : lookupKind cs!"dods" = some .dods := by decide
  have k3 : lookupKind cs!"ascii" = some .ascii := by decide
  refine ⟨?_, ?_, ?_⟩
  · unfold respond handle
    rw [guarded_eq ds _ q _ _ e1]; simp only [n1, if_false, h, k1]; rfl
  · unfold respond handle
    rw [guarded_eq ds _ q _ _ e2]; simp only [n2, if_false, h, k2]; rfl
  · intro t ht
    unfold respond handle
    rw [guarded_eq ds _ q _ _ e3]; simp only [n3, if_false, h, k3, bodyOf, ht]

/-- when the query yields no constrained dataset, the three responses fail alike (the same error
    document, or the same unresolved class): none of them describes a dataset the others do not -/
theorem C06_same_failure (fmt : Int → Str) (ds : Dataset) (q : Str) (e : Exc)
    (h : constrained ds q = .error e) :
    respond fmt ds cs!"dods" q = respond fmt ds cs!"dds" q ∧
    respond fmt ds cs!"ascii" q = respond fmt ds cs!"dds" q ∧
    ∀ k b, respond fmt ds cs!"dds" q ≠ .ok k b := by
  have e1 : rsplitDot (cs!"/d." ++ cs!"dds") = some (cs!"/d", cs!"dds") := by decide
  have e2 : rsplitDot (cs!"/d." ++ cs!"dods") = some (cs!"/d", cs!"dods") := by decide
  have e3 : rsplitDot (cs!"/d." ++ cs!"ascii") = some (cs!"/d", cs!"ascii") := by decide
  have n1 : (cs!"dds" = cs!"das") = False := by decide
  have n2 : (cs!"dods" = cs!"das") = False := by decide
  have n3 : (cs!"ascii" = cs!"das") = False := by decide
  unfold respond handle
  rw [guarded_eq ds _ q _ _ e1, guarded_eq ds _ q _ _ e2, guarded_eq ds _ q _ _ e3]
  simp only [n1, n2, n3, if_false, h]
  refine ⟨trivial, trivial, ?_⟩
  intro k b
  cases e <;> simp

/-- **The DAS is independent of the constraint**, for every query string, parsable or not. -/
theorem C06_das_independent (fmt : Int → Str) (ds : Dataset) (q : Str) :
    respond fmt ds cs!"das" q = respond fmt ds cs!"das" [] := by
  have e1 : rsplitDot (cs!"/d." ++ cs!"das") = some (cs!"/d", cs!"das") := by decide
  unfold respond handle
  rw [guarded_eq ds _ q _ _ e1, guarded_eq ds _ [] _ _ e1]
  simp

/-- …and it describes the unconstrained dataset -/
theorem C06_das_is_full (fmt : Int → Str) (ds cds : Dataset) (q : Str) (h : constrained ds [] = .ok cds) :
    respond fmt ds cs!"das" q = .ok .das (.complete (dasText cds)) := by
  have e1 : rsplitDot (cs!"/d." ++ cs!"das") = some (cs!"/d", cs!"das") := by decide
  have k1 : lookupKind cs!"das" = some .das := by decide
  unfold respond handle
  rw [guarded_eq ds _ q _ _ e1]; simp only [if_true, h, k1]; rfl

/-- **ASCII completeness, per array**: for a well-formed array (as many values as the product of
    its shape, held in an object with `.flat`) the ASCII listing succeeds, has one line per value,
    pairs the i-th row-major index tuple of the declared shape with the i-th value of the data
    response, and drops none. -/
theorem C06_ascii_complete (fmt : Int → Str) (id : Str) (b : Base) (h : b.WF) (hs : b.shape ≠ []) :
    asciiBase fmt id b = .ok (id ++ ['\n'] ++ asciiLines fmt b.shape b.data) ∧
    (List.zip (ndindex b.shape) b.data).map Prod.snd = wireValues (.base b) ∧
    (List.zip (ndindex b.shape) b.data).map Prod.fst = ndindex b.shape ∧
    (ndindex b.shape).length = prod b.shape := by
  have hl : (ndindex b.shape).length = b.data.length := by rw [ndindex_length, h.1]
  refine ⟨?_, ?_, ?_, ndindex_length _⟩
  · unfold asciiBase
    cases hsh : b.shape with
    | nil => exact absurd hsh hs
    | cons n sh => simp [h.2]
  · simp only [wireValues]
    rw [← List.unzip_snd, List.unzip_zip (by omega)]
  · rw [← List.unzip_fst, List.unzip_zip (by omega)]

/-- **ASCII completes without error, for every query**: on a well-formed source dataset, whenever
    the query yields a constrained dataset (for valid and for any other constraint alike), that
    dataset is well formed, its ASCII listing succeeds, and the ASCII response is the declaration,
    the separator and that listing.  Well-formedness of the constrained dataset is proved, not
    assumed: `constrained_wf` covers selection, shorthand, projection of variables, structure and
    grid members, sequence columns, record ranges and hyperslabs. -/
theorem C06_ascii_total (fmt : Int → Str) (ds cds : Dataset) (q : Str) (hds : ds.WF)
    (h : constrained ds q = .ok cds) :
    cds.WF ∧ ∃ t, asciiData fmt cds = .ok t ∧
      respond fmt ds cs!"ascii" q = .ok .ascii (.complete (ddsText cds ++ dashes ++ t)) := by
  have hw := constrained_wf ds cds q hds h
  obtain ⟨t, ht⟩ := asciiData_ok fmt cds hw
  exact ⟨hw, t, ht, (C06_same_decl fmt ds q cds h).2.2 t ht⟩

/-- every array of the constrained dataset carries exactly as many values as the product of the
    shape its declaration prints — the shape of the DDS, of the data response and the number of
    ASCII lines agree for every variable kind the constraint can leave behind -/
theorem C06_constrained_counts (ds cds : Dataset) (q : Str) (hds : ds.WF)
    (h : constrained ds q = .ok cds) :
    ∀ v ∈ cds.vars, match v with
      | .base b => b.data.length = prod b.shape
      | .struct _ ms => ∀ m ∈ ms, match m with
        | .base b => b.data.length = prod b.shape
        | .struct _ bs => ∀ b ∈ bs, b.data.length = prod b.shape
      | .grid _ a ms => a.data.length = prod a.shape ∧ ∀ m ∈ ms, m.data.length = prod m.shape
      | .seq _ cols rows => ∀ r ∈ rows, r.length = cols.length := by
  intro v hv
  have hw := constrained_wf ds cds q hds h v hv
  cases v with
  | base b => exact hw.1
  | struct n ms =>
    intro m hm
    have := hw m hm
    cases m with
    | base b => exact this.1
    | struct k bs => exact fun b hb => (this b hb).1
  | grid n a ms => exact ⟨hw.1.1, fun m hm => (hw.2 m hm).1⟩
  | seq n cols rows => exact hw

/-- a hyperslab applied by `apply_projection` keeps an array well formed: the stored object has
    `.flat` and carries exactly the product of the new shape — numpy's selection per axis, the axes
    the hyperslab does not mention whole (`padSl`), a last index beyond the extent clipped (`sel`) -/
theorem C06_slice_wf (b b' : Base) (sl : List PSlice) (h : b.WF) (hs : sliceBase b sl = .ok b') :
    b'.WF ∧ b'.name = b.name ∧ b'.ty = b.ty ∧
    b'.shape = (List.zipWith sel b.shape (padSl b.shape.length sl)).map List.length := sliceBase_wf b b' sl h hs

/-- **Strings are printed quoted, one per index tuple**: the ASCII lines of an array of strings pair
    the row-major index tuples with the strings between double quotes -/
theorem C06_ascii_strings_quoted (fmt : Int → Str) (sh : List Nat) (ss : List Str) :
    asciiLines fmt sh (ss.map .str)
      = (List.zip (ndindex sh) ss).flatMap fun p => idxText p.1 ++ [' '] ++ (['"'] ++ p.2 ++ ['"']) ++ ['\n'] := by
  unfold asciiLines
  rw [List.zip_map_right, List.flatMap_map]
  rfl

/-- …and the data response carries that same string as C05's XDR string field (length word, bytes,
    zero padding to 4n): the Handler model re-uses `XdrSpec.encString`, it does not re-model it -/
theorem C06_string_wire (s : Str) :
    valText (.str s) = 's' :: hexText (Pydap.XdrSpec.encString (s.map fun c => UInt8.ofNat c.toNat)) := rfl

/-- a member of a Structure nested in a Structure is printed under its full id by the ASCII
    response and at one more level of indentation by the declaration; its values are part of the
    data response in declaration order (`memberValues`) -/
theorem C06_nested_member (fmt : Int → Str) (n k : Str) (bs : List Base) (level : Nat) :
    asciiMember fmt n (.struct k bs) = asciiMembers fmt (n ++ ['.'] ++ k) bs ∧
    ddsMember level (.struct k bs)
      = indent level ++ cs!"Structure {\n" ++ bs.flatMap (ddsBase (level + 1)) ++ indent level ++ cs!"} " ++ k ++ cs!";\n" ∧
    memberValues (.struct k bs) = bs.flatMap (·.data) := ⟨rfl, rfl, rfl⟩

/-! ### non-vacuity -/

def dsA : Dataset := ⟨cs!"d", [.base { name := cs!"a", ty := cs!"Int32", shape := [10], dims := [],
                                       data := [0, 1, 2, 3, 4, 5, 6, 7, 8, 9] }]⟩

example : constrained dsA cs!"a[0:2:9]"
    = .ok ⟨cs!"d", [.base { name := cs!"a", ty := cs!"Int32", shape := [5], dims := [], data := [0, 2, 4, 6, 8] }]⟩ := by
  decide +kernel
example : respond intText dsA cs!"ascii" cs!"a[0:2:9]" = .ok .ascii (.complete
    (cs!"Dataset {\n    Int32 a[a = 5];\n} d;\n" ++ dashes ++ cs!"a\n[0] 0\n[1] 2\n[2] 4\n[3] 6\n[4] 8\n\n")) := by
  decide +kernel
example : respond intText dsA cs!"das" cs!"a[x]" = .ok .das (.complete cs!"Attributes {\n    a {\n    }\n}\n") := by
  decide +kernel
example : constrained dsA cs!"a[x]" = .error .valueError := by decide +kernel
example : dsA.WF := by
  intro v hv; simp [dsA] at hv; subst hv; exact ⟨rfl, rfl⟩

/-- a dataset with every variable kind: the hypotheses of `C06_ascii_total` are met by a query that
    projects a grid member, slices a structure member, a grid and a sequence with a selection -/
def dsB : Dataset := ⟨cs!"d", [
  .struct cs!"st" [.base { name := cs!"p", ty := cs!"Int16", shape := [2, 2], dims := [], data := [1, 2, 3, 4] }],
  .grid cs!"g" { name := cs!"v", ty := cs!"Int32", shape := [3], dims := [cs!"x"], data := [7, 8, 9] }
    [{ name := cs!"x", ty := cs!"Int32", shape := [3], dims := [cs!"x"], data := [0, 10, 20] }],
  .seq cs!"s" [(cs!"i", cs!"Int32"), (cs!"j", cs!"Int32")] [[1, 5], [2, 6], [3, 7]]]⟩

example : dsB.WF := by
  intro v hv
  simp only [dsB, List.mem_cons, List.mem_nil_iff, or_false] at hv
  rcases hv with rfl | rfl | rfl
  · intro m hm; simp at hm; subst hm; exact ⟨rfl, rfl⟩
  · refine ⟨⟨rfl, rfl⟩, ?_⟩; intro m hm; simp at hm; subst hm; exact ⟨rfl, rfl⟩
  · intro r hr; simp at hr; rcases hr with rfl | rfl | rfl <;> rfl
example : constrained dsB cs!"st.p[0:1][1],g[1:2],s.j,s[0:1]&s.i>1"
    = .ok ⟨cs!"d", [
      .struct cs!"st" [.base { name := cs!"p", ty := cs!"Int16", shape := [2, 1], dims := [], data := [2, 4] }],
      .grid cs!"g" { name := cs!"v", ty := cs!"Int32", shape := [2], dims := [cs!"x"], data := [8, 9] }
        [{ name := cs!"x", ty := cs!"Int32", shape := [2], dims := [cs!"x"], data := [10, 20] }],
      .seq cs!"s" [(cs!"j", cs!"Int32")] [[6], [7]]]⟩ := by
  decide +kernel

/-- strings and a Structure nested in a Structure: a String array, a String scalar, a nested
    structure with an integer array and a String array, a sequence with a String column -/
def dsC : Dataset := ⟨cs!"d", [
  .base { name := cs!"t", ty := cs!"String", shape := [3], dims := [], data := [.str cs!"ab", .str [], .str cs!"c d"] },
  .struct cs!"st" [
    .base { name := cs!"p", ty := cs!"Int16", shape := [2], dims := [], data := [1, 2] },
    .struct cs!"in" [{ name := cs!"q", ty := cs!"Int32", shape := [2, 2], dims := [], data := [1, 2, 3, 4] },
                     { name := cs!"r", ty := cs!"String", shape := [2], dims := [], data := [.str cs!"k", .str cs!"l"] }]],
  .seq cs!"s" [(cs!"i", cs!"Int32"), (cs!"n", cs!"String")] [[1, .str cs!"ab"], [3, .str []], [5, .str cs!"c d"]]]⟩

example : dsC.WF := by
  intro v hv
  simp only [dsC, List.mem_cons, List.mem_nil_iff, or_false] at hv
  rcases hv with rfl | rfl | rfl
  · exact ⟨rfl, rfl⟩
  · intro m hm; simp at hm
    rcases hm with rfl | rfl
    · exact ⟨rfl, rfl⟩
    · intro b hb; simp at hb; rcases hb with rfl | rfl <;> exact ⟨rfl, rfl⟩
  · intro r hr; simp at hr; rcases hr with rfl | rfl | rfl <;> rfl

/-- shorthand for a nested member, a hyperslab on it whose last index lies beyond the extent
    (clipped), a String array sliced, a String column selected by a string comparison -/
example : constrained dsC cs!"q[1][0:9],st.in.r[1],t[0:1],s.n&s.n!=\"ab\""
    = .ok ⟨cs!"d", [
      .struct cs!"st" [.struct cs!"in" [
        { name := cs!"q", ty := cs!"Int32", shape := [1, 2], dims := [], data := [3, 4] },
        { name := cs!"r", ty := cs!"String", shape := [1], dims := [], data := [.str cs!"l"] }]],
      .base { name := cs!"t", ty := cs!"String", shape := [2], dims := [], data := [.str cs!"ab", .str []] },
      .seq cs!"s" [(cs!"n", cs!"String")] [[.str []], [.str cs!"c d"]]]⟩ := by
  decide +kernel

example : respond intText dsC cs!"ascii" cs!"st.in.r,t[2],s&s.n<\"b\"" = .ok .ascii (.complete
    (cs!"Dataset {\n    Structure {\n        Structure {\n            String r[r = 2];\n        } in;\n    } st;\n    String t[t = 1];\n    Sequence {\n        Int32 i;\n        String n;\n    } s;\n} d;\n"
      ++ dashes ++
     cs!"st.in.r\n[0] \"k\"\n[1] \"l\"\n\n\n\nt\n[0] \"c d\"\n\ns.i, s.n\n1, \"ab\"\n3, \"\"\n\n")) := by
  decide +kernel

example : respond intText dsC cs!"dods" cs!"st.in.r,s.n" = .ok .dods (.complete
    (cs!"Dataset {\n    Structure {\n        Structure {\n            String r[r = 2];\n        } in;\n    } st;\n    Sequence {\n        String n;\n    } s;\n} d;\nData:\n"
      ++ cs!"s000000016b000000 s000000016c000000 s0000000261620000 s00000000 s0000000363206400")) := by
  decide +kernel

end Pydap.C06
