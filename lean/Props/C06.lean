/-
  C06 — All response kinds describe the same constrained dataset.
  Property statements only; helper lemmas are in `Proofs/Handler.lean`.
  Model: `PydapModel/Handler.lean`.  `respond fmt ds ext q` is the answer to `/d.<ext>?q`;
  `constrained ds q` is `parse_ce` followed by `BaseHandler.parse` (selection, shorthand, projection).
-/
import PydapModel.Handler
import Proofs.Handler
import Proofs.HandlerWF
import Proofs.HandlerWire
import Proofs.HandlerTyped
import Proofs.Arrayterator
import Proofs.HandlerAscii
import Proofs.HandlerLeaves
namespace Pydap.C06
open Pydap Pydap.Handler

/-- **One constrained dataset, three printers**: for every query that yields a constrained dataset,
    the DDS response is its declaration, the data response is that same declaration, `Data:`, and
    the XDR encoding (`payload`: C05's model of `dods()` applied to that same dataset), and the ASCII response is that same declaration, the separator and
    the ASCII listing of that same dataset. -/
theorem C06_same_decl (fmt : Int → Str) (ds : Dataset) (q : Str) (cds : Dataset)
    (h : constrained ds q = .ok cds) :
    respond fmt ds cs!"dds" q = .ok .dds (.complete (ddsText cds)) ∧
    respond fmt ds cs!"dods" q
      = .ok .dods (.complete (ddsText cds ++ cs!"Data:\n" ++ bytesStr (payload cds))) ∧
    (∀ t, asciiData fmt cds = .ok t →
      respond fmt ds cs!"ascii" q = .ok .ascii (.complete (ddsText cds ++ dashes ++ t))) := by
  have e1 : rsplitDot (cs!"/d." ++ cs!"dds") = some (cs!"/d", cs!"dds") := by decide
  have e2 : rsplitDot (cs!"/d." ++ cs!"dods") = some (cs!"/d", cs!"dods") := by decide
  have e3 : rsplitDot (cs!"/d." ++ cs!"ascii") = some (cs!"/d", cs!"ascii") := by decide
  have n1 : (cs!"dds" = cs!"das") = False := by decide
  have n2 : (cs!"dods" = cs!"das") = False := by decide
  have n3 : (cs!"ascii" = cs!"das") = False := by decide
  have k1 : lookupKind cs!"dds" = some .dds := by decide
  have k2 : lookupKind cs!"dods" = some .dods := by decide
  have k3 : lookupKind cs!"ascii" = some .ascii := by decide
  refine ⟨?_, ?_, ?_⟩
  · unfold respond handle
    rw [guarded_eq ds _ q _ _ e1]; simp only [n1, if_false, h, k1]; rfl
  · unfold respond handle
    rw [guarded_eq ds _ q _ _ e2]; simp only [n2, if_false, h, k2]; rfl
  · intro t ht
    unfold respond handle
    rw [guarded_eq ds _ q _ _ e3]; simp only [n3, if_false, h, k3, bodyOf, ht]

/-- when the query yields no constrained dataset, the three responses fail alike (the same error
    document, or the same unresolved class): none of them describes a dataset the others do not -/
theorem C06_same_failure (fmt : Int → Str) (ds : Dataset) (q : Str) (e : Exc)
    (h : constrained ds q = .error e) :
    respond fmt ds cs!"dods" q = respond fmt ds cs!"dds" q ∧
    respond fmt ds cs!"ascii" q = respond fmt ds cs!"dds" q ∧
    ∀ k b, respond fmt ds cs!"dds" q ≠ .ok k b := by
  have e1 : rsplitDot (cs!"/d." ++ cs!"dds") = some (cs!"/d", cs!"dds") := by decide
  have e2 : rsplitDot (cs!"/d." ++ cs!"dods") = some (cs!"/d", cs!"dods") := by decide
  have e3 : rsplitDot (cs!"/d." ++ cs!"ascii") = some (cs!"/d", cs!"ascii") := by decide
  have n1 : (cs!"dds" = cs!"das") = False := by decide
  have n2 : (cs!"dods" = cs!"das") = False := by decide
  have n3 : (cs!"ascii" = cs!"das") = False := by decide
  unfold respond handle
  rw [guarded_eq ds _ q _ _ e1, guarded_eq ds _ q _ _ e2, guarded_eq ds _ q _ _ e3]
  simp only [n1, n2, n3, if_false, h]
  refine ⟨trivial, trivial, ?_⟩
  intro k b
  cases e <;> simp

/-- **The DAS is independent of the constraint**, for every query string, parsable or not. -/
theorem C06_das_independent (fmt : Int → Str) (ds : Dataset) (q : Str) :
    respond fmt ds cs!"das" q = respond fmt ds cs!"das" [] := by
  have e1 : rsplitDot (cs!"/d." ++ cs!"das") = some (cs!"/d", cs!"das") := by decide
  unfold respond handle
  rw [guarded_eq ds _ q _ _ e1, guarded_eq ds _ [] _ _ e1]
  simp

/-- …and it describes the unconstrained dataset -/
theorem C06_das_is_full (fmt : Int → Str) (ds cds : Dataset) (q : Str) (h : constrained ds [] = .ok cds) :
    respond fmt ds cs!"das" q = .ok .das (.complete (dasText cds)) := by
  have e1 : rsplitDot (cs!"/d." ++ cs!"das") = some (cs!"/d", cs!"das") := by decide
  have k1 : lookupKind cs!"das" = some .das := by decide
  unfold respond handle
  rw [guarded_eq ds _ q _ _ e1]; simp only [if_true, h, k1]; rfl

/-- **ASCII completeness, per array**: for a well-formed array (as many values as the product of
    its shape, held in an object with `.flat`) the ASCII listing succeeds, has one line per value,
    pairs the i-th row-major index tuple of the declared shape with the i-th value of the data
    response, and drops none. -/
theorem C06_ascii_complete (fmt : Int → Str) (id : Str) (b : Base) (h : b.WF) (hs : b.shape ≠ []) :
    asciiBase fmt id b = .ok (id ++ ['\n'] ++ asciiLines fmt b.srep b.shape b.data) ∧
    (List.zip (ndindex b.shape) b.data).map Prod.snd = wireValues (.base b) ∧
    (List.zip (ndindex b.shape) b.data).map Prod.fst = ndindex b.shape ∧
    (ndindex b.shape).length = prod b.shape := by
  have hl : (ndindex b.shape).length = b.data.length := by rw [ndindex_length, h.1]
  refine ⟨?_, ?_, ?_, ndindex_length _⟩
  · unfold asciiBase
    cases hsh : b.shape with
    | nil => exact absurd hsh hs
    | cons n sh => simp [h.2]
  · simp only [wireValues]
    rw [← List.unzip_snd, List.unzip_zip (by omega)]
  · rw [← List.unzip_fst, List.unzip_zip (by omega)]

/-- **ASCII completes without error, for every query**: on a well-formed source dataset, whenever
    the query yields a constrained dataset (for valid and for any other constraint alike), that
    dataset is well formed, its ASCII listing succeeds, and the ASCII response is the declaration,
    the separator and that listing.  Well-formedness of the constrained dataset is proved, not
    assumed: `constrained_wf` covers selection, shorthand, projection of variables, structure and
    grid members, sequence columns, record ranges and hyperslabs. -/
theorem C06_ascii_total (fmt : Int → Str) (ds cds : Dataset) (q : Str) (hds : ds.WF)
    (h : constrained ds q = .ok cds) :
    cds.WF ∧ ∃ t, asciiData fmt cds = .ok t ∧
      respond fmt ds cs!"ascii" q = .ok .ascii (.complete (ddsText cds ++ dashes ++ t)) := by
  have hw := constrained_wf ds cds q hds h
  obtain ⟨t, ht⟩ := asciiData_ok fmt cds hw
  exact ⟨hw, t, ht, (C06_same_decl fmt ds q cds h).2.2 t ht⟩

/-- **The ASCII response prints every value of the data response — every variable kind, the whole dataset**
    (round 7; `C06_ascii_complete` above is the array case only).  Factorisation through the printed cells
    (Proofs/HandlerAscii.lean): `cellsData fmt cds` is the list of printed texts of the wire values
    (`dodsValues cds`: what the data response carries, in wire order) — pointwise and in order, each text is
    `encode` of the value at the same position (`PrintOf`), so the two lists have the same length; `layData` lays
    a list of cell TEXTS out following the DECLARATIONS only (`declOf`: names, shapes, column names, number of
    records — `layData` takes no values, by its type).  On a well-formed source, for every query that yields a
    constrained dataset: the ASCII response is the declaration, the separator and `layData` of exactly these cells,
    and the layout consumes them to the last one.  Hence every value of the data response is printed exactly once,
    in wire order, under the index tuple / record its position in the declaration gives it — scalars, arrays,
    structure members (nested too), grid array and maps, sequence records — and the listing depends on the data
    through these texts only.  ("To its printed precision": `fmt` is the opaque `'%.6g'`.) -/
theorem C06_ascii_prints_every_value (fmt : Int → Str) (ds cds : Dataset) (q : Str) (hds : ds.WF)
    (h : constrained ds q = .ok cds) :
    respond fmt ds cs!"ascii" q = .ok .ascii (.complete (ddsText cds ++ dashes ++
      (layData (cds.vars.map declOf) (cellsData fmt cds)).1)) ∧
    (layData (cds.vars.map declOf) (cellsData fmt cds)).2 = [] ∧
    List.Forall₂ (PrintOf fmt) (cellsData fmt cds) (dodsValues cds) ∧
    (cellsData fmt cds).length = (dodsValues cds).length := by
  have hw := constrained_wf ds cds q hds h
  obtain ⟨e1, e2⟩ := asciiData_factors fmt cds hw
  exact ⟨(C06_same_decl fmt ds q cds h).2.2 _ e1, e2, cellsData_print fmt cds, cellsData_length fmt cds⟩

/-- **`dodsValues` IS what the data response carries** (round 7; closes the link the theorem above relies on): the
    atomic values of the data handed to C05's encoder (`leaves (dataOf cds)`, wire order) are, pointwise and in order,
    the values `dodsValues cds` (each in the vocabulary of its declared type, `xValR`); and by
    `C06_payload_decodes_source` the payload is the reference encoding of exactly that data.  Together with
    `C06_ascii_prints_every_value`: i-th printed cell = print of the i-th value on the wire. -/
theorem C06_data_response_carries_wire_values (ds cds : Dataset) (q : Str) (hds : ds.WF)
    (h : constrained ds q = .ok cds) :
    List.Forall₂ CarriedAs (leaves (dataOf cds)) (dodsValues cds) ∧
    payload cds = Xdr.encImpl (tmplOf cds) (dataOf cds) :=
  ⟨leaves_dataOf cds (constrained_wf ds cds q hds h), rfl⟩

/-- … and two constrained datasets with the same declarations whose wire values print alike have the same listing:
    nothing but the declaration and the printed wire values reaches the ASCII data section -/
theorem C06_ascii_depends_on_printed_values_only (fmt : Int → Str) (cds cds' : Dataset) (h : cds.WF) (h' : cds'.WF)
    (hd : cds.vars.map declOf = cds'.vars.map declOf) (hc : cellsData fmt cds = cellsData fmt cds') :
    asciiData fmt cds = asciiData fmt cds' :=
  asciiData_congr fmt cds cds' h h' hd hc

/-- every array of the constrained dataset carries exactly as many values as the product of the
    shape its declaration prints — the shape of the DDS, of the data response and the number of
    ASCII lines agree for every variable kind the constraint can leave behind -/
theorem C06_constrained_counts (ds cds : Dataset) (q : Str) (hds : ds.WF)
    (h : constrained ds q = .ok cds) :
    ∀ v ∈ cds.vars, match v with
      | .base b => b.data.length = prod b.shape
      | .struct _ ms => ∀ m ∈ ms, match m with
        | .base b => b.data.length = prod b.shape
        | .struct _ bs => ∀ b ∈ bs, b.data.length = prod b.shape
      | .grid _ a ms => a.data.length = prod a.shape ∧ ∀ m ∈ ms, m.data.length = prod m.shape
      | .seq _ cols rows => ∀ r ∈ rows, r.length = cols.length := by
  intro v hv
  have hw := constrained_wf ds cds q hds h v hv
  cases v with
  | base b => exact hw.1
  | struct n ms =>
    intro m hm
    have := hw m hm
    cases m with
    | base b => exact this.1
    | struct k bs => exact fun b hb => (this b hb).1
  | grid n a ms => exact ⟨hw.1.1, fun m hm => (hw.2 m hm).1⟩
  | seq n cols rows => exact hw

/-- a hyperslab applied by `apply_projection` keeps an array well formed — whether the projection names the variable
    for the first time or again, with any strides: the stored object has `.flat` and carries exactly the product of
    the new shape, and the `Arrayterator` left behind lies inside its array.  On a variable named for the first time
    it is numpy's selection per axis, the axes the hyperslab does not mention whole (`padSl`), a last index beyond the
    extent clipped (`sel`) -/
theorem C06_slice_wf (b b' : Base) (sl : List PSlice) (h : b.WF) (hs : sliceBase b sl = .ok b') :
    b'.WF ∧ b'.name = b.name ∧ b'.ty = b.ty ∧
    (b.view = none →
      b'.shape = (List.zipWith sel b.shape (padSl b.shape.length sl)).map List.length ∧
      b'.data = selND b.shape (List.zipWith sel b.shape (padSl b.shape.length sl)) b.data) :=
  ⟨(sliceBase_wf b b' sl h hs).1, (sliceBase_wf b b' sl h hs).2.1, (sliceBase_wf b b' sl h hs).2.2,
   fun hv => sliceBase_fresh b b' sl h hv hs⟩

/-! ### a variable named twice: `numpy.lib.Arrayterator.__getitem__`

  `?a[1:2:7],a[1:2:7]`: the second hyperslab is checked (`check_hyperslab`) against the shape the first one left and
  applied by `Arrayterator.__getitem__` to the `Arrayterator` the first one left, which *composes* the two — as numpy
  implements it: `start + (slice.start or 0)`, `step * (slice.step or 1)`, `min(stop, start + (slice.stop or stop - start))`.
  The offsets of the second hyperslab are not scaled by the stride of the first. -/

/-- **What `Arrayterator.__getitem__` composes and what the result selects**, on one axis of length `n`, for a window
    `w` inside the axis (any offset, any stride) and a hyperslab `s` that `check_hyperslab` accepts against the shape
    `w` announces: (1) the composed window, with the three `or`s resolved; (2) it lies inside the axis; (3) it reads
    exactly the positions `start', start' + step', … < stop'`; (4) its `shape` entry is the number of positions read
    (DDS and data agree); (5) when the stride in place is 1 these are the positions numpy's `x[w][s]` selects. -/
theorem C06_arrayterator_compose (n : Nat) (w : Win) (s : PSlice) (h : w.OK n) (hv : validSl w.count s = true) :
    w.get s = ⟨w.start + s.start.getD 0, min w.stop (w.start + s.stop.getD (w.stop - w.start)),
               w.step * s.step.getD 1⟩ ∧
    (w.get s).OK n ∧
    (∀ x : Nat, x ∈ (w.get s).pos n ↔
      (w.get s).start ≤ x ∧ (x : Int) < (w.get s).stop ∧ ((x : Int) - (w.get s).start) % (w.get s).step = 0) ∧
    ((w.get s).pos n).length = (w.get s).count ∧
    (w.step = 1 → ((w.get s).pos n).map some = (sel w.count s).map (fun j => (w.pos n)[j]?)) :=
  ⟨Win.get_eq w hv, Win.get_ok h hv, Win.mem_pos (Win.get_ok h hv), Win.pos_length (Win.get_ok h hv),
   fun hk => Win.get_unit_stride h hk hv⟩

/-- the first hyperslab on a variable (a fresh `Arrayterator`: offset 0, stride 1) is numpy's selection -/
theorem C06_arrayterator_first (n : Nat) (s : PSlice) (hv : validSl n s = true) :
    ((Win.fresh n).get s).pos n = sel n s ∧ ((Win.fresh n).get s).count = (sel n s).length := by
  have h := Win.fresh_get_pos n s hv
  have hc : (Win.fresh n).count = n := Win.fresh_count n
  refine ⟨h, ?_⟩
  rw [← h, Win.pos_length (Win.get_ok (Win.fresh_ok n) (by rw [hc]; exact hv))]

/-- **The handler's answer to `?a[s1],a[s2]`** (a top-level array named twice, both items with a hyperslab, no
    selection): the constrained dataset holds the one variable `a`, sliced first by `s1` and then — by `sliceBase` on what
    that left, i.e. `check_hyperslab` against the new shape and `Arrayterator.__getitem__` on the `Arrayterator` in place —
    by `s2`; an error of either step is the error of the request.  All three responses print this dataset. -/
theorem C06_repeated_item_answer (ds : Dataset) (b : Base) (sl1 sl2 : List PSlice)
    (hf : findVar ds.vars b.name = some (.base b)) (h1 : sl1 ≠ []) (h2 : sl2 ≠ []) :
    constrain ds [.path [(b.name, sl1)], .path [(b.name, sl2)]] []
      = (sliceBase b sl1 >>= fun b1 => sliceBase b1 sl2 >>= fun b2 =>
          pure { ds with vars := [.base b2] }) := constrain_repeated ds b sl1 sl2 hf h1 h2

/-- **With a stride in place the composition is not numpy's `x[s1][s2]`** (observation, recorded in
    design_notes/C06.md): on ten values `[1:2:7]` twice reads positions 2 and 6, numpy's `x[1:8:2][1:8:2]` holds
    positions 3 and 7.  The DDS, the data response and the ASCII response still agree — `C06_same_decl`,
    `C06_ascii_total`, `C06_constrained_counts` hold for every projection, repeated items included — because all
    three print the one constrained dataset whose shape and values are this `Arrayterator`'s. -/
theorem C06_arrayterator_strided_not_numpy :
    let w := (Win.fresh 10).get ⟨some 1, some 8, some 2⟩
    let s : PSlice := ⟨some 1, some 8, some 2⟩
    w.pos 10 = [1, 3, 5, 7] ∧ validSl w.count s = true ∧
    (w.get s).pos 10 = [2, 6] ∧ (w.get s).count = 2 ∧
    (sel w.count s).filterMap (fun j => (w.pos 10)[j]?) = [3, 7] := Win.get_strided_not_numpy

/-- **Strings are printed quoted, one per index tuple**: the ASCII lines of an array of strings (held as `str`) pair
    the row-major index tuples with the strings between double quotes -/
theorem C06_ascii_strings_quoted (fmt : Int → Str) (sh : List Nat) (ss : List Str) :
    asciiLines fmt .str sh (ss.map .str)
      = (List.zip (ndindex sh) ss).flatMap fun p => idxText p.1 ++ [' '] ++ (['"'] ++ p.2 ++ ['"']) ++ ['\n'] := by
  unfold asciiLines
  rw [List.zip_map_right, List.flatMap_map]
  rfl

/-- **The ASCII response prints the strings the data response carries, whether the source holds them as `str` or as
    `bytes`** (numpy dtype `U` / `S`; `lib.encode` and `_basetype` dispatch on the Python type of the element): for
    either representation and every list of ASCII strings, (1) the ASCII lines pair the row-major index tuples with
    the strings themselves between double quotes — `encode` decodes a `bytes` element before it quotes it —,
    (2) a 0-d String is printed the same way, and (3) the bytes `_basetype` puts on the wire for a word are the
    characters of the string, so the data response carries exactly what the ASCII response prints. -/
theorem C06_ascii_prints_strings (fmt : Int → Str) (rep : StrRep) (sh : List Nat) (ss : List Str)
    (hascii : ∀ s ∈ ss, ∀ c ∈ s, c.toNat < 128) :
    asciiLines fmt rep sh (ss.map .str)
      = ((List.zip (ndindex sh) ss).flatMap fun p => idxText p.1 ++ [' '] ++ (['"'] ++ p.2 ++ ['"']) ++ ['\n']) ∧
    (∀ s ∈ ss, encode fmt rep (.str s) = ['"'] ++ s ++ ['"']) ∧
    (∀ s, wordBytes rep s = strBytes s) ∧
    (∀ (t : Xdr.Ty) (v : Val), xValR rep t v = xVal t v) := by
  have hdec : ∀ s : Str, (∀ c ∈ s, c.toNat < 128) → decodeAscii s = s := by
    intro s hs
    induction s with
    | nil => rfl
    | cons c cs ih =>
      have hc : c.toNat < 128 := hs c (by simp)
      have := ih (fun x hx => hs x (by simp [hx]))
      simp only [decodeAscii, List.flatMap_cons, hc, if_true] at this ⊢
      rw [this]; rfl
  have henc : ∀ s ∈ ss, encode fmt rep (.str s) = ['"'] ++ s ++ ['"'] := by
    intro s hs
    cases rep with
    | str => rfl
    | bytes => simp only [encode, hdec s (hascii s hs)]
  refine ⟨?_, henc, wordBytes_eq rep, xValR_eq rep⟩
  unfold asciiLines
  rw [List.zip_map_right, List.flatMap_map]
  apply flatMap_congr_mem
  intro p hp
  simp only [Prod.map, id, henc p.2 (List.of_mem_zip hp).2]

/-- whole variable, either representation: the ASCII answer of a well-formed String array is its id and those lines -/
theorem C06_ascii_prints_string_array (fmt : Int → Str) (id : Str) (b : Base) (ss : List Str) (h : b.WF)
    (hs : b.shape ≠ []) (hd : b.data = ss.map .str) (hascii : ∀ s ∈ ss, ∀ c ∈ s, c.toNat < 128) :
    asciiBase fmt id b = .ok (id ++ ['\n'] ++
      ((List.zip (ndindex b.shape) ss).flatMap fun p => idxText p.1 ++ [' '] ++ (['"'] ++ p.2 ++ ['"']) ++ ['\n'])) := by
  rw [(C06_ascii_complete fmt id b h hs).1, hd, (C06_ascii_prints_strings fmt b.srep b.shape ss hascii).1]

/-- **what the two repairs changed** (3c6bfd0, 4256c07): before them a `bytes` element was printed as the text of
    its Python literal (`"b'one'"` where the data response carries `one`), and an empty `bytes` word was sent as one
    NUL byte after the length word 0 (the stream shifted by one byte); for `str` elements nothing changed -/
theorem C06_ascii_bytes_pinned_refuted (fmt : Int → Str) :
    encodePinned fmt .bytes (.str cs!"one") = cs!"\"b'one'\"" ∧
    encode fmt .bytes (.str cs!"one") = cs!"\"one\"" ∧
    wordBytesPinned .bytes [] = [0] ∧ wordBytes .bytes [] = [] ∧
    (∀ v, encodePinned fmt .str v = encode fmt .str v) ∧ (∀ s, wordBytesPinned .str s = wordBytes .str s) := by
  refine ⟨rfl, rfl, rfl, rfl, ?_, fun _ => rfl⟩
  intro v; cases v <;> rfl

/-- non-vacuity of `C06_ascii_prints_strings`: a String array held as bytes (dtype S) with an empty string -/
def dsS : Dataset := ⟨cs!"d", [.base { name := cs!"t", ty := cs!"String", shape := [3], dims := [],
                                       data := [.str cs!"one", .str [], .str cs!"c d"], srep := .bytes }]⟩

example : ∀ s ∈ [cs!"one", [], cs!"c d"], ∀ c ∈ s, c.toNat < 128 := by decide
example : respond intText dsS cs!"ascii" cs!"t[0:1]" = .ok .ascii (.complete
    (cs!"Dataset {\n    String t[t = 2];\n} d;\n" ++ dashes ++ cs!"t\n[0] \"one\"\n[1] \"\"\n\n")) := by
  decide +kernel
example : (constrained dsS cs!"t[0:1]").toOption.map payload
    = some [0,0,0,2, 0,0,0,3, 111,110,101,0, 0,0,0,0] := by
  decide +kernel

/-- a byte outside ASCII in a `bytes` element is printed as its `\xhh` escape (`backslashreplace`), never raised on -/
example : encode intText .bytes (.str [Char.ofNat 0xE9, 'a']) = cs!"\"\\xe9a\"" := by decide

/-- **the data response is C05's body of the constrained dataset**, byte for byte: declaration,
    `Data:\n`, `dods()` of the declaration and data the DDS / ASCII printers were given
    (`Xdr.body`, `Xdr.encImpl`: the model of `responses/dods.py` tied and proved exact in C05) -/
theorem C06_dods_body (cds : Dataset) :
    strBytes (ddsText cds ++ cs!"Data:\n" ++ bytesStr (payload cds))
      = Xdr.body (strBytes (ddsText cds)) (tmplOf cds) (dataOf cds) := by
  rw [strBytes_append, strBytes_append, strBytes_bytesStr]
  rfl

/-- **Content-Length**: on a well-formed source, for every query that yields a constrained dataset,
    whenever `calculate_size` announces a length it is the length of the body of the data response
    — all element types, Byte arrays with their padding included (a Byte array of `n` values takes
    `8 + n + (-n mod 4)` bytes), scalars, structures, grids -/
theorem C06_content_length (fmt : Int → Str) (ds cds : Dataset) (q : Str) (n : Nat) (hds : ds.WF)
    (h : constrained ds q = .ok cds) (hc : contentLength cds = some n) :
    ∃ body, respond fmt ds cs!"dods" q = .ok .dods (.complete body) ∧ body.length = n :=
  ⟨_, (C06_same_decl fmt ds q cds h).2.1, contentLength_body cds (constrained_wf ds cds q hds h) n hc⟩

/-- …and no length is announced when the constrained dataset holds a sequence (records are streamed) -/
theorem C06_content_length_absent (cds : Dataset) (n : Str) (cols : List (Str × Str)) (rows : List (List Val))
    (hv : Var.seq n cols rows ∈ cds.vars) : contentLength cds = none :=
  contentLength_none_seq cds n cols rows hv

/-- **the payload follows the declaration**: it is the concatenation of the encodings of the variables
    in the order the DDS declares them; a Structure is its members in order, a Grid its array
    followed by its maps, a nested Structure its arrays in order -/
theorem C06_payload_order (cds : Dataset) :
    payload cds = cds.vars.flatMap payloadVar ∧
    (∀ n ms, payloadVar (.struct n ms) = ms.flatMap fun m => Xdr.encImpl (tmplOfMember m) (dataOfMember m)) ∧
    (∀ k bs, Xdr.encImpl (tmplOfMember (.struct k bs)) (dataOfMember (.struct k bs)) = bs.flatMap payloadBase) ∧
    (∀ n a ms, payloadVar (.grid n a ms) = payloadBase a ++ ms.flatMap payloadBase) :=
  ⟨payload_vars cds, payloadVar_struct, member_struct_payload, payloadVar_grid⟩

/-- **a Byte array on the wire**: its element count twice, one byte per value, then zero bytes up to
    a multiple of four — none when the count already is one (0, 4, 8, …) -/
theorem C06_byte_array_wire (b : Base) (hty : tyOf b.ty = .byte) (hs : b.shape ≠ []) :
    payloadBase b = Xdr.be 4 b.data.length ++ Xdr.be 4 b.data.length ++
      ((b.data.map (xVal .byte)).map (Xdr.toWire .byte)).flatten ++ Xdr.zeros (Xdr.pad4 b.data.length) ∧
    (b.data.length % 4 = 0 → Xdr.pad4 b.data.length = 0) ∧
    (b.WF → (payloadBase b).length = 8 + prod b.shape + Xdr.pad4 (prod b.shape)) := by
  refine ⟨payloadBase_byte_array b hty hs, ?_, ?_⟩
  · intro h; simp [Xdr.pad4, h]
  · intro hw
    rw [payloadBase_byte_array b hty hs]
    have hB : Xdr.wireWidth .byte = 1 := by decide
    have hf := flatten_toWire_xVal .byte (by decide) b.data
    rw [hB] at hf
    simp only [List.length_append, Xdr.be_length, hf, Xdr.zeros_length, hw.1]
    omega

/-- a Byte scalar, and a Byte column of a sequence record (sequences with a Byte column are encoded
    record by record as Structures of scalars): the byte and three zero bytes -/
theorem C06_byte_scalar_wire (v : Val) :
    Xdr.encImpl (.base .byte []) (.scalar (xVal .byte v)) = Xdr.toWire .byte (xVal .byte v) ++ [0, 0, 0] :=
  byte_scalar_wire v

/-- **the declaration decodes the payload to the printed values**: when the values of the constrained
    dataset lie in the ranges of their declared types (`Xdr.WF`: C05's domain), the client's decoder
    (`Xdr.decImpl`, handlers/dap.py) driven by the declaration of the DDS reads the payload back to
    exactly the data the ASCII response lists, and consumes it to the last byte -/
theorem C06_payload_decodes (cds : Dataset) (h : Xdr.WF (tmplOf cds) (dataOf cds) = true) :
    Xdr.decImpl (tmplOf cds) (payload cds) = .ok (dataOf cds, []) := by
  have := Xdr.decImpl_enc (tmplOf cds) (dataOf cds) [] h
  rw [List.append_nil] at this
  rw [payload, Xdr.encImpl_eq _ _ h]
  exact this

/-- **constraining only ever selects values**: when every value of the source is a value of the DAP2
    type its variable or column declares (and column names are unique: `Dataset.TY`), every value of
    every constrained dataset is a value of the type *its* declaration prints — hyperslabs, selections,
    record ranges, column projections in any order ("fix sequence data" re-reads rows by column name) -/
theorem C06_values_stay_typed (ds cds : Dataset) (q : Str) (hds : ds.TY) (h : constrained ds q = .ok cds) :
    cds.TYo := constrained_ty ds cds q hds h

/-- **the declaration decodes the payload to the printed values — from hypotheses on the source only**:
    on a well-formed, typed source, for every query that yields a constrained dataset whose declaration
    has no empty container (and arrays below 2^31 elements: `Shaped`, a property of the DDS text), the
    payload of the data response is the reference DAP2/XDR encoding (`XdrSpec.enc`) of the data the
    ASCII response lists, and the client's decoder driven by that declaration reads it back to exactly
    that data, consuming every byte.  (`C06_payload_decodes` with its hypothesis discharged by
    `C06_values_stay_typed` and `constrained_wf`.) -/
theorem C06_payload_decodes_source (ds cds : Dataset) (q : Str) (hw : ds.WF) (ht : ds.TY)
    (h : constrained ds q = .ok cds) (hs : cds.Shaped) :
    payload cds = Pydap.XdrSpec.enc (tmplOf cds) (dataOf cds) ∧
    Xdr.decImpl (tmplOf cds) (payload cds) = .ok (dataOf cds, []) := by
  have hx := xdrWF_of_typed cds (constrained_wf ds cds q hw h) (constrained_ty ds cds q ht h) hs
  exact ⟨Xdr.encImpl_eq _ _ hx, C06_payload_decodes cds hx⟩

/-- a String value on the wire is C05's XDR string field (length word, the bytes, zero padding to
    4n) -/
theorem C06_string_wire (b : Base) (s : Str) (hty : tyOf b.ty = .string) (hs : b.shape = []) (hd : b.data = [.str s]) :
    payloadBase b = Pydap.XdrSpec.encString (strBytes s) := by
  have hB : Xdr.wireStr .string ≠ "B" := by decide
  have hC : Xdr.wireChar .string = 'S' := by decide
  simp [payloadBase, tmplOfBase, dataOfBase, xValR_fun, xValR_eq, hs, hd, hty, Xdr.encImpl, Xdr.encBase, Xdr.encElems, hB, hC,
    xVal, Xdr.strField, Xdr.lengthWord_eq, Pydap.XdrSpec.encString, Pydap.XdrSpec.word]

/-- a member of a Structure nested in a Structure is printed under its full id by the ASCII
    response and at one more level of indentation by the declaration; its values are part of the
    data response in declaration order (`memberValues`) -/
theorem C06_nested_member (fmt : Int → Str) (n k : Str) (bs : List Base) (level : Nat) :
    asciiMember fmt n (.struct k bs) = asciiMembers fmt (n ++ ['.'] ++ k) bs ∧
    ddsMember level (.struct k bs)
      = indent level ++ cs!"Structure {\n" ++ bs.flatMap (ddsBase (level + 1)) ++ indent level ++ cs!"} " ++ k ++ cs!";\n" ∧
    memberValues (.struct k bs) = bs.flatMap (·.data) := ⟨rfl, rfl, rfl⟩

/-! ### non-vacuity -/

def dsA : Dataset := ⟨cs!"d", [.base { name := cs!"a", ty := cs!"Int32", shape := [10], dims := [],
                                       data := [0, 1, 2, 3, 4, 5, 6, 7, 8, 9] }]⟩

example : (constrained dsA cs!"a[0:2:9]").map Dataset.shown
    = .ok ⟨cs!"d", [.base { name := cs!"a", ty := cs!"Int32", shape := [5], dims := [], data := [0, 2, 4, 6, 8] }]⟩ := by
  decide +kernel
example : respond intText dsA cs!"ascii" cs!"a[0:2:9]" = .ok .ascii (.complete
    (cs!"Dataset {\n    Int32 a[a = 5];\n} d;\n" ++ dashes ++ cs!"a\n[0] 0\n[1] 2\n[2] 4\n[3] 6\n[4] 8\n\n")) := by
  decide +kernel
example : respond intText dsA cs!"das" cs!"a[x]" = .ok .das (.complete cs!"Attributes {\n    a {\n    }\n}\n") := by
  decide +kernel
example : constrained dsA cs!"a[x]" = .error .valueError := by decide +kernel
/-- a variable named twice with strides: one constrained dataset, the three responses print it -/
example : (constrained dsA cs!"a[1:2:7],a[1:2:7]").map Dataset.shown
    = .ok ⟨cs!"d", [.base { name := cs!"a", ty := cs!"Int32", shape := [2], dims := [], data := [2, 6] }]⟩ := by
  decide +kernel
example : respond intText dsA cs!"ascii" cs!"a[1:2:7],a[1:2:7]" = .ok .ascii (.complete
    (cs!"Dataset {\n    Int32 a[a = 2];\n} d;\n" ++ dashes ++ cs!"a\n[0] 2\n[1] 6\n\n")) := by
  decide +kernel
example : respond intText dsA cs!"dds" cs!"a[2:3:9],a[1:2]" = .ok .dds (.complete
    cs!"Dataset {\n    Int32 a[a = 1];\n} d;\n") := by
  decide +kernel
/-- the second hyperslab is checked against what the first one left: three values, index 3 is outside -/
example : constrained dsA cs!"a[2:3:9],a[3]" = .error .ceError := by decide +kernel
example : (Win.fresh 10).OK 10 ∧ validSl (Win.fresh 10).count ⟨some 1, some 8, some 2⟩ = true := by decide
example : dsA.WF := by
  intro v hv; simp [dsA] at hv; subst hv; exact ⟨rfl, rfl, trivial⟩

/-- a dataset with every variable kind: the hypotheses of `C06_ascii_total` are met by a query that
    projects a grid member, slices a structure member, a grid and a sequence with a selection -/
def dsB : Dataset := ⟨cs!"d", [
  .struct cs!"st" [.base { name := cs!"p", ty := cs!"Int16", shape := [2, 2], dims := [], data := [1, 2, 3, 4] }],
  .grid cs!"g" { name := cs!"v", ty := cs!"Int32", shape := [3], dims := [cs!"x"], data := [7, 8, 9] }
    [{ name := cs!"x", ty := cs!"Int32", shape := [3], dims := [cs!"x"], data := [0, 10, 20] }],
  .seq cs!"s" [(cs!"i", cs!"Int32"), (cs!"j", cs!"Int32")] [[1, 5], [2, 6], [3, 7]]]⟩

example : dsB.WF := by
  intro v hv
  simp only [dsB, List.mem_cons, List.mem_nil_iff, or_false] at hv
  rcases hv with rfl | rfl | rfl
  · intro m hm; simp at hm; subst hm; exact ⟨rfl, rfl, trivial⟩
  · refine ⟨⟨rfl, rfl, trivial⟩, ?_⟩; intro m hm; simp at hm; subst hm; exact ⟨rfl, rfl, trivial⟩
  · intro r hr; simp at hr; rcases hr with rfl | rfl | rfl <;> rfl
example : (constrained dsB cs!"st.p[0:1][1],g[1:2],s.j,s[0:1]&s.i>1").map Dataset.shown
    = .ok ⟨cs!"d", [
      .struct cs!"st" [.base { name := cs!"p", ty := cs!"Int16", shape := [2, 1], dims := [], data := [2, 4] }],
      .grid cs!"g" { name := cs!"v", ty := cs!"Int32", shape := [2], dims := [cs!"x"], data := [8, 9] }
        [{ name := cs!"x", ty := cs!"Int32", shape := [2], dims := [cs!"x"], data := [10, 20] }],
      .seq cs!"s" [(cs!"j", cs!"Int32")] [[6], [7]]]⟩ := by
  decide +kernel

/-- non-vacuity of `C06_ascii_prints_every_value` on `dsB` (structure member sliced, grid sliced, sequence projected
    and filtered): 2 + 2 + 2 + 2 cells for 8 wire values, laid out to the listing, none left -/
example : (constrained dsB cs!"st.p[0:1][1],g[1:2],s.j,s[0:1]&s.i>1").toOption.map
      (fun c => (cellsData intText c, dodsValues c, (layData (c.vars.map declOf) (cellsData intText c))))
    = some ([cs!"2", cs!"4", cs!"8", cs!"9", cs!"10", cs!"20", cs!"6", cs!"7"], [2, 4, 8, 9, 10, 20, 6, 7],
        (cs!"st.p\n[0][0] 2\n[1][0] 4\n\n\ng.v\n[0] 8\n[1] 9\n\ng.x\n[0] 10\n[1] 20\n\n\ns.j\n6\n7\n\n", [])) := by
  decide +kernel

/-- strings and a Structure nested in a Structure: a String array, a String scalar, a nested
    structure with an integer array and a String array, a sequence with a String column -/
def dsC : Dataset := ⟨cs!"d", [
  .base { name := cs!"t", ty := cs!"String", shape := [3], dims := [], data := [.str cs!"ab", .str [], .str cs!"c d"] },
  .struct cs!"st" [
    .base { name := cs!"p", ty := cs!"Int16", shape := [2], dims := [], data := [1, 2] },
    .struct cs!"in" [{ name := cs!"q", ty := cs!"Int32", shape := [2, 2], dims := [], data := [1, 2, 3, 4] },
                     { name := cs!"r", ty := cs!"String", shape := [2], dims := [], data := [.str cs!"k", .str cs!"l"] }]],
  .seq cs!"s" [(cs!"i", cs!"Int32"), (cs!"n", cs!"String")] [[1, .str cs!"ab"], [3, .str []], [5, .str cs!"c d"]]]⟩

example : dsC.WF := by
  intro v hv
  simp only [dsC, List.mem_cons, List.mem_nil_iff, or_false] at hv
  rcases hv with rfl | rfl | rfl
  · exact ⟨rfl, rfl, trivial⟩
  · intro m hm; simp at hm
    rcases hm with rfl | rfl
    · exact ⟨rfl, rfl, trivial⟩
    · intro b hb; simp at hb; rcases hb with rfl | rfl <;> exact ⟨rfl, rfl, trivial⟩
  · intro r hr; simp at hr; rcases hr with rfl | rfl | rfl <;> rfl

/-- a member of a grid named again after the grid: the grid is served as the first item left it -/
example : (constrained dsB cs!"g[1:2],g.x").map Dataset.shown = (constrained dsB cs!"g[1:2]").map Dataset.shown := by
  decide +kernel
example : (constrained dsB cs!"g[1:2],g.v").map Dataset.shown
    = .ok ⟨cs!"d", [.grid cs!"g" { name := cs!"v", ty := cs!"Int32", shape := [2], dims := [cs!"x"], data := [8, 9] }
        [{ name := cs!"x", ty := cs!"Int32", shape := [2], dims := [cs!"x"], data := [10, 20] }]]⟩ := by
  decide +kernel
/-- shorthand for a nested member, a hyperslab on it whose last index lies beyond the extent
    (clipped), a String array sliced, a String column selected by a string comparison -/
example : (constrained dsC cs!"q[1][0:9],st.in.r[1],t[0:1],s.n&s.n!=\"ab\"").map Dataset.shown
    = .ok ⟨cs!"d", [
      .struct cs!"st" [.struct cs!"in" [
        { name := cs!"q", ty := cs!"Int32", shape := [1, 2], dims := [], data := [3, 4] },
        { name := cs!"r", ty := cs!"String", shape := [1], dims := [], data := [.str cs!"l"] }]],
      .base { name := cs!"t", ty := cs!"String", shape := [2], dims := [], data := [.str cs!"ab", .str []] },
      .seq cs!"s" [(cs!"n", cs!"String")] [[.str []], [.str cs!"c d"]]]⟩ := by
  decide +kernel

example : respond intText dsC cs!"ascii" cs!"st.in.r,t[2],s&s.n<\"b\"" = .ok .ascii (.complete
    (cs!"Dataset {\n    Structure {\n        Structure {\n            String r[r = 2];\n        } in;\n    } st;\n    String t[t = 1];\n    Sequence {\n        Int32 i;\n        String n;\n    } s;\n} d;\n"
      ++ dashes ++
     cs!"st.in.r\n[0] \"k\"\n[1] \"l\"\n\n\n\nt\n[0] \"c d\"\n\ns.i, s.n\n1, \"ab\"\n3, \"\"\n\n")) := by
  decide +kernel

example : respond intText dsC cs!"dods" cs!"st.in.r,s.n" = .ok .dods (.complete
    (cs!"Dataset {\n    Structure {\n        Structure {\n            String r[r = 2];\n        } in;\n    } st;\n    Sequence {\n        String n;\n    } s;\n} d;\nData:\n"
      ++ bytesStr [0,0,0,2, 0,0,0,1,0x6b,0,0,0, 0,0,0,1,0x6c,0,0,0,
                   0x5a,0,0,0, 0,0,0,2,0x61,0x62,0,0,  0x5a,0,0,0, 0,0,0,0,  0x5a,0,0,0, 0,0,0,3,0x63,0x20,0x64,0,  0xa5,0,0,0])) := by
  decide +kernel

/-- a Byte array (values ≥ 128 too) followed by an Int32 array: four selected Bytes take no padding,
    three take one byte, the variable after them starts right behind -/
def dsD : Dataset := ⟨cs!"d", [
  .base { name := cs!"flags", ty := cs!"Byte", shape := [6], dims := [], data := [10, 200, 12, 255, 14, 15] },
  .base { name := cs!"v", ty := cs!"Int32", shape := [3], dims := [], data := [100, 200, 300] }]⟩

example : dsD.WF := by
  intro v hv; simp [dsD] at hv; rcases hv with rfl | rfl <;> exact ⟨rfl, rfl, trivial⟩

example : respond intText dsD cs!"dods" cs!"flags[0:3],v[1:2]" = .ok .dods (.complete
    (cs!"Dataset {\n    Byte flags[flags = 4];\n    Int32 v[v = 2];\n} d;\nData:\n"
      ++ bytesStr [0,0,0,4, 0,0,0,4, 10,200,12,255,  0,0,0,2, 0,0,0,2, 0,0,0,200, 0,0,1,44])) := by
  decide +kernel

def cdsD : Dataset := ⟨cs!"d", [
  .base { name := cs!"flags", ty := cs!"Byte", shape := [4], dims := [], data := [10, 200, 12, 255] },
  .base { name := cs!"v", ty := cs!"Int32", shape := [2], dims := [], data := [200, 300] }]⟩

example : (constrained dsD cs!"flags[0:3],v[1:2]").map Dataset.shown = .ok cdsD := by decide +kernel

/-- the hypotheses of `C06_content_length` are met: 62 bytes of DDS, `Data:\n`, 8 + 4 + 0 for the four
    Bytes, 8 + 2·4 for the Int32s -/
example : contentLength cdsD = some (62 + 6 + 12 + 16) := by
  have hB : Xdr.wireStr .byte = "B" := by decide
  have hB' : Xdr.wireStr .int32 ≠ "B" := by decide
  have hC : Xdr.wireChar .byte ≠ 'S' := by decide
  have hC' : Xdr.wireChar .int32 ≠ 'S' := by decide
  have w : Xdr.wireWidth .int32 = 4 := by decide
  have t1 : tyOf cs!"Byte" = .byte := by decide
  have t2 : tyOf cs!"Int32" = .int32 := by decide
  have l : (strBytes (ddsText cdsD)).length = 62 := by decide +kernel
  simp [contentLength, Xdr.calcSize, l]
  simp [cdsD, tmplOf, tmplOfVar, tmplOfBase, Xdr.calcData, Xdr.calcDatas, t1, t2, hB, hB', hC, hC', w, Xdr.prod, Xdr.pad4, Xdr.dataMarker]

example : (constrained dsD cs!"flags[1:3],v").toOption.map payload
    = some [0,0,0,3, 0,0,0,3, 200,12,255,0,  0,0,0,3, 0,0,0,3, 0,0,0,100, 0,0,0,200, 0,0,1,44] := by
  decide +kernel

example : respond intText dsD cs!"ascii" cs!"flags[1:3]" = .ok .ascii (.complete
    (cs!"Dataset {\n    Byte flags[flags = 3];\n} d;\n" ++ dashes ++ cs!"flags\n[0] 200\n[1] 12\n[2] 255\n\n")) := by
  decide +kernel

/-- the hypotheses of `C06_payload_decodes_source` are met by `dsD` and `flags[0:3],v[1:2]` -/
example : dsD.TY ∧ cdsD.Shaped := by
  refine ⟨?_, by simp [cdsD], ?_⟩
  · intro v hv; simp [dsD] at hv
    rcases hv with rfl | rfl <;> intro x hx <;> simp [Base.srcData] at hx <;> rcases hx with rfl | rfl | rfl | rfl | rfl | rfl <;> (unfold okVal; decide)
  · intro v hv; simp [cdsD] at hv
    rcases hv with rfl | rfl <;> simp [Var.Shaped, Base.Small, prod]

/-- the hypothesis of `C06_payload_decodes` is met: Byte scalar, Float64 and String values in range -/
example : Xdr.WF (tmplOf dsD) (dataOf dsD) = true := by decide +kernel

/-- floats travel as the IEEE bit pattern of the (integer) value -/
example : f64bits 1 = 0x3FF0000000000000 ∧ f64bits (-2) = 0xC000000000000000 ∧ f32bits 3 = 0x40400000 ∧
    f32bits (-9999) = 0xC61C3C00 ∧ f64bits 0 = 0 := by decide +kernel

end Pydap.C06
