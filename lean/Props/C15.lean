/-
  C15 — Every request gets a complete HTTP answer: data or a DAP error document.
  Property statements only; helper lemmas are in `Proofs/Handler.lean`.
  Model: `PydapModel/Handler.lean` (`handle` = `BaseHandler.__call__` after the repair that moved
  the path split and `parse_ce` into the guarded region; `handlePinned` = the pinned structure).
-/
import PydapModel.Handler
import Proofs.Handler
import Proofs.HandlerWF
import Proofs.CeSrc
namespace Pydap.C15
open Pydap Pydap.Handler

/-- **Containment**: for every dataset, every path and every query string — well-formed or not —
    no exception leaves `__call__`. -/
theorem C15_contained (fmt : Int → Str) (ds : Dataset) (path query : Str) :
    ∀ e, handle fmt ds path query ≠ .escaped e := by
  intro e
  unfold handle
  split <;> simp

/-- **What the answer is**: status 200 with the headers of the response kind named by the path's
    extension, or the error document (code −1: no pydap exception class defines `code`), or —
    for behaviour inside the guarded region that the model leaves open — one of the two. -/
theorem C15_answer (fmt : Int → Str) (ds : Dataset) (path query : Str) :
    (∃ k body pre ext, handle fmt ds path query = .ok k body ∧ rsplitDot path = some (pre, ext) ∧
        lookupKind ext = some k ∧
        headersOf (handle fmt ds path query) = some ⟨200, contentType k, contentDescription k⟩) ∨
    (handle fmt ds path query = .errdoc (-1) ∧
        headersOf (handle fmt ds path query) = some ⟨500, cs!"text/plain", cs!"OPeNDAP_error"⟩) ∨
    handle fmt ds path query = .answered := by
  unfold handle
  cases hg : guarded ds path query with
  | error e =>
    cases e <;> simp [errorCode, headersOf, errorHeaders]
  | ok r =>
    obtain ⟨k, cds⟩ := r
    left
    refine ⟨k, bodyOf fmt k cds, ?_⟩
    unfold guarded at hg
    cases hp : rsplitDot path with
    | none => simp [hp, bind, Except.bind] at hg
    | some pr =>
      obtain ⟨pre, ext⟩ := pr
      refine ⟨pre, ext, rfl, rfl, ?_, rfl⟩
      simp only [hp, bind, Except.bind, pure, Except.pure] at hg
      split at hg
      · simp at hg
      · split at hg
        · simp at hg
        · rename_i ce hce cds' hc
          cases hk : lookupKind ext with
          | none => simp [hk] at hg
          | some k' =>
            cases k' <;> simp [hk] at hg <;> simp [hg.1]

/-- **Shape of the error document**: `Error {\n    code = c;\n    message = m;\n}` -/
theorem C15_errdoc_shape (code : Int) (message : Str) :
    errorBody code message =
      cs!"Error {\n    code = " ++ intText code ++ cs!";\n    message = " ++ message ++ cs!";\n}" ∧
    errorHeaders = ⟨500, cs!"text/plain", cs!"OPeNDAP_error"⟩ :=
  ⟨rfl, rfl⟩

/-- **The 200 body can be read to its end**: for a well-formed source dataset (every array carries
    `prod shape` values in an object that has `.flat`, every sequence row one value per column),
    whatever the path and the query string: when the handler answers 200, iterating the body of the
    response raises nothing.  No hypothesis on the constrained dataset is left: `constrain_wf`
    (`Proofs/HandlerWF.lean`) carries well-formedness through the whole of `BaseHandler.parse` —
    `apply_selection`, `fix_shorthand`, the collect pass, "fix sequence data" and the slice pass. -/
theorem C15_body_complete (fmt : Int → Str) (ds : Dataset) (hds : ds.WF) (path query : Str)
    (k : Kind) (body : Body) (h : handle fmt ds path query = .ok k body) :
    ∃ text, body = .complete text := by
  unfold handle at h
  split at h
  · rename_i k' cds hg
    simp only [Outcome.ok.injEq] at h
    obtain ⟨t, ht⟩ := bodyOf_complete fmt k' cds (guarded_wf ds cds path query k' hds hg)
    exact ⟨t, by rw [← h.2, ht]⟩
  · simp at h
  · simp at h

/-- the constrained dataset of every request is well formed when the source is (the lemma the
    completeness theorem rests on, for every projection list and selection list) -/
theorem C15_constrain_wf (ds cds : Dataset) (proj : List ProjItem) (sel : List Str) (hds : ds.WF)
    (h : constrain ds proj sel = .ok cds) : cds.WF := constrain_wf ds cds proj sel hds h

/-- the `.flat` part of well-formedness is what carries it: a wrapped `BaseType` left in `var.data` (the
    pinned `apply_projection`) makes the ASCII body raise while it is iterated -/
theorem C15_body_wrapped_raises (fmt : Int → Str) :
    bodyOf fmt .ascii ⟨cs!"d", [.base { name := cs!"a", ty := cs!"Int32", shape := [2], dims := [],
                                        data := [1, 2], kind := .wrapped }]⟩
      = .raises .attributeError := by
  rfl

/-- **The pinned structure** (`rsplit` and `parse_ce` before the `try`) lets an exception out exactly
    when the path has no dot or the constraint does not parse; the repair removed that class. -/
theorem C15_pinned_escapes_iff (fmt : Int → Str) (ds : Dataset) (path query : Str) :
    (∃ e, handlePinned fmt ds path query = .escaped e) ↔
      (rsplitDot path = none ∨
       ∃ pr e, rsplitDot path = some pr ∧ parseCE (if pr.2 = cs!"das" then [] else query) = .error e) := by
  unfold handlePinned
  cases hp : rsplitDot path with
  | none => simp
  | some pr =>
    simp only [false_or, reduceCtorEq]
    cases hc : parseCE (if pr.2 = cs!"das" then [] else query) with
    | error e => simp [hc]
    | ok v =>
      constructor
      · rintro ⟨e, he⟩; exact absurd he (C15_contained fmt ds path query e)
      · rintro ⟨pr', e, h1, h2⟩
        simp at h1; subst h1; rw [hc] at h2; simp at h2

/-! ### non-vacuity and the recorded witnesses of the repaired defect -/

def dsA : Dataset := ⟨cs!"d", [.base { name := cs!"a", ty := cs!"Int32", shape := [3], dims := [], data := [5, 6, 7] }]⟩

example : handlePinned intText dsA (cs!"/d") [] = .escaped .valueError := by decide
example : handlePinned intText dsA (cs!"/d.dds") (cs!"a[x]") = .escaped .valueError := by decide
example : handlePinned intText dsA (cs!"/d.dds") (cs!"a[1:2:3:4]") = .escaped .ceError := by decide
example : handlePinned intText dsA (cs!"/d.dds") (cs!"dap4.ce=a") = .escaped .ceError := by decide
example : handle intText dsA (cs!"/d") [] = .errdoc (-1) := by decide
example : handle intText dsA (cs!"/d.dds") (cs!"a[x]") = .errdoc (-1) := by decide
example : handle intText dsA (cs!"/d.foo") [] = .errdoc (-1) := by decide
example : handle intText dsA (cs!"/d.dds") (cs!"a[0:1]")
    = .ok .dds (.complete (cs!"Dataset {\n    Int32 a[a = 2];\n} d;\n")) := by decide +kernel
example : dsA.WF := by
  intro v hv; simp [dsA] at hv; subst hv; exact ⟨rfl, rfl⟩

/-! ### the tie by translation: the *source text* of `parse_ce`'s first statement is `parseCE`'s first test

`Pydap.Gen.src_parse_ce_guard` (PydapModel/Generated/CeSrc.lean) is the MiniPy syntax tree of
`if protocol == "dap2": key = "&"; if len(query_string) > 0 and query_string[:8] == "dap4.ce=": raise … elif …`,
regenerated from `parsers/__init__.py` on every run by `harness/py2lean.py`; `ceEnv q` binds `protocol = "dap2"`
(the default the handler uses) and `query_string = q`. -/

open MiniPy in
/-- for every query string the interpreted source raises `ConstraintExpressionError` exactly when the model's test
    `q ≠ [] ∧ q.take 8 = "dap4.ce="` holds, and otherwise leaves `query_string` unchanged and splits at `&` -/
theorem C15_source_parse_ce_guard (q : Handler.Str) :
    runItem (ceEnv q) Gen.src_parse_ce_guard "query_string"
      = (if q ≠ [] ∧ q.take 8 = Handler.dap4Prefix then .error (.raised "ConstraintExpressionError")
         else .ok (.str (codesOf q))) ∧
    runItem (ceEnv q) Gen.src_parse_ce_guard "key"
      = (if q ≠ [] ∧ q.take 8 = Handler.dap4Prefix then .error (.raised "ConstraintExpressionError")
         else .ok (.str [38])) :=
  src_parse_ce_guard_eq q

/-- … and in that case the model's `parseCE` answers with the constraint-expression error -/
theorem C15_source_parse_ce_guard_model (q : Handler.Str) (h : q ≠ [] ∧ q.take 8 = Handler.dap4Prefix) :
    Handler.parseCE q = .error .ceError :=
  parseCE_guard q h

open MiniPy in
example : runItem (ceEnv "dap4.ce=/a".toList) Gen.src_parse_ce_guard "key"
    = .error (.raised "ConstraintExpressionError") := by rfl
open MiniPy in
example : runItem (ceEnv "a&b>1".toList) Gen.src_parse_ce_guard "key" = .ok (.str [38]) := by rfl

end Pydap.C15
