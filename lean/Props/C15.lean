/-
  C15 — Every request gets a complete HTTP answer: data or a DAP error document.
  Property statements only; helper lemmas are in `Proofs/Handler.lean`.
  Model: `PydapModel/Handler.lean` (`handle` = `BaseHandler.__call__` after the repair that moved
  the path split and `parse_ce` into the guarded region; `handlePinned` = the pinned structure).
-/
import PydapModel.Handler
import Proofs.Handler
import Proofs.HandlerWF
import Proofs.Arrayterator
import Proofs.CeSrc
import Proofs.HlibSrc
import Proofs.HandlerWhole
namespace Pydap.C15
open Pydap Pydap.Handler

/-- **Containment**: for every dataset, every path and every query string — well-formed or not —
    no exception leaves `__call__`. -/
theorem C15_contained (fmt : Int → Str) (ds : Dataset) (path query : Str) :
    ∀ e, handle fmt ds path query ≠ .escaped e := by
  intro e
  unfold handle
  split <;> simp

/-- **What the answer is**: status 200 with the headers of the response kind named by the path's
    extension, or the error document (code −1: no pydap exception class defines `code`), or —
    for behaviour inside the guarded region that the model leaves open — one of the two. -/
theorem C15_answer (fmt : Int → Str) (ds : Dataset) (path query : Str) :
    (∃ k body pre ext, handle fmt ds path query = .ok k body ∧ rsplitDot path = some (pre, ext) ∧
        lookupKind ext = some k ∧
        headersOf (handle fmt ds path query) = some ⟨200, contentType k, contentDescription k⟩) ∨
    (handle fmt ds path query = .errdoc (-1) ∧
        headersOf (handle fmt ds path query) = some ⟨500, cs!"text/plain", cs!"OPeNDAP_error"⟩) ∨
    handle fmt ds path query = .answered := by
  unfold handle
  cases hg : guarded ds path query with
  | error e =>
    cases e <;> simp [errorCode, headersOf, errorHeaders]
  | ok r =>
    obtain ⟨k, cds⟩ := r
    left
    refine ⟨k, bodyOf fmt k cds, ?_⟩
    unfold guarded at hg
    cases hp : rsplitDot path with
    | none => simp [hp, bind, Except.bind] at hg
    | some pr =>
      obtain ⟨pre, ext⟩ := pr
      refine ⟨pre, ext, rfl, rfl, ?_, rfl⟩
      simp only [hp, bind, Except.bind, pure, Except.pure] at hg
      split at hg
      · simp at hg
      · split at hg
        · simp at hg
        · rename_i ce hce cds' hc
          cases hk : lookupKind ext with
          | none => simp [hk] at hg
          | some k' =>
            cases k' <;> simp [hk] at hg <;> simp [hg.1]

/-- **Shape of the error document**: `Error {\n    code = c;\n    message = m;\n}` -/
theorem C15_errdoc_shape (code : Int) (message : Str) :
    errorBody code message =
      cs!"Error {\n    code = " ++ intText code ++ cs!";\n    message = " ++ message ++ cs!";\n}" ∧
    errorHeaders = ⟨500, cs!"text/plain", cs!"OPeNDAP_error"⟩ :=
  ⟨rfl, rfl⟩

/-- **The 200 body can be read to its end**: for a well-formed source dataset (every array carries
    `prod shape` values in an object that has `.flat`, every sequence row one value per column),
    whatever the path and the query string: when the handler answers 200, iterating the body of the
    response raises nothing.  No hypothesis on the constrained dataset is left: `constrain_wf`
    (`Proofs/HandlerWF.lean`) carries well-formedness through the whole of `BaseHandler.parse` —
    `apply_selection`, `fix_shorthand`, the collect pass, "fix sequence data" and the slice pass. -/
theorem C15_body_complete (fmt : Int → Str) (ds : Dataset) (hds : ds.WF) (path query : Str)
    (k : Kind) (body : Body) (h : handle fmt ds path query = .ok k body) :
    ∃ text, body = .complete text := by
  unfold handle at h
  split at h
  · rename_i k' cds hg
    simp only [Outcome.ok.injEq] at h
    obtain ⟨t, ht⟩ := bodyOf_complete fmt k' cds (guarded_wf ds cds path query k' hds hg)
    exact ⟨t, by rw [← h.2, ht]⟩
  · simp at h
  · simp at h

/-- **The statement of the property in one theorem** (composition of `C15_answer`, `C15_body_complete` and the
    definition of `handle`): for every well-formed dataset, every path and every query string the model's answer is
    exactly one of
    (1) status 200 with the content type and description of the response kind the extension names (one of dds, das,
        dods, ascii) **and a body that reads to its end**;
    (2) the error document, code −1, status 500, `Content-description: OPeNDAP_error`, because the guarded region
        raised an exception of a class the model resolves;
    (3) `answered` — the guarded region reached behaviour the model leaves open (`Exc.unspecified`: the response kinds
        dmr/html/ver, comparisons of unlike types, paths through base variables, …).  For (3) the theorem says only
        "no escape": status, headers and the completeness of the body are carried by the oracle alone. -/
theorem C15_complete_answer (fmt : Int → Str) (ds : Dataset) (hds : ds.WF) (path query : Str) :
    (∃ k text pre ext, handle fmt ds path query = .ok k (.complete text) ∧ rsplitDot path = some (pre, ext) ∧
        lookupKind ext = some k ∧ k ≠ .other ∧
        headersOf (handle fmt ds path query) = some ⟨200, contentType k, contentDescription k⟩) ∨
    (handle fmt ds path query = .errdoc (-1) ∧ headersOf (handle fmt ds path query) = some errorHeaders ∧
        ∃ e, e ≠ .unspecified ∧ guarded ds path query = .error e) ∨
    (handle fmt ds path query = .answered ∧ guarded ds path query = .error .unspecified) := by
  rcases C15_answer fmt ds path query with ⟨k, body, pre, ext, h, hp, hk, hh⟩ | ⟨h, hh⟩ | h
  · obtain ⟨t, ht⟩ := C15_body_complete fmt ds hds path query k body h
    subst ht
    refine .inl ⟨k, t, pre, ext, h, hp, hk, ?_, hh⟩
    intro hko
    subst hko
    unfold handle at h
    cases hg : guarded ds path query with
    | error e => rw [hg] at h; cases e <;> simp at h
    | ok r =>
      obtain ⟨k', cds⟩ := r
      rw [hg] at h
      simp only [Outcome.ok.injEq] at h
      rw [guarded_eq ds path query pre ext hp] at hg
      rw [hk] at hg
      cases hc : constrained ds (if ext = cs!"das" then [] else query) <;> rw [hc] at hg <;> simp at hg
  · refine .inr (.inl ⟨h, hh, ?_⟩)
    unfold handle at h
    cases hg : guarded ds path query with
    | ok r => rw [hg] at h; simp at h
    | error e =>
      refine ⟨e, ?_, rfl⟩
      intro he; subst he; rw [hg] at h; simp at h
  · refine .inr (.inr ⟨h, ?_⟩)
    unfold handle at h
    cases hg : guarded ds path query with
    | ok r => rw [hg] at h; simp at h
    | error e => rw [hg] at h; cases e <;> simp at h; rfl

-- non-vacuity of the three cases: 200 + complete body, error document, the open class
example : handle intText ⟨cs!"d", [.base { name := cs!"a", ty := cs!"Int32", shape := [3], dims := [], data := [5, 6, 7] }]⟩
    (cs!"/d.dds") (cs!"a[0:1]") = .ok .dds (.complete (cs!"Dataset {\n    Int32 a[a = 2];\n} d;\n")) := by decide +kernel
example : handle intText ⟨cs!"d", [.base { name := cs!"a", ty := cs!"Int32", shape := [3], dims := [], data := [5, 6, 7] }]⟩
    (cs!"/d.dds") (cs!"a[3]") = .errdoc (-1) := by decide +kernel
example : handle intText ⟨cs!"d", [.base { name := cs!"a", ty := cs!"Int32", shape := [3], dims := [], data := [5, 6, 7] }]⟩
    (cs!"/d.dmr") [] = .answered ∧
    handle intText ⟨cs!"d", [.base { name := cs!"a", ty := cs!"Int32", shape := [3], dims := [], data := [5, 6, 7] }]⟩
    (cs!"/d.dds") (cs!"a.b") = .answered := by decide +kernel

/-- **The empty constraint is valid and is answered with data** (the one "valid constraint ⇒ 200, not the error
    document" statement proved for all datasets): for every well-formed dataset whose variables have distinct names
    (pydap keeps them in a dict), every path `<anything>.<ext>` with `ext` one of dds / das / dods / ascii / asc, and the
    empty query string — or any query string at all when the response is `das`, which drops it — the handler answers
    200 with that kind and a body that reads to its end.  (Proof: `parse_ce("")` is the empty projection and selection;
    `apply_selection` leaves the dataset as it is; the projection "every key, whole" collects every variable once, in
    order — here the distinct names are used; "fix sequence data" finds every column of every sequence in itself; the
    slice pass has nothing to slice.) -/
theorem C15_unconstrained_200 (fmt : Int → Str) (ds : Dataset) (hds : ds.WF) (hn : (ds.vars.map Var.name).Nodup)
    (path query pre ext : Str) (k : Kind) (hp : rsplitDot path = some (pre, ext)) (hk : lookupKind ext = some k)
    (hko : k ≠ .other) (hq : query = [] ∨ ext = cs!"das") :
    ∃ text, handle fmt ds path query = .ok k (.complete text) := by
  obtain ⟨cds, hc⟩ := constrain_whole ds hds hn
  have hq' : (if ext = cs!"das" then [] else query) = [] := by
    rcases hq with rfl | h
    · simp
    · simp [h]
  have hcd : constrained ds [] = .ok cds := by
    have hpc : parseCE [] = .ok ([], []) := by decide
    simp [constrained, hpc, hc]
  have hg : guarded ds path query = .ok (k, cds) := by
    rw [guarded_eq ds path query pre ext hp, hq', hcd]
    cases k <;> simp_all
  have hh : handle fmt ds path query = .ok k (bodyOf fmt k cds) := by simp [handle, hg]
  obtain ⟨t, ht⟩ := C15_body_complete fmt ds hds path query k _ hh
  exact ⟨t, by rw [hh, ht]⟩

-- non-vacuity: a dataset with an array and a sequence, asked for its DDS with no constraint and for its DAS with one
example : ∃ text, handle intText ⟨cs!"d", [.base { name := cs!"a", ty := cs!"Int32", shape := [2], dims := [], data := [5, 6] },
      .seq cs!"s" [(cs!"i", cs!"Int32")] [[1], [2]]]⟩ (cs!"/x/d.dds") [] = .ok .dds (.complete text) :=
  C15_unconstrained_200 intText _ (by
      intro v hv; simp at hv; rcases hv with rfl | rfl
      · exact ⟨rfl, rfl, trivial⟩
      · intro r hr; simp at hr; rcases hr with rfl | rfl <;> rfl)
    (by decide) _ _ (cs!"/x/d") (cs!"dds") .dds (by decide) (by decide) (by decide) (.inl rfl)

/-! ### histories: several datasets in one process -/

/-- **The answer depends only on the dataset and the request, not on what was served before**: in
    every history of requests served by a process that holds any number of datasets, the answer to
    the k-th request is the answer the same request gets as the first request of that process — and
    that is the answer of the handler of the dataset it names, alone (`handle`, the per-request
    model all other theorems are about) -/
theorem C15_history_independent (fmt : Int → Str) (p : Proc) (reqs : List Req) (k : Nat) (r : Req)
    (hk : reqs[k]? = some r) :
    (run fmt p reqs)[k]? = some (serve fmt p r).1 ∧
    (∀ h, p.handlers.find? (·.1 = r.target) = some h →
      (run fmt p reqs)[k]? = some (some (handle fmt h.2 r.path r.query)) ∧
      (serve fmt ⟨[h]⟩ r).1 = some (handle fmt h.2 r.path r.query)) := by
  have hp : ∀ (p : Proc) (r : Req), (serve fmt p r).2 = p := by
    intro p r; unfold serve; split <;> rfl
  have main : ∀ (reqs : List Req) (k : Nat), reqs[k]? = some r → (run fmt p reqs)[k]? = some (serve fmt p r).1 := by
    intro reqs
    induction reqs with
    | nil => intro k hk; simp at hk
    | cons r0 rs ih =>
      intro k hk
      cases k with
      | zero => simp at hk; subst hk; simp [run]
      | succ k => simp at hk; simp [run, hp, ih k hk]
  refine ⟨main reqs k hk, ?_⟩
  intro h hh
  have h1 : (serve fmt p r).1 = some (handle fmt h.2 r.path r.query) := by simp [serve, hh]
  refine ⟨by rw [main reqs k hk, h1], ?_⟩
  have ht : h.1 = r.target := by simpa using List.find?_some hh
  simp [serve, ht]

/-- **Every answer of every history is complete**: when all datasets of the process are well formed,
    no request of any history lets an exception escape, and every 200 body — of the first dataset
    served or of one served after any number of others — can be read to its end -/
theorem C15_history_complete (fmt : Int → Str) (p : Proc) (hp : ∀ h ∈ p.handlers, h.2.WF)
    (reqs : List Req) (o : Outcome) (ho : some o ∈ run fmt p reqs) :
    (∀ e, o ≠ .escaped e) ∧ ∀ k body, o = .ok k body → ∃ text, body = .complete text := by
  have hs : ∀ (p : Proc) (r : Req), (serve fmt p r).2 = p := by
    intro p r; unfold serve; split <;> rfl
  induction reqs with
  | nil => simp [run] at ho
  | cons r rs ih =>
    simp only [run, hs, List.mem_cons] at ho
    rcases ho with ho | ho
    · unfold serve at ho
      split at ho
      · simp at ho
      · rename_i h hh
        simp only [Option.some.injEq] at ho
        subst ho
        have hw := hp h (List.mem_of_find?_eq_some hh)
        exact ⟨C15_contained fmt h.2 r.path r.query,
          fun k body hb => C15_body_complete fmt h.2 hw r.path r.query k body hb⟩
    · exact ih ho

/-- the constrained dataset of every request is well formed when the source is (the lemma the
    completeness theorem rests on, for every projection list and selection list) -/
theorem C15_constrain_wf (ds cds : Dataset) (proj : List ProjItem) (sel : List Str) (hds : ds.WF)
    (h : constrain ds proj sel = .ok cds) : cds.WF := constrain_wf ds cds proj sel hds h

/-- **A hyperslab is applied or rejected inside the guarded region — nothing is left to the body**
    (`check_hyperslab`, the repair of the finding "200, then the body raises"): on an array of any
    shape — as the handler holds it or as an earlier hyperslab of the same request left it — a slice tuple is either
    accepted — at most as many slices as dimensions, every slice starting inside its axis *of the shape the variable
    shows now*, not empty or inverted, stride ≥ 1; a last index beyond the extent is clipped — and the array is
    replaced by what `Arrayterator.__getitem__` yields, or `ConstraintExpressionError` is raised.  No other outcome
    exists. -/
theorem C15_hyperslab_applied_or_rejected (b : Base) (sl : List PSlice) :
    (sl.length ≤ b.shape.length ∧ (List.zipWith validSl b.shape sl).all id = true ∧
      sliceBase b sl = .ok { b with
        shape := (List.zipWith Win.get b.arrayterator.win (padSl b.shape.length sl)).map Win.count,
        data := selND b.arrayterator.shape (List.zipWith Win.pos b.arrayterator.shape
                  (List.zipWith Win.get b.arrayterator.win (padSl b.shape.length sl))) b.arrayterator.data,
        kind := .arr,
        view := some { b.arrayterator with
                       win := List.zipWith Win.get b.arrayterator.win (padSl b.shape.length sl) } }) ∨
    (¬ (sl.length ≤ b.shape.length ∧ (List.zipWith validSl b.shape sl).all id = true) ∧
      sliceBase b sl = .error .ceError) := by
  unfold sliceBase
  split
  · rename_i h; exact .inl ⟨h.1, h.2, rfl⟩
  · rename_i h; exact .inr ⟨h, rfl⟩

/-- … and on a variable the projection names for the first time what is applied is numpy's selection -/
theorem C15_hyperslab_first_is_numpy (b b' : Base) (sl : List PSlice) (h : b.WF) (hv : b.view = none)
    (hs : sliceBase b sl = .ok b') :
    b'.shape = (List.zipWith sel b.shape (padSl b.shape.length sl)).map List.length ∧
    b'.data = selND b.shape (List.zipWith sel b.shape (padSl b.shape.length sl)) b.data :=
  sliceBase_fresh b b' sl h hv hs

/-- **A variable named twice (or more often), any strides**: every further hyperslab is checked against the shape
    the earlier ones left; when it is accepted the array is again well formed — as many values as the new shape
    says, an object with `.flat`, an `Arrayterator` inside its array — so the body can be produced
    (`C15_body_complete` rests on this for every projection list, repeated items included). -/
theorem C15_repeated_hyperslab_wf (b b1 b2 : Base) (sl1 sl2 : List PSlice) (h : b.WF)
    (h1 : sliceBase b sl1 = .ok b1) (h2 : sliceBase b1 sl2 = .ok b2) :
    b1.WF ∧ b2.WF ∧ sl2.length ≤ b1.shape.length ∧ (List.zipWith validSl b1.shape sl2).all id = true := by
  have w1 := (sliceBase_wf b b1 sl1 h h1).1
  refine ⟨w1, (sliceBase_wf b1 b2 sl2 w1 h2).1, ?_⟩
  rcases C15_hyperslab_applied_or_rejected b1 sl2 with ⟨ha, hb, _⟩ | ⟨_, he⟩
  · exact ⟨ha, hb⟩
  · rw [he] at h2; cases h2

/-- **A member of a grid named again after the whole grid** (`?g[0][0][2],g.y`, `?g,g.v`; since the repair of the
    finding this check made with the lifted `repeated-item` requests): the collect pass leaves the output as it is —
    the grid keeps its array first and its maps in axis order, so the hyperslab on the grid pairs every map with its
    own axis.  (Before, the member was set again: it went behind the other maps and was sliced with another axis'
    index: 200, then `ValueError` in the body.) -/
theorem C15_grid_member_after_grid (src : Dataset) (out : List Var) (n m : Str) (a0 a b : Base) (ms0 ms : List Base)
    (sl0 sl1 : List PSlice) (hf : findVar src.vars n = some (.grid n a0 ms0))
    (hm : (a0 :: ms0).find? (·.name = m) = some b) (ho : findVar out n = some (.grid n a ms)) :
    collect1Core src out (.path [(n, sl0), (m, sl1)]) = .ok out := by
  simp [collect1Core, hf, findMember, hm, ho]

/-- one axis of a repeated item: a window inside the axis and a hyperslab accepted against the shape it announces
    give a window inside the axis that announces exactly the number of positions it reads (never a negative or
    over-long dimension) -/
theorem C15_valid_axis_repeated (n : Nat) (w : Win) (s : PSlice) (h : w.OK n) (hv : validSl w.count s = true) :
    (w.get s).OK n ∧ ((w.get s).pos n).length = (w.get s).count ∧ ∀ j ∈ (w.get s).pos n, j < n :=
  ⟨Win.get_ok h hv, Win.pos_length (Win.get_ok h hv), Win.pos_lt (Win.get_ok h hv)⟩

/-- what `check_hyperslab` accepts on one axis, spelled out on the parsed hyperslab `[a:k:b]`
    (start `a`, stop `b + 1`, step `k`): `0 ≤ a < N` (or `a = 0` on an axis of length 0: the whole, empty, axis),
    `a ≤ b`, `k ≥ 1` — `b` may exceed `N - 1` -/
theorem C15_valid_axis (N : Nat) (a k b : Int) :
    validSl N ⟨some a, some (b + 1), some k⟩ = true ↔
      (0 ≤ a ∧ (a < N ∨ (N = 0 ∧ a = 0)) ∧ a ≤ b ∧ 1 ≤ k) := by
  simp only [validSl, Option.getD_some, decide_eq_true_eq]
  omega

/-- a projection `name[hyperslab]` of a top-level array never ends in the unresolved class: the slice
    pass answers with the sliced output or raises inside the guarded region -/
theorem C15_array_slice_resolved (out : List Var) (n : Str) (sl : List PSlice) (b : Base)
    (hf : findVar out n = some (.base b)) :
    slice1 out (.path [(n, sl)]) ≠ .error .unspecified := by
  simp only [slice1]
  split
  · simp
  · simp only [hf, bind, Except.bind, pure, Except.pure]
    rcases C15_hyperslab_applied_or_rejected b sl with ⟨_, _, h⟩ | ⟨_, h⟩ <;> simp [h]

/-- the same for a member of a structure and for a member of a structure nested in a structure -/
theorem C15_member_slice_resolved (out : List Var) (n m : Str) (sl : List PSlice) (ms : List Member) (b : Base)
    (hf : findVar out n = some (.struct n ms)) (hm : ms.find? (·.name = m) = some (.base b)) :
    slice1 out (.path [(n, []), (m, sl)]) ≠ .error .unspecified := by
  simp only [slice1, ne_eq, not_true_eq_false, if_false]
  split
  · simp
  · simp only [hf, hm, bind, Except.bind, pure, Except.pure]
    rcases C15_hyperslab_applied_or_rejected b sl with ⟨_, _, h⟩ | ⟨_, h⟩ <;> simp [h]

theorem C15_nested_slice_resolved (out : List Var) (n m k : Str) (sl : List PSlice) (ms : List Member)
    (bs : List Base) (b : Base)
    (hf : findVar out n = some (.struct n ms)) (hm : ms.find? (·.name = m) = some (.struct m bs))
    (hk : bs.find? (·.name = k) = some b) :
    slice1 out (.path [(n, []), (m, []), (k, sl)]) ≠ .error .unspecified := by
  simp only [slice1, hf, hm, hk, ne_eq, not_true_eq_false, if_false]
  split
  · simp
  · simp only [bind, Except.bind, pure, Except.pure]
    rcases C15_hyperslab_applied_or_rejected b sl with ⟨_, _, h⟩ | ⟨_, h⟩ <;> simp [h]

/-- **Which exception classes the guarded region raises, and a request that reaches each**: the
    model's error type has these constructors that `guarded` produces — `ValueError` (a path without
    a dot, a non-numeric index), `ConstraintExpressionError` (an over-long hyperslab, a hyperslab
    outside the array, `dap4.ce=`), `KeyError` (an unknown extension, an unknown member),
    `AttributeError` (`fix_shorthand` on the one-character call token `(`), and the unresolved
    class (a path through a base variable).  Each is answered with the error document / an answer
    (`C15_contained`); the check runs these and generated requests against the implementation and
    reports the classes met (coverage table in the evidence). -/
theorem C15_exception_classes_reached :
    let ds : Dataset := ⟨cs!"d", [.base { name := cs!"a", ty := cs!"Int32", shape := [3], dims := [], data := [5, 6, 7] }]⟩
    guarded ds (cs!"/d") [] = .error .valueError ∧
    guarded ds (cs!"/d.dds") (cs!"a[x]") = .error .valueError ∧
    guarded ds (cs!"/d.dds") (cs!"a[1:2:3:4]") = .error .ceError ∧
    guarded ds (cs!"/d.dds") (cs!"a[3]") = .error .ceError ∧
    guarded ds (cs!"/d.dds") (cs!"dap4.ce=a") = .error .ceError ∧
    guarded ds (cs!"/d.foo") [] = .error .keyError ∧
    guarded ds (cs!"/d.dds") (cs!"zz.p") = .error .keyError ∧
    guarded ds (cs!"/d.dds") (cs!"(") = .error .attributeError ∧
    guarded ds (cs!"/d.dds") (cs!"a.b") = .error .unspecified ∧
    guarded ds (cs!"/d.dmr") [] = .error .unspecified := by
  decide +kernel

/-- the `.flat` part of well-formedness is what carries it: a wrapped `BaseType` left in `var.data` (the
    pinned `apply_projection`) makes the ASCII body raise while it is iterated -/
theorem C15_body_wrapped_raises (fmt : Int → Str) :
    bodyOf fmt .ascii ⟨cs!"d", [.base { name := cs!"a", ty := cs!"Int32", shape := [2], dims := [],
                                        data := [1, 2], kind := .wrapped }]⟩
      = .raises .attributeError := by
  rfl

/-- **The pinned structure** (`rsplit` and `parse_ce` before the `try`) lets an exception out exactly
    when the path has no dot or the constraint does not parse; the repair removed that class. -/
theorem C15_pinned_escapes_iff (fmt : Int → Str) (ds : Dataset) (path query : Str) :
    (∃ e, handlePinned fmt ds path query = .escaped e) ↔
      (rsplitDot path = none ∨
       ∃ pr e, rsplitDot path = some pr ∧ parseCE (if pr.2 = cs!"das" then [] else query) = .error e) := by
  unfold handlePinned
  cases hp : rsplitDot path with
  | none => simp
  | some pr =>
    simp only [false_or, reduceCtorEq]
    cases hc : parseCE (if pr.2 = cs!"das" then [] else query) with
    | error e => simp [hc]
    | ok v =>
      constructor
      · rintro ⟨e, he⟩; exact absurd he (C15_contained fmt ds path query e)
      · rintro ⟨pr', e, h1, h2⟩
        simp at h1; subst h1; rw [hc] at h2; simp at h2

/-! ### non-vacuity and the recorded witnesses of the repaired defect -/

def dsA : Dataset := ⟨cs!"d", [.base { name := cs!"a", ty := cs!"Int32", shape := [3], dims := [], data := [5, 6, 7] }]⟩

example : handlePinned intText dsA (cs!"/d") [] = .escaped .valueError := by decide
example : handlePinned intText dsA (cs!"/d.dds") (cs!"a[x]") = .escaped .valueError := by decide
example : handlePinned intText dsA (cs!"/d.dds") (cs!"a[1:2:3:4]") = .escaped .ceError := by decide
example : handlePinned intText dsA (cs!"/d.dds") (cs!"dap4.ce=a") = .escaped .ceError := by decide
example : handle intText dsA (cs!"/d") [] = .errdoc (-1) := by decide
example : handle intText dsA (cs!"/d.dds") (cs!"a[x]") = .errdoc (-1) := by decide
example : handle intText dsA (cs!"/d.foo") [] = .errdoc (-1) := by decide
example : handle intText dsA (cs!"/d.dds") (cs!"a[0:1]")
    = .ok .dds (.complete (cs!"Dataset {\n    Int32 a[a = 2];\n} d;\n")) := by decide +kernel
example : dsA.WF := by
  intro v hv; simp [dsA] at hv; subst hv; exact ⟨rfl, rfl, trivial⟩

/-! ### the tie by translation: the *source text* of `parse_ce`'s first statement is `parseCE`'s first test

`Pydap.Gen.src_parse_ce_guard` (PydapModel/Generated/CeSrc.lean) is the MiniPy syntax tree of
`if protocol == "dap2": key = "&"; if len(query_string) > 0 and query_string[:8] == "dap4.ce=": raise … elif …`,
regenerated from `parsers/__init__.py` on every run by `harness/py2lean.py`; `ceEnv q` binds `protocol = "dap2"`
(the default the handler uses) and `query_string = q`. -/

open MiniPy in
/-- for every query string the interpreted source raises `ConstraintExpressionError` exactly when the model's test
    `q ≠ [] ∧ q.take 8 = "dap4.ce="` holds, and otherwise leaves `query_string` unchanged and splits at `&` -/
theorem C15_source_parse_ce_guard (q : Handler.Str) :
    runItem (ceEnv q) Gen.src_parse_ce_guard "query_string"
      = (if q ≠ [] ∧ q.take 8 = Handler.dap4Prefix then .error (.raised "ConstraintExpressionError")
         else .ok (.str (codesOf q))) ∧
    runItem (ceEnv q) Gen.src_parse_ce_guard "key"
      = (if q ≠ [] ∧ q.take 8 = Handler.dap4Prefix then .error (.raised "ConstraintExpressionError")
         else .ok (.str [38])) :=
  src_parse_ce_guard_eq q

/-- … and in that case the model's `parseCE` answers with the constraint-expression error -/
theorem C15_source_parse_ce_guard_model (q : Handler.Str) (h : q ≠ [] ∧ q.take 8 = Handler.dap4Prefix) :
    Handler.parseCE q = .error .ceError :=
  parseCE_guard q h

open MiniPy in
example : runItem (ceEnv "dap4.ce=/a".toList) Gen.src_parse_ce_guard "key"
    = .error (.raised "ConstraintExpressionError") := by rfl
open MiniPy in
example : runItem (ceEnv "a&b>1".toList) Gen.src_parse_ce_guard "key" = .ok (.str [38]) := by rfl

/-! the witness of the repaired finding `C15.hyperslab_outside_shape.200_then_body_raises` and its
    neighbours: start at / beyond the extent, too many indices, stride 0, inverted range — all
    answered with the error document; a last index beyond the extent is data -/
example : handle intText dsA (cs!"/d.dods") (cs!"a[20]") = .errdoc (-1) := by decide +kernel
example : handle intText dsA (cs!"/d.ascii") (cs!"a[3]") = .errdoc (-1) := by decide +kernel
example : handle intText dsA (cs!"/d.dods") (cs!"a[0][0]") = .errdoc (-1) := by decide +kernel
example : handle intText dsA (cs!"/d.dods") (cs!"a[0:0:2]") = .errdoc (-1) := by decide +kernel
example : handle intText dsA (cs!"/d.dods") (cs!"a[2:1]") = .errdoc (-1) := by decide +kernel
example : handle intText dsA (cs!"/d.dods") (cs!"a[1],a[1]") = .errdoc (-1) := by decide +kernel
example : handle intText dsA (cs!"/d.dods") (cs!"a[1:20]")
    = .ok .dods (.complete (cs!"Dataset {\n    Int32 a[a = 2];\n} d;\nData:\n" ++
        bytesStr [0, 0, 0, 2, 0, 0, 0, 2, 0, 0, 0, 6, 0, 0, 0, 7])) := by decide +kernel
example : validSl 3 ⟨some 1, some 21, some 1⟩ = true ∧ validSl 3 ⟨some 3, some 4, some 1⟩ = false := by decide

/-- two datasets of one process that share every name and id (`d`, `s`, `s.i`) and differ in the type of
    the column and in the number of records, asked alternately -/
def procAB : Proc := ⟨[
  (cs!"h0", ⟨cs!"d", [.seq cs!"s" [(cs!"i", cs!"Int32")] [[5], [6]]]⟩),
  (cs!"h1", ⟨cs!"d", [.seq cs!"s" [(cs!"i", cs!"String")] [[.str cs!"ab"]]]⟩)]⟩

example : ∀ h ∈ procAB.handlers, h.2.WF := by
  intro h hh
  simp only [procAB, List.mem_cons, List.mem_nil_iff, or_false] at hh
  rcases hh with rfl | rfl <;> intro v hv <;> simp at hv <;> subst hv <;> intro r hr <;> simp at hr
  · rcases hr with rfl | rfl <;> rfl
  · subst hr; rfl

example : run intText procAB [⟨cs!"h0", cs!"/d.dods", cs!"s.i"⟩, ⟨cs!"h1", cs!"/d.dods", cs!"s.i"⟩,
                              ⟨cs!"h0", cs!"/d.ascii", cs!"s.i&s.i>5"⟩, ⟨cs!"h2", cs!"/d.dds", []⟩, ⟨cs!"h1", cs!"/d.dods", cs!"s.j"⟩]
    = [some (.ok .dods (.complete (cs!"Dataset {\n    Sequence {\n        Int32 i;\n    } s;\n} d;\nData:\n" ++
          bytesStr [0x5a,0,0,0, 0,0,0,5, 0x5a,0,0,0, 0,0,0,6, 0xa5,0,0,0]))),
       some (.ok .dods (.complete (cs!"Dataset {\n    Sequence {\n        String i;\n    } s;\n} d;\nData:\n" ++
          bytesStr [0x5a,0,0,0, 0,0,0,2, 0x61,0x62,0,0, 0xa5,0,0,0]))),
       some (.ok .ascii (.complete (cs!"Dataset {\n    Sequence {\n        Int32 i;\n    } s;\n} d;\n" ++ dashes ++ cs!"s.i\n6\n\n"))),
       none,
       some (.errdoc (-1))] := by
  decide +kernel

/-! ### the tie by translation: the *source text* of `check_hyperslab` is the guard of `sliceBase`

`Pydap.Gen.src_check_hyperslab` (PydapModel/Generated/HlibSrc.lean) is the MiniPy syntax tree of the whole body of
handlers/lib.py `check_hyperslab` — the length test, the loop `for s, n in zip(slice_, shape)` (a MiniPy `forZip`),
`slice(s, s + 1, 1)` for an int index, the three defaults, `inside` with its empty-axis clause and the final test —
regenerated from the file on every run by `harness/py2lean.py`.  The inputs are the index tuple (ints and slice
objects with int-or-None fields) and the shape; the text of the exception message is not carried. -/

open MiniPy in
/-- for every index tuple and every shape the interpreted source returns normally exactly when the tuple is not longer
    than the shape and `validSl` holds on every axis (an int `i` read as `slice(i, i + 1, 1)`), and raises
    `ConstraintExpressionError` otherwise -/
theorem C15_source_check_hyperslab (its : List Item) (shape : List Nat) :
    runItem [("slice_", .tuple its), ("shape", shapeTuple shape)] Gen.src_check_hyperslab "shape"
      = if its.length ≤ shape.length ∧ (List.zipWith validSl shape (its.map itemSlice)).all id = true then
          .ok (shapeTuple shape)
        else .error (.raised "ConstraintExpressionError") :=
  src_check_hyperslab_eq its shape

open MiniPy in
/-- … so on the slice tuples of the model (`parse_hyperslab` only produces slices) the source raises exactly when
    `sliceBase` answers `ConstraintExpressionError`, and returns exactly when `sliceBase` applies the selection -/
theorem C15_source_check_hyperslab_sliceBase (b : Base) (sl : List PSlice) :
    (runItem [("slice_", .tuple (sl.map sliceItem)), ("shape", shapeTuple b.shape)] Gen.src_check_hyperslab "shape"
        = .error (.raised "ConstraintExpressionError") ↔ sliceBase b sl = .error .ceError) ∧
    (runItem [("slice_", .tuple (sl.map sliceItem)), ("shape", shapeTuple b.shape)] Gen.src_check_hyperslab "shape"
        = .ok (shapeTuple b.shape) ↔ ∃ b', sliceBase b sl = .ok b') := by
  rw [src_check_hyperslab_eq]
  simp only [List.length_map, List.map_map, Function.comp_def, itemSlice_sliceItem, List.map_id']
  unfold sliceBase
  by_cases h : sl.length ≤ b.shape.length ∧ (List.zipWith validSl b.shape sl).all id = true
  · rw [if_pos h, if_pos h]
    exact ⟨⟨(fun e => by cases e), (fun e => by cases e)⟩, ⟨fun _ => ⟨_, rfl⟩, fun _ => rfl⟩⟩
  · rw [if_neg h, if_neg h]
    exact ⟨⟨fun _ => rfl, fun _ => rfl⟩, ⟨(fun e => by cases e), (fun ⟨_, e⟩ => by cases e)⟩⟩

open MiniPy in
example : runItem [("slice_", .tuple [.slice (some 1) (some 21) (some 1)]), ("shape", shapeTuple [3])]
    Gen.src_check_hyperslab "shape" = .ok (shapeTuple [3]) := by decide
open MiniPy in
example : runItem [("slice_", .tuple [.int 3]), ("shape", shapeTuple [3])]
    Gen.src_check_hyperslab "shape" = .error (.raised "ConstraintExpressionError") := by decide
open MiniPy in
example : runItem [("slice_", .tuple [.slice (some 0) (some 1) none]), ("shape", shapeTuple [0])]
    Gen.src_check_hyperslab "shape" = .ok (shapeTuple [0]) := by decide
open MiniPy in
example : runItem [("slice_", .tuple [.int 0, .int 0]), ("shape", shapeTuple [3])]
    Gen.src_check_hyperslab "shape" = .error (.raised "ConstraintExpressionError") := by decide

end Pydap.C15
