/-
  C03 — Slice algebra: normalise, compose and print/parse preserve the selection.
  Property statements only; helper lemmas are in `Proofs/`.
-/
import PydapModel.Slice
import Proofs.Slice
import Proofs.SliceTuple
import Proofs.Hyperslab
import Proofs.SliceSrc
import Proofs.SliceAudit
namespace Pydap.C03
open Pydap

/-- **Normalising a slice never changes the selection** (any axis length, any bounds ≥ -N,
    positive bounds arbitrarily far beyond the axis, any step ≥ 1). -/
theorem C03_fix_preserves (N : Nat) (s : PSlice)
    (hstart : ∀ i, s.start = some i → -(N : Int) ≤ i)
    (hstop : ∀ j, s.stop = some j → -(N : Int) ≤ j)
    (hstep : ∀ k, s.step = some k → 1 ≤ k) :
    fixAxis N (Idx.sl s) = Idx.sl (fixSl N s) ∧ sel N (fixSl N s) = sel N s :=
  ⟨rfl, fix_preserves N s hstart hstop hstep⟩

/-- integer indices: a valid numpy index is normalised to the position numpy addresses -/
theorem C03_fix_int (N : Nat) (i : Int) (m : Nat) (h : selInt N i = some m) :
    fixAxis N (Idx.int i) = Idx.int m := by
  unfold selInt at h
  simp only [fixAxis]
  by_cases h0 : 0 ≤ i ∧ i < N
  · rw [if_pos h0] at h
    have : ¬ i < 0 := by omega
    rw [if_neg this]
    simp at h; subst h; congr 1; omega
  · rw [if_neg h0] at h
    by_cases h1 : -(N : Int) ≤ i ∧ i < 0
    · rw [if_pos h1] at h
      rw [if_pos h1.2]
      simp at h; subst h; congr 1; omega
    · rw [if_neg h1] at h; simp at h

/-- the normalised slice has only present, non-negative fields and step ≥ 1 -/
theorem C03_fix_normalised (N : Nat) (s : PSlice)
    (hstart : ∀ i, s.start = some i → -(N : Int) ≤ i)
    (hstop : ∀ j, s.stop = some j → -(N : Int) ≤ j)
    (hstep : ∀ k, s.step = some k → 1 ≤ k) :
    NonNegSl (fixSl N s) := by
  obtain ⟨st, sp, se⟩ := s
  constructor
  · intro a ha
    cases st <;> simp [fixSl] at ha hstart <;> (subst ha; try split) <;> omega
  · intro b hb
    cases st <;> cases sp <;> simp [fixSl] at hb hstart hstop <;> subst hb <;>
      (repeat' split) <;> omega
  · intro k hk
    cases se <;> simp [fixSl, orElse] at hk hstep <;> (subst hk; try split) <;> omega

/-- **tuples without Ellipsis**: the index is padded with full slices to the rank and
    normalised axis by axis -/
theorem C03_fix_tuple_plain (idx : List Idx) (shape : List Nat) (h : NoEll idx)
    (hl : idx.length ≤ shape.length) :
    fixSlice idx shape = zipFix (npExpand idx none shape.length) shape ∧
    (fixSlice idx shape).length = shape.length := by
  have e := fixSlice_noEll idx shape h hl
  exact ⟨e, by rw [e]; exact zipFix_length _ _ (npExpand_length_none idx _ hl)⟩

/-- **tuples with one Ellipsis**: the Ellipsis stands for as many full slices as are needed -/
theorem C03_fix_tuple_ellipsis (pre post : List Idx) (shape : List Nat)
    (h1 : NoEll pre) (h2 : NoEll post) (hl : pre.length + post.length ≤ shape.length) :
    fixSlice (pre ++ Idx.ell :: post) shape
      = zipFix (npExpand pre (some post) shape.length) shape ∧
    (fixSlice (pre ++ Idx.ell :: post) shape).length = shape.length := by
  have e := fixSlice_ell pre post shape h1 h2 hl
  exact ⟨e, by rw [e]; exact zipFix_length _ _ (npExpand_length_some pre post _ hl)⟩

/-- axis `i` of the normalised tuple is `fixAxis` of axis `i` of numpy's expansion -/
theorem C03_fix_tuple_axis (l : List Idx) (shape : List Nat) (h : l.length = shape.length)
    (i : Nat) (hi : i < shape.length) :
    (zipFix l shape)[i]'(by rw [zipFix_length l shape h]; exact hi)
      = fixAxis (shape[i]) (l[i]'(by omega)) :=
  zipFix_getElem l shape h i hi

/-- the specification function itself: a position is selected iff it lies in `[start, min stop N)`
    on the stride grid anchored at `start` (what numpy and the DAP hyperslab semantics say) -/
theorem C03_sel_spec (N : Nat) (s : PSlice) (h : NonNegSl s) (x : Nat) :
    x ∈ sel N s ↔ startN s ≤ x ∧ x < min (stopN N s) N ∧ (x - startN s) % stepN s = 0 :=
  mem_sel_iff N s h x

/-- **the three hyperslab forms** `[a]`, `[a:b]`, `[a:k:b]` parse to slices selecting exactly the
    positions `a, a+k, … ≤ b` (inclusive stop, DAP semantics); the short forms are the long form with
    `k = 1` and `b = a`. -/
theorem C03_parse_forms (a k b : Int) (ha : 0 ≤ a) (hk : 1 ≤ k) (hb : 0 ≤ b) (N x : Nat) :
    parseGroup [a] = parseGroup [a, 1, a] ∧ parseGroup [a, b] = parseGroup [a, 1, b] ∧
    ∃ s, parseGroup [a, k, b] = .ok s ∧
      (x ∈ sel N s ↔ a.toNat ≤ x ∧ x ≤ b.toNat ∧ x < N ∧ (x - a.toNat) % k.toNat = 0) := by
  refine ⟨rfl, rfl, ⟨some a, some (b + 1), some k⟩, rfl, ?_⟩
  have hs : NonNegSl ⟨some a, some (b + 1), some k⟩ :=
    ⟨by intro _ h; cases h; exact ha, by intro _ h; cases h; omega, by intro _ h; cases h; exact hk⟩
  rw [mem_sel_iff N _ hs]
  simp only [startN, stopN, stepN, Option.getD_some]
  have : (b + 1).toNat = b.toNat + 1 := by omega
  rw [this]
  constructor <;> intro ⟨h1, h2, h3⟩ <;> refine ⟨h1, by omega, ?_⟩ <;> omega

/-- **Composition law, any strides**: for a stored slice `s1` and a further slice `s2`
    (both with non-negative present fields, as `fix_slice` produces them; `s1` may also be
    the default `slice(None)`), the combined slice selects from an axis of length `N`
    exactly element `j` of the first selection for each `j` the second slice selects from
    the first selection. -/
theorem C03_combine (N : Nat) (s1 s2 : PSlice) (h1 : NonNegSl s1) (h2 : NonNegSl s2) :
    (sel N (combine1 s1 s2)).map some
      = (sel (sel N s1).length s2).map (fun j => (sel N s1)[j]?) :=
  combine1_sel N s1 s2 h1 h2

/-- composition results can be composed again -/
theorem C03_combine_closed (s1 s2 : PSlice) (h1 : NonNegSl s1) (h2 : NonNegSl s2) :
    NonNegSl (combine1 s1 s2) := combine1_nonneg h1 h2

/-- **Hyperslab text round trip on characters**: the text printed for normalised slices with a
    non-empty selection (`stop ≥ 1`) parses back to the very same slices. -/
theorem C03_hyperslab_roundtrip (l : List PSlice) (h : ∀ s ∈ l, NormSl s) :
    parseHyperslab (hyperslabText l) = .ok l :=
  parseHyperslab_hyperslabText l h

/-- the exclusion of empty selections is necessary: `stop = 0` prints as `MAXSIZE - 1` -/
theorem C03_hyperslab_empty_excluded :
    parseHyperslab (hyperslabText [⟨some 0, some 0, some 1⟩])
      = .ok [⟨some 0, some MAXSIZE, some 1⟩] := by
  have e : hyperslabText [⟨some 0, some 0, some 1⟩] = hyperslabText [⟨some 0, some MAXSIZE, some 1⟩] := by
    simp [hyperslabText, dropTrailingAll, PSlice.all, hyperTriple, orElse, MAXSIZE]
  rw [e]
  exact parseHyperslab_hyperslabText _ (by
    intro s hs; simp at hs; subst hs
    exact ⟨0, MAXSIZE, 1, rfl, by decide, by decide, by decide⟩)

/-! ### the composed statements (theorem audit, round 7)

The theorems above are the pieces; the three below are the property's three clauses, each as ONE statement over the
function pydap calls (`fix_slice` on a whole tuple, `combine_slices` on two tuples, `hyperslab` ∘ `fix_slice`).
`entrySel N e` = what entry `e` selects on an axis of length `N` (numpy: a valid integer → its position, a slice →
`sel`); `tupleDom shape l` = every entry of the expanded tuple lies in the property's domain for its axis. -/

/-- **Clause 1, whole tuples.**  For every shape and every basic index — with or without one Ellipsis, shorter than
    the rank or not — whose entries lie in the domain (`-N ≤ i < N`; slice bounds `≥ -N`, unbounded upwards; steps
    `≥ 1` or absent), `fix_slice` returns one entry per axis and on EVERY axis the normalised entry selects exactly
    what numpy's expansion of the index selects there. -/
theorem C03_fix_tuple_preserves (idx : List Idx) (shape : List Nat) (l : List Idx)
    (hexp : (NoEll idx ∧ idx.length ≤ shape.length ∧ l = npExpand idx none shape.length) ∨
      (∃ pre post, idx = pre ++ Idx.ell :: post ∧ NoEll pre ∧ NoEll post ∧
        pre.length + post.length ≤ shape.length ∧ l = npExpand pre (some post) shape.length))
    (hdom : tupleDom shape l = true) :
    (fixSlice idx shape).length = shape.length ∧
    List.zipWith entrySel shape (fixSlice idx shape) = List.zipWith entrySel shape l := by
  have hfix : fixSlice idx shape = zipFix l shape := by
    rcases hexp with ⟨h, hl, rfl⟩ | ⟨pre, post, rfl, h1, h2, hl, rfl⟩
    · exact fixSlice_noEll idx shape h hl
    · exact fixSlice_ell pre post shape h1 h2 hl
  rw [hfix]
  exact ⟨zipFix_length l shape (tupleDom_length shape l hdom), zipFix_preserves shape l hdom⟩

/-- the domain restriction of clause 1 is necessary (and is the property's: bounds in `[-N, N+3]`): a start below
    `-N` is shifted once by `fix_slice` and stays negative, which numpy reads as counted from the end again -/
theorem C03_fix_domain_necessary :
    ¬ ∀ (N : Nat) (s : PSlice), (∀ k, s.step = some k → 1 ≤ k) → sel N (fixSl N s) = sel N s := by
  intro h
  have := h 3 ⟨some (-5), none, none⟩ (by intro k hk; cases hk)
  revert this
  decide

/-- **Clause 2, whole tuples.**  `combine_slices(slice1, slice2)` has as many entries as the longer tuple, and on
    every axis `i` and for every axis length `N` the combined entry selects exactly element `j` of what entry `i` of
    `slice1` selects, for each `j` that entry `i` of `slice2` selects from it — any strides in either tuple, an
    integer entry read as `slice(i, i+1)` (pydap keeps the axis), a missing entry as `slice(None)`. -/
theorem C03_combine_tuple (l1 l2 : List Idx)
    (h1 : ∀ e ∈ l1, NonNegSl (toSlice e)) (h2 : ∀ e ∈ l2, NonNegSl (toSlice e)) :
    (combine l1 l2).length = max l1.length l2.length ∧
    ∀ (i : Nat) (N : Nat), i < max l1.length l2.length →
      ∃ c, (combine l1 l2)[i]? = some c ∧
        (sel N c).map some
          = (sel (sel N (toSlice ((l1[i]?).getD (Idx.sl PSlice.all)))).length
                (toSlice ((l2[i]?).getD (Idx.sl PSlice.all)))).map
              (fun j => (sel N (toSlice ((l1[i]?).getD (Idx.sl PSlice.all))))[j]?) := by
  refine ⟨combine_length l1 l2, ?_⟩
  intro i N hi
  refine ⟨_, by rw [combine_getElem?, if_pos hi], ?_⟩
  have g : ∀ (l : List Idx), (∀ e ∈ l, NonNegSl (toSlice e)) →
      NonNegSl (toSlice ((l[i]?).getD (Idx.sl PSlice.all))) := by
    intro l hl
    cases hg : l[i]? with
    | none => exact nonNegSl_all
    | some e => exact hl e (List.mem_of_getElem? hg)
  exact combine1_sel N _ _ (g l1 h1) (g l2 h2)

/-- **Clause 3 composed with clause 1.**  Take slices in the property's domain, each on its own axis, each with a
    non-empty selection.  The text `hyperslab` prints for their normalisation parses back (on characters) to slices
    that select, axis by axis, exactly what the ORIGINAL slices select. -/
theorem C03_fix_hyperslab_roundtrip (ps : List (Nat × PSlice))
    (hdom : ∀ p ∈ ps, entryDom p.1 (Idx.sl p.2) = true) (hne : ∀ p ∈ ps, sel p.1 p.2 ≠ []) :
    ∃ l', parseHyperslab (hyperslabText (ps.map fun p => fixSl p.1 p.2)) = .ok l' ∧
      l'.length = ps.length ∧
      List.zipWith (fun p s' => sel p.1 s') ps l' = ps.map fun p => sel p.1 p.2 := by
  refine ⟨ps.map fun p => fixSl p.1 p.2, ?_, by simp, ?_⟩
  · apply parseHyperslab_hyperslabText
    intro s hs
    obtain ⟨p, hp, rfl⟩ := List.mem_map.mp hs
    obtain ⟨a, b, c⟩ := entryDom_sl (hdom p hp)
    exact normSl_fixSl p.1 p.2 a b c (hne p hp)
  · clear hne
    induction ps with
    | nil => rfl
    | cons p ps ih =>
      obtain ⟨a, b, c⟩ := entryDom_sl (hdom p (by simp))
      simp only [List.map_cons, List.zipWith_cons_cons, fix_preserves p.1 p.2 a b c]
      rw [ih (fun q hq => hdom q (by simp [hq]))]

/-! ### the tie by translation: the *source text* of the four functions computes the model

`Pydap.Gen.src_…` are MiniPy syntax trees regenerated from `lib.py` / `parsers/__init__.py` on every run by
`harness/py2lean.py`; `runItem env body x` interprets a block and returns the value bound to `x`
(`@item` stands for the value appended to `out`). -/

open MiniPy in
/-- `fix_slice`, slice branch of the per-axis loop body = `fixSl` (all `N`, all slices) -/
theorem C03_source_fix_slice (N : Int) (s : PSlice) :
    runItem [("s", valOfSlice s), ("N", .int N)] Gen.src_fix_slice_axis "@item"
      = .ok (valOfSlice (fixSl N s)) := src_fix_slice_axis_slice N s

open MiniPy in
/-- `fix_slice`, integer branch of the per-axis loop body = `fixAxis` on an integer -/
theorem C03_source_fix_slice_int (N i : Int) :
    runItem [("s", .int i), ("N", .int N)] Gen.src_fix_slice_axis "@item"
      = .ok (match fixAxis N (Idx.int i) with | Idx.int j => Val.int j | _ => Val.none) :=
  src_fix_slice_axis_int N i

open MiniPy in
/-- `combine_slices`, loop body = `combine1 ∘ toSlice` for every pair of ints/slices -/
theorem C03_source_combine_slices (e1 e2 : Idx) (h1 : e1 ≠ Idx.ell) (h2 : e2 ≠ Idx.ell) :
    runItem [("exp1", valOfIdx e1), ("exp2", valOfIdx e2)] Gen.src_combine_slices_axis "@item"
      = .ok (valOfSlice (combine1 (toSlice e1) (toSlice e2))) := src_combine_slices_axis_eq e1 e2 h1 h2

open MiniPy in
/-- `parse_hyperslab`, per-group body after `int()` of the tokens = `parseGroup` (non-empty token lists;
    `str.split` never returns an empty list) -/
theorem C03_source_parse_hyperslab (l : List Int) (hl : l ≠ []) :
    runItem [("tokens", .ilist l)] Gen.src_parse_hyperslab_group "@item"
      = (match parseGroup l with
         | .ok s => .ok (valOfSlice s)
         | .error _ => .error (.raised "ConstraintExpressionError")) := src_parse_hyperslab_group_eq l hl

open MiniPy in
/-- `hyperslab`: the three numbers printed per axis = `hyperTriple` -/
theorem C03_source_hyperslab (s : PSlice) :
    runItem [("s", valOfSlice s)] Gen.src_hyperslab_triple "@t0" = .ok (.int (hyperTriple s).1) ∧
    runItem [("s", valOfSlice s)] Gen.src_hyperslab_triple "@t1" = .ok (.int (hyperTriple s).2.1) ∧
    runItem [("s", valOfSlice s)] Gen.src_hyperslab_triple "@t2" = .ok (.int (hyperTriple s).2.2) :=
  src_hyperslab_triple_eq s

/-! ### non-vacuity: concrete inhabitants of the hypotheses -/

example : sel 10 (fixSl 10 ⟨some (-3), none, some 2⟩) = [7, 9] := by decide
example : NonNegSl ⟨some 0, some 10, some 2⟩ := ⟨by simp, by simp, by simp⟩
example : (sel 10 (combine1 ⟨some 0, some 10, some 2⟩ ⟨some 1, some 3, some 1⟩)) = [2, 4] := by decide
example : (3 : Nat) ∈ sel 10 ⟨some 1, some 8, some 2⟩ := by decide
example : NormSl ⟨some 2, some 7, some 2⟩ := ⟨2, 7, 2, rfl, by omega, by omega, by omega⟩
example : fixSlice [Idx.ell, Idx.int (-1)] [3, 4] = [Idx.sl ⟨some 0, some 3, some 1⟩, Idx.int 3] := by decide
-- the hypotheses of `C03_fix_tuple_preserves` hold for `x[..., -1]` and for `x[-2:9:2]` on shape (3, 4)
example : tupleDom [3, 4] (npExpand [] (some [Idx.int (-1)]) 2) = true
    ∧ List.zipWith entrySel [3, 4] (fixSlice [Idx.ell, Idx.int (-1)] [3, 4]) = [some [0, 1, 2], some [3]] := by decide
example : tupleDom [3, 4] (npExpand [Idx.sl ⟨some (-2), some 9, some 2⟩] none 2) = true
    ∧ List.zipWith entrySel [3, 4] (fixSlice [Idx.sl ⟨some (-2), some 9, some 2⟩] [3, 4]) = [some [1], some [0, 1, 2, 3]] := by
  decide
-- `C03_combine_tuple`: an integer, a strided slice and a missing entry against a longer second tuple
example : NonNegSl (toSlice (Idx.int 2)) := ⟨by simp [toSlice], by simp [toSlice], by simp [toSlice]⟩
example : (combine [Idx.int 2, Idx.sl ⟨some 1, some 9, some 2⟩] [Idx.int 0, Idx.sl ⟨some 1, some 3, some 1⟩, Idx.int 4]).map (sel 10)
    = [[2], [3, 5], [4]] := by simp only [combine, List.map]; decide
-- `C03_fix_hyperslab_roundtrip`: `x[-3::2]` on an axis of 10
example : entryDom 10 (Idx.sl ⟨some (-3), none, some 2⟩) = true ∧ sel 10 ⟨some (-3), none, some 2⟩ ≠ [] := by decide

end Pydap.C03
