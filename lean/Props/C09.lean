/-
  C09 — Decoding is independent of transport chunking and never accepts a cut stream.
  Property statements only; helper lemmas are in `Proofs/Stream*.lean`.
  The model (`PydapModel/Stream.lean`) follows the code after the C09 repair (short reads raise).
-/
import PydapModel.Stream
import Proofs.Stream
import Proofs.StreamFind
import Proofs.StreamSeq
import Proofs.StreamDap4
import Proofs.StreamClient
import Proofs.StreamFuel
import Proofs.StreamTree
import Proofs.DapSrc
namespace Pydap.C09
open Pydap Pydap.Stream

/-! ## 1. Readers -/

/-- **Reader chunk-independence.** For every way of cutting the same bytes into chunks (empty chunks
    allowed, any buffer content carried over) and every list of read sizes, `StreamReader` returns exactly
    what a `BytesReader` over the concatenation returns: the same results, and — if the data runs out — the
    error at the same read. -/
theorem C09_reader_chunk_independent (cs : List Bytes) (buf : Bytes) (reads : List Nat) :
    srReadMany reads ⟨cs, buf⟩ = brReadMany reads (buf ++ cs.flatten) :=
  readMany_sim reads ⟨cs, buf⟩

/-- two chunkings of the same bytes are indistinguishable through `read` -/
theorem C09_reader_two_chunkings (cs cs' : List Bytes) (reads : List Nat) (h : cs.flatten = cs'.flatten) :
    srReadMany reads ⟨cs, []⟩ = srReadMany reads ⟨cs', []⟩ := by
  rw [C09_reader_chunk_independent, C09_reader_chunk_independent, h]

example : srReadMany [4, 0, 3, 2] ⟨[[1], [], [2, 3, 4, 5, 6], [7]], []⟩
    = ([[1, 2, 3, 4], [], [5, 6, 7]], some .eof) := by decide
example : srReadMany [4, 0, 3, 2] ⟨[[1, 2, 3, 4, 5, 6, 7]], []⟩
    = ([[1, 2, 3, 4], [], [5, 6, 7]], some .eof) := by decide

/-! ## 2. The `Data:` separator -/

/-- **find_pattern_in_string_iter, for every chunking** (splits inside the pattern included): what it
    returns, followed by what it left in the iterator, is what follows the first occurrence of the pattern
    in the concatenation; it returns `None` exactly when `afterFirst` does. -/
theorem C09_find_pattern (p : Bytes) (hp : p ≠ []) (cs : List Bytes) :
    (findPattern p cs).map (fun x => x.1 ++ x.2.flatten) = afterFirst p cs.flatten :=
  findPattern_spec p hp cs

/-- … where `afterFirst p b = some s` means `b = pre ++ p ++ s` with the shortest possible `pre`
    (the leftmost occurrence), and `afterFirst p b = none` means that `p` does not occur in `b`. -/
theorem C09_find_pattern_first_occurrence (p b : Bytes) :
    (∀ s, afterFirst p b = some s →
      ∃ pre, b = pre ++ p ++ s ∧ ∀ pre' s', b = pre' ++ p ++ s' → pre.length ≤ pre'.length) ∧
    (afterFirst p b = none ↔ ¬ ∃ pre s, b = pre ++ p ++ s) :=
  ⟨fun s h => afterFirst_some_iff_aux p b s h, afterFirst_none_iff p b⟩

-- the pattern split over three chunks, a second occurrence later on
example : findPattern dataPattern [[10, 68, 97], [116, 97, 58], [10, 1, 2], [68, 97, 116, 97, 58, 10, 3]]
    = some ([1, 2], [[68, 97, 116, 97, 58, 10, 3]]) := by decide
example : findPattern dataPattern [[10, 68, 97], [116, 97, 58], [1, 10]] = none := by decide

/-! ## 3. Decoders -/

/-- **Any decoder that observes its reader only through `read n` is chunk-independent**: run on a
    `StreamReader` over any chunking it returns the value (or the error) it returns on a `BytesReader`
    over the concatenation, and leaves the same bytes unread. -/
theorem C09_decode_chunk_independent (d : Dec α) (cs : List Bytes) :
    absSR (d.runSR ⟨cs, []⟩) = d.runBR cs.flatten := by
  have := run_sim d ⟨cs, []⟩
  simpa [SR.abs] using this

theorem C09_decode_two_chunkings (d : Dec α) (cs cs' : List Bytes) (h : cs.flatten = cs'.flatten) :
    absSR (d.runSR ⟨cs, []⟩) = absSR (d.runSR ⟨cs', []⟩) := by
  rw [C09_decode_chunk_independent, C09_decode_chunk_independent, h]

/-- **The client's sequence path** (`SequenceProxy.__iter__`: search for `Data:\n`, `StreamReader` over the
    rest, record-marker loop) is a function of the concatenated response only: the rows decoded from what
    follows the first `Data:\n`, "no data segment" when there is none. -/
theorem C09_client_chunk_independent (cols : List Col) (cs : List Bytes) :
    clientSeq cols cs = clientSpec cols cs.flatten :=
  clientSeq_eq_spec cols cs

theorem C09_client_two_chunkings (cols : List Col) (cs cs' : List Bytes) (h : cs.flatten = cs'.flatten) :
    clientSeq cols cs = clientSeq cols cs' := by
  rw [C09_client_chunk_independent, C09_client_chunk_independent, h]

-- one response, two chunkings (split inside the separator, inside a marker and inside a value)
example : clientSeq [.fixed 4] [[68, 97], [116, 97, 58], [10, 0x5a, 0, 0], [0, 1, 2, 3, 4, 0xa5, 0, 0], [0]]
    = .ok [[[1, 2, 3, 4]]] := by decide
example : clientSeq [.fixed 4] [[68, 97, 116, 97, 58, 10, 0x5a, 0, 0, 0, 1, 2, 3, 4, 0xa5, 0, 0, 0]]
    = .ok [[[1, 2, 3, 4]]] := by decide

/-! ## 4. Cut streams -/

/-- **Prefix-freeness, for every read-only decoder on a reader that raises on short reads**
    (`StreamReader`, repaired `BytesReader`): on a prefix of an input it decodes, the decoder returns the
    complete value or raises — never anything else. -/
theorem C09_prefix_free (d : Dec α) (b p : Bytes) (a : α) (r : Bytes)
    (hfull : d.runBR b = .ok (a, r)) (hp : p <+: b) :
    (∃ r', d.runBR p = .ok (a, r')) ∨ d.runBR p = .error .eof := by
  rcases runBR_prefix d b p a r hfull hp with ⟨_, h⟩ | ⟨_, h⟩
  · exact .inl ⟨_, h⟩
  · exact .inr h

/-- … and when the decoder consumes its whole input, every proper prefix raises. -/
theorem C09_proper_prefix_raises (d : Dec α) (b p : Bytes) (a : α)
    (hfull : d.runBR b = .ok (a, [])) (hp : p <+: b) (hne : p ≠ b) :
    d.runBR p = .error .eof := by
  rcases runBR_prefix d b p a [] hfull hp with ⟨h1, _⟩ | ⟨_, h⟩
  · exfalso
    apply hne
    have : p.length = b.length := by have := hp.length_le; simp at h1; omega
    exact hp.eq_of_length this
  · exact h

/-- the same through a `StreamReader`, for every chunking of the prefix -/
theorem C09_proper_prefix_raises_stream (d : Dec α) (b : Bytes) (a : α) (cs : List Bytes)
    (hfull : d.runBR b = .ok (a, [])) (hp : cs.flatten <+: b) (hne : cs.flatten ≠ b) :
    absSR (d.runSR ⟨cs, []⟩) = .error .eof := by
  rw [C09_decode_chunk_independent]
  exact C09_proper_prefix_raises d b _ a hfull hp hne

/-- **The array path** (`BaseProxyDap2.__getitem__`: the joined body — hence no dependence on transport
    chunks by construction — split at the first `\nData:\n` and decoded through `BytesReader`), for ANY
    read-only decoder of the data part: a response cut anywhere yields the complete value or an error
    (separator missing / end of data). -/
theorem C09_body_path_prefix_free (d : Dec α) (resp p : Bytes) (a : α)
    (hfull : bodyPath d resp = .ok a) (hp : p <+: resp) :
    bodyPath d p = .ok a ∨ bodyPath d p = .error .noData ∨ bodyPath d p = .error .eof :=
  bodyPath_prefix d resp p a hfull hp

-- non-vacuity: "x\nData:\n" ++ a 4-byte value, complete and cut
example : bodyPath (Dec.read 4 fun b => .ret b) [120, 10, 68, 97, 116, 97, 58, 10, 1, 2, 3, 4] = .ok [1, 2, 3, 4] := by decide
example : bodyPath (Dec.read 4 fun b => .ret b) [120, 10, 68, 97, 116, 97, 58, 10, 1, 2, 3] = .error .eof := by decide
example : bodyPath (Dec.read 4 fun b => .ret b) [120, 10, 68, 97, 116, 97, 58] = .error .noData := by decide

/-- **The record-marker loop decodes the wire form of a sequence** (any number of rows, fixed-width and
    String columns, both the `simple` and the column-by-column path) to exactly its rows, consuming
    everything … -/
theorem C09_seq_decodes (cols : List Col) (rows : List Row) (hok : ∀ r ∈ rows, RowOk cols r) :
    unpackSeqBytes cols (encSeq cols rows) = .ok (rows, []) := by
  have := seqLoop_enc cols rows ((encSeq cols rows).length + 1) [] hok
    (by have := encSeq_length cols rows; omega)
  simpa [unpackSeqBytes] using this

/-- … **and raises on every proper prefix of it** (cut at a record boundary, inside a marker, inside a
    length word, inside a string or its padding, before the end marker), read through `BytesReader` … -/
theorem C09_seq_cut_raises (cols : List Col) (rows : List Row) (hok : ∀ r ∈ rows, RowOk cols r)
    (p : Bytes) (hp : p <+: encSeq cols rows) (hne : p ≠ encSeq cols rows) :
    unpackSeqBytes cols p = .error .eof :=
  seqLoop_prefix cols rows p (p.length + 1) hok hp hne (by omega)

/-- … or through `StreamReader`, whatever the chunking. -/
theorem C09_seq_cut_raises_stream (cols : List Col) (rows : List Row) (hok : ∀ r ∈ rows, RowOk cols r)
    (cs : List Bytes) (hp : cs.flatten <+: encSeq cols rows) (hne : cs.flatten ≠ encSeq cols rows) :
    absSR (unpackSeqStream cols ⟨cs, []⟩) = .error .eof := by
  have h := run_sim (seqLoop cols ((⟨cs, []⟩ : SR).abs.length + 1)) ⟨cs, []⟩
  have habs : (⟨cs, []⟩ : SR).abs = cs.flatten := by simp [SR.abs]
  rw [habs] at h
  simp only [unpackSeqStream, habs]
  rw [h]
  exact C09_seq_cut_raises cols rows hok cs.flatten hp hne

/-- **The client never accepts a cut response**: if the complete response carries the wire form of `rows`
    after its first `Data:\n`, the client decodes exactly `rows` from every chunking of it, and raises
    (no data segment / end of data) on every chunking of every proper prefix of it. -/
theorem C09_client_cut_raises (cols : List Col) (rows : List Row) (hok : ∀ r ∈ rows, RowOk cols r)
    (resp : Bytes) (hresp : afterFirst dataPattern resp = some (encSeq cols rows)) :
    (∀ cs : List Bytes, cs.flatten = resp → clientSeq cols cs = .ok rows) ∧
    (∀ cs : List Bytes, cs.flatten <+: resp → cs.flatten ≠ resp →
      clientSeq cols cs = .error .noData ∨ clientSeq cols cs = .error .eof) := by
  constructor
  · intro cs h
    rw [C09_client_chunk_independent, h]
    simp [clientSpec, hresp, C09_seq_decodes cols rows hok]
  · intro cs hp hne
    rw [C09_client_chunk_independent]
    rcases afterFirst_prefix dataPattern dataPattern_ne_nil resp _ hresp _ hp with hn | ⟨s', e1, e2, e3⟩
    · left; simp [clientSpec, hn]
    · right
      have hne' : s' ≠ encSeq cols rows := by
        intro h
        apply hne
        apply hp.eq_of_length
        rw [h] at e3; omega
      simp [clientSpec, e1, C09_seq_cut_raises cols rows hok s' e2 hne']

-- non-vacuity: a two-row body with a string column, complete and cut inside the last string
example : unpackSeqBytes [.fixed 4, .str]
    [0x5a, 0, 0, 0, 0, 0, 0, 1, 0, 0, 0, 2, 97, 98, 0, 0, 0x5a, 0, 0, 0, 0, 0, 0, 2, 0, 0, 0, 1, 99, 0, 0, 0, 0xa5, 0, 0, 0]
    = .ok ([[[0, 0, 0, 1], [97, 98]], [[0, 0, 0, 2], [99]]], []) := by decide
example : encSeq [.fixed 4, .str] [[[0, 0, 0, 1], [97, 98]], [[0, 0, 0, 2], [99]]]
    = [0x5a, 0, 0, 0, 0, 0, 0, 1, 0, 0, 0, 2, 97, 98, 0, 0, 0x5a, 0, 0, 0, 0, 0, 0, 2, 0, 0, 0, 1, 99, 0, 0, 0, 0xa5, 0, 0, 0] := by
  decide
example : RowOk [.fixed 4, .str] [[0, 0, 0, 1], [97, 98]] := by simp [RowOk, ValOk, isAscii]
example : unpackSeqBytes [.fixed 4, .str] [0x5a, 0, 0, 0, 0, 0, 0, 1, 0, 0, 0, 2, 97, 98, 0, 0] = .error .eof := by decide
example : afterFirst dataPattern ([68, 10, 68, 97, 116, 97, 58, 10] ++ encSeq [.fixed 4] [[[1, 2, 3, 4]]])
    = some (encSeq [.fixed 4] [[[1, 2, 3, 4]]]) := by decide

/-- Why the repair was needed: on a reader that hands out short reads (`BytesReader` before the repair, a
    plain file object) the very same loop accepts a body cut at a record boundary, or inside a string, and
    returns fewer rows / a shorter string. -/
example : unpackSeqLenient [.fixed 4, .str] [0x5a, 0, 0, 0, 0, 0, 0, 1, 0, 0, 0, 2, 97, 98, 0, 0]
    = .ok ([[[0, 0, 0, 1], [97, 98]]], []) := by decide
example : unpackSeqLenient [.fixed 4, .str] [0x5a, 0, 0, 0, 0, 0, 0, 1, 0, 0, 0, 2, 97]
    = .ok ([[[0, 0, 0, 1], [97]]], []) := by decide

/-- **Every body the marker loop accepts is prefix-free** — canonical wire form or not, with or without
    bytes left over: cut anywhere and read through `BytesReader` or through `StreamReader` over any chunking,
    it yields the same rows or raises. -/
theorem C09_seq_prefix_free (cols : List Col) (b : Bytes) (rows : List Row) (rest : Bytes)
    (h : unpackSeqBytes cols b = .ok (rows, rest)) :
    (∀ p, p <+: b → (∃ rest', unpackSeqBytes cols p = .ok (rows, rest')) ∨ unpackSeqBytes cols p = .error .eof) ∧
    (∀ cs : List Bytes, cs.flatten <+: b →
      (∃ rest', absSR (unpackSeqStream cols ⟨cs, []⟩) = .ok (rows, rest')) ∨
      absSR (unpackSeqStream cols ⟨cs, []⟩) = .error .eof) := by
  refine ⟨fun p hp => unpackSeqBytes_prefix cols b p rows rest h hp, fun cs hp => ?_⟩
  rw [unpackSeqStream_eq_bytes]
  exact unpackSeqBytes_prefix cols b _ rows rest h hp

/-! ## 4b. The whole of `unpack_dap2_data`: arrays, strings, structures, grids, nested sequences -/

/-- **Records and arrays alike**: `unpack_dap2_data` over any declaration tree (scalars, padded Bytes,
    strings, arrays with their two length words, string arrays, structures/grids, sequences nested to any
    depth) gives, on a `StreamReader` over any chunking, what it gives on a `BytesReader` over the
    concatenation … -/
theorem C09_data_chunk_independent (vars : List Tmpl) (cs : List Bytes) :
    absSR (unpackDataStream vars ⟨cs, []⟩) = unpackData vars cs.flatten :=
  unpackDataStream_eq vars cs

/-- … and **every body it accepts is prefix-free**: cut anywhere (inside an array, a length word, a marker
    of an inner or outer sequence, a string or its padding) and read through either reader, any chunking,
    it yields the same values or raises. -/
theorem C09_data_prefix_free (vars : List Tmpl) (b : Bytes) (toks : List Tok) (rest : Bytes)
    (h : unpackData vars b = .ok (toks, rest)) :
    (∀ p, p <+: b → (∃ rest', unpackData vars p = .ok (toks, rest')) ∨ unpackData vars p = .error .eof) ∧
    (∀ cs : List Bytes, cs.flatten <+: b →
      (∃ rest', absSR (unpackDataStream vars ⟨cs, []⟩) = .ok (toks, rest')) ∨
      absSR (unpackDataStream vars ⟨cs, []⟩) = .error .eof) := by
  refine ⟨fun p hp => unpackData_prefix vars b p toks rest h hp, fun cs hp => ?_⟩
  rw [unpackDataStream_eq]
  exact unpackData_prefix vars b _ toks rest h hp

/-- … with nothing left over when the body was consumed entirely: then every proper prefix raises. -/
theorem C09_data_cut_raises (vars : List Tmpl) (b p : Bytes) (toks : List Tok)
    (h : unpackData vars b = .ok (toks, [])) (hp : p <+: b) (hne : p ≠ b) :
    unpackData vars p = .error .eof := by
  rcases unpackData_prefix vars b p toks [] h hp with ⟨rest', h2⟩ | h2
  · exfalso
    -- the prefix run consumed as many bytes as the full run: it cannot be shorter
    unfold unpackData at h h2
    have hl := hp.length_le
    rw [decTs_fuel (p.length + 1) (b.length + 1) vars p (by omega) (by omega)] at h2
    rcases runBR_prefix _ b p toks [] h hp with ⟨g1, _⟩ | ⟨_, g2⟩
    · apply hne
      exact hp.eq_of_length (by simp at g1; omega)
    · rw [g2] at h2; cases h2
  · exact h2

-- non-vacuity: Int32 a[2]; Structure { Byte b; String s[1]; }; Sequence { Int32 i; Sequence { Float64 x; } inner; }
example : unpackData [.arr 4 2, .struct [.byte, .strArr 1], .seq [.fixed 4, .seq [.fixed 8]]]
    [0, 0, 0, 2, 0, 0, 0, 2, 0, 0, 0, 7, 0, 0, 0, 9,
     5, 0, 0, 0, 0, 0, 0, 1, 0, 0, 0, 2, 104, 105, 0, 0,
     0x5a, 0, 0, 0, 0, 0, 0, 3, 0x5a, 0, 0, 0, 1, 2, 3, 4, 5, 6, 7, 8, 0xa5, 0, 0, 0, 0xa5, 0, 0, 0]
    = .ok ([.val [0, 0, 0, 7], .val [0, 0, 0, 9], .val [5], .val [104, 105],
            .rowStart, .val [0, 0, 0, 3], .rowStart, .val [1, 2, 3, 4, 5, 6, 7, 8], .seqEnd, .seqEnd], []) := by decide
-- cut after the inner END marker (a record boundary of the outer sequence): raises
example : unpackData [.seq [.fixed 4, .seq [.fixed 8]]]
    [0x5a, 0, 0, 0, 0, 0, 0, 3, 0x5a, 0, 0, 0, 1, 2, 3, 4, 5, 6, 7, 8, 0xa5, 0, 0, 0] = .error .eof := by decide

/-! ## 5. DAP4 -/

/-- **`stream2bytearray` reassembles any chunking of a payload** (chunks of any size below 2^24, empty
    chunks allowed, either byte-order flag, last flag on the final chunk) … -/
theorem C09_dap4_dechunk (fl : Nat) (chunks : List Bytes) (hne : chunks ≠ []) (hok : ChunksOk fl chunks) :
    stream2bytearray (encChunks fl chunks) = .ok chunks.flatten :=
  stream2bytearray_enc fl chunks hne hok

/-- … so two chunkings of the same payload decode to the same buffer … -/
theorem C09_dap4_two_chunkings (fl fl' : Nat) (c c' : List Bytes) (hne : c ≠ []) (hne' : c' ≠ [])
    (hok : ChunksOk fl c) (hok' : ChunksOk fl' c') (h : c.flatten = c'.flatten) :
    stream2bytearray (encChunks fl c) = stream2bytearray (encChunks fl' c') := by
  rw [C09_dap4_dechunk fl c hne hok, C09_dap4_dechunk fl' c' hne' hok', h]

/-- … **and it raises on every proper prefix** (cut inside a chunk header, inside a chunk, or at a chunk
    boundary before the last chunk). -/
theorem C09_dap4_cut_raises (fl : Nat) (chunks : List Bytes) (hok : ChunksOk fl chunks) (p : Bytes)
    (hp : p <+: encChunks fl chunks) (hne : p ≠ encChunks fl chunks) : stream2bytearray p = .error .eof :=
  stream2bytearray_prefix fl chunks p hok hp hne

/-- **The whole DAP4 response** (DMR chunk, then data chunks; `safe_dmr_and_data` + `stream2bytearray`):
    the complete response yields the DMR and the complete buffer, every proper prefix of it raises.
    (What `unpack_dap4_data` then does with the buffer — offsets, byte order, checksums — is C10's.) -/
theorem C09_dap4_frame (fl : Nat) (dmr : Bytes) (chunks : List Bytes) (hne : chunks ≠ [])
    (hok : ChunksOk fl chunks) (hd : dmr.length < 16777216) :
    unpackFrame (encFrame fl dmr chunks) = .ok (dmr, chunks.flatten) ∧
    ∀ p, p <+: encFrame fl dmr chunks → p ≠ encFrame fl dmr chunks → unpackFrame p = .error .eof :=
  ⟨frame_enc fl dmr chunks hne hok hd, fun p hp hn => frame_prefix fl dmr chunks p hok hd hp hn⟩

example : ChunksOk 4 [[7, 8], [], [9]] := by simp [ChunksOk]
example : stream2bytearray (encChunks 4 [[7, 8], [], [9]]) = .ok [7, 8, 9] := by decide
example : encChunks 4 [[7, 8], [9]] = [4, 0, 0, 2, 7, 8, 5, 0, 0, 1, 9] := by decide
example : stream2bytearray [4, 0, 0, 2, 7, 8] = .error .eof := by decide          -- cut at a chunk boundary
example : stream2bytearray [4, 0, 0, 2, 7, 8, 5, 0] = .error .eof := by decide    -- cut inside a header
example : unpackFrame (encFrame 4 [60, 62] [[1, 2, 3, 4], [5, 6, 7, 8]]) = .ok ([60, 62], [1, 2, 3, 4, 5, 6, 7, 8]) := by
  decide

/-! ## 6. The model's loops are adequate -/

/-- `Err.fuel` is an artefact of writing Python's `while` loops by recursion on a counter.  With the fuel the
    entry points pass (`length + 1`: every turn consumes a 4-byte marker or chunk header) it never occurs,
    on any input, for any reader. -/
theorem C09_fuel_adequate (cols : List Col) (vars : List Tmpl) (data : Bytes) (r : SR) :
    unpackSeqBytes cols data ≠ .error .fuel ∧ absSR (unpackSeqStream cols r) ≠ .error .fuel ∧
    unpackData vars data ≠ .error .fuel ∧ stream2bytearray data ≠ .error .fuel :=
  ⟨unpackSeqBytes_noFuel cols data, unpackSeqStream_noFuel cols r, unpackData_noFuel vars data,
   stream2bytearray_noFuel data⟩

/-- After the repair `stream2bytearray` is itself a decoder that only reads (4-byte header, then the chunk),
    on *every* input … -/
theorem C09_dap4_reads_only (data : Bytes) :
    stream2bytearray data = fstOf ((dechunkDec (data.length + 1) []).runBR data) :=
  stream2bytearray_eq_dec data

/-- … so every chunked stream it accepts (well-formed or not, trailing bytes or not) is prefix-free. -/
theorem C09_dap4_prefix_free (b p buf : Bytes) (h : stream2bytearray b = .ok buf) (hp : p <+: b) :
    stream2bytearray p = .ok buf ∨ stream2bytearray p = .error .eof :=
  stream2bytearray_prefix_any b p buf h hp

/-! ## the tie by translation: the source text of the chunk-header decoding computes what `dechunkLoop` uses

`Pydap.Gen.src_…` (PydapModel/Generated/DapSrc.lean) are regenerated from `handlers/dap.py` on every run by
`harness/py2lean.py`; the model's loop reads `size = h % 16777216`, `ty = h / 16777216 % 256`, `chunkLast ty`. -/

open MiniPy in
/-- `stream2bytearray`: the two fields it computes from a header word are the model's `size` and `ty` -/
theorem C09_source_header_fields (h : Nat) :
    runItem [("chunk_header", .int h)] Gen.src_stream2bytearray_fields "chunk_size"
      = .ok (.int ((h % 16777216 : Nat) : Int)) ∧
    runItem [("chunk_header", .int h)] Gen.src_stream2bytearray_fields "chunk_type"
      = .ok (.int ((h / 16777216 % 256 : Nat) : Int)) :=
  src_stream2bytearray_fields_eq h

open MiniPy in
/-- `decode_chunktype` (whole body, little-endian host) applied to the field `stream2bytearray` passes it:
    its first result is `chunkLast` -/
theorem C09_source_chunk_last (h : Nat) :
    runItem (chunktypeEnv true (h / 16777216 % 256)) Gen.src_decode_chunktype "@ret0"
      = .ok (.bool (chunkLast (h / 16777216 % 256))) :=
  src_decode_chunktype_last _ (by omega)

open MiniPy in
example : runItem (chunktypeEnv true (83886087 / 16777216 % 256)) Gen.src_decode_chunktype "@ret0"
    = .ok (.bool true) := by decide

end Pydap.C09
