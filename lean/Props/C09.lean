/-
  C09 — Decoding is independent of transport chunking and never accepts a cut stream.
  Property statements only; helper lemmas are in `Proofs/Stream*.lean`.
-/
import PydapModel.Stream
import Proofs.Stream
namespace Pydap.C09
open Pydap Pydap.Stream

/-- **Reader chunk-independence.** For every way of cutting the same bytes into chunks (empty chunks
    allowed, any buffer content carried over) and every list of read sizes, `StreamReader` returns exactly
    what a `BytesReader` over the concatenation returns: the same results, and — if the data runs out — the
    error at the same read.  In particular two chunkings of the same bytes are indistinguishable. -/
theorem C09_reader_chunk_independent (cs : List Bytes) (buf : Bytes) (reads : List Nat) :
    srReadMany reads ⟨cs, buf⟩ = brReadMany reads (buf ++ cs.flatten) :=
  readMany_sim reads ⟨cs, buf⟩

theorem C09_reader_two_chunkings (cs cs' : List Bytes) (reads : List Nat) (h : cs.flatten = cs'.flatten) :
    srReadMany reads ⟨cs, []⟩ = srReadMany reads ⟨cs', []⟩ := by
  rw [C09_reader_chunk_independent, C09_reader_chunk_independent, h]

example : srReadMany [4, 0, 3, 2] ⟨[[1], [], [2, 3, 4, 5, 6], [7]], []⟩
    = ([[1, 2, 3, 4], [], [5, 6, 7]], some .eof) := by decide

/-- **Any decoder that observes its reader only through `read n` is chunk-independent**: run on a
    `StreamReader` over any chunking it returns the value (or the error) it returns on a `BytesReader`
    over the concatenation, and leaves the same bytes unread. -/
theorem C09_decode_chunk_independent (d : Dec α) (cs : List Bytes) :
    absSR (d.runSR ⟨cs, []⟩) = d.runBR cs.flatten := by
  have := run_sim d ⟨cs, []⟩
  simpa [SR.abs] using this

theorem C09_decode_two_chunkings (d : Dec α) (cs cs' : List Bytes) (h : cs.flatten = cs'.flatten) :
    absSR (d.runSR ⟨cs, []⟩) = absSR (d.runSR ⟨cs', []⟩) := by
  rw [C09_decode_chunk_independent, C09_decode_chunk_independent, h]

/-- **Prefix-freeness, for every read-only decoder on a reader that raises on short reads**
    (`StreamReader`, repaired `BytesReader`): on a prefix of an input it decodes, the decoder returns the
    complete value or raises — never anything else. -/
theorem C09_prefix_free (d : Dec α) (b p : Bytes) (a : α) (r : Bytes)
    (hfull : d.runBR b = .ok (a, r)) (hp : p <+: b) :
    (∃ r', d.runBR p = .ok (a, r')) ∨ d.runBR p = .error .eof := by
  rcases runBR_prefix d b p a r hfull hp with ⟨_, h⟩ | ⟨_, h⟩
  · exact .inl ⟨_, h⟩
  · exact .inr h

/-- … and when the decoder consumes its whole input, every proper prefix raises. -/
theorem C09_proper_prefix_raises (d : Dec α) (b p : Bytes) (a : α)
    (hfull : d.runBR b = .ok (a, [])) (hp : p <+: b) (hne : p ≠ b) :
    d.runBR p = .error .eof := by
  rcases runBR_prefix d b p a [] hfull hp with ⟨h1, _⟩ | ⟨_, h⟩
  · exfalso
    apply hne
    have : p.length = b.length := by have := hp.length_le; simp at h1; omega
    exact hp.eq_of_length this
  · exact h

/-- the same through a `StreamReader`, for every chunking of the prefix -/
theorem C09_proper_prefix_raises_stream (d : Dec α) (b : Bytes) (a : α) (cs : List Bytes)
    (hfull : d.runBR b = .ok (a, [])) (hp : cs.flatten <+: b) (hne : cs.flatten ≠ b) :
    absSR (d.runSR ⟨cs, []⟩) = .error .eof := by
  rw [C09_decode_chunk_independent]
  exact C09_proper_prefix_raises d b _ a hfull hp hne

end Pydap.C09
