/-
  C16 — The file server never leaves its data directory and routes by what is on disk.
  Property statements only; helper lemmas are in `Proofs/Path.lean`, `Proofs/PathServe.lean`.
  The model (`PydapModel/Path.lean`) follows the repaired `DapServer.__call__` (separator-aware
  containment test; `catalog.xml` only as the last component of an existing directory).
-/
import PydapModel.Path
import PydapModel.PathServer
import Proofs.Path
import Proofs.PathServe
import Proofs.AppSrc
import PydapModel.PathRoot
import PydapModel.PathRe
import PydapModel.PathSort
import Proofs.PathRoot
import Proofs.PathRe
import Proofs.PathSort
import Proofs.PathAgree
import Proofs.PathAccess
namespace Pydap.C16
open Pydap Pydap.Path

/-- **string prefix with trailing separator ⇔ segment prefix**: the text test the code performs
    decides exactly "the root's components are a prefix of the path's components" -/
theorem C16_containment_test_exact (root p : Segs) (hroot : Normal root) (hp : Normal p) :
    contained root p = true ↔ root <+: p :=
  contained_iff_prefix root p hroot hp

/-- the request path the server computes is always a normalised absolute path: whatever the
    request (any number of `..`, `.`, empty components, decoded separators) -/
theorem C16_target_normal (root : Segs) (pathInfo : List Char) (hroot : Normal root) :
    Normal (target root pathInfo) :=
  target_normal root pathInfo hroot

/-- **Confinement**: for every handler table, file system, normalised data directory that exists
    and every request path, every path the server stats, lists, serves or hands to a handler has
    the data directory's components as a prefix. -/
theorem C16_confined (exts : List Seg) (fs : FS) (root : Segs) (pathInfo : List Char)
    (hroot : Normal root) (hexists : fs root ≠ .missing) :
    ∀ a ∈ (serve exts fs root pathInfo).1, root <+: a.path :=
  serve_confined exts fs root pathInfo hroot hexists

/-- **a path resolving outside is refused** without touching the file system -/
theorem C16_outside_forbidden (exts : List Seg) (fs : FS) (root : Segs) (pathInfo : List Char)
    (hroot : Normal root) (hout : ¬ root <+: target root pathInfo) :
    serve exts fs root pathInfo = ([], .forbidden) := by
  have hp := target_normal root pathInfo hroot
  have : contained root (target root pathInfo) = false := by
    cases h : contained root (target root pathInfo)
    · rfl
    · exact absurd ((contained_iff_prefix _ _ hroot hp).mp h) hout
  simp [serve, serveAt, this]

/-- **sibling directories sharing a name prefix with the root are refused**: `…/data2/x` is not
    inside `…/data` -/
theorem C16_sibling_refused (exts : List Seg) (fs : FS) (parent : Segs) (name suffix : Seg)
    (pathInfo : List Char) (hroot : Normal (parent ++ [name])) (hsuf : suffix ≠ [])
    (hsib : (parent ++ [name ++ suffix]) <+: target (parent ++ [name]) pathInfo) :
    serve exts fs (parent ++ [name]) pathInfo = ([], .forbidden) := by
  apply C16_outside_forbidden exts fs _ pathInfo hroot
  intro h
  have hl : (parent ++ [name]).length = (parent ++ [name ++ suffix]).length := by simp
  have := List.prefix_of_prefix_length_le h hsib (by omega)
  have := List.IsPrefix.eq_of_length this hl
  have := List.append_cancel_left this
  simp at this
  exact hsuf this

/-- the old test `path.startswith(self.path)` is *not* exact: it accepts a sibling -/
theorem C16_string_prefix_test_unsound :
    ∃ root p : Segs, Normal root ∧ Normal p ∧ containedStringPrefix root p = true ∧ ¬ root <+: p := by
  refine ⟨["r".toList], ["r2".toList, "s".toList], ?_, ?_, by decide, by decide⟩
  · intro s hs; simp at hs; subst hs; simp [SegOK, dot, dotdot]
  · intro s hs; simp at hs; rcases hs with rfl | rfl <;> simp [SegOK, dot, dotdot]

/-- plain requests (ordinary names only) address `root/names…` -/
theorem C16_resolve_plain (root req : Segs) (hreq : Normal req) : resolve root req = root ++ req :=
  resolve_plain root req hreq

/-! ### routing decision table (inside the root; `p` is the resolved request path) -/

/-- an existing file is returned verbatim -/
theorem C16_route_file (exts : List Seg) (fs : FS) (root : Segs) (pathInfo : List Char)
    (hroot : Normal root) (hin : root <+: target root pathInfo) (hf : fs (target root pathInfo) = .file) :
    (serve exts fs root pathInfo).2 = .file (target root pathInfo) := by
  have hc := (contained_iff_prefix _ _ hroot (target_normal root pathInfo hroot)).mpr hin
  simp [serve, serveAt, hc, hf]

/-- a directory yields a listing of exactly its entries: the files and directories shown are
    permutations of the directory's file and directory entries, each file flagged `supported`
    iff a handler's pattern matches it -/
theorem C16_route_dir (exts : List Seg) (fs : FS) (root : Segs) (pathInfo : List Char) (es : List Seg)
    (hroot : Normal root) (hin : root <+: target root pathInfo) (hd : fs (target root pathInfo) = .dir es) :
    ∃ files dirs, (serve exts fs root pathInfo).2 = .listing false (target root pathInfo) files dirs ∧
      (files.map Prod.fst).Perm (es.filter fun e => (fs (target root pathInfo ++ [e])).isFile) ∧
      dirs.Perm (es.filter fun e => (fs (target root pathInfo ++ [e])).isDir) ∧
      ∀ f ∈ files, f.2 = hasHandler exts (target root pathInfo ++ [f.1]) := by
  have hc := (contained_iff_prefix _ _ hroot (target_normal root pathInfo hroot)).mpr hin
  refine ⟨_, _, by simp only [serve, serveAt, hc, hd]; rfl, ?_, ?_, ?_⟩
  · simp only [List.map_map]
    exact listing_files_perm _ _
  · exact sortNames_perm _
  · intro f hf
    simp only [List.mem_map] at hf
    obtain ⟨e, _, rfl⟩ := hf
    rfl

/-- `<dir>/catalog.xml` (no such file) of an existing directory yields that directory's catalog,
    again listing exactly its entries -/
theorem C16_route_catalog (exts : List Seg) (fs : FS) (root : Segs) (pathInfo : List Char) (es : List Seg)
    (hroot : Normal root) (hin : root <+: target root pathInfo)
    (hm : fs (target root pathInfo) = .missing) (hb : basename (target root pathInfo) = catalogName)
    (hd : fs (dirname (target root pathInfo)) = .dir es) :
    ∃ files dirs, (serve exts fs root pathInfo).2 = .listing true (dirname (target root pathInfo)) files dirs ∧
      (files.map Prod.fst).Perm (es.filter fun e => (fs (dirname (target root pathInfo) ++ [e])).isFile) ∧
      dirs.Perm (es.filter fun e => (fs (dirname (target root pathInfo) ++ [e])).isDir) := by
  have hc := (contained_iff_prefix _ _ hroot (target_normal root pathInfo hroot)).mpr hin
  refine ⟨_, _, by simp only [serve, serveAt, hc, hm, hb, hd]; rfl, ?_, ?_⟩
  · simp only [List.map_map]
    exact listing_files_perm _ _
  · exact sortNames_perm _

/-- the catalog row does not apply: the last component is not `catalog.xml`, or its directory
    does not exist -/
def NoCatalog (fs : FS) (p : Segs) : Prop := basename p ≠ catalogName ∨ (fs (dirname p)).isDir = false

/-- `<file>.<response>` for a file with a supported extension is handed to that file's handler -/
theorem C16_route_dap (exts : List Seg) (fs : FS) (root : Segs) (pathInfo : List Char)
    (hroot : Normal root) (hin : root <+: target root pathInfo)
    (hm : fs (target root pathInfo) = .missing) (hnc : NoCatalog fs (target root pathInfo))
    (hf : fs (stripExt (target root pathInfo)) = .file)
    (hs : hasHandler exts (stripExt (target root pathInfo)) = true) :
    (serve exts fs root pathInfo).2 = .dap (stripExt (target root pathInfo)) := by
  have hc := (contained_iff_prefix _ _ hroot (target_normal root pathInfo hroot)).mpr hin
  rw [serve, serveAt_missing exts fs root _ hc hm hnc]
  simp [serveDap, hf, hs, Node.isFile]

/-- … for an existing file of a format no handler supports it is rejected as unsupported -/
theorem C16_route_unsupported (exts : List Seg) (fs : FS) (root : Segs) (pathInfo : List Char)
    (hroot : Normal root) (hin : root <+: target root pathInfo)
    (hm : fs (target root pathInfo) = .missing) (hnc : NoCatalog fs (target root pathInfo))
    (hf : fs (stripExt (target root pathInfo)) = .file)
    (hs : hasHandler exts (stripExt (target root pathInfo)) = false) :
    (serve exts fs root pathInfo).2 = .unsupported (stripExt (target root pathInfo)) := by
  have hc := (contained_iff_prefix _ _ hroot (target_normal root pathInfo hroot)).mpr hin
  rw [serve, serveAt_missing exts fs root _ hc hm hnc]
  simp [serveDap, hf, hs, Node.isFile]

/-- … and every other path is not found -/
theorem C16_route_not_found (exts : List Seg) (fs : FS) (root : Segs) (pathInfo : List Char)
    (hroot : Normal root) (hin : root <+: target root pathInfo)
    (hm : fs (target root pathInfo) = .missing) (hnc : NoCatalog fs (target root pathInfo))
    (hf : fs (stripExt (target root pathInfo)) ≠ .file) :
    (serve exts fs root pathInfo).2 = .notFound := by
  have hc := (contained_iff_prefix _ _ hroot (target_normal root pathInfo hroot)).mpr hin
  rw [serve, serveAt_missing exts fs root _ hc hm hnc]
  have : (fs (stripExt (target root pathInfo))).isFile = false := by
    cases h : fs (stripExt (target root pathInfo)) <;> simp_all [Node.isFile]
  simp [serveDap, this]

/-- **the table is complete and discloses nothing else**: whatever the request, the outcome is one
    of: forbidden; not found; the verbatim file at the resolved path (which is a file); a listing
    of the resolved directory or of the directory of `…/catalog.xml`; the handler of the existing
    file obtained by stripping one extension; unsupported for such an existing file -/
theorem C16_route_complete (exts : List Seg) (fs : FS) (root : Segs) (pathInfo : List Char) :
    let p := target root pathInfo
    let o := (serve exts fs root pathInfo).2
    o = .forbidden ∨ o = .notFound ∨ (o = .file p ∧ fs p = .file) ∨
    (∃ es files dirs, o = .listing false p files dirs ∧ fs p = .dir es) ∨
    (∃ es files dirs, o = .listing true (dirname p) files dirs ∧ fs (dirname p) = .dir es ∧
        fs p = .missing ∧ basename p = catalogName) ∨
    (o = .dap (stripExt p) ∧ fs (stripExt p) = .file ∧ hasHandler exts (stripExt p) = true ∧ fs p = .missing) ∨
    (o = .unsupported (stripExt p) ∧ fs (stripExt p) = .file ∧ hasHandler exts (stripExt p) = false ∧
        fs p = .missing) :=
  serveAt_complete exts fs root (target root pathInfo)

/-- **Nothing is opened, listed or handed to a handler but what the answer is made of** ("every other path discloses
    nothing"): for every handler table, file system, root and request — no hypothesis — a file is opened only when
    it is the file the answer returns, a directory is listed only when the answer is the listing of that very directory,
    a path is handed to a handler only when the answer is that handler's; and when the request is refused (forbidden,
    not found, unsupported) the server has opened and listed nothing: all it did is `stat` (existence / kind tests —
    which by `C16_confined` lie under the data directory), and for forbidden not even that (`C16_outside_forbidden`). -/
theorem C16_opens_only_what_it_answers (exts : List Seg) (fs : FS) (root : Segs) (pathInfo : List Char) :
    let r := serve exts fs root pathInfo
    (∀ a ∈ r.1, a.op = .serve → r.2 = .file a.path) ∧
    (∀ a ∈ r.1, a.op = .listdir → ∃ cat files dirs, r.2 = .listing cat a.path files dirs) ∧
    (∀ a ∈ r.1, a.op = .handler → r.2 = .dap a.path) ∧
    ((r.2 = .forbidden ∨ r.2 = .notFound ∨ ∃ b, r.2 = .unsupported b) → ∀ a ∈ r.1, a.op = .stat) := by
  intro r
  have hj : ∀ a ∈ r.1, Justified r.2 a := serveAt_justified exts fs root (target root pathInfo)
  refine ⟨?_, ?_, ?_, ?_⟩
  · intro a ha hop
    rcases hj a ha with h | ⟨_, h⟩ | ⟨h, _⟩ | ⟨h, _⟩
    · rw [hop] at h; cases h
    · exact h
    · rw [hop] at h; cases h
    · rw [hop] at h; cases h
  · intro a ha hop
    rcases hj a ha with h | ⟨h, _⟩ | ⟨_, h⟩ | ⟨h, _⟩
    · rw [hop] at h; cases h
    · rw [hop] at h; cases h
    · exact h
    · rw [hop] at h; cases h
  · intro a ha hop
    rcases hj a ha with h | ⟨h, _⟩ | ⟨h, _⟩ | ⟨_, h⟩
    · rw [hop] at h; cases h
    · rw [hop] at h; cases h
    · rw [hop] at h; cases h
    · exact h
  · intro ho a ha
    rcases hj a ha with h | ⟨_, h⟩ | ⟨_, _, _, _, h⟩ | ⟨_, h⟩
    · exact h
    all_goals (rcases ho with ho | ho | ⟨b, ho⟩ <;> rw [ho] at h <;> cases h)

/-- **the hypothesis of `C16_confined` is needed**: a configured data directory that does not exist and is named
    `catalog.xml` makes the server test its *parent* (`os.path.isdir(os.path.dirname(path))`) — and, when that is a
    directory, list it.  The property quantifies over layouts whose data directory exists. -/
theorem C16_confined_needs_existing_root :
    ∃ (fs : FS) (root : Segs), Normal root ∧ fs root = .missing ∧
      ∃ a ∈ (serve [] fs root "/".toList).1, ¬ root <+: a.path := by
  refine ⟨fun _ => .missing, [catalogName], ?_, rfl, ⟨.stat, []⟩, by decide +kernel, by decide +kernel⟩
  intro s hs; simp at hs; subst hs; exact ⟨by decide, by decide, by decide, by decide⟩

/-! ### non-vacuity -/

private def exFs : FS := fun p =>
  if p = ["r".toList] then .dir ["a.csv".toList, "d".toList, "t.txt".toList]
  else if p = ["r".toList, "a.csv".toList] then .file
  else if p = ["r".toList, "t.txt".toList] then .file
  else if p = ["r".toList, "d".toList] then .dir []
  else .missing

private def exExts : List Seg := ["csv".toList]

example : (serve exExts exFs ["r".toList] "/../r2/s".toList) = ([], .forbidden) := by decide
example : (serve exExts exFs ["r".toList] "/d/../a.csv".toList).2 = .file ["r".toList, "a.csv".toList] := by decide
example : (serve exExts exFs ["r".toList] "/a.csv.dds".toList).2 = .dap ["r".toList, "a.csv".toList] := by decide
-- `C16_opens_only_what_it_answers`: a refused request with accesses (two `stat`s, nothing opened), and an answered one
example : (serve exExts exFs ["r".toList] "/t.txt.dds".toList).1 =
    [⟨.stat, ["r".toList, "t.txt.dds".toList]⟩, ⟨.stat, ["r".toList, "t.txt".toList]⟩] := by decide
example : ∃ a ∈ (serve exExts exFs ["r".toList] "/t.txt".toList).1, a.op = .serve := by decide
example : ∃ a ∈ (serve exExts exFs ["r".toList] "/d/catalog.xml".toList).1, a.op = .listdir := by decide
example : (serve exExts exFs ["r".toList] "/t.txt.dds".toList).2 = .unsupported ["r".toList, "t.txt".toList] := by
  decide
example : (serve exExts exFs ["r".toList] "/x/catalog.xml".toList).2 = .notFound := by decide
example : (serve exExts exFs ["r".toList] "/mycatalog.xml".toList).2 = .notFound := by decide
example : (serve exExts exFs ["r".toList] "/d/catalog.xml".toList).2 = .listing true ["r".toList, "d".toList] [] [] := by
  decide
example : ∃ a ∈ (serve exExts exFs ["r".toList] "/a.csv.dds".toList).1, a.op = .handler := by decide
example : contained ["r".toList] ["r".toList, "x".toList] = true ∧ contained ["r".toList] ["r2".toList] = false := by
  decide
example : sortNames ["f10".toList, "f9".toList, "a".toList, "F".toList] =
    ["F".toList, "a".toList, "f9".toList, "f10".toList] := by decide
example : target ["r".toList] "/../../..//./r/x".toList = ["r".toList, "x".toList] := by decide

/-! ### the configured data directory, however the operator spells it

`DapServer.__init__` stores `os.path.abspath(spelling)` (`Path.abspath cwd spelling`: relative spellings are taken
from the working directory of that moment); `__call__` compares against that stored text.  Every statement above
is about a normalised `root`; the following ones say that the root the server actually uses *is* normalised,
whatever was typed, and carry confinement over to every spelling. -/

/-- (a) the stored root has no empty, `.` or `..` component and no separator inside a component — for every
    spelling (`..`, `.`, `//`, trailing `/`, relative) — and normalising it again, from any working directory,
    changes nothing -/
theorem C16_root_normalised (cwd : Segs) (spelling : List Char) (hcwd : Normal cwd) :
    Normal (abspath cwd spelling) ∧ ∀ cwd', abspath cwd' (text (abspath cwd spelling)) = abspath cwd spelling :=
  ⟨abspath_normal cwd spelling hcwd, fun cwd' => abspath_idem cwd cwd' spelling hcwd⟩

/-- (b) **confinement for every spelling of the data directory**: every path the server stats, lists, serves or
    hands to a handler lies under the *normalised* data directory -/
theorem C16_contained (exts : List Seg) (fs : FS) (cwd : Segs) (spelling pathInfo : List Char)
    (hcwd : Normal cwd) (hexists : fs (abspath cwd spelling) ≠ .missing) :
    ∀ a ∈ (serveSpelled exts fs cwd spelling pathInfo).1, abspath cwd spelling <+: a.path :=
  serve_confined exts fs _ pathInfo (abspath_normal cwd spelling hcwd) hexists

/-- (b) a request is answered "forbidden" **exactly** when it resolves outside the normalised data directory, and
    then nothing on disk is touched; the sibling `<root>2` of a root spelled `<root>/`, `<root>/.`, `x/../<root>` … is
    outside like any other -/
theorem C16_contained_forbidden_iff (exts : List Seg) (fs : FS) (cwd : Segs) (spelling pathInfo : List Char)
    (hcwd : Normal cwd) :
    ((serveSpelled exts fs cwd spelling pathInfo).2 = .forbidden ↔
      ¬ abspath cwd spelling <+: target (abspath cwd spelling) pathInfo) ∧
    ((serveSpelled exts fs cwd spelling pathInfo).2 = .forbidden → (serveSpelled exts fs cwd spelling pathInfo).1 = []) := by
  have hroot := abspath_normal cwd spelling hcwd
  have hp := target_normal (abspath cwd spelling) pathInfo hroot
  have hiff := contained_iff_prefix _ _ hroot hp
  cases hc : contained (abspath cwd spelling) (target (abspath cwd spelling) pathInfo) with
  | false =>
    have hout : ¬ abspath cwd spelling <+: target (abspath cwd spelling) pathInfo := by
      intro h; rw [hiff.mpr h] at hc; cases hc
    have := C16_outside_forbidden exts fs _ pathInfo hroot hout
    simp only [serveSpelled, Srv.init, Srv.call, this]
    exact ⟨⟨fun _ => hout, fun _ => trivial⟩, fun _ => trivial⟩
  | true =>
    have hne := serveAt_contained_not_forbidden exts fs _ _ hc
    simp only [serveSpelled, Srv.init, Srv.call, serve]
    exact ⟨⟨fun h => absurd h hne, fun h => absurd (hiff.mp hc) h⟩, fun h => absurd h hne⟩

/-- (c) **a spelled root and its normal form serve identically**: same accesses, same outcome, for every request
    and file system (the second server may be created from any working directory: the normal form is absolute) -/
theorem C16_spelling_irrelevant (exts : List Seg) (fs : FS) (cwd cwd' : Segs) (spelling pathInfo : List Char)
    (hcwd : Normal cwd) :
    serveSpelled exts fs cwd' (text (abspath cwd spelling)) pathInfo = serveSpelled exts fs cwd spelling pathInfo :=
  serveSpelled_normal_form exts fs cwd cwd' spelling pathInfo hcwd

-- non-vacuity: the spellings the harness uses (through a sibling and `..`, trailing slash, doubled slash, `.`,
-- through a sub-directory and `..`, relative from the parent, relative with `..`) all normalise to `/b/data`
example : ["/b/data", "/b/other/../data", "/b/data/", "/b//data", "/b/./data", "/b/data/sub/..", "data", "./data",
    "other/../data", "../b/data", "../../../b/data//"].map (fun s => abspath ["b".toList] s.toList) =
    List.replicate 11 ["b".toList, "data".toList] := by decide
example : Normal ["b".toList] := by intro s hs; simp at hs; subst hs; simp [SegOK, dot, dotdot]
example : (serveSpelled exExts exFs [] "/x/../r/".toList "/../r2/s".toList) = ([], .forbidden) := by decide
example : (serveSpelled exExts exFs ["r".toList, "d".toList] "..".toList "/a.csv.dds".toList).2 =
    .dap ["r".toList, "a.csv".toList] := by decide
example : leadingDouble "//b/data".toList = true ∧ leadingDouble "///b/data".toList = false := by decide

/-! ### "supported": what the handlers' regular expressions mean

`PydapModel/PathRe.lean` models the fragment of `re` in which the handlers' patterns are written
(`^.*\.(nc4|nc|cdf)$`, `^.*\.csv$`, IGNORECASE) and `get_handler`'s first-match loop over them. -/

/-- **a file is supported iff its name ends in a dot and one of the handlers' extensions, whatever the case**: for
    every table of handlers whose patterns have the form `^.*\.(e1|e2|…)$`, every directory `d` and name `n`
    (no line feed in the path; no separator in an extension) -/
theorem C16_supported_iff_dot_ext (hs : List (List Seg)) (d : Segs) (n : Seg)
    (hnl : '\n' ∉ text (d ++ [n])) (hexts : ∀ e ∈ hs.flatten, '/' ∉ lower e) :
    supportedBy (hs.map dotExtPattern) (d ++ [n]) = true ↔ ∃ e ∈ hs.flatten, endsWith (lower n) ('.' :: lower e) = true := by
  rw [supportedBy_eq_hasHandler hs _ hnl, hasHandler_basename _ d n]
  · simp only [List.any_map, List.any_eq_true, Function.comp]
  · intro e he
    obtain ⟨e0, he0, rfl⟩ := List.mem_map.mp he
    exact hexts e0 he0

/-- `get_handler` picks the FIRST handler of the table whose extensions fit (none before it does) -/
theorem C16_supported_first_handler (hs : List (List Seg)) (p : Segs) (i : Nat) (hnl : '\n' ∉ text p)
    (h : getHandler (hs.map dotExtPattern) p = some i) :
    ∃ exts, hs[i]? = some exts ∧ hasHandler (exts.map lower) p = true ∧
      ∀ j < i, ∀ ex, hs[j]? = some ex → hasHandler (ex.map lower) p = false :=
  getHandler_first hs p i hnl h

/-- the model's `hasHandler` (used by `serve` and `index`) *is* `get_handler` over patterns of that form -/
theorem C16_hasHandler_is_get_handler (hs : List (List Seg)) (p : Segs) (hnl : '\n' ∉ text p) :
    supportedBy (hs.map dotExtPattern) p = hasHandler (hs.flatten.map lower) p :=
  supportedBy_eq_hasHandler hs p hnl

private def exHandlers : List (List Seg) := [["nc4".toList, "nc".toList, "cdf".toList], ["csv".toList]]
private def sup (n : String) : Bool := supportedBy (exHandlers.map dotExtPattern) ["r".toList, n.toList]

-- names that merely END in the letters, a hidden file whose whole name is an extension, upper/mixed case, several dots
example : ["oldcsv", "export_csv", "xnc4", "b.acdf", "csv", "noext", "a.csv.txt", "a.", ".", "x.csvx"].map sup =
    List.replicate 10 false := by decide
example : [".csv", "T.CSV", "t.CsV", "a.b.csv", "..nc", "w.nc4", "m.CDF", "x.nc.cdf", "a b.csv", "x.tar.NC"].map sup =
    List.replicate 10 true := by decide
example : getHandler (exHandlers.map dotExtPattern) ["r".toList, "x.csv".toList] = some 1 ∧
    getHandler (exHandlers.map dotExtPattern) ["r".toList, "x.NC4".toList] = some 0 ∧
    getHandler (exHandlers.map dotExtPattern) ["r".toList, "oldcsv".toList] = none := by decide
/-- what the line-feed hypothesis excludes: `$` also matches before a final `\n`, `.` never matches one -/
example : (dotExtPattern ["csv".toList]).matches "x.csv\n".toList = true ∧
    (dotExtPattern ["csv".toList]).matches "a\nx.csv".toList = false := by decide
/-- a pattern without the `\.` (an independently written breaking change) means something else -/
example : (⟨true, [.anyStar, .alts ["csv".toList], .eol]⟩ : Pattern).matches "/r/oldcsv".toList = true := by decide

/-- **listing, catalog and routing agree**: an entry `e` of a directory `d` inside the data directory is offered as
    a dataset (flag `supported` in the HTML listing; the THREDDS catalog shows exactly the flagged files) iff the
    request `<d>/<e>.<response>` is handed to a handler — for that very file.  (`<e>.<response>` is not itself on
    disk, else that file would be served verbatim, and is not literally `catalog.xml`.) -/
theorem C16_listing_routes_agree (exts : List Seg) (fs : FS) (root d : Segs) (es : List Seg) (e r : Seg) (cat : Bool)
    (hexts : ∀ x ∈ exts, x ≠ [] ∧ '.' ∉ x ∧ '/' ∉ x)
    (he : e ∈ es) (hfile : fs (d ++ [e]) = .file)
    (hin : contained root (d ++ [e ++ '.' :: r]) = true)
    (hmiss : fs (d ++ [e ++ '.' :: r]) = .missing)
    (hr : '.' ∉ r) (hcat : e ++ '.' :: r ≠ catalogName) :
    (e, true) ∈ (index exts fs cat d es).2.files ↔
      (serveAt exts fs root (d ++ [e ++ '.' :: r])).2 = .dap (d ++ [e]) := by
  rw [mem_index_files, ← route_entry_response exts fs root d e r hexts hfile hin hmiss hr hcat]
  constructor
  · intro h; exact h.2.2.symm
  · intro h; exact ⟨he, by simp [hfile, Node.isFile], h.symm⟩

-- non-vacuity: `a.csv` is flagged and `/a.csv.dds` is routed to its handler; `t.txt` is neither
example : (("a.csv".toList, true) ∈ (index exExts exFs false ["r".toList] ["a.csv".toList, "d".toList, "t.txt".toList]).2.files) ∧
    (serveAt exExts exFs ["r".toList] ["r".toList, "a.csv.dds".toList]).2 = .dap ["r".toList, "a.csv".toList] ∧
    (("t.txt".toList, false) ∈ (index exExts exFs false ["r".toList] ["a.csv".toList, "d".toList, "t.txt".toList]).2.files) := by
  decide

/-! ### the order of the listing (`alphanum_key`) -/

/-- **the listing's order is a total preorder on all names**: reflexive, total, transitive (names that differ only in
    leading zeros of a number compare equal: a preorder, not an order) -/
theorem C16_listing_order_total_preorder :
    (∀ a : Seg, nameLe a a = true) ∧ (∀ a b : Seg, nameLe a b = true ∨ nameLe b a = true) ∧
    (∀ a b c : Seg, nameLe a b = true → nameLe b c = true → nameLe a c = true) :=
  ⟨nameLe_refl, nameLe_total, nameLe_trans⟩

/-- **no `TypeError`**: Python's own comparison of the keys of any two names (`list.__lt__`, partial: text against
    number raises) is defined and is the model's; so is the whole sort, for every directory — a name starting with
    a digit next to one that does not included (`re.split` always yields a text chunk first, possibly empty) -/
theorem C16_listing_sort_never_raises :
    (∀ a b : Seg, keyLt? (alphanumKey a) (alphanumKey b) = some (keyLt (alphanumKey a) (alphanumKey b))) ∧
    (∀ l : List Seg, sortNames? l = some (sortNames l)) :=
  ⟨keyLt?_names, sortNames?_eq⟩

/-- the listing is the directory: a permutation of its names, in non-decreasing `alphanum_key` order -/
theorem C16_listing_sorted_permutation (l : List Seg) :
    (sortNames l).Perm l ∧ (sortNames l).Pairwise (fun a b => nameLe a b = true) :=
  ⟨sortNames_perm l, sortNames_sorted l⟩

/-- what the alternation of the chunks excludes: a number chunk against a text chunk raises -/
example : keyLt? [.num 2020] [.str "t".toList] = none := by decide
example : alphanumKey "2020_01.csv".toList = [.str [], .num 2020, .str "_".toList, .num 1, .str ".csv".toList] ∧
    alphanumKey "t.csv".toList = [.str "t.csv".toList] := by decide
example : sortNames? ["t.csv".toList, "2020_01.csv".toList, "f10".toList, "f9".toList, "f010".toList] =
    some ["2020_01.csv".toList, "f9".toList, "f10".toList, "f010".toList, "t.csv".toList] := by decide

/-! ### the tie by translation: the *source text* of `DapServer.__call__` takes the model's routing decision

`Pydap.Gen.src_dapserver_call` (PydapModel/Generated/AppSrc.lean) is the MiniPy syntax tree of everything after
`path = …` in `DapServer.__call__`, regenerated from `wsgi/app.py` on every run by `harness/py2lean.py`.  Early
returns are read as `if … else …`; `return e` is `@ret = "<source text of e>"` (`routeTag` lists the seven texts);
`os.path.exists/isdir/isfile/basename` on the request path are inputs (`routeEnv`), `os.path.join(self.path, "")` and
`startswith`, `!=`, `== "catalog.xml"` are interpreted. -/

open MiniPy in
/-- for every handler table, file system, root and resolved request path, the interpreted source returns the
    expression that the model's outcome stands for: the containment test is `contained`, and the order
    forbidden → existing directory / file → `catalog.xml` of an existing directory → DAP suffix → not found
    is that of `serveAt` -/
theorem C16_source_routing (exts : List Seg) (fs : FS) (root p : Segs) :
    runItem (routeEnv fs root p) Gen.src_dapserver_call "@ret" = .ok (.str (routeTag (serveAt exts fs root p).2)) :=
  src_dapserver_call_eq exts fs root p

-- non-vacuity: the sibling `/r2` of the root `/r` is refused by the interpreted source, a contained file is served
open MiniPy in
example : runItem (routeEnv exFs ["r".toList] ["r2".toList]) Gen.src_dapserver_call "@ret"
    = .ok (.str (routeTag .forbidden)) := by
  rfl
open MiniPy in
example : runItem (routeEnv exFs ["r".toList] ["r".toList, "a.csv".toList]) Gen.src_dapserver_call "@ret"
    = .ok (.str (routeTag (.file []))) := by
  rfl

/-! ### histories on one server object: routing is a function of (file system, request) alone -/

/-- **no state**: whatever was requested before, and however the file system changed in between, the answer
    of a long-lived `DapServer` to the i-th request is the answer a fresh server gives to that request on the
    file system of that moment -/
theorem C16_stateless (s : Srv) (h : List Event) :
    runHistory s h = h.map fun e => serve s.exts e.1 s.root e.2 := by
  induction h with
  | nil => rfl
  | cons e rest ih => simp [runHistory, Srv.call, ih]

/-- the same request on the same file system gets the same answer wherever it occurs in a history
    (the same path requested again after other paths; listing, file, listing) -/
theorem C16_repeat_same_answer (s : Srv) (h : List Event) (i j : Nat) (e : Event)
    (hi : h[i]? = some e) (hj : h[j]? = some e) :
    (runHistory s h)[i]? = (runHistory s h)[j]? := by
  rw [C16_stateless]
  simp [List.getElem?_map, hi, hj]

/-- **confinement over histories**: every access of every request of a history lies under the data directory,
    provided the directory exists at each of those moments -/
theorem C16_history_confined (s : Srv) (h : List Event) (hroot : Normal s.root)
    (hexists : ∀ e ∈ h, e.1 s.root ≠ .missing) :
    ∀ r ∈ runHistory s h, ∀ a ∈ r.1, s.root <+: a.path := by
  rw [C16_stateless]
  intro r hr a ha
  obtain ⟨e, he, rfl⟩ := List.mem_map.mp hr
  exact serve_confined s.exts e.1 s.root e.2 hroot (hexists e he) a ha

/-- **what the statement excludes**: a handler lookup memoised by `splitext(path)[1].lower()` answers
    `noext` (no extension, key `""`) differently after the hidden file `.csv` (key `""` as well: the whole name is
    the "extension") has been looked up — its answers are not a function of the request -/
theorem C16_memoised_lookup_depends_on_history :
    let exts := ["csv".toList]
    let r := "r".toList
    (memoLookup exts [] [r, "noext".toList]).1 = false ∧
    (memoLookup exts (memoLookup exts [] [r, ".csv".toList]).2 [r, "noext".toList]).1 = true := by
  decide

private def hFs1 : FS := fun p =>
  if p = ["r".toList] then .dir ["t.csv".toList] else if p = ["r".toList, "t.csv".toList] then .file else .missing
private def hFs2 : FS := fun p => if p = ["r".toList] then .dir [] else .missing

/-- non-vacuity: listing, file, listing; then the file is removed and the same requests are repeated -/
example : (runHistory ⟨["r".toList], ["csv".toList]⟩
      [(hFs1, "/".toList), (hFs1, "/t.csv".toList), (hFs1, "/".toList), (hFs2, "/t.csv".toList), (hFs2, "/".toList)]).map (·.2) =
    [.listing false ["r".toList] [("t.csv".toList, true)] [], .file ["r".toList, "t.csv".toList],
     .listing false ["r".toList] [("t.csv".toList, true)] [], .notFound, .listing false ["r".toList] [] []] := by
  decide

end Pydap.C16
