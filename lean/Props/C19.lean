/-
  C19 — Server-side functions compute what they name and are transparent otherwise.
  Property statements only; helper lemmas are in `Proofs/Ssf.lean`.
  Model: `PydapModel/Ssf.lean`.
-/
import PydapModel.Ssf
import Proofs.Ssf
import Proofs.SsfProxy
import Proofs.SsfSrc
namespace Pydap.C19
open Pydap Pydap.Handler Pydap.Ssf

/-- **Transparency**: a request whose constraint parses and contains no function call (no
    selection clause matching the FUNCTION regexp, no call item in the projection) is handed to
    the wrapped application unchanged — the answer of the middleware *is* the answer of the
    application, whatever the application and the function evaluator are. -/
theorem C19_transparent (app : Str → Str → Outcome) (fn : Str → Str → Str → Except Exc Outcome)
    (path query pre resp : Str) (proj : List ProjItem) (sel : List Str)
    (hq : parseCE query = .ok (proj, sel)) (hp : rsplitDot path = some (pre, resp))
    (hc : hasCall proj sel = false) :
    ssf app fn path query = app path query := by
  simp [ssf, route, hq, hp, hc]

/-- DAS requests are never touched, calls or not -/
theorem C19_das_passthrough (app : Str → Str → Outcome) (fn : Str → Str → Str → Except Exc Outcome)
    (path query pre : Str) (ce : List ProjItem × List Str)
    (hq : parseCE query = .ok ce) (hp : rsplitDot path = some (pre, cs!"das")) :
    ssf app fn path query = app path query := by
  obtain ⟨proj, sel⟩ := ce
  simp [ssf, route, hq, hp]

/-- the inner request of the function branch carries exactly the selection clauses that are not
    calls, and no projection -/
theorem C19_strip (path query pre resp : Str) (proj : List ProjItem) (sel : List Str)
    (hq : parseCE query = .ok (proj, sel)) (hp : rsplitDot path = some (pre, resp))
    (hd : resp ≠ cs!"das") (hc : hasCall proj sel = true) :
    route path query = .function (joinWith ['&'] (sel.filter fun s => !isCallSel s)) := by
  simp [route, hq, hp, hd, hc, stripped]

/-- since the repair, nothing raised inside the middleware leaves it: if the wrapped application
    and the evaluator answer, the middleware answers -/
theorem C19_contained (app : Str → Str → Outcome) (fn : Str → Str → Str → Except Exc Outcome)
    (happ : ∀ p q e, app p q ≠ .escaped e) (hfn : ∀ p q i o e, fn p q i = .ok o → o ≠ .escaped e)
    (path query : Str) : ∀ e, ssf app fn path query ≠ .escaped e := by
  intro e
  unfold ssf
  split
  · exact happ _ _ e
  · split
    · rename_i o ho; exact hfn _ _ _ o e ho
    · simp
  · simp

/-- **mean, shape / dims / denominator**: on an array with `prod shape` values and a valid axis,
    `mean` succeeds; the result has the shape and the dimension names with entry `axis` removed,
    carries exactly the product of the new shape, and every value is a sum divided by the length
    of the removed axis (times the denominator the input already had). -/
theorem C19_mean_shape (a : Arr) (axis : Nat) (hk : axis < a.shape.length)
    (hwf : a.data.length = prod a.shape) :
    ∃ r, meanArr a axis = .ok r ∧ r.shape = a.shape.eraseIdx axis ∧ r.dims = a.dims.eraseIdx axis ∧
      r.data.length = prod r.shape ∧ r.den = a.den * a.shape[axis] := by
  unfold meanArr
  rw [List.getElem?_eq_getElem hk]
  exact ⟨_, rfl, rfl, rfl, sumAxis_length _ _ _ hk hwf, rfl⟩

/-- **mean, value law** along the first axis: element `j` is the sum over `i` of element `(i, j…)` -/
theorem C19_mean_value0 (n : Nat) (sh : List Nat) (d : List Int) (j : Nat) (hj : j < prod sh) :
    (sumAxis (n :: sh) 0 d)[j]? =
      some (((List.range n).map fun i => (d[i * prod sh + j]?).getD 0).sum) := by
  simp [sumAxis, hj]

/-- along a later axis: block `i` of the result is the mean along that axis of block `i` of the source -/
theorem C19_mean_value_succ (n k : Nat) (sh : List Nat) (d : List Int) :
    sumAxis (n :: sh) (k + 1) d =
      (List.range n).flatMap fun i => sumAxis sh k ((d.drop (i * prod sh)).take (prod sh)) := rfl

/-- **nesting composes**: the mean of a mean is again sums over a common denominator, the product
    of the two axis lengths; shapes and dims lose both entries -/
theorem C19_mean_nested (a : Arr) (k1 k2 : Nat) (hk1 : k1 < a.shape.length)
    (hk2 : k2 < (a.shape.eraseIdx k1).length) (hwf : a.data.length = prod a.shape) :
    ∃ r1 r2, meanArr a k1 = .ok r1 ∧ meanArr r1 k2 = .ok r2 ∧
      r2.shape = (a.shape.eraseIdx k1).eraseIdx k2 ∧ r2.dims = (a.dims.eraseIdx k1).eraseIdx k2 ∧
      r2.data.length = prod r2.shape ∧
      r2.den = a.den * a.shape[k1] * (a.shape.eraseIdx k1)[k2] := by
  obtain ⟨r1, h1, s1, d1, l1, n1⟩ := C19_mean_shape a k1 hk1 hwf
  have hk2' : k2 < r1.shape.length := by rw [s1]; exact hk2
  obtain ⟨r2, h2, s2, d2, l2, n2⟩ := C19_mean_shape r1 k2 hk2' l1
  refine ⟨r1, r2, h1, h2, ?_, ?_, l2, ?_⟩
  · rw [s2, s1]
  · rw [d2, d1]
  · rw [n2, n1]; congr 1; simp [s1]

/-- **grid maps**: the result grid keeps, in the order of the remaining dimension names, the source
    map of each remaining dimension — the map of the removed axis is gone -/
theorem C19_mean_grid_maps (g r : GridA) (axis : Nat) (h : meanGrid g axis = .ok r) :
    meanArr g.array axis = .ok r.array ∧
    r.maps.map (·.1) = g.array.dims.eraseIdx axis ∧
    ∀ m ∈ r.maps, m ∈ g.maps := by
  unfold meanGrid at h
  cases ha : meanArr g.array axis with
  | error e => simp [ha] at h
  | ok a =>
    simp only [ha] at h
    cases hm : a.dims.mapM (fun d => g.maps.find? (·.1 = d)) with
    | none => simp [hm] at h
    | some ms =>
      simp only [hm, Except.ok.injEq] at h
      subst h
      have hd : a.dims = g.array.dims.eraseIdx axis := by
        unfold meanArr at ha
        split at ha
        · simp at ha
        · simp only [Except.ok.injEq] at ha; subst ha; rfl
      refine ⟨rfl, ?_, ?_⟩
      · rw [← hd]
        clear ha hd
        generalize a.dims = ds at hm
        induction ds generalizing ms with
        | nil => simp at hm; subst hm; rfl
        | cons d ds ih =>
          simp only [List.mapM_cons, Option.bind_eq_bind, Option.pure_def, Option.bind_eq_some_iff] at hm
          obtain ⟨m, hm1, rest, hm2, hm3⟩ := hm
          simp only [Option.some.injEq] at hm3
          subst hm3
          have := List.find?_some hm1
          simp only [decide_eq_true_eq] at this
          simp [this, ih rest hm2]
      · clear ha hd
        generalize a.dims = ds at hm
        induction ds generalizing ms with
        | nil => simp at hm; subst hm; simp
        | cons d ds ih =>
          simp only [List.mapM_cons, Option.bind_eq_bind, Option.pure_def, Option.bind_eq_some_iff] at hm
          obtain ⟨m, hm1, rest, hm2, hm3⟩ := hm
          simp only [Option.some.injEq] at hm3
          subst hm3
          intro x hx
          simp only [List.mem_cons] at hx
          rcases hx with rfl | hx
          · exact List.mem_of_find?_eq_some hm1
          · exact ih rest hm2 x hx

/-- **bounds**: the loop over the children keeps exactly the records that lie inside the closed
    interval of every X / Y / Z axis column, in their original order (`min = max` is equality). -/
theorem C19_bounds (iv : Axis → Int × Int) (cols : List (Option Axis)) (rows : List (List Int)) :
    bounds iv cols rows = rows.filter (keepAll iv cols.zipIdx) ∧
    (bounds iv cols rows).Sublist rows ∧
    ∀ lo hi v, inIv lo hi v = true ↔ lo ≤ v ∧ v ≤ hi := by
  have e := boundsLoop_eq_filter iv cols.zipIdx rows
  refine ⟨e, ?_, inIv_iff⟩
  unfold bounds; rw [e]; exact List.filter_sublist

/-- **The function proxy's id string parses back to the call tree it was built from**, character by
    character, for call trees of any depth and any arity (zero included, since the repair of
    `tokenize`): `render` is `ServerFunction.__call__`'s `name + "(" + ",".join(params) + ")"` with
    nested results contributing their own id, `parseCall` is `eval_function` (FUNCTION regexp: first
    `(`, last `)`; split at the commas where the parenthesis count is 0; recursion on tokens that match
    FUNCTION).  `Arg.Ok`: names and leaf texts contain none of `(`, `)`, `,` and leaves are not empty
    — variable ids, numbers as `%.6g` prints them, quoted strings without these characters.  The
    evaluator's own fuel (the length of the text) suffices, as does any fuel ≥ the nesting depth. -/
theorem C19_proxy (t : Arg) (h : t.Ok) :
    parseCall (render t).length (render t) = t ∧
    ∀ fuel, t.depth ≤ fuel → parseCall fuel (render t) = t :=
  ⟨parseCall_render t h _ (depth_le_length t), fun fuel hf => parseCall_render t h fuel hf⟩

/-- a clause `lhs OP rest` whose left-hand side holds no parenthesis is never a call, whatever its
    constant holds (`s.name="(a)"`, `s.t!="mean(a,0)"`): since the repair `is_call` looks for a
    comparison in front of the first parenthesis.  Before it such a clause was routed to the function
    evaluator and answered with an error. -/
theorem C19_comparison_not_call (lhs rest : Str) (c : Char) (hc : c = '<' ∨ c = '>' ∨ c = '=')
    (hl : '(' ∉ lhs) : isCallSel (lhs ++ c :: rest) = false :=
  isCallSel_comparison lhs rest c hc hl

/-- **Transparency for every function-free constraint of C04's grammar**: no call item in the
    projection and every selection clause a comparison whose left-hand side holds no parenthesis —
    the constants are arbitrary — gives the wrapped application's own answer. -/
theorem C19_transparent_clauses (app : Str → Str → Outcome) (fn : Str → Str → Str → Except Exc Outcome)
    (path query pre resp : Str) (proj : List ProjItem) (sel : List Str)
    (hq : parseCE query = .ok (proj, sel)) (hp : rsplitDot path = some (pre, resp))
    (hproj : proj.any isCallItem = false)
    (hsel : ∀ s ∈ sel, ∃ lhs c rest, s = lhs ++ c :: rest ∧ (c = '<' ∨ c = '>' ∨ c = '=') ∧ '(' ∉ lhs) :
    ssf app fn path query = app path query := by
  apply C19_transparent app fn path query pre resp proj sel hq hp
  unfold hasCall
  rw [hproj, Bool.or_false, List.any_eq_false]
  intro s hs
  obtain ⟨lhs, c, rest, rfl, hc, hl⟩ := hsel s hs
  simp [isCallSel_comparison lhs rest c hc hl]

/-- the guard is sharp: a string argument that contains a comma is split into two tokens (`encode`
    does not escape and the tokeniser does not know quotes), and an empty leaf is indistinguishable
    from no argument -/
theorem C19_proxy_guard_sharp :
    parseCall 9 (render (.call cs!"f" [.tok cs!"\"a,b\""])) = .call cs!"f" [.tok cs!"\"a", .tok cs!"b\""] ∧
    parseCall 3 (render (.call cs!"f" [.tok []])) = .call cs!"f" [] := ⟨rfl, rfl⟩

/-! ### non-vacuity -/

example : functionMatch cs!"mean(mean(g,0),1)" = some (cs!"mean", cs!"mean(g,0),1") := by decide
example : route cs!"/d.dods" cs!"a,mean(g,0)&s.i>1&bounds(0,1)" = .function cs!"s.i>1" := by decide
example : route cs!"/d.dods" cs!"a[0:2]&s.i>1" = .pass := by decide
example : route cs!"/d.dods" cs!"s&s.t=\"(a)\"&s.u!=\"mean(a,0)\"" = .pass := by decide
example : isCallSel cs!"bounds(0,1)>=1" = true ∧ isCallSel cs!"s.t=\"(a)\"" = false := by decide
example : meanArr ⟨[2, 3], [cs!"y", cs!"x"], [1, 2, 3, 4, 5, 6], 1⟩ 0 = .ok ⟨[3], [cs!"x"], [5, 7, 9], 2⟩ := by decide
example : meanArr ⟨[2, 3], [cs!"y", cs!"x"], [1, 2, 3, 4, 5, 6], 1⟩ 1 = .ok ⟨[2], [cs!"y"], [6, 15], 3⟩ := by decide
example : bounds (fun a => match a with | .x => (1, 3) | .y => (5, 5) | .z => (0, 9)) [some .x, none, some .y]
    [[1, 0, 5], [4, 0, 5], [2, 7, 5], [3, 0, 6]] = [[1, 0, 5], [2, 7, 5]] := by decide
example : render (.call cs!"mean" [.call cs!"mean" [.tok cs!"g.v", .tok cs!"0"], .call cs!"now" [], .tok cs!"-1.5e+06"])
    = cs!"mean(mean(g.v,0),now(),-1.5e+06)" := by decide
example : (Arg.call cs!"mean" [.call cs!"mean" [.tok cs!"g.v", .tok cs!"0"], .call cs!"now" [], .tok cs!"-1.5e+06"]).Ok := by
  simp only [Arg.Ok, Arg.OkList]; decide
example : parseCall 40 cs!"mean(mean(g.v,0),now(),-1.5e+06)"
    = .call cs!"mean" [.call cs!"mean" [.tok cs!"g.v", .tok cs!"0"], .call cs!"now" [], .tok cs!"-1.5e+06"] := rfl

/-! ### the tie by translation: the *source text* of the pass-through test takes the model's routing decision

`Pydap.Gen.src_ssf_pass_test` (PydapModel/Generated/SsfSrc.lean) is the MiniPy tree of the `if` statement after the first
`path, response = req.path.rsplit(".", 1)` of `ServerSideFunctions.handle`, regenerated on every run by
`harness/py2lean.py`; `response` and `called` are inputs (`called` is bound to the model's `hasCall`: the two `any(…)`
over generators are outside the fragment, and tied by the correspondence run). -/

open MiniPy in
/-- for every request whose constraint parses and whose path has an extension: the interpreted statement returns
    `self.app(environ, start_response)` exactly when the model routes the request to `.pass` (response `das`, or no
    call), and falls through to the function branch otherwise -/
theorem C19_source_pass_test (path query pre resp : Str) (proj : List ProjItem) (sel : List Str)
    (hq : parseCE query = .ok (proj, sel)) (hp : rsplitDot path = some (pre, resp)) :
    runItem [("response", .str (codesOf resp)), ("called", .bool (hasCall proj sel))] Gen.src_ssf_pass_test "@ret"
      = (if route path query = .pass then .ok (.str passTag) else .error .nameError) := by
  rw [src_ssf_pass_test_eq]
  have := route_pass_iff path query pre resp proj sel hq hp
  by_cases h : route path query = .pass
  · rw [if_pos h, if_pos (this.mp h)]
  · rw [if_neg h, if_neg (fun e => h (this.mpr e))]

-- non-vacuity: a `.dds` request with a call is not passed through, the same request for `.das` is
open MiniPy in
example : runItem [("response", .str (codesOf cs!"dds")), ("called", .bool true)] Gen.src_ssf_pass_test "@ret"
    = .error .nameError := by rfl
open MiniPy in
example : runItem [("response", .str (codesOf cs!"das")), ("called", .bool true)] Gen.src_ssf_pass_test "@ret"
    = .ok (.str passTag) := by rfl

/-! ### the tie by translation: the *source text* of `is_call` computes `isCallSel`

`Pydap.Gen.src_is_call` is the MiniPy tree of the whole body of wsgi/ssf.py `is_call`
(`match = FUNCTION.match(selection); return bool(match) and not RELOP.search(match.group(1))`).  Opaque, exactly:
the two regexp calls.  `@function_match` stands for `FUNCTION.match(selection)` and is bound to the model's
`functionMatch` (`fmatchVal`: None, or a match object with groups 0–2); `@relop_search` stands for
`RELOP.search(match.group(1))` and is bound to the model's `relopSearch` of the name (`rsearchOf`: None or an arbitrary
match object `g`; arbitrary `junk` when FUNCTION does not match — the source then never evaluates it).  That the regexps
*are* `functionMatch` / `relopSearch` is the correspondence run's business, not this theorem's.  Carried by the source:
the truth test of the match object, the short-circuit `and`, the negation, which group is searched. -/

open MiniPy in
/-- for every selection text the interpreted body of `is_call` returns the model's `isCallSel` -/
theorem C19_source_is_call (s : Str) (g : List (List Nat)) (junk : MiniPy.Val) :
    runItem [("selection", .str (codesOf s)), ("@function_match", fmatchVal s), ("@relop_search", rsearchOf g junk s)]
        Gen.src_is_call "@ret"
      = .ok (.bool (isCallSel s)) :=
  src_is_call_eq s g junk

open MiniPy in
/-- the text the source hands to `RELOP.search` is group 1 of the FUNCTION match — the name before the first
    parenthesis, which is what the model's `isCallSel` searches; without a match the expression is not evaluable -/
theorem C19_source_is_call_relop_arg (s : Str) :
    runItem [("selection", .str (codesOf s)), ("@function_match", fmatchVal s)] Gen.src_is_call_relop_arg "@arg"
      = (match functionMatch s with
         | some (name, _) => .ok (.str (codesOf name))
         | none => .error (.raised "AttributeError")) := by
  cases h : functionMatch s with
  | none => exact src_is_call_relop_arg_none s h
  | some na => exact src_is_call_relop_arg_eq s na.1 na.2 h

open MiniPy in
example : runItem [("selection", .str (codesOf cs!"bounds(0,1)>=1")), ("@function_match", fmatchVal cs!"bounds(0,1)>=1"),
    ("@relop_search", rsearchOf [] .none cs!"bounds(0,1)>=1")] Gen.src_is_call "@ret" = .ok (.bool true) := by decide
open MiniPy in
example : runItem [("selection", .str (codesOf cs!"s.t=\"(a)\"")), ("@function_match", fmatchVal cs!"s.t=\"(a)\""),
    ("@relop_search", rsearchOf [[61]] .none cs!"s.t=\"(a)\"")] Gen.src_is_call "@ret" = .ok (.bool false) := by decide
open MiniPy in
example : runItem [("selection", .str (codesOf cs!"s.i>1")), ("@function_match", fmatchVal cs!"s.i>1"),
    ("@relop_search", rsearchOf [] (.int 7) cs!"s.i>1")] Gen.src_is_call "@ret" = .ok (.bool false) := by decide

end Pydap.C19
