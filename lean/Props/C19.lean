/-
  C19 — Server-side functions compute what they name and are transparent otherwise.
  Property statements only; helper lemmas are in `Proofs/Ssf.lean`.
  Model: `PydapModel/Ssf.lean`.
-/
import PydapModel.Ssf
import Proofs.Ssf
import Proofs.SsfProxy
import Proofs.SsfSrc
import Proofs.SsfHandle
import Proofs.SsfInner
import Proofs.SsfMean
import Proofs.SsfText
import Proofs.SsfEval
namespace Pydap.C19
open Pydap Pydap.Handler Pydap.Ssf

/-- **Transparency**: a request whose constraint parses and contains no function call (no
    selection clause matching the FUNCTION regexp, no call item in the projection) is handed to
    the wrapped application unchanged — the answer of the middleware *is* the answer of the
    application, whatever the application and the function evaluator are. -/
theorem C19_transparent (app : Str → Str → Outcome) (fn : Str → Str → Str → Except Exc Outcome)
    (path query pre resp : Str) (proj : List ProjItem) (sel : List Str)
    (hq : parseCE query = .ok (proj, sel)) (hp : rsplitDot path = some (pre, resp))
    (hc : hasCall proj sel = false) :
    ssf app fn path query = app path query := by
  simp [ssf, route, hq, hp, hc]

/-- DAS requests are never touched, calls or not -/
theorem C19_das_passthrough (app : Str → Str → Outcome) (fn : Str → Str → Str → Except Exc Outcome)
    (path query pre : Str) (ce : List ProjItem × List Str)
    (hq : parseCE query = .ok ce) (hp : rsplitDot path = some (pre, cs!"das")) :
    ssf app fn path query = app path query := by
  obtain ⟨proj, sel⟩ := ce
  simp [ssf, route, hq, hp]

/-- the inner request of the function branch carries exactly the selection clauses that are not
    calls, and no projection -/
theorem C19_strip (path query pre resp : Str) (proj : List ProjItem) (sel : List Str)
    (hq : parseCE query = .ok (proj, sel)) (hp : rsplitDot path = some (pre, resp))
    (hd : resp ≠ cs!"das") (hc : hasCall proj sel = true) :
    route path query = .function (joinWith ['&'] (sel.filter fun s => !isCallSel s)) := by
  simp [route, hq, hp, hd, hc, stripped]

/-- since the repair, nothing raised inside the middleware leaves it: if the wrapped application
    and the evaluator answer, the middleware answers -/
theorem C19_contained (app : Str → Str → Outcome) (fn : Str → Str → Str → Except Exc Outcome)
    (happ : ∀ p q e, app p q ≠ .escaped e) (hfn : ∀ p q i o e, fn p q i = .ok o → o ≠ .escaped e)
    (path query : Str) : ∀ e, ssf app fn path query ≠ .escaped e := by
  intro e
  unfold ssf
  split
  · exact happ _ _ e
  · split
    · rename_i o ho; exact hfn _ _ _ o e ho
    · simp
  · simp

/-- **mean, shape / dims / denominator**: on an array with `prod shape` values and a valid axis,
    `mean` succeeds; the result has the shape and the dimension names with entry `axis` removed,
    carries exactly the product of the new shape, and every value is a sum divided by the length
    of the removed axis (times the denominator the input already had). -/
theorem C19_mean_shape (a : Arr) (axis : Nat) (hk : axis < a.shape.length)
    (hwf : a.data.length = prod a.shape) :
    ∃ r, meanArr a axis = .ok r ∧ r.shape = a.shape.eraseIdx axis ∧ r.dims = a.dims.eraseIdx axis ∧
      r.data.length = prod r.shape ∧ r.den = a.den * a.shape[axis] := by
  unfold meanArr
  rw [List.getElem?_eq_getElem hk]
  exact ⟨_, rfl, rfl, rfl, sumAxis_length _ _ _ hk hwf, rfl⟩

/-- **mean, value law** along the first axis: element `j` is the sum over `i` of element `(i, j…)` -/
theorem C19_mean_value0 (n : Nat) (sh : List Nat) (d : List Int) (j : Nat) (hj : j < prod sh) :
    (sumAxis (n :: sh) 0 d)[j]? =
      some (((List.range n).map fun i => (d[i * prod sh + j]?).getD 0).sum) := by
  simp [sumAxis, hj]

/-- along a later axis: block `i` of the result is the mean along that axis of block `i` of the source -/
theorem C19_mean_value_succ (n k : Nat) (sh : List Nat) (d : List Int) :
    sumAxis (n :: sh) (k + 1) d =
      (List.range n).flatMap fun i => sumAxis sh k ((d.drop (i * prod sh)).take (prod sh)) := rfl

/-- **nesting composes**: the mean of a mean is again sums over a common denominator, the product
    of the two axis lengths; shapes and dims lose both entries -/
theorem C19_mean_nested (a : Arr) (k1 k2 : Nat) (hk1 : k1 < a.shape.length)
    (hk2 : k2 < (a.shape.eraseIdx k1).length) (hwf : a.data.length = prod a.shape) :
    ∃ r1 r2, meanArr a k1 = .ok r1 ∧ meanArr r1 k2 = .ok r2 ∧
      r2.shape = (a.shape.eraseIdx k1).eraseIdx k2 ∧ r2.dims = (a.dims.eraseIdx k1).eraseIdx k2 ∧
      r2.data.length = prod r2.shape ∧
      r2.den = a.den * a.shape[k1] * (a.shape.eraseIdx k1)[k2] := by
  obtain ⟨r1, h1, s1, d1, l1, n1⟩ := C19_mean_shape a k1 hk1 hwf
  have hk2' : k2 < r1.shape.length := by rw [s1]; exact hk2
  obtain ⟨r2, h2, s2, d2, l2, n2⟩ := C19_mean_shape r1 k2 hk2' l1
  refine ⟨r1, r2, h1, h2, ?_, ?_, l2, ?_⟩
  · rw [s2, s1]
  · rw [d2, d1]
  · rw [n2, n1]; congr 1; simp [s1]

/-- **mean, the whole clause in one statement (round 7)** — for every array (any rank ≥ 1, any extents, `prod shape`
    values) and every axis *as the request spells it*, `-rank ≤ axis < rank` (numpy's valid axes: a negative one counts
    from the last): `mean` succeeds; with `k` the position of that axis counted from the front, the result's shape and
    dimension names are the source's with entry `k` removed, the denominator is multiplied by the extent of axis `k`, and
    **at every multi-index `ix` of the result the value is the sum over `i < shape[k]` of the source value at the
    multi-index `ix` with `i` inserted at position `k`** (`flatIdx`: row-major position, numpy's C order; the positions
    read are inside the data: `flatIdx_lt`, `validIx_insert`).  This is the closed form of `sumAxis` for every axis;
    `C19_mean_value0` / `C19_mean_value_succ` are its first-axis case and the recursion equation of the model. -/
theorem C19_mean (a : Arr) (axis : Int) (hlo : -(a.shape.length : Int) ≤ axis) (hhi : axis < a.shape.length)
    (hwf : a.data.length = prod a.shape) :
    ∃ (k : Nat) (hk : k < a.shape.length) (r : Arr),
      (k : Int) = (if axis < 0 then axis + a.shape.length else axis) ∧
      meanAxis a axis = .ok r ∧ r.shape = a.shape.eraseIdx k ∧ r.dims = a.dims.eraseIdx k ∧
      r.data.length = prod r.shape ∧ r.den = a.den * a.shape[k] ∧
      ∀ ix, ValidIx r.shape ix →
        r.data[flatIdx r.shape ix]? =
          some (((List.range a.shape[k]).map fun i => (a.data[flatIdx a.shape (ix.insertIdx k i)]?).getD 0).sum) ∧
        ∀ i, i < a.shape[k] → flatIdx a.shape (ix.insertIdx k i) < a.data.length := by
  have hn : ∃ k : Nat, k < a.shape.length ∧ (k : Int) = (if axis < 0 then axis + a.shape.length else axis) ∧
      normAxis a.shape.length axis = .ok k := by
    unfold normAxis
    by_cases h0 : 0 ≤ axis
    · refine ⟨axis.toNat, by omega, ?_, by simp [h0]⟩
      rw [if_neg (by omega)]; omega
    · refine ⟨(axis + a.shape.length).toNat, by omega, ?_, by simp [h0, hlo]⟩
      rw [if_pos (by omega)]; omega
  obtain ⟨k, hk, hki, hnorm⟩ := hn
  obtain ⟨r, hr, hs, hd, hl, hden⟩ := C19_mean_shape a k hk hwf
  refine ⟨k, hk, r, hki, by simp only [meanAxis, hnorm, hr], hs, hd, hl, hden, ?_⟩
  intro ix hv
  have hdata : r.data = sumAxis a.shape k a.data := by
    unfold meanArr at hr
    rw [List.getElem?_eq_getElem hk] at hr
    simp only [Except.ok.injEq] at hr
    rw [← hr]
  rw [hs] at hv ⊢
  refine ⟨by rw [hdata]; exact sumAxis_value a.shape k a.data hk ix hwf hv, fun i hi => ?_⟩
  rw [hwf]
  exact flatIdx_lt _ _ (validIx_insert a.shape k ix i hk hv hi)

/-- an axis outside `-rank ≤ axis < rank` is refused (numpy's AxisError, answered with an error document) -/
theorem C19_mean_axis_out_of_range (a : Arr) (axis : Int)
    (h : axis < -(a.shape.length : Int) ∨ (a.shape.length : Int) ≤ axis) : meanAxis a axis = .error .valueError := by
  unfold meanAxis normAxis
  rcases h with h | h
  · rw [if_neg (by omega), if_neg (by omega)]
  · rw [if_pos (by omega)]
    simp only [meanArr]
    rw [List.getElem?_eq_none (by omega)]

/-- what the repair of round 7 removed: with a negative axis the code before it dropped **no** dimension name
    (`i != axis` is true of every position) while numpy removed the axis from shape and data — `mean(a,-2)` on
    `a[y = 2][x = 3]` was declared `a[y = 3]` (and a grid kept the map of the removed axis) -/
theorem C19_mean_negative_axis_old_refuted :
    ¬ (∀ (a : Arr) (axis : Int) (r : Arr), meanAxisOld a axis = .ok r → r.dims.length = r.shape.length) ∧
    meanAxisOld ⟨[2, 3], [cs!"y", cs!"x"], [0, 1, 2, 3, 4, 5], 1⟩ (-2) = .ok ⟨[3], [cs!"y", cs!"x"], [3, 5, 7], 2⟩ ∧
    meanAxis ⟨[2, 3], [cs!"y", cs!"x"], [0, 1, 2, 3, 4, 5], 1⟩ (-2) = .ok ⟨[3], [cs!"x"], [3, 5, 7], 2⟩ := by
  have e : meanAxisOld ⟨[2, 3], [cs!"y", cs!"x"], [0, 1, 2, 3, 4, 5], 1⟩ (-2) = .ok ⟨[3], [cs!"y", cs!"x"], [3, 5, 7], 2⟩ := by
    decide
  refine ⟨fun h => ?_, e, by decide⟩
  have := h _ _ _ e
  revert this
  decide

/-- **mean on a grid: it succeeds, and the maps are the source's with the map of that axis removed** — for every grid
    whose maps are named, in order, as the dimensions of its array (distinct names: they are the grid's dict keys),
    and every valid axis as the request spells it.  (`C19_mean_grid_maps` below is the converse reading: whatever
    `meanGrid` answers has these maps, without assuming the grid well formed.) -/
theorem C19_mean_grid (g : GridA) (axis : Int) (hlo : -(g.array.shape.length : Int) ≤ axis)
    (hhi : axis < g.array.shape.length) (hm : g.maps.map (·.1) = g.array.dims) (hnd : g.array.dims.Nodup) :
    ∃ (k : Nat) (a : Arr), (k : Int) = (if axis < 0 then axis + g.array.shape.length else axis) ∧
      meanAxis g.array axis = .ok a ∧ meanGridAxis g axis = .ok ⟨a, g.maps.eraseIdx k⟩ := by
  have hn : ∃ k : Nat, k < g.array.shape.length ∧ (k : Int) = (if axis < 0 then axis + g.array.shape.length else axis) ∧
      normAxis g.array.shape.length axis = .ok k := by
    unfold normAxis
    by_cases h0 : 0 ≤ axis
    · refine ⟨axis.toNat, by omega, ?_, by simp [h0]⟩
      rw [if_neg (by omega)]; omega
    · refine ⟨(axis + g.array.shape.length).toNat, by omega, ?_, by simp [h0, hlo]⟩
      rw [if_pos (by omega)]; omega
  obtain ⟨k, hk, hki, hnorm⟩ := hn
  obtain ⟨a, ha, hg⟩ := meanGrid_ok g k hk hm hnd
  exact ⟨k, a, hki, by simp only [meanAxis, hnorm, ha], by simp only [meanGridAxis, hnorm, hg]⟩

/-- **grid maps**: the result grid keeps, in the order of the remaining dimension names, the source
    map of each remaining dimension — the map of the removed axis is gone -/
theorem C19_mean_grid_maps (g r : GridA) (axis : Nat) (h : meanGrid g axis = .ok r) :
    meanArr g.array axis = .ok r.array ∧
    r.maps.map (·.1) = g.array.dims.eraseIdx axis ∧
    ∀ m ∈ r.maps, m ∈ g.maps := by
  unfold meanGrid at h
  cases ha : meanArr g.array axis with
  | error e => simp [ha] at h
  | ok a =>
    simp only [ha] at h
    cases hm : a.dims.mapM (fun d => g.maps.find? (·.1 = d)) with
    | none => simp [hm] at h
    | some ms =>
      simp only [hm, Except.ok.injEq] at h
      subst h
      have hd : a.dims = g.array.dims.eraseIdx axis := by
        unfold meanArr at ha
        split at ha
        · simp at ha
        · simp only [Except.ok.injEq] at ha; subst ha; rfl
      refine ⟨rfl, ?_, ?_⟩
      · rw [← hd]
        clear ha hd
        generalize a.dims = ds at hm
        induction ds generalizing ms with
        | nil => simp at hm; subst hm; rfl
        | cons d ds ih =>
          simp only [List.mapM_cons, Option.bind_eq_bind, Option.pure_def, Option.bind_eq_some_iff] at hm
          obtain ⟨m, hm1, rest, hm2, hm3⟩ := hm
          simp only [Option.some.injEq] at hm3
          subst hm3
          have := List.find?_some hm1
          simp only [decide_eq_true_eq] at this
          simp [this, ih rest hm2]
      · clear ha hd
        generalize a.dims = ds at hm
        induction ds generalizing ms with
        | nil => simp at hm; subst hm; simp
        | cons d ds ih =>
          simp only [List.mapM_cons, Option.bind_eq_bind, Option.pure_def, Option.bind_eq_some_iff] at hm
          obtain ⟨m, hm1, rest, hm2, hm3⟩ := hm
          simp only [Option.some.injEq] at hm3
          subst hm3
          intro x hx
          simp only [List.mem_cons] at hx
          rcases hx with rfl | hx
          · exact List.mem_of_find?_eq_some hm1
          · exact ih rest hm2 x hx

/-- **bounds**: the loop over the children keeps exactly the records that lie inside the closed
    interval of every X / Y / Z axis column, in their original order (`min = max` is equality). -/
theorem C19_bounds (iv : Axis → Int × Int) (cols : List (Option Axis)) (rows : List (List Int)) :
    bounds iv cols rows = rows.filter (keepAll iv cols.zipIdx) ∧
    (bounds iv cols rows).Sublist rows ∧
    ∀ lo hi v, inIv lo hi v = true ↔ lo ≤ v ∧ v ≤ hi := by
  have e := boundsLoop_eq_filter iv cols.zipIdx rows
  refine ⟨e, ?_, inIv_iff⟩
  unfold bounds; rw [e]; exact List.filter_sublist

/-- **bounds, by membership**: a record is in the answer exactly when it is a source record and, for every column
    with an X / Y / Z axis attribute (position `i`), it has a value there that lies in that axis' closed interval; the
    columns without such an attribute do not matter.  (A record too short to have column `i` is dropped: the model's
    rows are lists; the generator's and pydap's records always have one value per column.) -/
theorem C19_bounds_mem (iv : Axis → Int × Int) (cols : List (Option Axis)) (rows : List (List Int)) (r : List Int) :
    r ∈ bounds iv cols rows ↔
      r ∈ rows ∧ ∀ (i : Nat) (ax : Axis), cols[i]? = some (some ax) → ∃ v : Int, r[i]? = some v ∧ (iv ax).1 ≤ v ∧ v ≤ (iv ax).2 := by
  rw [(C19_bounds iv cols rows).1, List.mem_filter]
  refine and_congr_right fun _ => ?_
  simp only [keepAll, List.all_eq_true]
  constructor
  · intro h i ax hi
    have hm : (some ax, i) ∈ cols.zipIdx := by
      rw [List.mem_zipIdx_iff_getElem?]; simpa using hi
    have := h _ hm
    simp only [keepRow] at this
    split at this
    · rename_i v hv; exact ⟨v, hv, (inIv_iff _ _ _).1 this⟩
    · cases this
  · rintro h ⟨oa, i⟩ hm
    cases oa with
    | none => rfl
    | some ax =>
      have hi : cols[i]? = some (some ax) := by
        have := List.mem_zipIdx_iff_getElem?.1 hm; simpa using this
      obtain ⟨v, hv, hb⟩ := h i ax hi
      simp only [keepRow, hv]
      exact (inIv_iff _ _ _).2 hb

/-- **The function proxy's id string parses back to the call tree it was built from**, character by
    character, for call trees of any depth and any arity (zero included, since the repair of
    `tokenize`): `render` is `ServerFunction.__call__`'s `name + "(" + ",".join(params) + ")"` with
    nested results contributing their own id, `parseCall` is `eval_function` (FUNCTION regexp: first
    `(`, last `)`; split at the commas where the parenthesis count is 0; recursion on tokens that match
    FUNCTION).  `Arg.Ok`: names and leaf texts contain none of `(`, `)`, `,` and leaves are not empty
    — variable ids, numbers as `%.6g` prints them, quoted strings without these characters.  The
    evaluator's own fuel (the length of the text) suffices, as does any fuel ≥ the nesting depth. -/
theorem C19_proxy (t : Arg) (h : t.Ok) :
    parseCall (render t).length (render t) = t ∧
    ∀ fuel, t.depth ≤ fuel → parseCall fuel (render t) = t :=
  ⟨parseCall_render t h _ (depth_le_length t), fun fuel hf => parseCall_render t h fuel hf⟩

/-- a clause `lhs OP rest` whose left-hand side holds no parenthesis is never a call, whatever its
    constant holds (`s.name="(a)"`, `s.t!="mean(a,0)"`): since the repair `is_call` looks for a
    comparison in front of the first parenthesis.  Before it such a clause was routed to the function
    evaluator and answered with an error. -/
theorem C19_comparison_not_call (lhs rest : Str) (c : Char) (hc : c = '<' ∨ c = '>' ∨ c = '=')
    (hl : '(' ∉ lhs) : isCallSel (lhs ++ c :: rest) = false :=
  isCallSel_comparison lhs rest c hc hl

/-- **Transparency for every function-free constraint of C04's grammar**: no call item in the
    projection and every selection clause a comparison whose left-hand side holds no parenthesis —
    the constants are arbitrary — gives the wrapped application's own answer. -/
theorem C19_transparent_clauses (app : Str → Str → Outcome) (fn : Str → Str → Str → Except Exc Outcome)
    (path query pre resp : Str) (proj : List ProjItem) (sel : List Str)
    (hq : parseCE query = .ok (proj, sel)) (hp : rsplitDot path = some (pre, resp))
    (hproj : proj.any isCallItem = false)
    (hsel : ∀ s ∈ sel, ∃ lhs c rest, s = lhs ++ c :: rest ∧ (c = '<' ∨ c = '>' ∨ c = '=') ∧ '(' ∉ lhs) :
    ssf app fn path query = app path query := by
  apply C19_transparent app fn path query pre resp proj sel hq hp
  unfold hasCall
  rw [hproj, Bool.or_false, List.any_eq_false]
  intro s hs
  obtain ⟨lhs, c, rest, rfl, hc, hl⟩ := hsel s hs
  simp [isCallSel_comparison lhs rest c hc hl]

/-- **Transparency from the request TEXT (round 7)**: a constraint that parses and whose text (after the one
    `unquote` of `parse_ce`) holds no `(` is handed to the wrapped application unchanged — neither a projection item nor a
    selection clause can be a call.  Together with `C19_transparent_clauses` (clauses whose *constant* holds
    parentheses) this covers the function-free constraints of C04/C06 without referring to the middleware's own test. -/
theorem C19_transparent_text (app : Str → Str → Outcome) (fn : Str → Str → Str → Except Exc Outcome)
    (path query pre resp : Str) (proj : List ProjItem) (sel : List Str)
    (hq : parseCE query = .ok (proj, sel)) (hp : rsplitDot path = some (pre, resp))
    (hn : '(' ∉ unquote query) :
    ssf app fn path query = app path query :=
  C19_transparent app fn path query pre resp proj sel hq hp (hasCall_no_paren query proj sel hq hn)

/-- **the value of a mean of a mean, one formula**: at every multi-index `ix` of the result, the double sum over the
    two removed axes of the source value at `ix` with `i2` inserted at `k2` and then `i1` at `k1` (the common denominator
    is the product of the two extents: `C19_mean_nested`) -/
theorem C19_mean_nested_value (a r1 r2 : Arr) (k1 k2 : Nat) (hwf : a.data.length = prod a.shape)
    (h1 : meanArr a k1 = .ok r1) (h2 : meanArr r1 k2 = .ok r2) (hk1 : k1 < a.shape.length)
    (hk2 : k2 < (a.shape.eraseIdx k1).length) (ix : List Nat) (hv : ValidIx r2.shape ix) :
    r2.data[flatIdx r2.shape ix]? =
      some (((List.range (a.shape.eraseIdx k1)[k2]).map fun i2 =>
        ((List.range a.shape[k1]).map fun i1 =>
          (a.data[flatIdx a.shape ((ix.insertIdx k2 i2).insertIdx k1 i1)]?).getD 0).sum).sum) :=
  meanArr_nested_value a r1 r2 k1 k2 hwf h1 h2 hk1 hk2 ix hv

/-- **nesting to any depth, from the text**: the id `mean(…mean(mean(v,k1),k2)…,kn)` — as the client's proxy renders
    it (`render`) and as `eval_function` parses it (`parseCall`, its own fuel) — evaluates (`evalMean`: arguments first,
    then the function) to the chain `mean(·,kn) ∘ … ∘ mean(·,k1)` on the variable `v`, for every depth `n`, every
    variable name and axis tokens free of `( ) ,` that read as decimal integers (negative ones included).  Each link of
    the chain is `C19_mean`. -/
theorem C19_mean_nested_text (env : Str → Option Arr) (v : Str) (a : Arr) (ks : List Str) (axes : List Int)
    (hv : Plain v ∧ v ≠ []) (henv : env v = some a) (hks : ∀ k ∈ ks, Plain k ∧ k ≠ [])
    (hax : ks.map parseIntChars = axes.map some) :
    evalMean env (parseCall (render (meanTree v ks)).length (render (meanTree v ks))) = meanChainI (.ok a) axes := by
  have hok : (meanTree v ks).Ok := meanTree_ok v hv ks (.tok v) (by simp only [Arg.Ok]; exact hv) hks
  rw [(C19_proxy _ hok).1]
  unfold meanTree
  rw [evalMean_fold env ks axes _ hax]
  simp only [evalMean, henv]

/-- the guard is sharp: a string argument that contains a comma is split into two tokens (`encode`
    does not escape and the tokeniser does not know quotes), and an empty leaf is indistinguishable
    from no argument -/
theorem C19_proxy_guard_sharp :
    parseCall 9 (render (.call cs!"f" [.tok cs!"\"a,b\""])) = .call cs!"f" [.tok cs!"\"a", .tok cs!"b\""] ∧
    parseCall 3 (render (.call cs!"f" [.tok []])) = .call cs!"f" [] := ⟨rfl, rfl⟩

/-! ### non-vacuity -/

example : functionMatch cs!"mean(mean(g,0),1)" = some (cs!"mean", cs!"mean(g,0),1") := by decide
example : route cs!"/d.dods" cs!"a,mean(g,0)&s.i>1&bounds(0,1)" = .function cs!"s.i>1" := by decide
example : route cs!"/d.dods" cs!"a[0:2]&s.i>1" = .pass := by decide
example : route cs!"/d.dods" cs!"s&s.t=\"(a)\"&s.u!=\"mean(a,0)\"" = .pass := by decide
example : isCallSel cs!"bounds(0,1)>=1" = true ∧ isCallSel cs!"s.t=\"(a)\"" = false := by decide
example : meanArr ⟨[2, 3], [cs!"y", cs!"x"], [1, 2, 3, 4, 5, 6], 1⟩ 0 = .ok ⟨[3], [cs!"x"], [5, 7, 9], 2⟩ := by decide
example : meanArr ⟨[2, 3], [cs!"y", cs!"x"], [1, 2, 3, 4, 5, 6], 1⟩ 1 = .ok ⟨[2], [cs!"y"], [6, 15], 3⟩ := by decide
-- the whole `mean` clause on a rank-3 array, axis -2 (= 1 from the front): hypotheses hold, the value at multi-index [1, 0]
example : ∃ (k : Nat) (_ : k < 3) (r : Arr), (k : Int) = 1 ∧
    meanAxis ⟨[2, 2, 2], [cs!"z", cs!"y", cs!"x"], [1, 2, 3, 4, 5, 6, 7, 8], 1⟩ (-2) = .ok r ∧ r.shape = [2, 2] ∧
    r.dims = [cs!"z", cs!"x"] ∧ r.data[flatIdx r.shape [1, 0]]? = some (5 + 7) :=
  ⟨1, by decide, ⟨[2, 2], [cs!"z", cs!"x"], [4, 6, 12, 14], 2⟩, rfl, by decide, rfl, rfl, by decide⟩
example : ValidIx [2, 2] [1, 0] ∧ flatIdx [2, 2, 2] ([1, 0].insertIdx 1 1) = 6 ∧ ¬ ValidIx [2, 2] [1, 2] := by
  simp [ValidIx, flatIdx, prod]
example : meanAxis ⟨[2, 3], [cs!"y", cs!"x"], [1, 2, 3, 4, 5, 6], 1⟩ (-1) = meanArr ⟨[2, 3], [cs!"y", cs!"x"], [1, 2, 3, 4, 5, 6], 1⟩ 1 ∧
    meanAxis ⟨[2, 3], [cs!"y", cs!"x"], [1, 2, 3, 4, 5, 6], 1⟩ (-3) = .error .valueError ∧
    meanAxis ⟨[2, 3], [cs!"y", cs!"x"], [1, 2, 3, 4, 5, 6], 1⟩ 2 = .error .valueError := by decide
-- transparency from the text: the hypotheses hold for an ordinary constraint, and fail for one with a call
example : '(' ∉ unquote cs!"a[0:2],s.i&s.i>1&s.t=%22x%22" ∧ '(' ∈ unquote cs!"a,mean%28b,0%29" := by decide
-- nesting from the text: depth 3 on a rank-3 array, axes -1, 0, 0
example : render (meanTree cs!"a" [cs!"-1", cs!"0", cs!"0"]) = cs!"mean(mean(mean(a,-1),0),0)" := by decide
example : evalMean (fun s => if s = cs!"a" then some ⟨[2, 2, 2], [cs!"z", cs!"y", cs!"x"], [1, 2, 3, 4, 5, 6, 7, 8], 1⟩ else none)
      (parseCall 26 cs!"mean(mean(mean(a,-1),0),0)") = .ok ⟨[], [], [36], 8⟩ := by rfl
example : [cs!"-1", cs!"0", cs!"0"].map parseIntChars = ([-1, 0, 0] : List Int).map some ∧
    (∀ k ∈ [cs!"-1", cs!"0", cs!"0"], Plain k ∧ k ≠ []) ∧
    meanChainI (.ok ⟨[2, 2, 2], [cs!"z", cs!"y", cs!"x"], [1, 2, 3, 4, 5, 6, 7, 8], 1⟩) [-1, 0, 0] = .ok ⟨[], [], [36], 8⟩ :=
  ⟨by decide, by decide, by rfl⟩
-- a grid: the map of the removed axis goes, the other stays
example : meanGridAxis ⟨⟨[2, 3], [cs!"y", cs!"x"], [1, 2, 3, 4, 5, 6], 1⟩, [(cs!"y", [10, 20]), (cs!"x", [7, 8, 9])]⟩ (-1)
    = .ok ⟨⟨[2], [cs!"y"], [6, 15], 3⟩, [(cs!"y", [10, 20])]⟩ := by decide
example : bounds (fun a => match a with | .x => (1, 3) | .y => (5, 5) | .z => (0, 9)) [some .x, none, some .y]
    [[1, 0, 5], [4, 0, 5], [2, 7, 5], [3, 0, 6]] = [[1, 0, 5], [2, 7, 5]] := by decide
example : render (.call cs!"mean" [.call cs!"mean" [.tok cs!"g.v", .tok cs!"0"], .call cs!"now" [], .tok cs!"-1.5e+06"])
    = cs!"mean(mean(g.v,0),now(),-1.5e+06)" := by decide
example : (Arg.call cs!"mean" [.call cs!"mean" [.tok cs!"g.v", .tok cs!"0"], .call cs!"now" [], .tok cs!"-1.5e+06"]).Ok := by
  simp only [Arg.Ok, Arg.OkList]; decide
example : parseCall 40 cs!"mean(mean(g.v,0),now(),-1.5e+06)"
    = .call cs!"mean" [.call cs!"mean" [.tok cs!"g.v", .tok cs!"0"], .call cs!"now" [], .tok cs!"-1.5e+06"] := rfl

/-! ### the tie by translation: the *source text* of the pass-through test takes the model's routing decision

`Pydap.Gen.src_ssf_pass_test` (PydapModel/Generated/SsfSrc.lean) is the MiniPy tree of the `if` statement after the first
`path, response = req.path.rsplit(".", 1)` of `ServerSideFunctions.handle`, regenerated on every run by
`harness/py2lean.py`; `response` and `called` are inputs (`called` is bound to the model's `hasCall`: the two `any(…)`
over generators are outside the fragment, and tied by the correspondence run). -/

open MiniPy in
/-- for every request whose constraint parses and whose path has an extension: the interpreted statement returns
    `self.app(environ, start_response)` exactly when the model routes the request to `.pass` (response `das`, or no
    call), and falls through to the function branch otherwise -/
theorem C19_source_pass_test (path query pre resp : Str) (proj : List ProjItem) (sel : List Str)
    (hq : parseCE query = .ok (proj, sel)) (hp : rsplitDot path = some (pre, resp)) :
    runItem [("response", .str (codesOf resp)), ("called", .bool (hasCall proj sel))] Gen.src_ssf_pass_test "@ret"
      = (if route path query = .pass then .ok (.str passTag) else .error .nameError) := by
  rw [src_ssf_pass_test_eq]
  have := route_pass_iff path query pre resp proj sel hq hp
  by_cases h : route path query = .pass
  · rw [if_pos h, if_pos (this.mp h)]
  · rw [if_neg h, if_neg (fun e => h (this.mpr e))]

-- non-vacuity: a `.dds` request with a call is not passed through, the same request for `.das` is
open MiniPy in
example : runItem [("response", .str (codesOf cs!"dds")), ("called", .bool true)] Gen.src_ssf_pass_test "@ret"
    = .error .nameError := by rfl
open MiniPy in
example : runItem [("response", .str (codesOf cs!"das")), ("called", .bool true)] Gen.src_ssf_pass_test "@ret"
    = .ok (.str passTag) := by rfl

/-! ### the tie by translation: the *source text* of `is_call` computes `isCallSel`

`Pydap.Gen.src_is_call` is the MiniPy tree of the whole body of wsgi/ssf.py `is_call`
(`match = FUNCTION.match(selection); return bool(match) and not RELOP.search(match.group(1))`).  Opaque, exactly:
the two regexp calls.  `@function_match` stands for `FUNCTION.match(selection)` and is bound to the model's
`functionMatch` (`fmatchVal`: None, or a match object with groups 0–2); `@relop_search` stands for
`RELOP.search(match.group(1))` and is bound to the model's `relopSearch` of the name (`rsearchOf`: None or an arbitrary
match object `g`; arbitrary `junk` when FUNCTION does not match — the source then never evaluates it).  That the regexps
*are* `functionMatch` / `relopSearch` is the correspondence run's business, not this theorem's.  Carried by the source:
the truth test of the match object, the short-circuit `and`, the negation, which group is searched. -/

open MiniPy in
/-- for every selection text the interpreted body of `is_call` returns the model's `isCallSel` -/
theorem C19_source_is_call (s : Str) (g : List (List Nat)) (junk : MiniPy.Val) :
    runItem [("selection", .str (codesOf s)), ("@function_match", fmatchVal s), ("@relop_search", rsearchOf g junk s)]
        Gen.src_is_call "@ret"
      = .ok (.bool (isCallSel s)) :=
  src_is_call_eq s g junk

open MiniPy in
/-- the text the source hands to `RELOP.search` is group 1 of the FUNCTION match — the name before the first
    parenthesis, which is what the model's `isCallSel` searches; without a match the expression is not evaluable -/
theorem C19_source_is_call_relop_arg (s : Str) :
    runItem [("selection", .str (codesOf s)), ("@function_match", fmatchVal s)] Gen.src_is_call_relop_arg "@arg"
      = (match functionMatch s with
         | some (name, _) => .ok (.str (codesOf name))
         | none => .error (.raised "AttributeError")) := by
  cases h : functionMatch s with
  | none => exact src_is_call_relop_arg_none s h
  | some na => exact src_is_call_relop_arg_eq s na.1 na.2 h

open MiniPy in
example : runItem [("selection", .str (codesOf cs!"bounds(0,1)>=1")), ("@function_match", fmatchVal cs!"bounds(0,1)>=1"),
    ("@relop_search", rsearchOf [] .none cs!"bounds(0,1)>=1")] Gen.src_is_call "@ret" = .ok (.bool true) := by decide
open MiniPy in
example : runItem [("selection", .str (codesOf cs!"s.t=\"(a)\"")), ("@function_match", fmatchVal cs!"s.t=\"(a)\""),
    ("@relop_search", rsearchOf [[61]] .none cs!"s.t=\"(a)\"")] Gen.src_is_call "@ret" = .ok (.bool false) := by decide
open MiniPy in
example : runItem [("selection", .str (codesOf cs!"s.i>1")), ("@function_match", fmatchVal cs!"s.i>1"),
    ("@relop_search", rsearchOf [] (.int 7) cs!"s.i>1")] Gen.src_is_call "@ret" = .ok (.bool false) := by decide

/-! ### round 6: calls beside ordinary projection items (`ServerSideFunctions.handle` past the routing)

`fnDataset ev ds proj sel` is the dataset the function branch hands to the response class: inner request (the
function-free clauses, no projection) answered by `BaseHandler`, `fix_shorthand`, the split into ordinary items and
calls, `apply_projection` on the ordinary items, the insertion loop.  `ev inner call` stands for
`eval_function(dataset, call, self.functions)`.  Hypotheses of the two theorems, all of them facts about what the
middleware is given: `Keyed ds` (names are dict keys: pairwise distinct; so are column names; a record has one value per
column), and the selection `sel` as `parse_ce` hands it over with no call in it, no `%` left in a clause, the first clause a
comparison and not spelled `dap4.ce=…` (`C19_inner_reparse_sharp` below: without a comparison in the first clause the
inner request reads that clause as a *projection*). -/

/-- **the ordinary items are served as without the calls, the results follow**: if the function branch answers, the
    calls were all evaluated on the dataset with the selection applied, and
    * with at least one ordinary item, the handler answers the request *without the calls* (`constrain`, hyperslabs and
      record ranges included) and the answer is that very dataset — same variables, same declarations, same values,
      same order — followed by the results whose name was still free, in the order of the calls;
    * with calls only, the answer holds the results only (the handler would serve *every* variable for an empty
      projection; the middleware does not). -/
theorem C19_ordinary_items_unchanged (ev : Dataset → Str → Except Exc Var) (ds ans : Dataset)
    (proj : List ProjItem) (sel : List Str) (hk : Keyed ds)
    (hs : ∀ s ∈ sel, s ≠ [] ∧ '&' ∉ s ∧ '%' ∉ s ∧ isCallSel s = false)
    (hh : ∀ s ∈ sel.head?, s.any isRelChar = true) (hd : (stripped sel).take 8 ≠ dap4Prefix)
    (hp : proj ≠ []) (h : fnDataset ev ds proj sel = .ok ans) :
    ∃ inner rs, applySelection sel ds = .ok inner ∧ evalCalls ev inner (callsOf proj) = .ok rs ∧
      (ordinary proj ≠ [] → ∃ base, constrain ds (ordinary proj) sel = .ok base ∧
        ans = { base with vars := base.vars ++ appended (base.vars.map Var.name) rs }) ∧
      (ordinary proj = [] → ans = { inner with vars := appended [] rs }) := by
  unfold fnDataset at h
  have hc : constrained ds (stripped sel) = applySelection sel ds := by
    unfold constrained; rw [parseCE_stripped sel hs hh hd]; exact constrain_nil ds sel hk
  rw [hc] at h
  cases h1 : applySelection sel ds with
  | error e => simp [h1] at h
  | ok inner =>
    have hno : sel.any isCallSel = false := List.any_eq_false.mpr (fun s hs' => by simp [(hs s hs').2.2.2])
    simp only [h1, hno, Bool.false_eq_true, ↓reduceIte] at h
    obtain ⟨items, base, rs, hi, hb, hr, ha⟩ := fnProject_ok ev inner ans proj hp h
    refine ⟨inner, rs, rfl, hr, ?_, ?_⟩
    · intro hne
      exact ⟨base, by rw [constrain_cons ds inner _ sel hne h1, hi]; exact hb, ha⟩
    · intro he
      rw [he] at hi
      simp only [List.mapM_nil, pure, Except.pure, Except.ok.injEq] at hi
      subst hi
      have : base = { inner with vars := [] } := by
        have : applyProjection [] inner = .ok { inner with vars := [] } := rfl
        rw [this] at hb; exact (Except.ok.inj hb).symm
      subst this
      simpa using ha

/-- **errors**: a request whose ordinary items (with the function-free selection) the handler answers with an error
    document is not answered by the function branch either; conversely (`C19_ordinary_items_unchanged`) when the
    function branch answers, the handler answers the request without the calls.  What can fail *beside* that: the
    evaluation of a call, a call spelled with one character (`fix_shorthand` pops from a string: AttributeError), and
    the unresolved insertions. -/
theorem C19_ordinary_item_fails (ev : Dataset → Str → Except Exc Var) (ds : Dataset)
    (proj : List ProjItem) (sel : List Str) (e : Exc) (hk : Keyed ds)
    (hs : ∀ s ∈ sel, s ≠ [] ∧ '&' ∉ s ∧ '%' ∉ s ∧ isCallSel s = false)
    (hh : ∀ s ∈ sel.head?, s.any isRelChar = true) (hd : (stripped sel).take 8 ≠ dap4Prefix)
    (hne : ordinary proj ≠ []) (he : constrain ds (ordinary proj) sel = .error e) :
    ∃ e', fnDataset ev ds proj sel = .error e' := by
  cases h : fnDataset ev ds proj sel with
  | error e' => exact ⟨e', rfl⟩
  | ok ans =>
    have hp : proj ≠ [] := fun e0 => hne (by rw [e0]; rfl)
    obtain ⟨_, _, _, _, h1, _⟩ := C19_ordinary_items_unchanged ev ds ans proj sel hk hs hh hd hp h
    obtain ⟨base, hb, _⟩ := h1 hne
    rw [he] at hb; cases hb

/-- **order of the results**: results with pairwise distinct names, none of them the name of an ordinary variable of
    the answer, are all in the answer, after the ordinary variables, in the order of the calls.  Otherwise: what is
    appended is a sub-list of the results in call order; a result whose name is taken — by an ordinary variable or by an
    earlier result — is *not in the answer* (for a `BaseType` result; a constructor is merged into the variable of that
    name: not resolved by the model). -/
theorem C19_result_order (names : List Str) (rs : List Var) :
    ((rs.map Var.name).Nodup → (∀ v ∈ rs, v.name ∉ names) → appended names rs = rs) ∧
    (appended names rs).Sublist rs ∧
    (∀ v, names.contains v.name = true → appended names (v :: rs) = appended names rs) := by
  refine ⟨appended_all names rs, ?_, fun v hv => by simp only [appended, hv, ↓reduceIte]⟩
  induction rs generalizing names with
  | nil => exact List.Sublist.refl _
  | cons v vs ih =>
    cases hc : names.contains v.name
    · simp only [appended, hc, Bool.false_eq_true, ↓reduceIte]; exact (ih _).cons_cons v
    · simp only [appended, hc, ↓reduceIte]; exact (ih _).cons v

/-- the whole answer: for a request `route` sends to the function branch, with a modelled response, the middleware
    answers 200 with the body the response class prints for `fnDataset`'s dataset -/
theorem C19_function_branch_answer (fmt : Int → Str) (ev : Dataset → Str → Except Exc Var) (ds ans : Dataset)
    (path query pre resp : Str) (proj : List ProjItem) (sel : List Str) (k : Kind)
    (hq : parseCE query = .ok (proj, sel)) (hp : rsplitDot path = some (pre, resp)) (hd : resp ≠ cs!"das")
    (hc : hasCall proj sel = true) (hk : lookupKind resp = some k) (hko : k ≠ .other)
    (h : fnDataset ev ds proj sel = .ok ans) :
    ssfHandle fmt ev ds path query = .ok k (bodyOf fmt k ans) := by
  have hr := C19_strip path query pre resp proj sel hq hp hd hc
  unfold ssfHandle ssf
  rw [hr]
  simp only [fnBranch, hq, hp, hk, h]

/-- where the inner request differs from the handler's reading of the same clauses: a function-free clause without a
    comparison (`…&s`), which the handler ignores, is the *projection* of the inner request -/
theorem C19_inner_reparse_sharp :
    parseCE (stripped [cs!"s", cs!"f(1)"]) = .ok ([.path [(cs!"s", [])]], []) := by decide

-- non-vacuity: a dataset with an array and a sequence; `a[1:2]` beside `mean(b,0)` and `s.i>1`
def exDs : Dataset := ⟨cs!"d", [.base { name := cs!"a", ty := cs!"Int32", shape := [3], dims := [], data := [5, 6, 7] },
  .base { name := cs!"b", ty := cs!"Int32", shape := [2], dims := [], data := [1, 3] }, .seq cs!"s" [(cs!"i", cs!"Int32")] [[1], [2], [3]]]⟩
def exEv (_ : Dataset) (c : Str) : Except Exc Var :=
  if c = cs!"mean(b,0)" then .ok (.base { name := cs!"b", ty := cs!"Float64", shape := [], dims := [], data := [2] })
  else if c = cs!"mean(a,0)" then .ok (.base { name := cs!"a", ty := cs!"Float64", shape := [], dims := [], data := [6] }) else .error .keyError

example : Keyed exDs := by
  refine ⟨by decide, ?_⟩
  intro v hv
  simp only [exDs, List.mem_cons, List.not_mem_nil, or_false] at hv
  rcases hv with rfl | rfl | rfl
  · trivial
  · trivial
  · exact ⟨by decide, by decide⟩
example : (fnDataset exEv exDs [.call cs!"mean(b,0)", .path [(cs!"a", [⟨some 1, some 3, some 1⟩])], .path [(cs!"i", [])]] [cs!"s.i>1"]).map (·.shown.vars)
    = .ok [.base { name := cs!"a", ty := cs!"Int32", shape := [2], dims := [], data := [6, 7] }, .seq cs!"s" [(cs!"i", cs!"Int32")] [[2], [3]],
           .base { name := cs!"b", ty := cs!"Float64", shape := [], dims := [], data := [2] }] := by decide
-- a result whose name is taken is not in the answer; calls only: the results only
example : (fnDataset exEv exDs [.path [(cs!"a", [])], .call cs!"mean(a,0)"] []).map (·.shown.vars)
    = .ok [.base { name := cs!"a", ty := cs!"Int32", shape := [3], dims := [], data := [5, 6, 7] }] := by decide
example : (fnDataset exEv exDs [.call cs!"mean(a,0)", .call cs!"mean(b,0)"] []).map (·.shown.vars)
    = .ok [.base { name := cs!"a", ty := cs!"Float64", shape := [], dims := [], data := [6] }, .base { name := cs!"b", ty := cs!"Float64", shape := [], dims := [], data := [2] }] := by decide
-- a failing ordinary item fails the request
example : ∃ e, constrain exDs [.path [(cs!"a", [⟨some 5, some 6, some 1⟩])]] [] = .error e ∧
    fnDataset exEv exDs [.path [(cs!"a", [⟨some 5, some 6, some 1⟩])], .call cs!"mean(b,0)"] [] = .error e := ⟨.ceError, by decide, by decide⟩
example : ssfHandle intText exEv exDs cs!"/d.dds" cs!"mean(b,0),i&s.i>1"
    = .ok .dds (.complete cs!"Dataset {\n    Sequence {\n        Int32 i;\n    } s;\n    Float64 b;\n} d;\n") := by decide

/-! ### round 6: the keyword functions of an application are that application's (`__init__`) -/

/-- **per-application function tables**: for every history of application constructions with arbitrary keyword
    tables, `self.functions[name]` of application `i` is the entry of *its own* keywords when it was built with that
    keyword (the last one, were a name given twice), else the stock function — whatever the other applications were
    built with, before or after; and `load_functions()` still hands out the stock table afterwards. -/
theorem C19_functions_per_application (stock : Table) (kws : List Table) (i : Nat) (hi : i < kws.length) (n : Str) :
    appLookup (buildApps ⟨stock, []⟩ kws) i n = (tlookup kws[i].reverse n).or (tlookup stock n) ∧
    (loadFunctions (buildApps ⟨stock, []⟩ kws)).1 = stock := by
  refine ⟨?_, by simp [loadFunctions, buildApps_stock]⟩
  unfold appLookup
  rw [buildApps_apps]
  simp only [List.nil_append, List.getElem?_map, List.getElem?_eq_getElem hi, Option.map_some, Option.bind_some]
  exact tlookup_tupdate _ _ _

/-- the statement has teeth: the process of seed C19-z (one memoised table that `update` writes into) violates it —
    a default application built *before* one with `mean=…` looks the foreign function up -/
theorem C19_shared_table_refuted :
    ¬ ∀ (stock : Table) (kws : List Table) (i : Nat) (hi : i < kws.length) (n : Str),
      appLookupShared (buildAppsShared ⟨stock, 0⟩ kws) i n = (tlookup kws[i].reverse n).or (tlookup stock n) := by
  intro h
  have := h [(cs!"mean", 0)] [[], [(cs!"mean", 7)]] 0 (by decide) cs!"mean"
  revert this
  decide

example : appLookup (buildApps ⟨[(cs!"mean", 0), (cs!"bounds", 1)], []⟩ [[], [(cs!"mean", 7), (cs!"f", 8)], []]) 0 cs!"mean" = some 0 := by decide
example : appLookup (buildApps ⟨[(cs!"mean", 0), (cs!"bounds", 1)], []⟩ [[], [(cs!"mean", 7), (cs!"f", 8)], []]) 1 cs!"mean" = some 7 := by decide
example : appLookup (buildApps ⟨[(cs!"mean", 0), (cs!"bounds", 1)], []⟩ [[], [(cs!"mean", 7), (cs!"f", 8)], []]) 2 cs!"f" = none := by decide
example : (buildApps ⟨[(cs!"mean", 0), (cs!"bounds", 1)], []⟩ [[(cs!"f", 8), (cs!"mean", 7)]]).apps
    = [[(cs!"mean", 7), (cs!"bounds", 1), (cs!"f", 8)]] := by decide

end Pydap.C19
