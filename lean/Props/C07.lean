/-
  C07 — dataset structure survives the DDS: print → parse → print.

  All statements are about the character-level model `PydapModel/DdsText.lean` of `responses/dds.py`
  (`printDs`) and `parsers/dds.py` + `SimpleParser` (`parseDds`), for every tree, every nesting, every
  extent; no bounds.  `WFds` is the property's domain: node names are quoted names without `/`
  (`NameOk`: non-empty, characters of `name_regexp`), dimension names likewise, extents ≥ 0, sibling
  names distinct, grids non-empty.  The DAP2 type of every variable is whatever the generated
  `NUMPY_TO_DAP2_TYPEMAP` says (`printDs d = .ok s` means every dtype is in the table).

  A base variable either holds data (`nodata = false`: inside `k` sequences the leading `k` axes of its
  shape are record axes, which a DDS does not declare) or has none (`nodata = true`, pydap's `DummyData`:
  its shape is the declared shape; this is what the parser builds).  `dds()` strips the record axes only
  in the first case (repair b7ad9b3), so the text fixpoint holds for every dataset, array members of
  sequences included.
-/
import Proofs.DdsFixpoint
import Proofs.DdsSamples
import Proofs.DdsQuote
import Proofs.DdsPrintable
import Proofs.DdsFuel
import Proofs.DdsNorm
import Proofs.DdsDimWitness
import Proofs.DdsOrder
import Proofs.DdsSame
import Proofs.DdsSrc
namespace Pydap.C07
open Pydap Pydap.Dds

/-- Parsing the printed DDS of any well-formed dataset succeeds and yields the tree `normDs d`:
    same kinds, names and order (`normT` is a structure-preserving map), parser dtype of the declared
    DAP2 type, the declared extents and dimension names. -/
theorem C07_parse_print (d : Dataset) (s : Text) (hwf : WFds d) (hp : printDs d = .ok s) :
    parseDds s = .ok (normDs d) :=
  parse_print d s hp hwf

/-- The dimension-name hypothesis of `C07_parse_print` cannot be dropped: dimension names are printed verbatim
    (never quoted), and one outside `name_regexp` — the NetCDF handler's fully-qualified `/y`, DESIGN §9 #20 —
    gives a DDS that pydap's own parser rejects.  Outside C07's domain (names exclude `/`); recorded under C20. -/
theorem C07_unquoted_dimension_refuted :
    ¬ (∀ (d : Dataset) (s : Text), printDs d = .ok s → ∃ d', parseDds s = .ok d') := by
  intro h
  obtain ⟨d', hd⟩ := h slashDimWitness _ slashDimWitness_prints
  rw [slashDimWitness_does_not_parse] at hd
  cases hd

/-- The hypothesis `printDs d = .ok s` of `C07_parse_print` is not a restriction beyond the type table: the
    printer succeeds on every tree whose dtypes have an entry in `NUMPY_TO_DAP2_TYPEMAP` (every DAP2 type) and
    whose grids have an array; hence such a well-formed dataset always prints AND parses back to `normDs d`. -/
theorem C07_print_then_parse (d : Dataset) (hwf : WFds d) (hty : PrintableL d.kids) :
    ∃ s, printDs d = .ok s ∧ parseDds s = .ok (normDs d) := by
  obtain ⟨s, hs⟩ := printDs_ok d hty
  exact ⟨s, hs, parse_print d s hs hwf⟩

/-- THE FIRST SENTENCE OF THE PROPERTY, composed and in its own words (no `normDs` in the statement): every well-formed
    dataset whose dtypes are in the type table and whose dimension names, where given, are one per declared extent
    prints, the text parses, and the parsed dataset `d'` is the same tree of variables — `SameDs d d'`
    (`Proofs/DdsSame.lean`), a relation defined node by node without reference to the model's `norm*` functions:
    same kinds, names and order (members of a Grid included), same element type (the DAP2 type both dtypes are
    declared as: `dap2Of b'.dt = dap2Of b.dt`), shape = the shape a DDS declares (whole shape of a variable without
    data, shape minus one record axis per enclosing Sequence of a variable holding data), dimension names = the given
    ones (an unnamed 1-d array is declared, by pydap as by every DAP2 server, with its own name as dimension name).
    And `d'` prints the very same text. -/
theorem C07_same_tree (d : Dataset) (hwf : WFds d) (hty : PrintableL d.kids) (hdims : DimsFitDs d) :
    ∃ s d', printDs d = .ok s ∧ parseDds s = .ok d' ∧ SameDs d d' ∧ printDs d' = .ok s := by
  obtain ⟨s, hs⟩ := printDs_ok d hty
  exact ⟨s, normDs d, hs, parse_print d s hs hwf, sameDs_norm d hdims, by rw [printDs_norm d, hs]⟩

/-- `SameDs` is as strong as it reads.  It fixes the other dataset completely except for the spelling of the dtypes
    (whose DAP2 type it fixes) and the data flag: two datasets that are both "the same tree" as `d` have equal names
    and equal children once dtype strings and data flags are erased (`eraseL`); and it implies equal skeletons. -/
theorem C07_same_tree_determines (d d₁ d₂ : Dataset) (h₁ : SameDs d d₁) (h₂ : SameDs d d₂) :
    d₁.name = d₂.name ∧ eraseL d₁.kids = eraseL d₂.kids ∧ skelDs d₁ = skelDs d ∧ skelDs d₂ = skelDs d :=
  ⟨(sameDs_unique h₁ h₂).1, (sameDs_unique h₁ h₂).2, sameDs_skel h₁, sameDs_skel h₂⟩

/-- "BaseType of every DAP2 type": each of the eight DAP2 base types pydap can hold is the declared type of a numpy
    dtype of the printer's table, and the parser's table knows its (lower-cased) name — so `PrintableL` excludes no DAP2
    type.  (`Url` has no numpy dtype: pydap never prints it; it is reached through `C07_foreign` only.) -/
theorem C07_types_covered :
    ∀ ty ∈ ["Byte", "Int16", "UInt16", "Int32", "UInt32", "Float32", "Float64", "String"],
      (∃ p ∈ Gen.NUMPY_TO_DAP2_TYPEMAP, p.2 = ty ∧ dap2Of p.1.toList = some ty.toList) ∧
      (lookup Gen.LOWER_DAP2_TO_NUMPY_PARSER_TYPEMAP (lower ty.toList)).isSome = true :=
  dap2_types_covered

/-- What `norm` does to a base variable below `sq` sequences, with `sh` the shape the DDS declares (the whole
    shape of a variable without data, the shape without its `sq` record axes of a variable holding data) and
    dimension names (if any) one per declared extent: name kept, shape = `sh`, dimension names kept, an
    unnamed 1-d array gets its own name as dimension name, the dtype becomes the parser dtype of its DAP2
    type, and the result is a variable without data. -/
theorem C07_norm_base (b : BaseV) (sq : Nat) (sh : List Int)
    (hsh : sh = if b.nodata = true then b.shape else b.shape.drop sq)
    (h : b.dims = [] ∨ b.dims.length = sh.length) :
    (normBase b sq).name = b.name ∧ (normBase b sq).shape = sh ∧ (normBase b sq).dt = normTy b.dt ∧
    (normBase b sq).dims = (if b.dims ≠ [] then b.dims else if sh.length = 1 then [b.name] else []) ∧
    (normBase b sq).nodata = true :=
  normBase_fields b sq sh (by rw [hsh]; rfl) h

/-- Text fixpoint, full statement, EVERY dataset (no hypothesis at all: any names, types, extents, nesting,
    array members of sequences with or without data): printing the tree that the printed DDS parses to gives
    the same result — the same text, or the same error when the dataset does not print. -/
theorem C07_fixpoint (d : Dataset) : printDs (normDs d) = printDs d :=
  printDs_norm d

/-- print → parse → print reproduces the text exactly, for every well-formed dataset that prints. -/
theorem C07_print_parse_print (d : Dataset) (s : Text) (hwf : WFds d) (hp : printDs d = .ok s) :
    ∃ d', parseDds s = .ok d' ∧ printDs d' = .ok s :=
  ⟨normDs d, parse_print d s hp hwf, by rw [printDs_norm d, hp]⟩

/-- The parsed dataset is again in the property's domain (well-formed), so the round trip can be iterated, and
    it is a normal form: printing and parsing it again returns the very same tree. -/
theorem C07_norm_idempotent (d : Dataset) :
    normDs (normDs d) = normDs d ∧ (WFds d → WFds (normDs d)) :=
  ⟨normDs_idem d, normDs_wf d⟩

/-- What the repair relies on: whatever the text (pydap's own, foreign, malformed but accepted), every variable
    of a parsed dataset is a variable without data — its shape is the declared shape, and `dds()` prints it
    without stripping anything. -/
theorem C07_parser_builds_no_data (s : Text) (d : Dataset) (h : parseDds s = .ok d) : NoDataL d.kids :=
  parseDds_nodata s d h

/-- The domain of the theorems above is reached from raw names: `_quote` (which `DapType.__init__` applies to
    every name) maps every non-empty ASCII name without `/` to a name satisfying `NameOk` — spaces, brackets, `&`, `.`,
    quotes … are percent-escaped into `name_regexp`'s alphabet.  Names starting with `dap4` (whose first 8 characters
    `_quote` passes through unquoted) are included as soon as those 8 characters are characters of `name_regexp`, which
    holds for every identifier (`dap4x`, `dap4_temp`); the former blanket exclusion `raw.take 4 ≠ "dap4"` is the special
    case where the implication is vacuous.  (`dap4 x`, with a blank among the 8, is NOT mapped into `NameOk`: see the
    example below.) -/
theorem C07_quoted_names (raw : Text) (hne : raw ≠ []) (h : ∀ c ∈ raw, c ≠ '/' ∧ c.toNat < 128)
    (hd : raw.take 4 = ['d', 'a', 'p', '4'] → ∀ c ∈ raw.take 8, isNameRe c = true) : NameOk (quoteName raw) :=
  quoteName_nameOk_any raw hne h hd

/-- The fuel of the model parser is not an artefact, for ANY input text (well-formed or not): with fuel at least
    the text length the outcome (tree or error class) no longer depends on it — for the declaration loops, for
    the `dimensions` loop inside `base` and for the maps loop inside `grid` (whose internal fuels are buffer
    lengths). So `parseDds` is a total, fuel-free function of the text, as `DDSParser.parse` is. -/
theorem C07_fuel_adequate (text : Text) (g : Nat) (h : text.length ≤ g) :
    parseDdsWith g text = parseDds text
    ∧ (∀ buf : Text, buf.length ≤ g → dimensions g buf = dimensions buf.length buf)
    ∧ (∀ buf : Text, buf.length ≤ g → mapsLoop g buf = mapsLoop buf.length buf) :=
  ⟨parseDds_fuel text g h, fun buf hb => dimensions_fuel_ge buf g hb,
   fun buf hb => mapsLoop_fuel_ge buf buf.length g (Nat.le_refl _) hb⟩

/-- Foreign style.  Any DDS written by the second, independent printer `ftextDs`
    (`PydapModel/DdsForeign.lean`: keywords and type names in any letter case, `Url`/`Int`/`UInt` or any
    other spelling the parser table knows, every dimension anonymous `[n]` or named `[d = n]`, arbitrary
    whitespace — spaces, tabs, newlines, none — between tokens except after a variable name, and names spelled RAW:
    any non-empty ASCII text without `;`, `[` and `/` that does not start with white space — `a.b c`, `u&v`, `my ds` —
    not only names already made of `name_regexp` characters; a name starting with `dap4` only when its first 8
    characters are `name_regexp` characters) parses to exactly the structure it declares (`declDs`:
    same kinds and order; every name quoted as pydap carries names (`_quote`, the identity on `name_regexp` names);
    parser dtype of the declared type; declared extents; the dimension names when ALL dimensions of the declaration are
    named — a declaration naming only some of them declares its shape and no names, `fitDims`).
    Hypotheses (`FWFds`): keywords spell their word in some letter case; type words are keys of the parser's table and
    not `grid`/`sequence`/`structure`; gaps are white space; extents ≥ 0 and dimension names in `name_regexp`;
    the QUOTED names of siblings are distinct. -/
theorem C07_foreign (d : FDataset) (hwf : FWFds d) : parseDds (ftextDs d) = .ok (declDs d) :=
  foreign_parse d hwf

/-- The one place where `C07_foreign` allows no white space cannot be opened: white space between a variable name and
    the following `;` or `[` becomes part of the name (`Int32 a ;` declares `a%20` for pydap) — the name token
    `[^;\[]+` is taken as it stands.  Texts of pydap and of the reference renderer never have it; observed by the
    harness on foreign texts, not judged (outside the styles the property lists). -/
theorem C07_foreign_space_after_name_refuted :
    ¬ (∀ w : Text, (∀ c ∈ w, isSpace c = true) →
        kidNames (parseDds ("Dataset { Int32 a".toList ++ w ++ "; } d;".toList)) = some [['a']] ∧
        kidNames (parseDds ("Dataset { Int32 a".toList ++ w ++ "[2]; } d;".toList)) = some [['a']]) := by
  intro h
  have := (h [' '] (by decide)).1
  rw [space_after_name_kept] at this
  exact absurd this (by decide)

/-- Tree identity including child ORDER, Grid members included.  `skelDs` is the tree of kinds and names of a
    dataset in the order its containers hold their members — for a Grid: the array, then the maps in the order the Grid
    holds them, whatever the array's dimensions are called and in whatever order (maps stored as `x, t, y` for an array
    `v[t][y][x]`, maps that are no dimension of the array placed before ones that are, repeated dimension names,
    dimensions without a map: `WFds` asks for none of these to be otherwise — only for names in `name_regexp`,
    distinct sibling names and non-negative extents).  The dataset parsed from the printed DDS has the same skeleton. -/
theorem C07_tree_order (d : Dataset) (s : Text) (hwf : WFds d) (hp : printDs d = .ok s) :
    ∃ d', parseDds s = .ok d' ∧ skelDs d' = skelDs d :=
  ⟨normDs d, parse_print d s hp hwf, normDs_skel d⟩

/-- A foreign-style DDS read by pydap and written again.  The dataset `d₁` parsed from any text of the foreign printer
    (raw names included: they are quoted into `name_regexp`, `RawNameOk.quoted`) prints (every dtype of the parser's
    table is one the printer knows), and that DDS `s` is a reference text in the sense of the first half of the
    property: it parses to a dataset `d₂` with the skeleton the foreign text declared (kinds, names, order of members
    and of a Grid's maps as DECLARED), and `d₂` prints `s` again exactly.  Shapes and dimension names of `d₂`:
    `C07_foreign_reprint_same`. -/
theorem C07_foreign_reprint (d : FDataset) (hwf : FWFds d) :
    ∃ d₁ s, parseDds (ftextDs d) = .ok d₁ ∧ printDs d₁ = .ok s ∧
      ∃ d₂, parseDds s = .ok d₂ ∧ skelDs d₂ = skelDs (declDs d) ∧ printDs d₂ = .ok s := by
  obtain ⟨hw, hpr⟩ := declDs_wf d hwf
  obtain ⟨s, hs⟩ := printDs_ok (declDs d) hpr
  exact ⟨declDs d, s, foreign_parse d hwf, hs, normDs (declDs d), parse_print _ s hs hw, normDs_skel _,
    by rw [printDs_norm, hs]⟩

/-- The same with the whole structure, not only the skeleton, for EVERY foreign text (full statement; until the repair of
    round 7 it was false — see below): the dataset parsed from pydap's re-rendering is the same tree of variables as the one
    the foreign text declared — kinds, names, order, DAP2 types, shapes, dimension names (`SameDs`).
    The repair: `Dataset { Int32 a[x = 2][3]; } d;` (legal DAP2: one dimension named, one not) used to parse to shape
    (2, 3) with `dims = ('x',)`; a tuple of names cannot say which axes it names, `dds()` pairs names with extents by `zip`,
    and the dataset was printed as `Int32 a[x = 2];` — an extent lost (found by this audit as the refutation of this very
    statement, replayed on the code, repaired in `parsers/dds.py base()`: such a declaration keeps its shape and gets no
    dimension names, model `fitDims`).  What a foreign text declares is now always one of the property's trees
    (`declDs_dimsFit`), so no hypothesis on the dimensions is needed. -/
theorem C07_foreign_reprint_same (d : FDataset) (hwf : FWFds d) :
    ∃ d₁ s d₂, parseDds (ftextDs d) = .ok d₁ ∧ printDs d₁ = .ok s ∧ parseDds s = .ok d₂ ∧ SameDs (declDs d) d₂ ∧
      printDs d₂ = .ok s := by
  obtain ⟨hw, hpr⟩ := declDs_wf d hwf
  obtain ⟨s, hs⟩ := printDs_ok (declDs d) hpr
  exact ⟨declDs d, s, normDs (declDs d), foreign_parse d hwf, hs, parse_print _ s hs hw,
    sameDs_norm _ (declDs_dimsFit d), by rw [printDs_norm, hs]⟩

/-! ### non-vacuity (samples and their well-formedness proofs: `Proofs/DdsSamples.lean`) -/

-- a dataset with a quoted name, a named 2-d array, an unnamed 1-d array without data, a structure, a sequence
-- with a column, an array member holding data and an array member without data, and a grid is in the domain of
-- `C07_parse_print`, `C07_print_parse_print`
example : WFds sample ∧ ∃ s, printDs sample = .ok s :=
  ⟨sample_wf, sample_prints⟩

example : PrintableL sample.kids := by
  simp [sample, PrintableL, PrintableT, TyKnown]
  decide

-- `C07_same_tree`: the sample (quoted name, named 2-d array, unnamed 1-d array, structure, sequence with members
-- holding data, grid) is in its domain
example : DimsFitDs sample := by
  simp [DimsFitDs, sample, DimsFitL, DimsFitT, DimsFitB, effShape]

example : ∃ s d', printDs sample = .ok s ∧ parseDds s = .ok d' ∧ SameDs sample d' ∧ printDs d' = .ok s :=
  C07_same_tree sample sample_wf (by simp [sample, PrintableL, PrintableT, TyKnown]; decide)
    (by simp [DimsFitDs, sample, DimsFitL, DimsFitT, DimsFitB, effShape])

-- `SameDs` has teeth: order matters (two members swapped), the record axis matters (shape (5,3) kept), and the
-- element type matters (Int16 read back as Int32)
example : ¬ SameDs ⟨['d'], [.base ⟨['a'], ['i'], [], [], false⟩, .base ⟨['b'], ['i'], [], [], false⟩]⟩
               ⟨['d'], [.base ⟨['b'], ['>', 'i'], [], [], true⟩, .base ⟨['a'], ['>', 'i'], [], [], true⟩]⟩ := by
  rintro ⟨_, h⟩
  cases h with
  | cons h _ => cases h with
    | base h => exact absurd h.name (by decide)

example : ¬ SameDs seqArrayWitness ⟨['d'], [.seq ['Q'] [.base ⟨['i'], ['>', 'h'], [5, 3], [], true⟩]]⟩ := by
  rintro ⟨_, h⟩
  cases h with
  | cons h _ => cases h with
    | seq h => cases h with
      | cons h _ => cases h with
        | base h => exact absurd h.shape (by decide)

example : ¬ SameDs ⟨['d'], [.base ⟨['a'], ['h'], [], [], false⟩]⟩ ⟨['d'], [.base ⟨['a'], ['>', 'i'], [], [], true⟩]⟩ := by
  rintro ⟨_, h⟩
  cases h with
  | cons h _ => cases h with
    | base h => exact absurd h.type (by decide)

-- a name starting with `dap4` that is an identifier is in the domain of `C07_quoted_names`; with a blank among the
-- first 8 characters it is not, and indeed `_quote` leaves the blank in place (outside `NameOk`)
example : NameOk (quoteName "dap4_temp a".toList) :=
  C07_quoted_names _ (by decide) (by decide) (by decide)

example : quoteName "dap4 x".toList = "dap4 x".toList ∧ ¬ NameOk "dap4 x".toList := by
  refine ⟨by decide, ?_⟩
  rintro ⟨_, h⟩
  exact absurd (h ' ' (by decide)) (by decide)

-- `C07_norm_base`: a member of a sequence holding 5 records of 3 values declares `[3]`
example : ∃ (b : BaseV) (sq : Nat) (sh : List Int), sh = (if b.nodata = true then b.shape else b.shape.drop sq)
    ∧ (b.dims = [] ∨ b.dims.length = sh.length) ∧ sq = 1 ∧ sh = [3] :=
  ⟨⟨['i'], ['h'], [5, 3], [], false⟩, 1, [3], by decide, Or.inl rfl, rfl, rfl⟩

example : ∃ raw : Text, raw ≠ [] ∧ (∀ c ∈ raw, c ≠ '/' ∧ c.toNat < 128) ∧
    (raw.take 4 = ['d', 'a', 'p', '4'] → ∀ c ∈ raw.take 8, isNameRe c = true) ∧ quoteName raw ≠ raw :=
  ⟨"a b[0].c&".toList, by decide, by decide, by decide, by decide⟩

-- fuel: a malformed text (parse error) and more fuel than needed
example : parseDdsWith 1000 "Dataset { Int32 a[3; } x;".toList = parseDds "Dataset { Int32 a[3; } x;".toList :=
  (C07_fuel_adequate _ 1000 (by decide)).1

-- mixed-case keywords, Url/Int, anonymous and named dimensions, tabs/newlines/no whitespace: in the domain
-- of `C07_foreign`
example : FWFds fsample := fsample_wf

-- the witness of the former finding (`Sequence Q { Int16 i }` holding 5 records of 3 values) is well-formed,
-- prints `Int16 i[i = 3];`, parses to a variable without data of declared shape (3,), and that prints the same
-- text again (`C07_fixpoint`, `C07_print_parse_print`, `C07_parser_builds_no_data` are not vacuous)
example : WFds seqArrayWitness := seqArrayWitness_wf

example : printDs seqArrayWitness
    = .ok "Dataset {\n    Sequence {\n        Int16 i[i = 3];\n    } Q;\n} d;\n".toList := seqArrayWitness_prints

example : normDs seqArrayWitness = ⟨['d'], [.seq ['Q'] [.base ⟨['i'], ['>', 'h'], [3], [['i']], true⟩]]⟩ :=
  seqArrayWitness_norm

example : printDs (normDs seqArrayWitness)
    = .ok "Dataset {\n    Sequence {\n        Int16 i[i = 3];\n    } Q;\n} d;\n".toList := by
  rw [C07_fixpoint]; exact seqArrayWitness_prints

example : ∃ s d, parseDds s = .ok d ∧ NoDataL d.kids ∧ d = normDs seqArrayWitness :=
  ⟨_, _, C07_parse_print seqArrayWitness _ seqArrayWitness_wf seqArrayWitness_prints,
   C07_parser_builds_no_data _ _ (C07_parse_print seqArrayWitness _ seqArrayWitness_wf seqArrayWitness_prints), rfl⟩

-- the fixpoint also covers datasets that do not print (same error on both sides): a dtype outside the table
example : printDs (normDs ⟨['d'], [.base ⟨['v'], ['c'], [], [], false⟩]⟩) = .error .key := by
  rw [C07_fixpoint]
  have l : lookup Gen.NUMPY_TO_DAP2_TYPEMAP (dtypeChar ['c']) = none := by decide
  simp [printDs, printL, printT, printBase, l]

-- a Grid whose maps are NOT stored in the order of the array's dimensions (array `v[t][y][x]`; maps `x`, then `h` —
-- no dimension of the array —, then `t`; `y` has no map) is in the domain of `C07_parse_print`, `C07_tree_order`,
-- `C07_print_parse_print`; the printed DDS lists the maps in STORED order, and so does the parsed dataset
example : WFds permGridWitness := permGridWitness_wf

example : printDs permGridWitness
    = .ok ("Dataset {\n    Grid {\n        Array:\n            Float64 v[t = 2][y = 3][x = 4];\n" ++
      "        Maps:\n            Float32 x[x = 4];\n            Int32 h[h = 2];\n            Float64 t[t = 2];\n    } G;\n} d;\n").toList :=
  permGridWitness_prints

example : ∃ d', parseDds ("Dataset {\n    Grid {\n        Array:\n            Float64 v[t = 2][y = 3][x = 4];\n" ++
      "        Maps:\n            Float32 x[x = 4];\n            Int32 h[h = 2];\n            Float64 t[t = 2];\n    } G;\n} d;\n").toList
      = .ok d' ∧ skelDs d' = (['d'], [.grid ['G'] [['v'], ['x'], ['h'], ['t']]]) := by
  obtain ⟨d', h1, h2⟩ := C07_tree_order permGridWitness _ permGridWitness_wf permGridWitness_prints
  exact ⟨d', h1, by rw [h2]; rfl⟩

-- the skeleton distinguishes the order of a Grid's maps: the same Grid with its maps in dimension order is another tree
example : skelDs permGridWitness ≠
    skelDs ⟨['d'], [.grid ['G'] [⟨['v'], ['d'], [2, 3, 4], [['t'], ['y'], ['x']], false⟩,
                                 ⟨['t'], ['d'], [2], [['t']], false⟩, ⟨['h'], ['i'], [2], [], false⟩,
                                 ⟨['x'], ['f'], [4], [['x']], false⟩]]⟩ := by
  simp [skelDs, skelL, skelT, permGridWitness]

-- `C07_foreign_reprint`: the foreign sample is in its domain
example : ∃ d₁ s, parseDds (ftextDs fsample) = .ok d₁ ∧ printDs d₁ = .ok s :=
  let ⟨d₁, s, h1, h2, _⟩ := C07_foreign_reprint fsample fsample_wf
  ⟨d₁, s, h1, h2⟩

-- raw names that need quoting (`my ds`, `a.b c`, `s t`, `u&v`) are in the domain of `C07_foreign` and
-- `C07_foreign_reprint`; the declared structure carries them quoted
example : FWFds fsampleRaw := fsampleRaw_wf

example : parseDds (ftextDs fsampleRaw) = .ok ⟨"my%20ds".toList,
      [.base ⟨"a%2Eb%20c".toList, ">i".toList, [2], [], true⟩,
       .struct "s%20t".toList [.base ⟨"u%26v".toList, "B".toList, [], [], true⟩]]⟩ := by
  rw [C07_foreign fsampleRaw fsampleRaw_wf, fsampleRaw_decl]

example : ∃ d₁ s, parseDds (ftextDs fsampleRaw) = .ok d₁ ∧ printDs d₁ = .ok s :=
  let ⟨d₁, s, h1, h2, _⟩ := C07_foreign_reprint fsampleRaw fsampleRaw_wf
  ⟨d₁, s, h1, h2⟩

-- `C07_foreign_reprint_same` on the former counter-example `Dataset { Int32 a[x = 2][3]; } d;`: in the domain, declares
-- shape (2, 3) without dimension names, and the re-rendered DDS parses to that same tree
example : FWFds partNamedWitness := partNamedWitness_wf

example : parseDds (ftextDs partNamedWitness) = .ok ⟨['d'], [.base ⟨['a'], ">i".toList, [2, 3], [], true⟩]⟩ := by
  rw [C07_foreign _ partNamedWitness_wf, partNamedWitness_decl]

example : ∃ d₁ s d₂, parseDds (ftextDs partNamedWitness) = .ok d₁ ∧ printDs d₁ = .ok s ∧ parseDds s = .ok d₂ ∧
    SameDs (declDs partNamedWitness) d₂ ∧ printDs d₂ = .ok s :=
  C07_foreign_reprint_same _ partNamedWitness_wf

/-! ### the tie by translation: the *source text* of every line the DDS printer yields is the model's text

`Pydap.Gen.src_dds_*` (PydapModel/Generated/DdsSrc.lean) are the MiniPy trees of the module constant `INDENT = " " * 4`, of
the top-level `yield "…".format(…)` statements of `dds(DatasetType)`, `_sequencetype`, `_structuretype`, `_gridtype`,
`_basetype` (in source order, `@line0`, `@line1`, …) and of everything `_basetype` does before its `yield` (the record
axes dropped unless the data is a `DummyData`, the three forms of the shape text), regenerated from responses/dds.py on
every run by `harness/py2lean.py`.  `"…{name}…".format(name=e)` is read as the concatenation of its literal pieces and
its arguments.  Inputs: `level`, `var.name`, `INDENT` (its own block), and for `_basetype`: the table entry
`NUMPY_TO_DAP2_TYPEMAP[var.dtype.char]` (`@type`), `var.shape`, `var.dims`, `sequence`, `isinstance(var.data, DummyData)`,
and the two joins over generators `"".join(map("[{0[0]} = {0[1]}]".format, zip(var.dims, shape)))` (`@dims_text`) and
`"".join("[{0}]".format(len) for len in shape)` (`@anon_text`), which are outside the fragment.  Not carried: the
recursion over the children (the `for` loops over `dds(child, …)` — the order and the levels are the correspondence
run's business), `.encode("ascii")`. -/

open MiniPy DdsSrc in
/-- `INDENT` is four blanks, and `level * INDENT` is the model's `indent level` -/
theorem C07_source_indent (k : Nat) :
    runItem [] Gen.src_dds_indent "INDENT" = .ok (.str indentCodes) ∧
    (List.replicate k indentCodes).flatten = codesOf (indent k) :=
  ⟨src_dds_indent_eq, indent_codes k⟩

open MiniPy DdsSrc in
/-- `_structuretype`: its two lines are the text `printT` puts around the members, at every level and for every name -/
theorem C07_source_structure_lines (name : Text) (kids : List Tmpl) (level sq : Nat) (body : Text)
    (hb : printL kids (level + 1) sq = .ok body) :
    ∃ l0 l1, runItem (linesEnv level name) Gen.src_dds_structure_lines "@line0" = .ok (.str (codesOf l0)) ∧
      runItem (linesEnv level name) Gen.src_dds_structure_lines "@line1" = .ok (.str (codesOf l1)) ∧
      printT (.struct name kids) level sq = .ok (l0 ++ body ++ l1) := by
  refine ⟨_, _, (src_dds_structure_lines_eq level name).1, (src_dds_structure_lines_eq level name).2, ?_⟩
  rw [printT, hb]

open MiniPy DdsSrc in
/-- `_sequencetype` likewise (the members are printed one sequence level deeper) -/
theorem C07_source_sequence_lines (name : Text) (kids : List Tmpl) (level sq : Nat) (body : Text)
    (hb : printL kids (level + 1) (sq + 1) = .ok body) :
    ∃ l0 l1, runItem (linesEnv level name) Gen.src_dds_sequence_lines "@line0" = .ok (.str (codesOf l0)) ∧
      runItem (linesEnv level name) Gen.src_dds_sequence_lines "@line1" = .ok (.str (codesOf l1)) ∧
      printT (.seq name kids) level sq = .ok (l0 ++ body ++ l1) := by
  refine ⟨_, _, (src_dds_sequence_lines_eq level name).1, (src_dds_sequence_lines_eq level name).2, ?_⟩
  rw [printT, hb]

open MiniPy DdsSrc in
/-- the dataset: `dds(dataset)` is called with level 0 -/
theorem C07_source_dataset_lines (d : Dataset) (body : Text) (hb : printL d.kids 1 0 = .ok body) :
    ∃ l0 l1, runItem (linesEnv 0 d.name) Gen.src_dds_dataset_lines "@line0" = .ok (.str (codesOf l0)) ∧
      runItem (linesEnv 0 d.name) Gen.src_dds_dataset_lines "@line1" = .ok (.str (codesOf l1)) ∧
      printDs d = .ok (l0 ++ body ++ l1) := by
  refine ⟨_, _, (src_dds_dataset_lines_eq 0 d.name).1, (src_dds_dataset_lines_eq 0 d.name).2, ?_⟩
  rw [printDs, hb]
  rfl

open MiniPy DdsSrc in
/-- `_gridtype`: `Grid {`, `Array:` and `Maps:` one level deeper, the closing line; around the array and the maps -/
theorem C07_source_grid_lines (name : Text) (a : BaseV) (maps : List BaseV) (level sq : Nat) (sa sm : Text)
    (ha : printBase a (level + 2) sq = .ok sa) (hm : printBases maps (level + 2) sq = .ok sm) :
    ∃ l0 l1 l2 l3, runItem (linesEnv level name) Gen.src_dds_grid_lines "@line0" = .ok (.str (codesOf l0)) ∧
      runItem (linesEnv level name) Gen.src_dds_grid_lines "@line1" = .ok (.str (codesOf l1)) ∧
      runItem (linesEnv level name) Gen.src_dds_grid_lines "@line2" = .ok (.str (codesOf l2)) ∧
      runItem (linesEnv level name) Gen.src_dds_grid_lines "@line3" = .ok (.str (codesOf l3)) ∧
      printT (.grid name (a :: maps)) level sq = .ok (l0 ++ l1 ++ sa ++ l2 ++ sm ++ l3) := by
  obtain ⟨h0, h1, h2, h3⟩ := src_dds_grid_lines_eq level name
  refine ⟨_, _, _, _, h0, h1, h2, h3, ?_⟩
  rw [printT, printGrid, ha, hm]
  simp only [List.append_assoc]

open MiniPy DdsSrc in
/-- `_basetype`, the shape text: for every base variable and sequence depth the interpreted statements before the
    `yield` leave the model's `shapeText` in `shape` -/
theorem C07_source_base_shape (b : BaseV) (sq : Nat) :
    runItem (shapeEnv b sq) Gen.src_dds_base_shape "shape" = .ok (.str (codesOf (shapeText b sq))) :=
  src_dds_base_shape_eq b sq

open MiniPy DdsSrc in
/-- `_basetype`, the line: with the table entry `ty` of the variable's type and the shape text just computed, the
    interpreted `yield` is the line `printBase` prints -/
theorem C07_source_base_line (b : BaseV) (level sq : Nat) (ty : Text)
    (ht : lookup Gen.NUMPY_TO_DAP2_TYPEMAP (dtypeChar b.dt) = some ty) :
    ∃ line, runItem (("@type", .str (codesOf ty)) :: ("shape", .str (codesOf (shapeText b sq))) :: linesEnv level b.name)
        Gen.src_dds_base_line "@line0" = .ok (.str (codesOf line)) ∧
      printBase b level sq = .ok line := by
  refine ⟨_, src_dds_base_line_eq level b.name ty (shapeText b sq), ?_⟩
  rw [printBase, ht]

section SourceExamples
open MiniPy DdsSrc

local instance decEqMiniPyResult {α : Type} [DecidableEq α] : DecidableEq (Except MiniPy.Err α)
  | .ok a, .ok b => if h : a = b then isTrue (by rw [h]) else isFalse (by intro h'; cases h'; exact h rfl)
  | .error a, .error b => if h : a = b then isTrue (by rw [h]) else isFalse (by intro h'; cases h'; exact h rfl)
  | .ok _, .error _ => isFalse (by intro h; cases h)
  | .error _, .ok _ => isFalse (by intro h; cases h)

example : runItem (linesEnv 1 "s".toList) Gen.src_dds_structure_lines "@line1"
    = .ok (.str (codesOf "    } s;\n".toList)) := by decide +kernel
example : runItem (linesEnv 1 "g".toList) Gen.src_dds_grid_lines "@line2"
    = .ok (.str (codesOf "        Maps:\n".toList)) := by decide +kernel
example : runItem (shapeEnv ⟨"x".toList, "f".toList, [5, 3], [], false⟩ 1) Gen.src_dds_base_shape "shape"
    = .ok (.str (codesOf "[x = 3]".toList)) := by decide +kernel
example : runItem (shapeEnv ⟨"x".toList, "f".toList, [2, 3], [], true⟩ 0) Gen.src_dds_base_shape "shape"
    = .ok (.str (codesOf "[2][3]".toList)) := by decide +kernel
example : runItem (("@type", .str (codesOf "Float32".toList)) :: ("shape", .str (codesOf "[x = 3]".toList)) ::
      linesEnv 2 "x".toList) Gen.src_dds_base_line "@line0"
    = .ok (.str (codesOf "        Float32 x[x = 3];\n".toList)) := by decide +kernel

end SourceExamples

end Pydap.C07
