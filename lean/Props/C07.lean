import PydapModel.DdsText
namespace Pydap.C07
open Pydap Pydap.Dds

theorem C07_stub : lstrip [' ', 'a'] = ['a'] := by decide

end Pydap.C07
