/-
  C07 — dataset structure survives the DDS: print → parse → print.

  All statements are about the character-level model `PydapModel/DdsText.lean` of `responses/dds.py`
  (`printDs`) and `parsers/dds.py` + `SimpleParser` (`parseDds`), for every tree, every nesting, every
  extent; no bounds.  `WFds` is the property's domain: node names are quoted names without `/`
  (`NameOk`: non-empty, characters of `name_regexp`), dimension names likewise, extents ≥ 0, sibling
  names distinct, grids non-empty.  The DAP2 type of every variable is whatever the generated
  `NUMPY_TO_DAP2_TYPEMAP` says (`printDs d = .ok s` means every dtype is in the table).
-/
import Proofs.DdsFixpoint
import Proofs.DdsSamples
import Proofs.DdsQuote
import Proofs.DdsPrintable
import Proofs.DdsFuel
import Proofs.DdsExact
import Proofs.DdsDimWitness
namespace Pydap.C07
open Pydap Pydap.Dds

/-- Parsing the printed DDS of any well-formed dataset succeeds and yields the tree `normDs d`:
    same kinds, names and order (`normT` is a structure-preserving map), parser dtype of the declared
    DAP2 type, the declared extents and dimension names. -/
theorem C07_parse_print (d : Dataset) (s : Text) (hwf : WFds d) (hp : printDs d = .ok s) :
    parseDds s = .ok (normDs d) :=
  parse_print d s hp hwf

/-- The dimension-name hypothesis of `C07_parse_print` cannot be dropped: dimension names are printed verbatim
    (never quoted), and one outside `name_regexp` — the NetCDF handler's fully-qualified `/y`, DESIGN §9 #20 —
    gives a DDS that pydap's own parser rejects.  Outside C07's domain (names exclude `/`); recorded under C20. -/
theorem C07_unquoted_dimension_refuted :
    ¬ (∀ (d : Dataset) (s : Text), printDs d = .ok s → ∃ d', parseDds s = .ok d') := by
  intro h
  obtain ⟨d', hd⟩ := h slashDimWitness _ slashDimWitness_prints
  rw [slashDimWitness_does_not_parse] at hd
  cases hd

/-- The hypothesis `printDs d = .ok s` of `C07_parse_print` is not a restriction beyond the type table: the
    printer succeeds on every tree whose dtypes have an entry in `NUMPY_TO_DAP2_TYPEMAP` (every DAP2 type) and
    whose grids have an array; hence such a well-formed dataset always prints AND parses back to `normDs d`. -/
theorem C07_print_then_parse (d : Dataset) (hwf : WFds d) (hty : PrintableL d.kids) :
    ∃ s, printDs d = .ok s ∧ parseDds s = .ok (normDs d) := by
  obtain ⟨s, hs⟩ := printDs_ok d hty
  exact ⟨s, hs, parse_print d s hs hwf⟩

/-- What `norm` does to a base variable outside sequences whose dimension names (if any) are one per
    extent: name and shape are kept, dimension names are kept, an unnamed 1-d array gets its own
    name as dimension name, and the dtype becomes the parser dtype of its DAP2 type. -/
theorem C07_norm_base (b : BaseV) (h : b.dims = [] ∨ b.dims.length = b.shape.length) :
    (normBase b 0).name = b.name ∧ (normBase b 0).shape = b.shape ∧ (normBase b 0).dt = normTy b.dt ∧
    (normBase b 0).dims = (if b.dims ≠ [] then b.dims else if b.shape.length = 1 then [b.name] else []) := by
  unfold normBase
  simp only [List.drop_zero]
  by_cases h1 : b.dims ≠ []
  · have hl : b.dims.length = b.shape.length := by
      rcases h with h | h
      · exact absurd h h1
      · exact h
    rw [if_pos h1, if_pos h1]
    refine ⟨rfl, ?_, rfl, ?_⟩
    · exact List.map_snd_zip (by omega)
    · exact List.map_fst_zip (by omega)
  · rw [if_neg h1, if_neg h1]
    by_cases h2 : b.shape.length = 1
    · rw [if_pos h2, if_pos h2]
      refine ⟨rfl, rfl, rfl, ?_⟩
      match hs : b.shape, h2 with
      | [n], _ => simp
    · rw [if_neg h2, if_neg h2]
      exact ⟨rfl, rfl, rfl, rfl⟩

/-- Text fixpoint, full statement: FALSE for the code as it exists. `dds()` strips one leading extent
    per enclosing Sequence from whatever shape a variable has; the parsed dataset already lacks it. -/
theorem C07_fixpoint_refuted : ¬ (∀ d : Dataset, printDs (normDs d) = printDs d) :=
  fun h => seqArrayWitness_not_fixpoint (h seqArrayWitness)

/-- Text fixpoint under the exact guard: no base variable below `k > 0` sequences has more than `k`
    extents (sequence members are columns).  No other hypothesis: names, types, extents arbitrary. -/
theorem C07_fixpoint_partial (d : Dataset) (h : ColsL d.kids 0) : printDs (normDs d) = printDs d :=
  printDs_norm d h

/-- The guard is EXACT: for a well-formed dataset that prints, printing the parsed dataset reproduces the text if and
    only if sequence members are columns (`ColsL`) — the failing class of the open finding
    `C07.sequence_array_member.fixpoint` is precisely the complement. -/
theorem C07_fixpoint_exact (d : Dataset) (s : Text) (hwf : WFds d) (hp : printDs d = .ok s) :
    printDs (normDs d) = .ok s ↔ ColsL d.kids 0 :=
  fixpoint_iff d s hwf hp

/-- print → parse → print reproduces the text exactly (under the same guard). -/
theorem C07_print_parse_print_partial (d : Dataset) (s : Text) (hwf : WFds d) (hc : ColsL d.kids 0)
    (hp : printDs d = .ok s) : ∃ d', parseDds s = .ok d' ∧ printDs d' = .ok s :=
  ⟨normDs d, parse_print d s hp hwf, by rw [printDs_norm d hc, hp]⟩

theorem C07_print_parse_print_refuted :
    ¬ (∀ (d : Dataset) (s : Text), WFds d → printDs d = .ok s → ∃ d', parseDds s = .ok d' ∧ printDs d' = .ok s) := by
  intro h
  cases hp : printDs seqArrayWitness with
  | error e =>
    have := seqArrayWitness_not_fixpoint
    -- the witness prints fine
    revert hp
    have l1 : lookup Gen.NUMPY_TO_DAP2_TYPEMAP (dtypeChar ['h']) = some "Int16".toList := by decide
    simp [seqArrayWitness, printDs, printL, printT, printBase, l1]
  | ok s =>
    obtain ⟨d', h1, h2⟩ := h seqArrayWitness s seqArrayWitness_wf hp
    have h3 := parse_print seqArrayWitness s hp seqArrayWitness_wf
    rw [h3] at h1
    have : d' = normDs seqArrayWitness := (Except.ok.inj h1).symm
    subst this
    exact seqArrayWitness_not_fixpoint (by rw [h2, hp])

/-- The domain of the theorems above is reached from raw names: `_quote` (which `DapType.__init__` applies to
    every name) maps every non-empty ASCII name without `/` that does not start with `dap4` to a name
    satisfying `NameOk` — spaces, brackets, `&`, `.`, quotes … are percent-escaped into `name_regexp`'s alphabet. -/
theorem C07_quoted_names (raw : Text) (hne : raw ≠ []) (h : ∀ c ∈ raw, c ≠ '/' ∧ c.toNat < 128)
    (hd : raw.take 4 ≠ ['d', 'a', 'p', '4']) : NameOk (quoteName raw) :=
  quoteName_nameOk raw hne h hd

/-- The fuel of the model parser is not an artefact, for ANY input text (well-formed or not): with fuel at least
    the text length the outcome (tree or error class) no longer depends on it — for the declaration loops, for
    the `dimensions` loop inside `base` and for the maps loop inside `grid` (whose internal fuels are buffer
    lengths). So `parseDds` is a total, fuel-free function of the text, as `DDSParser.parse` is. -/
theorem C07_fuel_adequate (text : Text) (g : Nat) (h : text.length ≤ g) :
    parseDdsWith g text = parseDds text
    ∧ (∀ buf : Text, buf.length ≤ g → dimensions g buf = dimensions buf.length buf)
    ∧ (∀ buf : Text, buf.length ≤ g → mapsLoop g buf = mapsLoop buf.length buf) :=
  ⟨parseDds_fuel text g h, fun buf hb => dimensions_fuel_ge buf g hb,
   fun buf hb => mapsLoop_fuel_ge buf buf.length g (Nat.le_refl _) hb⟩

/-- Foreign style.  Any DDS written by the second, independent printer `ftextDs`
    (`PydapModel/DdsForeign.lean`: keywords and type names in any letter case, `Url`/`Int`/`UInt` or any
    other spelling the parser table knows, every dimension anonymous `[n]` or named `[d = n]`, arbitrary
    whitespace — spaces, tabs, newlines, none — between tokens except after a variable name) parses to
    exactly the structure it declares (`declDs`: same kinds, names, order; parser dtype of the declared
    type; declared extents; the names of the named dimensions). -/
theorem C07_foreign (d : FDataset) (hwf : FWFds d) : parseDds (ftextDs d) = .ok (declDs d) :=
  foreign_parse d hwf

/-! ### non-vacuity (samples and their well-formedness proofs: `Proofs/DdsSamples.lean`) -/

-- a dataset with a quoted name, a named 2-d array, an unnamed 1-d array, a structure, a sequence column
-- and a grid is in the domain of `C07_parse_print`, `C07_fixpoint_partial`, `C07_print_parse_print_partial`
example : WFds sample ∧ ColsL sample.kids 0 ∧ ∃ s, printDs sample = .ok s :=
  ⟨sample_wf, sample_cols, sample_prints⟩

example : PrintableL sample.kids := by
  simp [sample, PrintableL, PrintableT, TyKnown]
  decide

example : ∃ b : BaseV, (b.dims = [] ∨ b.dims.length = b.shape.length) ∧ b.shape.length = 1 :=
  ⟨⟨['c'], ['i'], [4], []⟩, Or.inl rfl, rfl⟩

example : ∃ raw : Text, raw ≠ [] ∧ (∀ c ∈ raw, c ≠ '/' ∧ c.toNat < 128) ∧ raw.take 4 ≠ ['d', 'a', 'p', '4']
    ∧ quoteName raw ≠ raw :=
  ⟨"a b[0].c&".toList, by decide, by decide, by decide, by decide⟩

-- fuel: a malformed text (parse error) and more fuel than needed
example : parseDdsWith 1000 "Dataset { Int32 a[3; } x;".toList = parseDds "Dataset { Int32 a[3; } x;".toList :=
  (C07_fuel_adequate _ 1000 (by decide)).1

-- mixed-case keywords, Url/Int, anonymous and named dimensions, tabs/newlines/no whitespace: in the domain
-- of `C07_foreign`
example : FWFds fsample := fsample_wf

-- the witness of the refuted statements is itself well-formed
example : WFds seqArrayWitness := seqArrayWitness_wf

end Pydap.C07
