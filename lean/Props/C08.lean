import Proofs.DasStatement
import Proofs.DasForeign
import Proofs.DasFlat
import Proofs.DasTotal
import Proofs.DasIds
import Proofs.DasCanon
import Proofs.DasSrc
import Proofs.DasNumber
import Proofs.DasSplit
import Proofs.DasExpect
import Proofs.DasNested
import Proofs.DasCanonGuard
import Proofs.DasMixed
/-!
  C08 — attributes survive the DAS.  Model: `PydapModel/DasText.lean` (follows parsers/das.py and
  responses/das.py *after* the three fixes: `float()` under Float32/Float64; size-0 values skipped everywhere;
  `add_attributes` attaches only containers).  `PydapModel/DasForeign.lean` is the specification of a foreign-layout
  printer (not pydap code).

  Proved for ALL inputs (unbounded; induction on characters, value lists, and mutual structural induction over the
  nested `Item` / `FItem` / `Var` trees):
    * whole text, on characters: `C08_parse_print`, `C08_foreign_parse`, `C08_foreign_layout`;
    * whole dataset: `C08_placement_tree`, `C08_roundtrip_partial` (+ `C08_roundtrip_refuted` /
      `C08_roundtrip_collision_refuted` for the unguarded statements), `C08_das_text_spelling` + `C08_roundtrip_canon`
      (short and empty lists included, modulo the normal form the DAS format forces), `C08_foreign`;
    * flat style over a whole tree: `C08_foreign_flat`, `C08_foreign_flat_text`, and — the id guard discharged from
      distinct dot-free sibling names — `C08_flat_ids_distinct`, `C08_foreign_flat_names`;
    * `add_attributes` as an operation on the caller's dict: `C08_attach_total` (never raises), `C08_attach_consumes`,
      `C08_memo_second_opening`, `C08_memo_refuted`, and the client over histories of openings: `C08_history_roundtrip`;
    * value / attribute-line level and the single decisions of `add_attributes` (`C08_value_roundtrip`,
      `C08_roundtrip_line_*`, `C08_foreign_line`, `C08_placement_flat/_nested/_both/_keep/_none/_global`).
    * round 7 (theorem audit, table at the top of design_notes/C08.md): `C08_number_tokens` (every token of the grammar
      `'%.6g'` prints is classified back to its Python type: the `convert` hypothesis inside `ScalarOk` is discharged for
      the grammar), `C08_domain` / `C08_roundtrip_domain` (the property's quantifier written syntactically), `C08_id_split`
      (the id path is `var.id.split(".")`), `C08_expected_var` / `C08_expected_global` (the outcome read as lookups).
      True by construction of the model, hence carried by the correspondence only: `C08_history_roundtrip`,
      `C08_attach_total`, `C08_memo_*`.
    * round 7b: `C08_foreign_nested` / `_nested_text` / `_nested_pure` / `C08_nested_lookup` / `C08_foreign_nested_refuted`
      (nested foreign style in GENERAL position: any order, any subset, strangers anywhere), `C08_foreign_mixed` / `_mixed_text`
      / `_mixed_total` / `C08_mixed_lookup` (flat and nested containers mixed over a whole tree; `_total`: no guard on the dataset's name), `C08_ids_once` (every id exactly once),
      `C08_roundtrip_canon_ds` (normal-form round trip with guards on the dataset itself).
  Not ∀-theorems (see design_notes/C08.md for the precise reasons): white space before `,`/`;` after a number token (its value
  is Python's `literal_eval`), parser error outcomes.
-/
namespace Pydap.C08
open Pydap.Das

/-- **value level.** For every safe string and every number token, under the type the server declares,
    the three-alternative pattern cuts out exactly the printed text — whatever follows, as long as it starts
    with `;` or `,` — and the conversion returns the original scalar: same string (incl. empty, spaces,
    `; , { }`), same token and same Python type (int / float, nan and ±inf included). -/
theorem C08_value_roundtrip (ty : Text) (x : Scalar) (rest : Text) (h : ScalarOk ty x)
    (hr : ∀ c, rest.head? = some c → notSep c = false) :
    scanValue (encode x ++ rest) = .ok (encode x, rest) ∧ convert ty (encode x) = .ok x :=
  scan_encode ty x rest h hr

/-- **attribute-line level, guarded.** What `build_attributes` prints for a scalar or a list of ≥ 2 values,
    at any indentation, followed by anything, is read back by `DASParser.attribute` as the same name and the
    same value, and the parser continues right after the line. -/
theorem C08_roundtrip_line_partial (lvl : Nat) (k : Text) (v : AVal) (rest : Text)
    (hk : Word k) (hv : LeafDom v) (hc : Carried v) :
    parseAttribute (lstrip (renderItem lvl (buildAttr k v) ++ rest)) = .ok (k, v, lstrip rest) := by
  cases v with
  | sc x =>
    have := parse_rendered_attr lvl (typeConvert x) k [x] rest (word_typeConvert x) hk
      (by intro y hy; simp at hy; subst hy; exact hv)
    simpa [buildAttr, unwrap] using this
  | list xs =>
    have := parse_rendered_attr lvl (listType xs) k xs rest (word_listType xs) hk hv
    have hu : unwrap xs = .list xs := by
      match xs, hc with
      | _ :: _ :: _, _ => rfl
    simpa [buildAttr, hu] using this
  | dict kvs => exact absurd hv (by simp [LeafDom])

/-- **attribute-line level, full statement refuted**: without the guard the statement is false — a
    one-element list comes back as a scalar (finding C08.short_list). -/
theorem C08_roundtrip_line_refuted :
    ¬ (∀ (lvl : Nat) (k : Text) (v : AVal) (rest : Text), Word k → LeafDom v →
        parseAttribute (lstrip (renderItem lvl (buildAttr k v) ++ rest)) = .ok (k, v, lstrip rest)) := by
  intro h
  have hk : Word ['x'] := ⟨by decide, by decide⟩
  have hd : LeafDom (.list [.num ['5'] false]) := by
    intro x hx
    simp at hx; subst hx
    exact ⟨by decide, by decide, rfl⟩
  have h1 := h 0 ['x'] (.list [.num ['5'] false]) [] hk hd
  have h2 := parse_rendered_attr 0 (listType [.num ['5'] false]) ['x'] [.num ['5'] false] []
    (word_listType _) hk hd
  simp only [buildAttr] at h1
  rw [h2] at h1
  simp [unwrap] at h1

/-- **foreign style, line level.** The same holds for *any* type word another server may declare (`Float32`,
    `Url`, `Byte`, upper/lower case …), any name word and any values that fit that type. -/
theorem C08_foreign_line (ty k : Text) (xs : List Scalar) (rest : Text) (lvl : Nat)
    (hty : Word ty) (hk : Word k) (hx : ∀ x ∈ xs, ScalarOk ty x) :
    parseAttribute (lstrip (renderItem lvl (.attr ty k xs) ++ rest))
      = .ok (k, unwrap xs, lstrip rest) :=
  parse_rendered_attr lvl ty k xs rest hty hk hx

/-- **placement, flat id.** A top-level entry whose name is the variable's id and whose value is a container
    is popped and becomes the variable's attributes. -/
theorem C08_placement_flat (attrs : Dict) (n : Text) (e : Dict) (h : dget attrs n = some (.dict e)) :
    attachStep attrs [n] [] = .ok (derase attrs n, dupdate [] e) := by
  simp [attachStep, nestedStep, dotted, h, reduceGet, dget_derase_self]

/-- **placement, nested id.** With no flat entry, the container found by walking the id path through nested
    containers is popped from its parent and becomes the variable's attributes. -/
theorem C08_placement_nested (attrs nested e : Dict) (p : List Text) (k : Text)
    (h0 : dget attrs (dotted p) = none) (hk : p.getLast? = some k)
    (h1 : reduceGet (.dict attrs) p.dropLast = .ok (.dict nested))
    (h2 : dget nested k = some (.dict e)) :
    attachStep attrs p [] = .ok (setNested attrs p.dropLast (derase nested k), dupdate [] e) := by
  simp [attachStep, nestedStep, h0, hk, h1, h2]

/-- **placement, flat AND nested container for the same variable** (a text mixing both styles for one subtree, e.g.
    `s { a { … } }` together with `s.a { … }`): both containers are popped and the variable receives the flat one
    first, then the nested one on top (`dict.update` twice: on a common name the nested container wins). -/
theorem C08_placement_both (attrs nested e1 e2 : Dict) (p : List Text) (k : Text) (init : Dict)
    (h0 : dget attrs (dotted p) = some (.dict e1)) (hk : p.getLast? = some k)
    (h1 : reduceGet (.dict (derase attrs (dotted p))) p.dropLast = .ok (.dict nested))
    (h2 : dget nested k = some (.dict e2)) :
    attachStep attrs p init
      = .ok (setNested (derase attrs (dotted p)) p.dropLast (derase nested k), dupdate (dupdate init e1) e2) := by
  simp [attachStep, nestedStep, h0, hk, h1, h2]

/-- **placement, keep-around rule (repaired code).** An entry under the variable's name that is NOT a container — a
    string (the empty one and 2-character ones included), a number, a list — is an attribute of the parent: it stays
    exactly where it is and the variable gets nothing.  (Before the repair it was popped and handed to `dict.update`,
    which dropped `""`, re-read `["ab","cd"]` as pairs and re-appended the rest.) -/
theorem C08_placement_keep (attrs nested : Dict) (p : List Text) (k : Text) (v : AVal) (init : Dict)
    (h0 : ∀ e, dget attrs (dotted p) ≠ some (.dict e)) (hk : p.getLast? = some k)
    (h1 : reduceGet (.dict attrs) p.dropLast = .ok (.dict nested))
    (h2 : dget nested k = some v) (hv : ∀ e, v ≠ .dict e) :
    attachStep attrs p init = .ok (attrs, init) := by
  have hn : nestedStep attrs p init = .ok (attrs, init) := by
    cases v with
    | dict e => exact absurd rfl (hv e)
    | sc y => simp [nestedStep, hk, h1, h2]
    | list y => simp [nestedStep, hk, h1, h2]
  unfold attachStep
  split
  · next e he => exact absurd he (h0 e)
  · exact hn

/-- **the repaired `add_attributes` never raises**: for every dataset tree and every parsed dict (well-formed or not:
    plain attributes named like variables or like the dataset, id paths running through strings, numbers, lists). -/
theorem C08_attach_total (name : Text) (cs : List Var) (A : Dict) : ∃ r, addAttributes name cs A = .ok r :=
  addAttributes_total name cs A

/-- **placement, no entry.** A variable named nowhere in the DAS leaves the parsed attributes untouched. -/
theorem C08_placement_none (attrs : Dict) (p : List Text) (init : Dict)
    (h0 : dget attrs (dotted p) = none)
    (h1 : reduceGet (.dict attrs) p.dropLast = .error .keyError) :
    attachStep attrs p init = .ok (attrs, init) := by
  cases hk : p.getLast? <;> simp [attachStep, nestedStep, h0, hk, h1]

/-- **placement, globals.** On a dataset without variables every entry that is not a dict-valued
    `NC_GLOBAL`/`DODS_EXTRA` becomes a global attribute, on top of the merged contents of those containers
    (provided no entry carries the dataset's own name — finding C08.attr_named_like_child). -/
theorem C08_placement_global (name : Text) (attrs : Dict)
    (h : dget (attrs.filter fun kv => !isGlobalDict kv) name = none) :
    (addAttributes name [] attrs).map (·.globals)
      = .ok (dupdate (mergeGlobals attrs []) (attrs.filter fun kv => !isGlobalDict kv)) := by
  simp [addAttributes, walkVars, attachAll, attachStep, nestedStep, dotted, h, reduceGet, Except.map]


/-! ### whole texts and whole datasets, for all inputs -/

/-- **`parse_das(das(ds))` on characters, whole text**: for every dataset tree (Structure / Sequence nested to
    any depth, Base and Grid as leaves) with attribute maps over the DAS-safe domain (nested dicts to any
    depth, lists of any length), the parser returns the dict the text denotes; `fuel = len(text)+1` suffices. -/
theorem C08_parse_print (ds : Dataset) (h : DsOk ds) :
    dasParse (dasText ds) = .ok (denoteItems [] (dasItems ds)) :=
  parse_print ds h

/-- **any DAS in this layout**, whoever wrote it: arbitrary type words (`Float32`, `Url`, `BYTE` …), arbitrary
    container names (a flat `s.a { … }` included), any nesting. -/
theorem C08_foreign_parse (its : List Item) (h : ItemsOk its) :
    dasParse ("Attributes {\n".toList ++ renderItems 1 its ++ ['}', '\n']) = .ok (denoteItems [] its) :=
  parse_rendered its h

/-- **placement over a whole parsed dict**: given the dict with one container per variable (nested like the
    variables) after the global entries, every container lands on the variable whose id it spells, every
    other entry becomes a global attribute, dict-valued NC_GLOBAL/DODS_EXTRA are merged underneath. -/
theorem C08_placement_tree (ds : Dataset) (hg : DsG ds) :
    addAttributes ds.name ds.children (dsDict ds) = .ok (expected ds) :=
  attach_tree ds hg

/-- **whole-dataset round trip, guarded**: served as a DAS, parsed and attached, every variable (grid
    members excluded) holds exactly its own attributes — names, nesting, value tokens and Python types —
    and the dataset its globals. -/
theorem C08_roundtrip_partial (ds : Dataset) (hok : DsOk ds) (hg : Guard ds) :
    roundTrip ds = some (.ok (expected ds)) := by
  unfold roundTrip
  rw [parse_print ds hok, denote_ds ds hg.1 hg.2.1 hg.2.2]
  simp only [attach_tree ds hg.1, expected]

/-- **foreign layout, whole text on characters**: the keyword in any letter case, any white space (none where
    the grammar allows it) before and after `{`, per node its own white space between type, name and values,
    after commas and after `;` (so several attributes per line, or one over many lines), any type words:
    `parse_das` returns the dict the nodes denote. -/
theorem C08_foreign_layout (kw w0 w1 : Text) (its : List FItem) (trail : Text)
    (hkw : lower kw = "attributes".toList) (h0 : Ws w0) (h1 : Ws w1) (hok : FItemsOk its) :
    dasParse (ftext kw w0 w1 its trail) = .ok (denoteItems [] (eraseItems its)) :=
  fparse kw w0 w1 its trail hkw h0 h1 hok

/-- **foreign layout, parsed and attached**: a foreign text whose nested containers spell the dataset's
    variables (it denotes `dsDict ds`: globals, then per variable its attributes and its children's containers)
    attaches to exactly those variables; names matching no variable become global attributes,
    NC_GLOBAL/DODS_EXTRA are merged. -/
theorem C08_foreign (ds : Dataset) (kw w0 w1 : Text) (its : List FItem) (trail : Text)
    (hkw : lower kw = "attributes".toList) (h0 : Ws w0) (h1 : Ws w1) (hok : FItemsOk its)
    (hsame : denoteItems [] (eraseItems its) = dsDict ds) (hg : DsG ds) :
    (dasParse (ftext kw w0 w1 its trail)).toOption.map (addAttributes ds.name ds.children)
      = some (.ok (expected ds)) := by
  rw [fparse kw w0 w1 its trail hkw h0 h1 hok, hsame]
  simp [Except.toOption, attach_tree ds hg, expected]

/-- **flat style, whole tree**: on a parsed DAS whose containers are keyed by dotted variable ids (`s`, `s.a`,
    `s.t.b` … for any subset of the variables, grid members included) next to arbitrary other entries, every variable
    receives exactly the content of the container that spells its id (nothing when there is none), and every other
    entry becomes a global attribute on top of the merged dict-valued NC_GLOBAL/DODS_EXTRA.  Guards (`FlatGuard`): ids
    pairwise distinct; an entry under a variable's id is a container with distinct names; the container of a top-level
    variable holds no entry named like a child of that variable (so purely flat: mixed flat+nested texts are not
    covered by this theorem); nothing left over carries the dataset's own name. -/
theorem C08_foreign_flat (name : Text) (cs : List Var) (A : Dict)
    (hG : FlatGuard (A.filter notGlobal) (visitIds cs))
    (hself : name ∉ keys (dropKeys (A.filter notGlobal) ((visitIds cs).map dotted))) :
    addAttributes name cs A = .ok (flatExpected cs A) :=
  flat_attach name cs A hG hself

/-- **flat style, from the text**: a foreign-layout text of flat containers, parsed and attached. -/
theorem C08_foreign_flat_text (name : Text) (cs : List Var) (kw w0 w1 : Text) (its : List FItem) (trail : Text)
    (hkw : lower kw = "attributes".toList) (h0 : Ws w0) (h1 : Ws w1) (hok : FItemsOk its)
    (hG : FlatGuard ((denoteItems [] (eraseItems its)).filter notGlobal) (visitIds cs))
    (hself : name ∉ keys (dropKeys ((denoteItems [] (eraseItems its)).filter notGlobal) ((visitIds cs).map dotted))) :
    (dasParse (ftext kw w0 w1 its trail)).toOption.map (addAttributes name cs)
      = some (.ok (flatExpected cs (denoteItems [] (eraseItems its)))) := by
  rw [fparse kw w0 w1 its trail hkw h0 h1 hok]
  simp [Except.toOption, flat_attach name cs _ hG hself]

/-- **the DAS text cannot tell `[x]` from `x`, nor carry `[]`**: a dataset and its normal form (`canonDs`: every
    one-element list replaced by its element, every empty list dropped, at any depth) are served as the SAME text.
    This is inherent to the DAS format (an attribute is a type, a name and one or more values); no parser can return
    both spellings, so finding C08.short_list cannot be repaired on either side. -/
theorem C08_das_text_spelling (ds : Dataset) : dasText (canonDs ds) = dasText ds :=
  dasText_canon ds

/-- **whole-dataset round trip, short lists included, modulo that spelling**: for every dataset of the DAS-safe domain
    — one-element and empty lists allowed anywhere — whose NORMAL FORM satisfies the collision guards, the client holds
    exactly the normal form: every variable its own attributes with `[x]` read back as `x` and `[]` absent, everything
    else (names, nesting, tokens, Python types, lists of two or more) unchanged.  On datasets without short lists
    this is `C08_roundtrip_partial`. -/
theorem C08_roundtrip_canon (ds : Dataset) (hok : DsOk ds) (hg : Guard (canonDs ds)) :
    roundTrip ds = some (.ok (expected (canonDs ds))) := by
  rw [← roundTrip_canon]
  unfold roundTrip
  rw [parse_print _ (dsOk_canon ds hok), denote_ds _ hg.1 hg.2.1 hg.2.2]
  simp only [attach_tree _ hg.1, expected]

/-! ### the client pipeline over histories of openings; `add_attributes` consumes its argument -/

/-- **`add_attributes` consumes the parsed DAS**: after attaching the parsed DAS of a served dataset, the caller's dict
    holds the plain global attributes only — the NC_GLOBAL/DODS_EXTRA containers and every variable's container have
    been popped out of it.  (This is why `DAPHandler.attach_das` must hand a freshly parsed dict to every call.) -/
theorem C08_attach_consumes (ds : Dataset) (hg : DsG ds) :
    addAttributesRem ds.name ds.children (dsDict ds)
      = .ok (expected ds, (sortKeys ds.attrs).filter notGlobal) :=
  attach_tree_rem ds hg

/-- **what a memoised `parse_das` would do**: if the dict left over by a first opening is attached again (the same
    object served from a cache keyed by the DAS text), EVERY variable ends up with no attributes at all. -/
theorem C08_memo_second_opening (ds : Dataset) (hok : DsOk ds) (hg : Guard ds) :
    ∃ g, memoSecondOpening ds.name ds.children (dasText ds)
      = some (.ok ⟨g, (walkVars [] ds.children).reverse.map fun p => (p, [])⟩) := by
  unfold memoSecondOpening
  rw [parse_print ds hok, denote_ds ds hg.1 hg.2.1 hg.2.2]
  simp only [attach_tree_rem ds hg.1]
  have hR : ∀ v ∈ ds.children, v.name ∉ keys ((sortKeys ds.attrs).filter notGlobal) := by
    intro v hv hk
    have h1 := mem_keys_filter_sort _ _ _ hk
    have := (List.nodup_append.mp hg.1.nodup).2.2
    exact this _ h1 _ (List.mem_map_of_mem hv) rfl
  have hdot : NoDot (keys ((sortKeys ds.attrs).filter notGlobal)) := by
    intro k hk
    exact hg.1.nodot k (by simp [mem_keys_filter_sort _ _ _ hk])
  have hff : ((sortKeys ds.attrs).filter notGlobal).filter (fun kv => !isGlobalDict kv)
      = (sortKeys ds.attrs).filter notGlobal := by
    unfold notGlobal; simp [List.filter_filter]
  obtain ⟨⟨A2, g1⟩, h2⟩ := attachStep_ok ((sortKeys ds.attrs).filter notGlobal) [ds.name]
    (mergeGlobals ((sortKeys ds.attrs).filter notGlobal) [])
  refine ⟨dupdate g1 A2, ?_⟩
  unfold addAttributes
  simp only [hff, visit_miss ds.children _ hR hdot, h2]

/-- **the client must parse per opening**: a client that reuses the parsed dict of an earlier opening does NOT hold what
    `DAPHandler.attach_das` (fresh `parse_das` per call) holds — refuted on a dataset of the guarded domain. -/
theorem C08_memo_refuted :
    ¬ (∀ ds : Dataset, DsOk ds → Guard ds →
        memoSecondOpening ds.name ds.children (dasText ds) = clientAttach ds.name ds.children (dasText ds)) := by
  intro h
  have h1 := h exSmall exSmall_ok exSmall_guard
  obtain ⟨g, h2⟩ := C08_memo_second_opening exSmall exSmall_ok exSmall_guard
  have h3 : clientAttach exSmall.name exSmall.children (dasText exSmall) = some (.ok (expected exSmall)) := by
    unfold clientAttach
    rw [parse_print exSmall exSmall_ok, denote_ds exSmall exSmall_guard.1 exSmall_guard.2.1 exSmall_guard.2.2]
    simp only [attach_tree exSmall exSmall_guard.1, expected]
  rw [h2, h3] at h1
  injection h1 with h1
  injection h1 with h1
  have h4 := congrArg (fun r : Attached => r.vars.map (fun pd : List Text × Dict => pd.2.length)) h1
  simp only at h4
  revert h4
  decide

/-- **the client pipeline is a function of the DAS text alone, over any history**: whatever datasets were opened
    before, in whatever order and however often, sharing DAS text or not, the i-th opening holds `clientAttach` of its
    own (name, tree, text) — and for served datasets of the guarded domain exactly `expected ds`. -/
theorem C08_history_roundtrip (dss : List Dataset) (h : ∀ ds ∈ dss, DsOk ds ∧ Guard ds) :
    clientHistory (dss.map fun ds => (ds.name, ds.children, dasText ds))
      = dss.map fun ds => some (.ok (expected ds)) := by
  unfold clientHistory
  rw [List.map_map]
  apply List.map_congr_left
  intro ds hds
  obtain ⟨hok, hg⟩ := h ds hds
  simp only [Function.comp, clientAttach]
  rw [parse_print ds hok, denote_ds ds hg.1 hg.2.1 hg.2.2]
  simp only [attach_tree ds hg.1, expected]

/-- **ids are pairwise distinct** — the first guard of the flat-style theorems is not an assumption about the walk: it
    follows from what Python's containers enforce (sibling names distinct) plus dot-free names (`".".join` is injective
    on such paths, `dotted_inj`; the walk visits every path once, `walkVars_nodup`). -/
theorem C08_flat_ids_distinct (cs : List Var) (h : VarsNames cs) (hnd : (cs.map Var.name).Nodup) :
    ((visitIds cs).map dotted).Nodup :=
  ids_nodup cs h hnd

/-- **flat style, whole tree, from names**: `C08_foreign_flat` with the id guard discharged. -/
theorem C08_foreign_flat_names (name : Text) (cs : List Var) (A : Dict)
    (hnames : VarsNames cs) (hnd : (cs.map Var.name).Nodup)
    (h1 : ∀ p ∈ visitIds cs, NoneOrDict (A.filter notGlobal) (dotted p) fun S => (keys S).Nodup)
    (h2 : ∀ q0 r1 rs, (q0 :: r1 :: rs) ∈ visitIds cs → NoneOrDict (A.filter notGlobal) q0 fun S => r1 ∉ keys S)
    (hself : name ∉ keys (dropKeys (A.filter notGlobal) ((visitIds cs).map dotted))) :
    addAttributes name cs A = .ok (flatExpected cs A) :=
  flat_attach name cs A ⟨ids_nodup cs hnames hnd, h1, h2⟩ hself

/-- **unguarded statement refuted (1)**: over the DAS-safe domain alone the round trip is false — a
    one-element list comes back as a scalar (finding C08.short_list). -/
theorem C08_roundtrip_refuted : ¬ (∀ ds : Dataset, DsOk ds → roundTrip ds = some (.ok (expected ds))) := by
  intro h
  have h1 := h wShort wShort_ok
  have h2 : roundTrip wShort = some (.ok ⟨[], [(["a".toList], [("x".toList, .sc (.num "5".toList false))])]⟩) := by
    rfl
  have h3 : expected wShort = ⟨[], [(["a".toList], [("x".toList, .list [.num "5".toList false])])]⟩ := by rfl
  rw [h2, h3] at h1
  simp at h1

/-- **unguarded statement refuted (2)**: with carried values but without the no-collision guard it is false
    as well — an attribute named like a child is overwritten by the child's container (finding
    C08.attr_named_like_child). -/
theorem C08_roundtrip_collision_refuted :
    ¬ (∀ ds : Dataset, DsOk ds → AttrsDeep ds.attrs → VarsDeep ds.children →
        roundTrip ds = some (.ok (expected ds))) := by
  intro h
  have h1 := h wCollide wCollide_ok trivial ⟨⟨⟨trivial, trivial⟩, trivial, trivial⟩, trivial⟩
  have h2 : roundTrip wCollide = some (.ok ⟨[], [(["s".toList, "t".toList], []), (["s".toList], [])]⟩) := by
    rfl
  have h3 : expected wCollide
      = ⟨[], [(["s".toList, "t".toList], []), (["s".toList], [("t".toList, .sc (.num "7".toList false))])]⟩ := by rfl
  rw [h2, h3] at h1
  simp at h1

-- whole-dataset theorems: a dataset with a global, a Structure and a member satisfies domain and guards,
-- the refutation witnesses are in the domain
example : DsOk exSmall ∧ Guard exSmall := ⟨exSmall_ok, exSmall_guard⟩
example : DsOk wShort ∧ DsOk wCollide := ⟨wShort_ok, wCollide_ok⟩
example : ItemsOk [.cont "s.a".toList [.attr "Float32".toList "x".toList [.num "1.0".toList true]]] :=
  ⟨⟨⟨by decide, by decide⟩, ⟨⟨by decide, by decide⟩, ⟨by decide, by decide⟩, by intro x hx; simp at hx; subst hx; exact ⟨by decide, by decide, rfl⟩⟩, trivial⟩, trivial⟩

-- foreign layout: `ATTRIBUTES{a {URL u "v";float32\tx\n1.0,2.5;}}` satisfies the hypotheses and denotes the dict of
-- a dataset with one Base variable
example : lower "ATTRIBUTES".toList = "attributes".toList := by decide
example : Ws [] ∧ Ws "\n\t ".toList ∧ Gap "\t".toList := ⟨by unfold Ws; decide, by unfold Ws; decide, by decide, by unfold Ws; decide⟩
example : FItemsOk exF := by
  refine ⟨⟨⟨by decide, by decide⟩, ⟨⟨⟨by decide, by decide⟩, ⟨by decide, by decide⟩, ?_, ⟨by decide, by unfold Ws; decide⟩,
    ⟨by decide, by unfold Ws; decide⟩, by unfold Ws; decide, by unfold Ws; decide⟩,
    ⟨⟨by decide, by decide⟩, ⟨by decide, by decide⟩, ?_, ⟨by decide, by unfold Ws; decide⟩,
    ⟨by decide, by unfold Ws; decide⟩, by unfold Ws; decide, by unfold Ws; decide⟩, trivial⟩,
    ⟨by decide, by unfold Ws; decide⟩, by unfold Ws; decide, by unfold Ws; decide⟩, trivial⟩
  · intro x hx; simp at hx; subst hx; exact ⟨by unfold SafeStr; decide, rfl⟩
  · intro x hx; simp at hx; rcases hx with rfl | rfl <;> exact ⟨by decide, by decide, rfl⟩
example : denoteItems [] (eraseItems exF)
    = dsDict ⟨"d".toList, [], [Var.mk .base "a".toList
        [("x".toList, .list [.num "1.0".toList true, .num "2.5".toList true]), ("u".toList, .sc (.str "v".toList))] []]⟩ := by
  rfl
example : ftext "ATTRIBUTES".toList [] [] exF [] = "ATTRIBUTES{a {URL u \"v\";float32\tx\n1.0,2.5;}}".toList := by rfl

-- flat style: the tree `s {a}, b` and the parsed dict `{"s.a": {x: 1.0}, "HDF_GLOBAL": {k: "v"}}` satisfy the guards;
-- `s.a` receives `{x: 1.0}`, `s` and `b` nothing, `HDF_GLOBAL` becomes global
example : FlatGuard (exFlatA.filter notGlobal) (visitIds exTmpl) := by
  refine ⟨by decide, ?_, ?_⟩
  · intro p hp
    have hp' : p ∈ [["b".toList], ["s".toList, "a".toList], ["s".toList]] := hp
    simp only [List.mem_cons, List.not_mem_nil, or_false] at hp'
    rcases hp' with rfl | rfl | rfl
    · exact Or.inl rfl
    · exact Or.inr ⟨_, rfl, by decide⟩
    · exact Or.inl rfl
  · intro q0 r1 rs hp
    have hp' : (q0 :: r1 :: rs) ∈ [["b".toList], ["s".toList, "a".toList], ["s".toList]] := hp
    simp only [List.mem_cons, List.not_mem_nil, or_false] at hp'
    rcases hp' with h | h | h
    · simp at h
    · simp at h; obtain ⟨rfl, _, _⟩ := h; exact Or.inl rfl
    · simp at h
example : "d".toList ∉ keys (dropKeys (exFlatA.filter notGlobal) ((visitIds exTmpl).map dotted)) := by decide
example : flatExpected exTmpl exFlatA =
    ⟨[("HDF_GLOBAL".toList, .dict [("k".toList, .sc (.str "v".toList))])],
     [(["b".toList], []), (["s".toList, "a".toList], [("x".toList, .sc (.num "1.0".toList true))]), (["s".toList], [])]⟩ := by
  rfl

/-! ### non-vacuity: the hypotheses have inhabitants, the guards are the exact ones -/

-- value level: edge strings, a float printed as "1" (comes back as float: the repaired parser), nan/inf, ints
example : ScalarOk "String".toList (.str " ;,{} ".toList) := ⟨by unfold SafeStr; decide, rfl⟩
example : ScalarOk "String".toList (.str []) := ⟨by unfold SafeStr; decide, rfl⟩
example : ScalarOk "Float64".toList (.num "1".toList true) := ⟨by decide, by decide, rfl⟩
example : ScalarOk "Float64".toList (.num "1.5e-07".toList true) := ⟨by decide, by decide, rfl⟩
example : ScalarOk "Float64".toList (.num "nan".toList true) := ⟨by decide, by decide, rfl⟩
example : ScalarOk "Float64".toList (.num "-inf".toList true) := ⟨by decide, by decide, rfl⟩
example : ScalarOk "Int32".toList (.num "-999999".toList false) := ⟨by decide, by decide, rfl⟩
example : (scanValue (encode (.str "a;b,c".toList) ++ ", \"x\";".toList)).toOption
    = some ("\"a;b,c\"".toList, ", \"x\";".toList) := rfl
-- the pinned (unrepaired) behaviour would have been `num "1" false`; under an Int type it still is
example : convert "Int32".toList "1".toList = .ok (.num "1".toList false) := rfl
example : convert "Float64".toList "1".toList = .ok (.num "1".toList true) := rfl

-- line level: a list of strings incl. the empty one, a float list with an integral element
example : LeafDom (.list [.str "a b".toList, .str []]) ∧ Carried (.list [.str "a b".toList, .str []]) :=
  ⟨by intro x hx; simp at hx; rcases hx with rfl | rfl <;> exact ⟨by unfold SafeStr; decide, rfl⟩, by simp [Carried]⟩
example : LeafDom (.list [.num "1".toList true, .num "2.5".toList true]) :=
  by intro x hx; simp at hx; rcases hx with rfl | rfl <;> exact ⟨by decide, by decide, rfl⟩
example : Word "valid-range_1".toList := ⟨by decide, by decide⟩
example : (parseAttribute "Float64 x 1, 2.5;\n}".toList).toOption
    = some ("x".toList, .list [.num "1".toList true, .num "2.5".toList true], "}".toList) := rfl

-- foreign types
example : ScalarOk "Float32".toList (.num "1.0".toList true) := ⟨by decide, by decide, rfl⟩
example : ScalarOk "URL".toList (.str "http://x/y?z".toList) := ⟨by unfold SafeStr; decide, rfl⟩
example : Word "Float32".toList := ⟨by decide, by decide⟩

-- placement: hypotheses of each lemma on concrete parsed dicts
example : dget [("a".toList, AVal.dict [("x".toList, .sc (.num "1".toList false))])] "a".toList
    = some (.dict [("x".toList, .sc (.num "1".toList false))]) := rfl
example : reduceGet (.dict [("s".toList, .dict [("a".toList, .dict [])])]) ["s".toList]
    = .ok (.dict [("a".toList, .dict [])]) := rfl
example : reduceGet (.dict [("s".toList, .dict [])]) ["t".toList] = .error .keyError := rfl
example : dget (([("title".toList, AVal.sc (.str "t".toList)), ("NC_GLOBAL".toList, .dict [])] : Dict).filter
    fun kv => !isGlobalDict kv) "d".toList = none := rfl

-- repaired add_attributes: a parsed dict in which the name of the Structure `s` is a plain number, the id path of
-- `s.a` runs through it (`7["a"]`: TypeError before the repair) and the dataset's own name is a string — no error,
-- everything stays a global attribute
example : addAttributes "d".toList exTmpl [("s".toList, .sc (.num "7".toList false)), ("d".toList, .sc (.str "ab".toList))]
    = .ok ⟨[("s".toList, .sc (.num "7".toList false)), ("d".toList, .sc (.str "ab".toList))],
           [(["b".toList], []), (["s".toList, "a".toList], []), (["s".toList], [])]⟩ := rfl
-- keep-around: the hypotheses of `C08_placement_keep` on a Grid `g` with the plain attribute `x` named like its member
example : (∀ e, dget [("g".toList, AVal.dict [("x".toList, .sc (.str []))])] (dotted ["g".toList, "x".toList]) ≠ some (.dict e))
    ∧ ["g".toList, "x".toList].getLast? = some "x".toList
    ∧ reduceGet (.dict [("g".toList, .dict [("x".toList, .sc (.str []))])]) ["g".toList, "x".toList].dropLast
        = .ok (.dict [("x".toList, .sc (.str []))])
    ∧ dget [("x".toList, AVal.sc (.str []))] "x".toList = some (.sc (.str [])) :=
  ⟨(by intro e h; cases h), rfl, rfl, rfl⟩
-- ids: the tree `s {a}, b` has dot-free, pairwise distinct sibling names
example : VarsNames exTmpl ∧ (exTmpl.map Var.name).Nodup := by
  refine ⟨⟨⟨by decide, by decide, ⟨by decide, by decide, trivial⟩, trivial⟩, ⟨by decide, by decide, trivial⟩, trivial⟩, by decide⟩
-- mixed flat + nested for `s.a`: both containers exist
example : attachStep [("s".toList, .dict [("a".toList, .dict [("x".toList, .sc (.num "1".toList false))])]),
                      ("s.a".toList, .dict [("y".toList, .sc (.num "2".toList false))])] ["s".toList, "a".toList] []
    = .ok ([("s".toList, .dict [])], [("y".toList, .sc (.num "2".toList false)), ("x".toList, .sc (.num "1".toList false))]) := rfl
-- short lists: the witness of C08.short_list is in the domain of `C08_roundtrip_canon`; its normal form holds `x = 5`
example : DsOk wShort ∧ Guard (canonDs wShort) := by
  refine ⟨wShort_ok, ⟨?_, by decide, by unfold NoDot; decide, (by intro e h; cases h), by decide⟩, trivial, ?_⟩
  · exact ⟨⟨by decide, rfl⟩, trivial⟩
  · exact ⟨⟨trivial, trivial⟩, trivial⟩
example : expected (canonDs wShort) = ⟨[], [(["a".toList], [("x".toList, .sc (.num "5".toList false))])]⟩ := rfl
example : canonAttrs [("e".toList, .list []), ("x".toList, .list [.num "5".toList false]),
                      ("l".toList, .list [.num "1".toList false, .num "2".toList false])]
    = [("x".toList, .sc (.num "5".toList false)), ("l".toList, .list [.num "1".toList false, .num "2".toList false])] := rfl
-- keep-around rule over a whole tree: a Grid attribute `x = ""` named like the member `x` and a plain global named like
-- the dataset are inside the guards of `C08_roundtrip_partial` (before the repair: lost / TypeError)
example : Guard wKeep := wKeep_guard
-- histories: a history that opens the same dataset three times satisfies the hypothesis of `C08_history_roundtrip`
example : ∀ ds ∈ [exSmall, exSmall, exSmall], DsOk ds ∧ Guard ds := by
  intro ds h; simp at h; subst h; exact ⟨exSmall_ok, exSmall_guard⟩
-- consumption: what a first opening of `exSmall` leaves in the parsed dict is the plain global attribute only
example : addAttributesRem exSmall.name exSmall.children (dsDict exSmall)
    = .ok (expected exSmall, [("title".toList, .sc (.str "t; {x}".toList))]) := C08_attach_consumes exSmall exSmall_guard.1

/-! ### whole texts and whole datasets (kernel evaluation of the model on concrete inputs) -/

set_option maxRecDepth 200000 in
/-- served, parsed, attached: structure `s`, its member `s.a` (list, nested dict, empty string, empty dict),
    grid `g` (its member excluded), the global attribute and the merged `NC_GLOBAL` container -/
example : roundTrip exDs = some (.ok
    ⟨[("n".toList, .sc (.num "3".toList false)), ("title".toList, .sc (.str "t; {x}".toList))],
     [(["g".toList, "arr".toList], []),
      (["g".toList], [("ga".toList, .sc (.num "nan".toList true))]),
      (["s".toList, "a".toList], [("l".toList, .list [.num "1".toList false, .num "2".toList false]),
                                  ("m".toList, .dict [("k".toList, .sc (.str [])), ("e".toList, .dict [])])]),
      (["s".toList], [("u".toList, .sc (.num "1".toList true))])]⟩) := rfl


set_option maxRecDepth 200000 in
/-- a flat foreign DAS: `s.a { … }` lands on `s.a`, the container naming no variable becomes global -/
example : (dasParse "ATTRIBUTES {\n s.a {\n\tFloat32 x 1.0;\n }\n HDF_GLOBAL {\n  Url k \"v\";\n }\n}".toList).toOption.map
      (addAttributes "d".toList exTmpl) = some (.ok
    ⟨[("HDF_GLOBAL".toList, .dict [("k".toList, .sc (.str "v".toList))])],
     [(["b".toList], []), (["s".toList, "a".toList], [("x".toList, .sc (.num "1.0".toList true))]), (["s".toList], [])]⟩) := rfl

set_option maxRecDepth 200000 in
/-- a nested foreign DAS with other spacing and type names -/
example : (dasParse "attributes{ s { a { Byte x 1,2 ; String y \"\", \";\"; } Int16 z -3; } b { } }".toList).toOption.map
      (addAttributes "d".toList exTmpl) = some (.ok
    ⟨[],
     [(["b".toList], []),
      (["s".toList, "a".toList], [("x".toList, .list [.num "1".toList false, .num "2 ".toList false]),
                                  ("y".toList, .list [.str [], .str ";".toList])]),
      (["s".toList], [("z".toList, .sc (.num "-3".toList false))])]⟩) := rfl

set_option maxRecDepth 200000 in
/-- the two listed finding classes on the model: a one-element list comes back as a scalar; an attribute
    named like a child is overwritten by the child's container -/
example : (roundTrip ⟨"d".toList, [], [Var.mk .base "a".toList [("x".toList, .list [.num "5".toList false])] []]⟩)
    = some (.ok ⟨[], [(["a".toList], [("x".toList, .sc (.num "5".toList false))])]⟩) := rfl
set_option maxRecDepth 200000 in
example : (roundTrip ⟨"d".toList, [], [Var.mk .struct "s".toList [("t".toList, .sc (.num "7".toList false))]
      [Var.mk .base "t".toList [] []]]⟩)
    = some (.ok ⟨[], [(["s".toList, "t".toList], []), (["s".toList], [])]⟩) := rfl

/-! ### round 7 (theorem audit): the domain stated syntactically, the id as `split(".")` -/

/-- **number tokens are classified back to their Python type — for every token of the printed grammar.**  `ScalarOk` of a
    number contains the hypothesis `convert ty tok = ok (num tok f)`; up to round 6 it was discharged on samples only.
    Here: every int token (optional `-`, decimal digits without a superfluous leading zero — any number of digits, so the
    property's "up to 6" is inside) under a declared type that is neither a string nor a float type comes back as the
    same token with Python type int; every float token `'%.6g'` can print (`1`, `-0`, `2.5`, `0.0001`, `1e+06`,
    `-1.23457e-07`, `nan`, `inf`, `-inf`) under Float32/Float64 comes back as the same token with type float.  The
    grammar (`IntShape`, `FloatShape`: existential decompositions) is independent of the classifier `literalEval`. -/
theorem C08_number_tokens (ty t : Text) (hs : strTypes.contains (lower ty) = false) :
    (IntShape t → floatTypes.contains (lower ty) = false → ScalarOk ty (.num t false)) ∧
    (FloatShape t → floatTypes.contains (lower ty) = true → ScalarOk ty (.num t true)) :=
  ⟨fun h hf => scalarOk_int ty t hs hf h, fun h hf => scalarOk_float ty t hs hf h⟩

/-- **the property's quantifier, syntactically, is inside the theorems' domain**: attribute maps made of strings without
    `"` and `\`, int tokens, `%.6g` float tokens (NaN, ±inf), homogeneous lists (all strings / all floats / all ints, any
    length) and nested dicts, on any tree of Structures, Sequences, Grids and Base variables, satisfy `DsOk`. -/
theorem C08_domain (ds : Dataset) (h : DsDom ds) : DsOk ds := dsDom_ok ds h

/-- **whole-dataset round trip over the syntactic domain** (replaces the reading "`DsOk` = the DAS-safe domain" by a
    theorem): no hypothesis mentions the parser any more.  Guards as in `C08_roundtrip_partial` / `_canon`. -/
theorem C08_roundtrip_domain (ds : Dataset) (hd : DsDom ds) :
    (Guard ds → roundTrip ds = some (.ok (expected ds))) ∧
    (Guard (canonDs ds) → roundTrip ds = some (.ok (expected (canonDs ds)))) :=
  ⟨C08_roundtrip_partial ds (dsDom_ok ds hd), C08_roundtrip_canon ds (dsDom_ok ds hd)⟩

/-- **the id path is `var.id.split(".")`**: the model's `attachStep` is given the path of names and uses `dotted p`
    (= `var.id`) as the flat key; for dot-free names (`_quote` turns `.` into `%2E`) splitting the id gives the path
    back, so `p.dropLast` / `p.getLast?` are the code's `id.split(".")[:-1]` / `[-1]`. -/
theorem C08_id_split (p : List Text) (hne : p ≠ []) (hp : ∀ n ∈ p, '.' ∉ n) : splitDot (dotted p) = p :=
  splitDot_dotted p hne hp

-- non-vacuity: shapes have inhabitants (the tokens `%.6g` prints for -5, 100000, 1.0, 2.5, 1e-07, 1234567.0)
example : IntShape "-5".toList := ⟨['-'], ['5'], rfl, Or.inr rfl, '5', [], rfl, by decide, by simp [DigitRun], by decide⟩
example : IntShape "100000".toList :=
  ⟨[], "100000".toList, rfl, Or.inl rfl, '1', "00000".toList, rfl, by decide, by unfold DigitRun; decide, by decide⟩
example : FloatShape "1".toList :=
  Or.inl ⟨[], ['1'], [], [], rfl, Or.inl rfl, ⟨'1', [], rfl, by decide, by simp [DigitRun], by decide⟩, Or.inl rfl, Or.inl rfl⟩
example : FloatShape "-2.5".toList :=
  Or.inl ⟨['-'], ['2'], ['.', '5'], [], rfl, Or.inr rfl, ⟨'2', [], rfl, by decide, by simp [DigitRun], by decide⟩,
    Or.inr ⟨'5', [], rfl, by decide, by simp [DigitRun]⟩, Or.inl rfl⟩
example : FloatShape "1.23457e+06".toList :=
  Or.inl ⟨[], ['1'], ".23457".toList, "e+06".toList, rfl, Or.inl rfl, ⟨'1', [], rfl, by decide, by simp [DigitRun], by decide⟩,
    Or.inr ⟨'2', "3457".toList, rfl, by decide, by unfold DigitRun; decide⟩,
    Or.inr ⟨'+', '0', ['6'], rfl, Or.inl rfl, by decide, by unfold DigitRun; decide⟩⟩
example : FloatShape "nan".toList ∧ FloatShape "-inf".toList := ⟨Or.inr (Or.inl rfl), Or.inr (Or.inr (Or.inr rfl))⟩
-- the grammar is not the classifier: `007` and `1.` are classified (bad / float) but are no shapes `%.6g` prints; and a
-- shape is what the theorem needs, e.g. under Int16 and FLOAT32
example : ScalarOk "Int16".toList (.num "-5".toList false) :=
  (C08_number_tokens _ _ rfl).1 ⟨['-'], ['5'], rfl, Or.inr rfl, '5', [], rfl, by decide, by simp [DigitRun], by decide⟩ rfl
-- the syntactic domain: the dataset of the whole-text example is in it
example : DsDom exSmall := by
  refine ⟨⟨nameOk_title, by unfold ValDom ScalarDom SafeStr; decide, trivial⟩, ?_, trivial⟩
  show NameOk "s".toList ∧ AttrsDom [("u".toList, .sc (.num "1".toList true))] ∧ VarsDom [_]
  refine ⟨nameOk_s, ⟨nameOk_u, ?_, trivial⟩, ⟨nameOk_a, nameOk_l, ?_, trivial⟩, trivial⟩
  · exact Or.inl ⟨[], ['1'], [], [], rfl, Or.inl rfl, ⟨'1', [], rfl, by decide, by simp [DigitRun], by decide⟩, Or.inl rfl, Or.inl rfl⟩
  · refine ⟨?_, Or.inr (Or.inr (by decide))⟩
    intro x hx
    simp at hx
    rcases hx with rfl | rfl
    · exact ⟨[], ['1'], rfl, Or.inl rfl, '1', [], rfl, by decide, by simp [DigitRun], by decide⟩
    · exact ⟨[], ['2'], rfl, Or.inl rfl, '2', [], rfl, by decide, by simp [DigitRun], by decide⟩
example : splitDot "s.t.b".toList = ["s".toList, "t".toList, "b".toList] := by decide
example : splitDot (dotted ["s".toList, "a".toList]) = ["s".toList, "a".toList] :=
  C08_id_split _ (by simp) (by decide)

/-! ### round 7: what `expected ds` says, as lookups (the property's "found on the same variables", "become global") -/

/-- **same variables**: in the outcome of the round-trip theorems every variable of a node is listed under its own name
    with exactly its own attribute map (key order), what is listed below a Structure / Sequence is listed under the
    parent's name (so, by induction, every variable at any depth under its id path), and the members of a Grid hold
    nothing.  (`expectVars` used to be readable only as a definition.) -/
theorem C08_expected_var (cs : List Var) (v : Var) (hv : v ∈ cs) :
    ([v.name], sortKeys v.attrs) ∈ expectVars cs
    ∧ (v.kind = .struct ∨ v.kind = .seq → ∀ q d, (q, d) ∈ expectVars v.children → (v.name :: q, d) ∈ expectVars cs)
    ∧ (v.kind = .grid → ∀ m ∈ v.children, ([v.name, m.name], []) ∈ expectVars cs) :=
  ⟨expected_own cs v hv, fun hk q d h => expected_sub cs v hv hk q d h,
   fun hk m hm => expected_member cs v m hv hk hm⟩

/-- **globals, as lookups in the client's `dataset.attributes`**: a plain attribute of the dataset (anything but a
    dict-valued NC_GLOBAL/DODS_EXTRA; a stranger container included) is found under its name with its value; an entry of a
    dict-valued NC_GLOBAL / DODS_EXTRA is found under its own name when the name is defined only there. -/
theorem C08_expected_global (ds : Dataset) (hnd : (keys ds.attrs).Nodup) :
    (∀ k v, dget ds.attrs k = some v → isGlobalDict (k, v) = false → dget (expected ds).globals k = some v)
    ∧ (∀ g e k v, g ∈ globalNames → (g, AVal.dict e) ∈ ds.attrs → (keys e).Nodup → dget e k = some v →
        k ∉ keys ds.attrs →
        (∀ g' e', (g', AVal.dict e') ∈ ds.attrs → g' ∈ globalNames → g' ≠ g → k ∉ keys e') →
        dget (expected ds).globals k = some v) :=
  ⟨fun k v h hp => expected_global_plain ds hnd k v h hp,
   fun g e k v hg hm he hk hp ho => expected_global_merged ds hnd g e k v hg hm he hk hp ho⟩

-- non-vacuity on `exDs` (global `title`, container NC_GLOBAL {n: 3}, Structure `s` with member `a`, Grid `g` with `arr`)
example : dget (expected exDs).globals "title".toList = some (.sc (.str "t; {x}".toList)) :=
  (C08_expected_global exDs (by decide)).1 _ _ rfl rfl
example : dget (expected exDs).globals "n".toList = some (.sc (.num "3".toList false)) :=
  (C08_expected_global exDs (by decide)).2 "NC_GLOBAL".toList _ "n".toList _ (by decide)
    (List.Mem.tail _ (List.Mem.head _)) (by decide) rfl (by decide)
    (by
      intro g' e' hm hg hne
      rcases List.mem_cons.mp hm with h | h
      · cases h
      · rcases List.mem_cons.mp h with h | h
        · injection h with h1 _; exact absurd h1 hne
        · cases h)
example : (["s".toList, "a".toList], sortKeys [("l".toList, AVal.list [.num "1".toList false, .num "2".toList false]),
      ("m".toList, .dict [("k".toList, .sc (.str [])), ("e".toList, .dict [])])]) ∈ expectVars exDs.children :=
  (C08_expected_var exDs.children _ (List.Mem.head _)).2.1 (Or.inl rfl) _ _
    (C08_expected_var _ _ (List.Mem.head _)).1
example : (["g".toList, "arr".toList], []) ∈ expectVars exDs.children :=
  (C08_expected_var exDs.children _ (List.Mem.tail _ (List.Mem.head _))).2.2 rfl _ (List.Mem.head _)

/-! ### round 7b: nested foreign style in GENERAL POSITION; exactly-once -/

/-- **nested style, whole tree, any parsed dict**: containers in any order, for any subset of the variables at any depth
    (Grid members included), NC_GLOBAL/DODS_EXTRA before or after the variables, strangers (containers or plain entries)
    anywhere at any level.  Every variable holds exactly the entries of the container its nested path spells in the text —
    minus the containers its own children take — or nothing (with its whole subtree) when there is no such container
    (`heldVars`, read as lookups by `C08_nested_lookup`); what is left at the top level (`stripKids`: everything except the
    containers the top-level variables took) becomes global on top of the merged dict-valued NC_GLOBAL/DODS_EXTRA.
    Guards, exactly: sibling names distinct at every level (Python's containers enforce it); no CONTAINER under the dotted id
    of a variable below the top level (`hflat`: otherwise that variable also takes the flat one — necessary, see
    `C08_foreign_nested_refuted`; the single visit is `C08_placement_both`); no leftover container named like the dataset. -/
theorem C08_foreign_nested (name : Text) (cs : List Var) (A : Dict)
    (hd : VarsDistinct cs) (hn : (cs.map Var.name).Nodup)
    (hflat : ∀ p ∈ visitIds cs, p.length ≠ 1 → ∀ e, dget (A.filter notGlobal) (dotted p) ≠ some (.dict e))
    (hself : ∀ e, dget (stripKids (A.filter notGlobal) cs) name ≠ some (.dict e)) :
    addAttributes name cs A = .ok (nestedExpected cs A) :=
  nested_attach name cs A hd hn hflat hself

/-- **nested style, from the text** (parse + attach composed): any foreign-layout text (`C08_foreign_layout`) -/
theorem C08_foreign_nested_text (name : Text) (cs : List Var) (kw w0 w1 : Text) (its : List FItem) (trail : Text)
    (hkw : lower kw = "attributes".toList) (h0 : Ws w0) (h1 : Ws w1) (hok : FItemsOk its)
    (hd : VarsDistinct cs) (hn : (cs.map Var.name).Nodup)
    (hflat : ∀ p ∈ visitIds cs, p.length ≠ 1 →
      ∀ e, dget ((denoteItems [] (eraseItems its)).filter notGlobal) (dotted p) ≠ some (.dict e))
    (hself : ∀ e, dget (stripKids ((denoteItems [] (eraseItems its)).filter notGlobal) cs) name ≠ some (.dict e)) :
    (dasParse (ftext kw w0 w1 its trail)).toOption.map (addAttributes name cs)
      = some (.ok (nestedExpected cs (denoteItems [] (eraseItems its)))) := by
  rw [fparse kw w0 w1 its trail hkw h0 h1 hok]
  simp [Except.toOption, nested_attach name cs _ hd hn hflat hself]

/-- **nested style, purely nested text**: when no top-level name of the DAS contains a dot the flat guard holds by itself —
    only "sibling names distinct" and "no leftover container named like the dataset" remain. -/
theorem C08_foreign_nested_pure (name : Text) (cs : List Var) (A : Dict)
    (hd : VarsDistinct cs) (hn : (cs.map Var.name).Nodup) (hdot : NoDot (keys (A.filter notGlobal)))
    (hself : ∀ e, dget (stripKids (A.filter notGlobal) cs) name ≠ some (.dict e)) :
    addAttributes name cs A = .ok (nestedExpected cs A) :=
  nested_attach name cs A hd hn (hflat_of_nodot cs _ hdot) hself

example : NoDot (keys (exNestedA.filter notGlobal)) := by unfold NoDot; decide

/-- **the outcome of the nested theorem, as lookups** (N = the container of the parent as the text wrote it; at the top
    level the parsed dict without the dict-valued NC_GLOBAL/DODS_EXTRA): a variable with a container under its name holds
    that container minus its children's containers, and its children are looked up inside it; a variable without one
    holds nothing, nor does anything below it; in what is left (`stripKids`: the globals at the top level, the variable's
    own attributes below) a name that is no child keeps its entry, a plain entry keeps its place even when named like a
    child, and the container a child took is gone. -/
theorem C08_nested_lookup (N : Dict) (cs : List Var) :
    (∀ v ∈ cs, ∀ E, dget N v.name = some (.dict E) →
        ([v.name], dupdate [] (stripKids E v.children)) ∈ heldVars N cs
        ∧ ∀ q d, (q, d) ∈ heldVars E v.children → (v.name :: q, d) ∈ heldVars N cs)
    ∧ (∀ v ∈ cs, (∀ E, dget N v.name ≠ some (.dict E)) →
        ([v.name], []) ∈ heldVars N cs ∧ ∀ p ∈ walkVars [] v.children, (v.name :: p, []) ∈ heldVars N cs)
    ∧ (∀ k, k ∉ cs.map Var.name → dget (stripKids N cs) k = dget N k)
    ∧ (∀ k, (∀ E, dget N k ≠ some (.dict E)) → dget (stripKids N cs) k = dget N k)
    ∧ (∀ k E, k ∈ cs.map Var.name → dget N k = some (.dict E) → dget (stripKids N cs) k = none) :=
  ⟨fun v hv E h => held_some N cs v hv E h, fun v hv h => held_none N cs v hv h,
   fun k h => strip_other N cs k h, fun k h => strip_plain N cs k h, fun k E hk h => strip_child N cs k E hk h⟩

/-- **exactly once**: whatever the parsed dict, `add_attributes` reports every variable id exactly once, in visiting
    order — so "found on the same variables" is a function of the id; for a served dataset the id texts of
    `expected ds` are pairwise distinct (from distinct, dot-free sibling names), and the nested outcome lists the same ids. -/
theorem C08_ids_once :
    (∀ name cs A r, addAttributes name cs A = .ok r → r.vars.map (·.1) = visitIds cs)
    ∧ (∀ ds, DsG ds → (expected ds).vars.map (·.1) = visitIds ds.children)
    ∧ (∀ ds, DsG ds → VarsNames ds.children → ((expected ds).vars.map fun pd => dotted pd.1).Nodup)
    ∧ (∀ N cs, VarsDistinct cs → (cs.map Var.name).Nodup → (heldVars N cs).map (·.1) = visitIds cs) :=
  ⟨addAttributes_ids, expected_ids, expected_ids_nodup, heldVars_ids⟩

-- non-vacuity of `C08_foreign_nested`: the guards hold on `exNestedA`, and the outcome is the one the text spells
example : addAttributes "d".toList exTmpl exNestedA = .ok (nestedExpected exTmpl exNestedA) :=
  C08_foreign_nested _ _ _ exTmpl_distinct.1 exTmpl_distinct.2 exNestedA_flat
    (by intro e he
        have : dget (stripKids (exNestedA.filter notGlobal) exTmpl) "d".toList = none := rfl
        rw [this] at he; cases he)
example : nestedExpected exTmpl exNestedA =
    ⟨[("n".toList, .sc (.num "3".toList false)),
      ("HDF_GLOBAL".toList, .dict [("k".toList, .sc (.str "v".toList))]),
      ("title".toList, .sc (.str "hi".toList))],
     [(["b".toList], [("u".toList, .sc (.num "1".toList false))]),
      (["s".toList, "a".toList], [("x".toList, .sc (.num "1.0".toList true))]),
      (["s".toList], [("zz".toList, .dict [("w".toList, .sc (.str "q".toList))]), ("t".toList, .sc (.num "7".toList false))])]⟩ := by
  rfl

set_option maxRecDepth 200000 in
/-- from a text in another server's order: `b` before `s`, NC_GLOBAL between the variables, a stranger inside `s` -/
example : (dasParse "Attributes{b {Int16 u 1;} NC_GLOBAL {Int32 n 3;} s {zz {} a {Byte x 1;}}}".toList).toOption.map
      (addAttributes "d".toList exTmpl) = some (.ok
    ⟨[("n".toList, .sc (.num "3".toList false))],
     [(["b".toList], [("u".toList, .sc (.num "1".toList false))]),
      (["s".toList, "a".toList], [("x".toList, .sc (.num "1".toList false))]),
      (["s".toList], [("zz".toList, .dict [])])]⟩) := rfl

/-- **the flat guard of the nested theorem is necessary**: with a container `s.a { … }` next to `s { a { … } }` the
    variable `s.a` takes both, so the outcome is not the nested one. -/
theorem C08_foreign_nested_refuted :
    ¬ (∀ (name : Text) (cs : List Var) (A : Dict), VarsDistinct cs → (cs.map Var.name).Nodup →
        (∀ e, dget (stripKids (A.filter notGlobal) cs) name ≠ some (.dict e)) →
        addAttributes name cs A = .ok (nestedExpected cs A)) := by
  intro h
  have h1 := h "d".toList exTmpl
    [("s".toList, .dict [("a".toList, .dict [("x".toList, .sc (.num "1".toList false))])]),
     ("s.a".toList, .dict [("y".toList, .sc (.num "2".toList false))])]
    exTmpl_distinct.1 exTmpl_distinct.2
    (by intro e he
        have : dget (stripKids (([("s".toList, AVal.dict [("a".toList, .dict [("x".toList, .sc (.num "1".toList false))])]),
          ("s.a".toList, .dict [("y".toList, .sc (.num "2".toList false))])] : Dict).filter notGlobal) exTmpl) "d".toList = none := rfl
        rw [this] at he; cases he)
  have h2 := congrArg (fun r : Except AErr Attached => match r with
    | .ok a => a.vars.map (fun pd : List Text × Dict => pd.2.length) | .error _ => []) h1
  revert h2
  decide

/-- **whole-dataset round trip over the WHOLE DAS-safe domain, guards on the dataset itself** (strengthens
    `C08_roundtrip_canon`, whose guard was a hypothesis on `canonDs ds`): lists of any length anywhere, the collision guard
    `DsG ds` and distinct keys inside dict-valued attributes (`AttrsKeys`/`VarsKeys`: Python's dicts) — the client holds
    exactly the normal form.  (`DsG` survives the normal form: `dsG_canon`; after it every list has two or more values.) -/
theorem C08_roundtrip_canon_ds (ds : Dataset) (hok : DsOk ds) (hg : DsG ds) (ha : AttrsKeys ds.attrs)
    (hv : VarsKeys ds.children) : roundTrip ds = some (.ok (expected (canonDs ds))) :=
  C08_roundtrip_canon ds hok (guard_canon ds hg ha hv)

-- non-vacuity: the witness of C08.short_list satisfies the guards on the dataset itself
example : DsG wShort ∧ AttrsKeys wShort.attrs ∧ VarsKeys wShort.children :=
  ⟨⟨⟨⟨by decide, rfl⟩, trivial⟩, by decide, by unfold NoDot; decide, (by intro e h; cases h), by decide⟩, trivial,
   ⟨⟨trivial, trivial⟩, trivial⟩⟩

/-! ### round 7b: flat AND nested containers mixed over a whole tree -/

/-- **mixed style, whole tree, any parsed dict**: a variable below the top level may have a flat container `s.a { … }`, a
    nested one `s { a { … } }`, both, or none — in any order, next to strangers and NC_GLOBAL/DODS_EXTRA anywhere.  With
    `A0` = the parsed dict without the dict-valued NC_GLOBAL/DODS_EXTRA and `A1` = `A0` without the flat containers of the
    variables below the top level: every variable holds its flat container (`flatI A0`: nothing for a top-level variable,
    whose flat id IS its nested one) updated with the container its nested path spells in `A1` minus its children's
    containers (`takenVars A1`), on a common name the nested one wins; what is left of `A1` at the top level becomes global.
    Guards, exactly: sibling names distinct at every level; top-level names dot-free and id texts pairwise distinct
    (`C08_flat_ids_distinct` gives the latter from dot-free names at every level); no leftover container named like the
    dataset.  `C08_foreign_nested` is the case without flat containers, `C08_placement_both` the single visit. -/
theorem C08_foreign_mixed (name : Text) (cs : List Var) (A : Dict)
    (hd : VarsDistinct cs) (hn : (cs.map Var.name).Nodup) (hdot : ∀ v ∈ cs, '.' ∉ v.name)
    (hids : ((visitIds cs).map dotted).Nodup)
    (hself : ∀ e, dget (stripKids (popAll (A.filter notGlobal) (deepKeys (visitIds cs))) cs) name ≠ some (.dict e)) :
    addAttributes name cs A = .ok (mixedExpected cs A) :=
  mixed_attach name cs A hd hn hdot hids hself

/-- **mixed style, no guard on the dataset's name** (the most general whole-tree statement about `add_attributes`): the
    dataset node is visited last with its own name as id; a leftover CONTAINER named like the dataset is merged into the
    dataset's attributes (`finalGlobals`), anything else named like it stays a global attribute.  Remaining hypotheses:
    sibling names distinct, top-level names dot-free, id texts pairwise distinct — all three follow from distinct,
    dot-free sibling names (`C08_flat_ids_distinct`), i.e. they hold for every dataset pydap can build. -/
theorem C08_foreign_mixed_total (name : Text) (cs : List Var) (A : Dict)
    (hd : VarsDistinct cs) (hn : (cs.map Var.name).Nodup) (hdot : ∀ v ∈ cs, '.' ∉ v.name)
    (hids : ((visitIds cs).map dotted).Nodup) :
    addAttributes name cs A = .ok
      ⟨finalGlobals (mergeGlobals A []) (stripKids (popAll (A.filter notGlobal) (deepKeys (visitIds cs))) cs) name,
       (mixedExpected cs A).vars⟩ :=
  mixed_attach_total name cs A hd hn hdot hids

-- a container named like the dataset `d` is merged into the globals; a plain entry named like it stays
example : addAttributes "d".toList exTmpl [("d".toList, .dict [("t".toList, .sc (.str "x".toList))]), ("g".toList, .sc (.num "1".toList false))]
    = .ok ⟨[("t".toList, .sc (.str "x".toList)), ("g".toList, .sc (.num "1".toList false))],
           [(["b".toList], []), (["s".toList, "a".toList], []), (["s".toList], [])]⟩ :=
  (C08_foreign_mixed_total _ _ _ exTmpl_distinct.1 exTmpl_distinct.2 (by decide) (by decide)).trans rfl

/-- **mixed style, from the text** (parse + attach composed) -/
theorem C08_foreign_mixed_text (name : Text) (cs : List Var) (kw w0 w1 : Text) (its : List FItem) (trail : Text)
    (hkw : lower kw = "attributes".toList) (h0 : Ws w0) (h1 : Ws w1) (hok : FItemsOk its)
    (hd : VarsDistinct cs) (hn : (cs.map Var.name).Nodup) (hdot : ∀ v ∈ cs, '.' ∉ v.name)
    (hids : ((visitIds cs).map dotted).Nodup)
    (hself : ∀ e, dget (stripKids (popAll ((denoteItems [] (eraseItems its)).filter notGlobal)
      (deepKeys (visitIds cs))) cs) name ≠ some (.dict e)) :
    (dasParse (ftext kw w0 w1 its trail)).toOption.map (addAttributes name cs)
      = some (.ok (mixedExpected cs (denoteItems [] (eraseItems its)))) := by
  rw [fparse kw w0 w1 its trail hkw h0 h1 hok]
  simp [Except.toOption, mixed_attach name cs _ hd hn hdot hids hself]

/-- **the mixed outcome, as lookups**: a variable listed with the container `t` its nested path takes holds its flat
    container updated with `t`; which `t`: with a container under its name in the parent's container, that container minus
    its children's containers (children looked up inside it), otherwise none for the whole subtree. -/
theorem C08_mixed_lookup (I : List Text → Dict) (N : Dict) (cs : List Var) :
    (∀ p t, (p, t) ∈ takenVars N cs → (p, optUpd (I p) t) ∈ applyI I (takenVars N cs))
    ∧ (∀ v ∈ cs, ∀ E, dget N v.name = some (.dict E) →
        ([v.name], some (stripKids E v.children)) ∈ takenVars N cs
        ∧ ∀ q t, (q, t) ∈ takenVars E v.children → (v.name :: q, t) ∈ takenVars N cs)
    ∧ (∀ v ∈ cs, (∀ E, dget N v.name ≠ some (.dict E)) →
        ([v.name], none) ∈ takenVars N cs ∧ ∀ p ∈ walkVars [] v.children, (v.name :: p, none) ∈ takenVars N cs) :=
  ⟨fun p t h => applyI_mem I _ p t h, fun v hv E h => taken_some N cs v hv E h, fun v hv h => taken_none N cs v hv h⟩

-- non-vacuity: `s { a { x } }`, `s.a { y }`, `b { u }` on the tree `s {a}, b`: `s.a` holds y then x, `s` nothing, `b` u
example : addAttributes "d".toList exTmpl exMixedA = .ok (mixedExpected exTmpl exMixedA) :=
  C08_foreign_mixed _ _ _ exTmpl_distinct.1 exTmpl_distinct.2 (by decide) (by decide)
    (by intro e he
        have : dget (stripKids (popAll (exMixedA.filter notGlobal) (deepKeys (visitIds exTmpl))) exTmpl) "d".toList = none := rfl
        rw [this] at he; cases he)
example : mixedExpected exTmpl exMixedA =
    ⟨[], [(["b".toList], [("u".toList, .sc (.num "1".toList false))]),
          (["s".toList, "a".toList], [("y".toList, .sc (.num "2".toList false)), ("x".toList, .sc (.num "1".toList false))]),
          (["s".toList], [])]⟩ := by rfl

/-! ### the tie by translation: the *source text* of `type_convert` / `get_type` names the model's types

`Pydap.Gen.src_type_convert` and `Pydap.Gen.src_get_type` (PydapModel/Generated/DasSrc.lean) are the MiniPy trees of the whole
bodies of responses/das.py `type_convert` and `get_type`, regenerated on every run by `harness/py2lean.py`.  A scalar of
the model is seen as a str, an int (any) or a float (any, opaque): `scalarVal`.  Opaque inputs of `get_type`, exactly
(`getTypeEnv`): `hasattr(values, "dtype")` (false on the model's plain Python values), the table lookup
`NUMPY_TO_DAP2_TYPEMAP[values.dtype.char]`, `isinstance(values, Iterable)` (true for a str and for a list, false for a
number) and the comprehension `[type_convert(val) for val in values]` (bound to the element-wise `typeConvert`, which
`C08_source_type_convert` ties).  Carried by the source: the order of the three tests, the inlined call
`type_convert(values)`, the precedence list, the stable sort by `precedence.index`, `types[0]`. -/

open MiniPy in
/-- `type_convert`: for every scalar the interpreted body returns the model's `typeConvert` -/
theorem C08_source_type_convert (x : Scalar) (i : Int) (bits : Nat) :
    runItem [("obj", scalarVal i bits x)] Gen.src_type_convert "@ret" = .ok (.str (codesOf (typeConvert x))) :=
  src_type_convert_eq x i bits

open MiniPy in
/-- `get_type` on the values `build_attributes` hands it: for every scalar the interpreted body returns `typeConvert`,
    for every non-empty list `listType` (String before Float64 before Int32) — the type `buildAttr` writes -/
theorem C08_source_get_type (k : Text) (v : AVal) (hv : sizePos v = true) (hd : ∀ kvs, v ≠ .dict kvs)
    (i : Int) (bits : Nat) (junk : MiniPy.Val) :
    ∃ ty vals, buildAttr k v = .attr ty k vals ∧
      runItem (getTypeEnv i bits junk v) Gen.src_get_type "@ret" = .ok (.str (codesOf ty)) := by
  cases v with
  | sc x => exact ⟨_, _, rfl, src_get_type_scalar x i bits junk⟩
  | list xs =>
    refine ⟨_, _, rfl, src_get_type_list xs ?_ i bits junk⟩
    intro e; subst e; simp [sizePos] at hv
  | dict kvs => exact absurd rfl (hd kvs)

open MiniPy in
/-- a value with a `dtype` (numpy) gets the table entry, before any other test -/
theorem C08_source_get_type_numpy (v ty r1 r2 : MiniPy.Val) :
    runItem [("values", v), ("@has_dtype", .bool true), ("@numpy_type", ty), ("@is_iterable", r1), ("@types", r2)]
      Gen.src_get_type "@ret" = .ok ty :=
  src_get_type_numpy v ty r1 r2

open MiniPy in
example : runItem (getTypeEnv 7 0 .none (.list [.num "1".toList false, .str "a".toList, .num "2.5".toList true]))
    Gen.src_get_type "@ret" = .ok (.str (codesOf "String".toList)) := by rfl
open MiniPy in
example : runItem (getTypeEnv 7 0 .none (.list [.num "1".toList false, .num "2.5".toList true]))
    Gen.src_get_type "@ret" = .ok (.str (codesOf "Float64".toList)) := by rfl
open MiniPy in
example : runItem [("obj", scalarVal 3 0 (.num "3".toList false))] Gen.src_type_convert "@ret"
    = .ok (.str (codesOf "Int32".toList)) := by rfl

end Pydap.C08
