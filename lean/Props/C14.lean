/-
  C14 — Deriving or reading a remote selection never alters other client objects.
  Model: `PydapModel/Proxy.lean` (heap of proxies and templates, every GET logged); lemmas in
  `Proofs/Proxy.lean`.  `run h evs` executes any history of client-side events
  (`copy`, `__getitem__` with every key kind, `__iter__`, array `__getitem__`, the server-function
  chain) on a heap `h`; `obs h r` is what object `r` would request and decode with *now*.
-/
import PydapModel.Proxy
import Proofs.Proxy
namespace Pydap.C14
open Pydap Pydap.Proxy

/-- a freshly opened dataset is a well-formed heap (so the theorems below apply to every
    history that starts from `open_url`) -/
theorem C14_open_wf (b : Name) (bs : List Name) (σ : Sess) (n : Name) (keys : List Name)
    (arrays : List (Name × List Nat × Bool)) : WF (openHeap b bs σ n keys arrays) := by
  intro p hp
  simp only [openHeap, List.mem_append, List.mem_cons, List.mem_map, List.not_mem_nil, or_false] at hp
  rcases hp with (hp | ⟨a, _, ha⟩) | hp
  · cases hp; simp [openHeap]
  · cases ha
  · cases hp

/-- **Purity, any history**: whatever derivations and reads are made, in whatever order and on
    whatever objects, every object that existed before keeps its observable: the request it
    issues when read (ids, hyperslab, selection), the columns it decodes with, its session. -/
theorem C14_pure (h : Heap) (w : WF h) (evs : List Ev) (r : Nat) (hr : r < h.objs.length) :
    obs (run h evs) r = obs h r :=
  obs_extends w (run_extends h w evs).1 r hr

/-- object references stay valid and requests already made are not rewritten -/
theorem C14_history_monotone (h : Heap) (w : WF h) (evs : List Ev) :
    h.objs.length ≤ (run h evs).objs.length ∧ (∃ l, (run h evs).log = h.log ++ l) ∧ WF (run h evs) :=
  ⟨(run_extends h w evs).1.ob_len, (run_extends h w evs).1.lg, (run_extends h w evs).2⟩

/-- **A derivation returns a new object** described by the parent's description and the key
    alone, wherever in a history it happens. -/
theorem C14_derive_new (h : Heap) (r : Nat) (k : DKey) (s s' : Spec)
    (hs : specAt h r = some s) (hk : specStep s k = some s') :
    specAt (step h (.getitem r k)) h.objs.length = some s' :=
  step_getitem_spec h r k s s' hs hk

/-- **Derived object = fresh client applying the same selection**: deriving along a list of keys,
    with arbitrary other events (derivations and reads of any object) before each derivation,
    yields an object whose description — hence its request `specReq` and decode columns — is the
    pure accumulation `specChain` of the keys on the root's description; a fresh client that only
    performs these derivations is the special case of empty interleavings, so both issue the
    same request. -/
theorem C14_fresh_equiv (h : Heap) (w : WF h) (r : Nat) (s s' : Spec) (l : List (List Ev × DKey))
    (hs : specAt h r = some s) (hc : specChain s (l.map Prod.snd) = some s') :
    specAt (deriveAmid h r l).1 (deriveAmid h r l).2 = some s' ∧
    specAt (deriveAmid h r (l.map fun a => ([], a.2))).1 (deriveAmid h r (l.map fun a => ([], a.2))).2 = some s' := by
  refine ⟨deriveAmid_spec h w r s s' l hs hc, deriveAmid_spec h w r s s' _ hs ?_⟩
  have e : (l.map fun a => (([] : List Ev), a.2)).map Prod.snd = l.map Prod.snd := by
    simp [List.map_map, Function.comp_def]
  rw [e]; exact hc

/-- the request read from a description is the request of the proxy it describes -/
theorem C14_request_of_spec (t : Tmpl) (p : SeqProxy) : seqReq t p = specReq (specOf t p) := rfl

/-- what the repair of `__copy__` (13350a5) removed: with the old `__copy__` the template is
    shared, so `A[["f","i"]]` rewrites the columns object `A` itself decodes with. -/
theorem C14_pure_old_refuted :
    let h := openHeap ['u'] [] (some 7) ['s'] [['i'], ['f'], ['t']] []
    obs h 0 ≠ obs (runOld h [.getitem 0 (.cols [['f'], ['i']])]) 0 ∧
    (obs (runOld h [.getitem 0 (.cols [['f'], ['i']])]) 0).map (·.columns) = some [['f'], ['i']] ∧
    obs h 0 = obs (run h [.getitem 0 (.cols [['f'], ['i']])]) 0 := by decide

/-! ### non-vacuity -/
example : (obs (openHeap ['u'] [] (some 7) ['s'] [['i'], ['f']] [(['a'], [3], false)]) 0).map (·.columns)
    = some [['i'], ['f']] := by decide
example : specChain ⟨['u'], [['s']], [['i'], ['f']], [['i'], ['f']], false, [], [PSlice.all], some 7⟩
    [.cols [['f']], .ce [['s', '.', 'i', '>', '1']], .name ['f']]
    = some ⟨['u'], [['s'], ['f']], [], [], false, [['s', '.', 'i', '>', '1']], [PSlice.all], some 7⟩ := by decide

end Pydap.C14
