/-
  C14 — Deriving or reading a remote selection never alters other client objects.
  Model: `PydapModel/Proxy.lean` (heap of proxies and templates, every GET logged); lemmas in
  `Proofs/Proxy.lean`.  `run h evs` executes any history of client-side events
  (`copy`, `__getitem__` with every key kind, `__iter__`, array `__getitem__`, the server-function
  chain) on a heap `h`; `obs h r` is what object `r` would request and decode with *now*.
-/
import PydapModel.Proxy
import Proofs.Proxy
import Proofs.ProjSrc
import PydapModel.Derive
import Proofs.Derive
import Props.C04
import Proofs.ProjSrcFull
import Proofs.ModelSrc
import Proofs.ProxyReread
namespace Pydap.C14
open Pydap Pydap.Proxy

/-- a freshly opened dataset is a well-formed heap (so the theorems below apply to every
    history that starts from `open_url`) -/
theorem C14_open_wf (b : Name) (bs : List Name) (σ : Sess) (n : Name) (keys : List Name)
    (arrays : List (Name × List Nat × Bool)) : WF (openHeap b bs σ n keys arrays) := by
  intro p hp
  simp only [openHeap, List.mem_append, List.mem_cons, List.mem_map, List.not_mem_nil, or_false] at hp
  rcases hp with (hp | ⟨a, _, ha⟩) | hp
  · cases hp; simp [openHeap]
  · cases ha
  · cases hp

/-- **Purity, any history**: whatever derivations and reads are made, in whatever order and on
    whatever objects, every object that existed before keeps its observable: the request it
    issues when read (ids, hyperslab, selection), the columns it decodes with, its session. -/
theorem C14_pure (h : Heap) (w : WF h) (evs : List Ev) (r : Nat) (hr : r < h.objs.length) :
    obs (run h evs) r = obs h r :=
  obs_extends w (run_extends h w evs).1 r hr

/-- object references stay valid and requests already made are not rewritten -/
theorem C14_history_monotone (h : Heap) (w : WF h) (evs : List Ev) :
    h.objs.length ≤ (run h evs).objs.length ∧ (∃ l, (run h evs).log = h.log ++ l) ∧ WF (run h evs) :=
  ⟨(run_extends h w evs).1.ob_len, (run_extends h w evs).1.lg, (run_extends h w evs).2⟩

/-- **A derivation returns a new object** described by the parent's description and the key
    alone, wherever in a history it happens. -/
theorem C14_derive_new (h : Heap) (r : Nat) (k : DKey) (s s' : Spec)
    (hs : specAt h r = some s) (hk : specStep s k = some s') :
    specAt (step h (.getitem r k)) h.objs.length = some s' :=
  step_getitem_spec h r k s s' hs hk

/-- **Derived object = fresh client applying the same selection**: deriving along a list of keys,
    with arbitrary other events (derivations and reads of any object) before each derivation,
    yields an object whose description — hence its request `specReq` and decode columns — is the
    pure accumulation `specChain` of the keys on the root's description; a fresh client that only
    performs these derivations is the special case of empty interleavings, so both issue the
    same request. -/
theorem C14_fresh_equiv (h : Heap) (w : WF h) (r : Nat) (s s' : Spec) (l : List (List Ev × DKey))
    (hs : specAt h r = some s) (hc : specChain s (l.map Prod.snd) = some s') :
    specAt (deriveAmid h r l).1 (deriveAmid h r l).2 = some s' ∧
    specAt (deriveAmid h r (l.map fun a => ([], a.2))).1 (deriveAmid h r (l.map fun a => ([], a.2))).2 = some s' := by
  refine ⟨deriveAmid_spec h w r s s' l hs hc, deriveAmid_spec h w r s s' _ hs ?_⟩
  have e : (l.map fun a => (([] : List Ev), a.2)).map Prod.snd = l.map Prod.snd := by
    simp [List.map_map, Function.comp_def]
  rw [e]; exact hc

/-- the request read from a description is the request of the proxy it describes -/
theorem C14_request_of_spec (t : Tmpl) (p : SeqProxy) : seqReq t p = specReq (specOf t p) := rfl

/-- **Re-reading issues the GET the first read issued, and a read writes nothing else**: if reading object `r`
    (a sequence: `__iter__`; an array proxy: `[idx]`) on heap `h` sends the request `q` over session `s`, then after
    ANY history of derivations and reads on any objects the same read sends the same `q` over the same `s` — and the
    read itself allocates no object and touches no template.  With "the answer to a GET is a function of the request"
    (the server side: C13; the model's `answer`) this is "the original and all earlier derivations keep returning
    exactly what they returned before" for sequences and arrays, stated on what is actually sent rather than on `obs`. -/
theorem C14_reread_same_request (h : Heap) (w : WF h) (evs : List Ev) (r : Nat) (idx : List Idx) (ev : Ev)
    (hev : ev = .iter r ∨ ev = .aget r idx) (s : Sess) (q : Req)
    (hfirst : (step h ev).log = h.log ++ [(s, q)]) :
    (step (run h evs) ev).log = (run h evs).log ++ [(s, q)] ∧
    (step (run h evs) ev).objs = (run h evs).objs ∧ (step (run h evs) ev).tmpls = (run h evs).tmpls :=
  reread_same_request h w evs r idx ev hev s q hfirst

/-! ### variables and grids (`BaseType.__getitem__`, `GridType.__getitem__`, `output_grid` on and off)

`Ev.vget r idx` is `variable[idx]`, `Ev.ggrid r key` is `grid[key]`: with `output_grid` on, one GET for the
array and one per map paired with an entry of the Ellipsis-expanded key, all logged; the result is a new
grid with new children holding the received arrays, children not indexed keep the (shared) proxy.
`C14_pure` above already covers these objects: `obs` of an array proxy contains its stored slice, of a
variable what its `data` is (proxy reference or received positions), of a grid its children and
`_output_grid`. -/

/-- the `BaseType`/`GridType` objects of an opened dataset keep the heap well-formed -/
theorem C14_open_vars_wf (h : Heap) (w : WF h) (vars : List (Name × Nat)) (grids : List (List Nat × Bool)) :
    WF (openVars h vars grids) := by
  intro p hp
  simp only [openVars, List.mem_append, List.mem_map] at hp
  rcases hp with (hp | ⟨a, _, ha⟩) | ⟨a, _, ha⟩
  · exact w p hp
  · cases ha
  · cases ha

/-- **Reading a grid never changes the opened grid, any history**: the grid seen through all its
    references — `_output_grid`, and for the array and every map the id, and the data: for a proxy its
    id, stored slice and session, for a received array its contents — is the same after any history of
    grid reads (maps included), variable reads, sequence derivations and reads, on any objects. -/
theorem C14_grid_read_pure (h : Heap) (w : WF h) (evs : List Ev) (r : Nat) (v : Bool × List (Name × DataView))
    (hv : gridView h r = some v) : gridView (run h evs) r = some v :=
  gridView_extends (run_extends h w evs).1 hv

/-- **Re-reading returns what the first read returned**: the children `grid[key]` returns (ids and
    received arrays of the array and the maps; the answer to a GET is a function of the request) are the
    same after any history as before it. -/
theorem C14_grid_reread (h : Heap) (w : WF h) (evs : List Ev) (r : Nat) (key : List Idx) (l : List Obj)
    (e : gridResult h r key = some l) : gridResult (run h evs) r key = some l :=
  gridResult_stable (Stable.of_extends (run_extends h w evs).1 (run_src h evs)) r key e

/-- the same for `variable[idx]` — an array, a map read on its own, or `grid[key]` with `output_grid`
    off (`grid.array[key]`): the received array is the same after any history as before it -/
theorem C14_var_reread (h : Heap) (w : WF h) (evs : List Ev) (r : Nat) (idx : List Idx) (ax : List (Bool × List Nat))
    (e : varResult h r idx = some ax) : varResult (run h evs) r idx = some ax :=
  varResult_stable (Stable.of_extends (run_extends h w evs).1 (run_src h evs)) r idx e

/-- the objects `grid[key]` creates are exactly those children followed by the new grid that refers to
    them (`_output_grid` on, as `__shallowcopy__` builds it); nothing else is allocated or written -/
theorem C14_grid_read_allocates (h : Heap) (r : Nat) (key : List Idx) (l : List Obj)
    (e : gridResult h r key = some l) :
    (step h (.ggrid r key)).objs
      = h.objs ++ l ++ [Obj.grid ((List.range l.length).map fun i => h.objs.length + i) true] :=
  ggrid_objs h r key e

/-- what the repair of `__copy__` (13350a5) removed: with the old `__copy__` the template is
    shared, so `A[["f","i"]]` rewrites the columns object `A` itself decodes with. -/
theorem C14_pure_old_refuted :
    let h := openHeap ['u'] [] (some 7) ['s'] [['i'], ['f'], ['t']] []
    obs h 0 ≠ obs (runOld h [.getitem 0 (.cols [['f'], ['i']])]) 0 ∧
    (obs (runOld h [.getitem 0 (.cols [['f'], ['i']])]) 0).map (·.columns) = some [['f'], ['i']] ∧
    obs h 0 = obs (run h [.getitem 0 (.cols [['f'], ['i']])]) 0 := by decide

/-! ### non-vacuity -/
example : (obs (openHeap ['u'] [] (some 7) ['s'] [['i'], ['f']] [(['a'], [3], false)]) 0).map (·.columns)
    = some [['i'], ['f']] := by decide
example : specChain ⟨['u'], [['s']], [['i'], ['f']], [['i'], ['f']], false, [], [PSlice.all], some 7⟩
    [.cols [['f']], .ce [['s', '.', 'i', '>', '1']], .name ['f']]
    = some ⟨['u'], [['s'], ['f']], [], [], false, [['s', '.', 'i', '>', '1']], [PSlice.all], some 7⟩ := by decide

-- `C14_reread_same_request`: the opened sequence read first; then `s[["f"]]`, a filter on the result, a slice of the
-- original and a read of the derived object happen; the original still sends what it sent
example :
    let h := openHeap ['u'] [] (some 7) ['s'] [['i'], ['f']] [(['a'], [3], false)]
    let evs := [Ev.getitem 0 (.cols [['f']]), .getitem 3 (.ce [['s', '.', 'f', '>', '1']]), .getitem 0 (.sl ⟨some 1, some 3, none⟩),
                .iter 4, .aget 1 [Idx.int 0]]
    (step h (.iter 0)).log = h.log ++ [(some 7, ⟨['u'], .dods, [['s']], [], []⟩)] ∧
    (step (run h evs) (.iter 0)).log = (run h evs).log ++ [(some 7, ⟨['u'], .dods, [['s']], [], []⟩)] ∧
    ((run h evs).log.map fun e => e.2.ids) = [[['s', '.', 'f']], [['a']]] := by
  simp [run, step, stepWith, openHeap, seqGetitemWith, seqCopy, seqApply, pushObj, pushLog, seqReq, seqIds, joinDot,
    dropTrailingAll, arrReq, combine, fixSlice, expandEll, zipFix, fixAxis, fixSl, toSlice, combine1, PSlice.all, orElse]
  try decide

/-- an opened dataset with array `a`, grid `g` (array `g.g` 2×3, maps `g.x`, `g.y`), `output_grid` on -/
def exGrid : Heap :=
  openVars (openHeap ['u'] [] (some 7) ['s'] [['i']]
      [(['a'], [2, 3], false), (['g', '.', 'g'], [2, 3], false), (['g', '.', 'x'], [2], false), (['g', '.', 'y'], [3], false)])
    [(['a'], 1), (['g', '.', 'g'], 2), (['g', '.', 'x'], 3), (['g', '.', 'y'], 4)] [([7, 8, 9], true)]

example : (gridView exGrid 10).isSome = true := by decide
-- `g[::2, ...]`: three GETs (array, both maps), the first map strided; the children it returns; the opened grid as before
-- (`combine` of C03 is defined by well-founded recursion and does not reduce under `decide`: unfolded by `simp`)
example : ((run exGrid [.ggrid 10 [Idx.sl ⟨none, none, some 2⟩, Idx.ell]]).log.map fun e => (e.2.ids, e.2.slab.length))
    = [([['g', '.', 'g']], 2), ([['g', '.', 'x']], 1), ([['g', '.', 'y']], 1)] := by
  simp [run, step, stepWith, gridGetitemHeap, gridFinish, pushObj, pushObjs, exGrid, openVars, openHeap, gridLoop,
    gridIndexLists, dataRank, readData, answer, arrReq, pushLog, combine, fixSlice, expandEll, zipFix, fixAxis, fixSl,
    toSlice, combine1, PSlice.all, orElse, expandKey, dropTrailingAll, npSlices, sel, npBound, Except.map]
  try decide
example : gridResult exGrid 10 [Idx.sl ⟨none, none, some 2⟩, Idx.ell]
    = some [.var ['g', '.', 'g'] (.vals [(false, [0]), (false, [0, 1, 2])]), .var ['g', '.', 'x'] (.vals [(false, [0])]),
            .var ['g', '.', 'y'] (.vals [(false, [0, 1, 2])])] := by
  simp [gridResult, exGrid, openVars, openHeap, gridLoop, gridIndexLists, dataRank, readData, answer, arrReq, pushLog,
    combine, fixSlice, expandEll, zipFix, fixAxis, fixSl, toSlice, combine1, PSlice.all, orElse, expandKey,
    dropTrailingAll, npSlices, sel, npBound, Except.map]
  try decide
example : varResult ⟨[], [.var ['x'] (.vals [(false, [0, 2, 4])])], [], []⟩ 0 [Idx.sl ⟨some 1, none, none⟩]
    = some [(false, [2, 4])] := by decide
-- a grid already received (no proxy behind it), indexed locally by numpy: `[0]` drops the first axis
example : gridResult ⟨[], [.var ['g'] (.vals [(false, [0, 1]), (false, [0, 1, 2])]), .var ['x'] (.vals [(false, [0, 1])]),
      .var ['y'] (.vals [(false, [0, 1, 2])]), .grid [0, 1, 2] true], [], []⟩ 3 [Idx.int 1]
    = some [.var ['g'] (.vals [(true, [1]), (false, [0, 1, 2])]), .var ['x'] (.vals [(true, [1])]),
            .var ['y'] (.vals [(false, [0, 1, 2])])] := by decide


/-! ### a derived object reads what its selection names on the source rows (client model ∘ server model of C04)

`Derive.DStep` = the derivations of the property (column list, filter on the object's own columns, slice, integer,
child, filter on a single column written with the columns of the opened sequence).  The derived proxy of the heap
model writes its request (`SeqClient.objQuery`: `SequenceProxy.url`, all three branches of `_projection`), the server
model of C04 reads and answers it (`SeqClient.serveQuery`: `parse_ce`, `apply_selection`, `apply_projection`, any of
the three backends), and the answer is `Derive.refSelection` — a reference with no pydap code in it: every condition of
the chain, then its record ranges IN THE ORDER THEY WERE APPLIED (Python list slicing), then the columns of the LAST
column list / the child.  The record ranges reach the server as ONE hyperslab (`combine_slices`, C03): the theorem
contains C03's composition law for slices of strided slices (`Derive.pySlice_combine`). -/
section DerivedReads
open Pydap.Seq Pydap.SeqClient Pydap.Derive
open Pydap.IterData (Op Item RCond rsplitHead refCond cellOf)
variable {A : Type}

/-- **A derived object reads the same data as a fresh client applying the same selection — by name.**
    The dataset is opened with `open_url(url)` (object `r` of a well-formed client heap is the proxy of the flat
    sequence `id` with columns `names`).  Any chain `l` of derivations is applied, with an arbitrary history of other
    client events before each of them.  `ChainOk`: column lists are non-empty, duplicate-free lists of columns (ANY
    columns of the sequence, also after an earlier list: the last list decides columns and order); comparisons name
    columns of the sequence; slices and integers are non-negative (steps ≥ 1); after a child only slices, integers and
    `colfilt` follow.  `RangeOk`: the combined range is not empty-by-stop (`stop = 0` prints as unbounded, C03).
    Then the GET the derived proxy issues is answered by the server with exactly `refSelection chain rows`. -/
theorem C14_derived_reads_reference (cmp : Op → A → A → Bool) (enc : A → List Char) (lit : List Char → Option A)
    (henc : ∀ v, lit (enc v) = some v) (id : Name) (hhead : ∀ v, rsplitHead (enc v) ≠ id)
    (hst : ∀ v ch r, enc v = ch :: r → ch ≠ '=' ∧ ch ≠ '~')
    (names : List Name) (hnd : names.Nodup) (hid : id ∉ names)
    (hidok : NameOk id) (hnames : ∀ k ∈ names, NameOk k)
    (rows : List (List A)) (hrows : ∀ r ∈ rows, r.length = names.length)
    (hlen : (rows.length : Int) ≤ MAXSIZE) (bk : Backend)
    (h : Heap) (w : WF h) (r : Nat) (base : Name) (σ : Sess) (tm : Nat)
    (hs : specAt h r = some (specOf (openTmpl id names ⟨none, []⟩) (openProxy base σ tm ⟨none, []⟩)))
    (l : List (List Ev × DStep A))
    (hok : ChainOk enc names false (l.map (·.2)))
    (hr : RangeOk (((l.map (·.2)).map toCOp).foldl (accStep enc id) (openAcc id names ⟨none, []⟩)).sl) :
    let d := deriveAmid h r (l.map fun x => (x.1, keyOfStep enc [id] (openProxy base σ tm ⟨none, []⟩) x.2))
    ∃ q out, objQuery d.1 d.2 = some q ∧
      refSelection cmp names (l.map (·.2)) rows = some out ∧
      serveQuery cmp enc lit bk id names rows q = some (.ok (out.map Item.row)) := by
  intro d
  let chain := l.map (·.2)
  let a0 : Acc := openAcc id names ⟨none, []⟩
  let a := (chain.map toCOp).foldl (accStep enc id) a0
  have hne : [] ∉ names := fun hm => (hnames [] hm).1 rfl
  have hkeys : ∀ k ∈ names, k ∈ names := fun k hk => hk
  have hops := opsOk_of_chainOk enc names false chain hok
  -- C14: the derived object is described by the accumulation (after a child: the single column)
  obtain ⟨hchain, hinv⟩ := chain_spec enc base id names σ hidok hnames (openProxy base σ tm ⟨none, []⟩) chain false a0
    hok (by intro e; cases e)
  have hsnd : (l.map fun x => (x.1, keyOfStep enc [id] (openProxy base σ tm ⟨none, []⟩) x.2)).map Prod.snd
      = chain.map (keyOfStep enc [id] (openProxy base σ tm ⟨none, []⟩)) := by
    simp [chain, List.map_map, Function.comp_def]
  have hspec := deriveAmid_spec h w r (specOfAcc base id names σ false a0) _
    (l.map fun x => (x.1, keyOfStep enc [id] (openProxy base σ tm ⟨none, []⟩) x.2))
    (by rw [hs, open_spec]; rfl) (by rw [hsnd]; exact hchain)
  -- invariants of the accumulation
  have hvis0 : VisOk names a0 := by intro hsub; cases hsub
  obtain ⟨hsel, hvis⟩ := run_invariants enc lit id names names hidok hnames hkeys henc hhead hst
    (chain.map toCOp) a0 [] hops ⟨by intro x hx; simp [a0, openAcc] at hx, [], rfl, rfl⟩ hvis0
  have hq := specQuery_acc base id names names σ hidok hnames (seenAfter false chain) a hinv hvis hkeys
  obtain ⟨conds, hres, hreq⟩ := query_request lit base id names names σ a _ hidok hnames hkeys hvis hsel hr
  have hcols : ∀ k ∈ (if a.sub then some a.vis else none).getD names, k ∈ names := by
    intro k hk
    cases hsub : a.sub with
    | false => simpa [hsub] using hk
    | true => rw [hsub] at hk; exact (hvis hsub).2.2 k (by simpa using hk)
  have hcolsEq : (if a.sub then a.vis else names) = chain.foldl stepCols names := cols_eq enc id names chain a0
  have hcols' : ∀ k ∈ chain.foldl stepCols names, k ∈ names := by
    intro k hk
    rw [← hcolsEq] at hk
    apply hcols k
    cases hsub : a.sub <;> simpa [hsub] using hk
  obtain ⟨out, hout, href⟩ := refEval_refSelection cmp enc id names rows hrows chain hok hcols'
  refine ⟨_, out, objQuery_of_specAt hspec, hout, ?_⟩
  rw [hq]
  unfold serveQuery
  cases hp : parseCE (specQuery (accSpec base id names σ a)) with
  | none => rw [hp] at hreq; simp at hreq
  | some ps =>
    obtain ⟨proj, sel⟩ := ps
    rw [hp] at hreq
    simp only [Option.bind_some] at hreq
    simp only [hreq, Option.map_some, Option.some.injEq]
    rw [C04.C04_serve_any_backend cmp enc lit henc id hhead names hnd hid hne rows hrows bk _ _ hres hcols]
    simp only
    rw [refEval_wire cmp names _ _ a.sl rows hlen, ← href]
    have e1 : ([] : List (RCond A)) ++ (chain.map toCOp).flatMap opRcs = chain.flatMap stepConds := by
      rw [List.nil_append]; exact conds_eq chain
    rw [e1, ← hcolsEq]
    cases hsub : a.sub <;> rfl

/-- **The request of a derived object is a function of its derivation chain alone** — not of the heap it was derived
    in, nor of what else happened in between: it is the text of the pure accumulation of the chain.  Hence the object
    derived amid any history and the object a FRESH client derives with the same chain (a freshly opened heap, no other
    events) send the same request, and by `C14_derived_reads_reference` read the same rows. -/
theorem C14_derived_equals_fresh (enc : A → List Char) (id : Name) (names : List Name)
    (hidok : NameOk id) (hnames : ∀ k ∈ names, NameOk k)
    (h h' : Heap) (w : WF h) (w' : WF h') (r r' : Nat) (base : Name) (σ : Sess) (tm tm' : Nat)
    (hs : specAt h r = some (specOf (openTmpl id names ⟨none, []⟩) (openProxy base σ tm ⟨none, []⟩)))
    (hs' : specAt h' r' = some (specOf (openTmpl id names ⟨none, []⟩) (openProxy base σ tm' ⟨none, []⟩)))
    (l : List (List Ev × DStep A))
    (hok : ChainOk enc names false (l.map (·.2))) :
    let d := deriveAmid h r (l.map fun x => (x.1, keyOfStep enc [id] (openProxy base σ tm ⟨none, []⟩) x.2))
    let f := deriveAmid h' r' (l.map fun x => ([], keyOfStep enc [id] (openProxy base σ tm' ⟨none, []⟩) x.2))
    objQuery d.1 d.2 = objQuery f.1 f.2 ∧
    objQuery d.1 d.2 = some (specQuery (specOfAcc base id names σ (seenAfter false (l.map (·.2)))
      (((l.map (·.2)).map toCOp).foldl (accStep enc id) (openAcc id names ⟨none, []⟩)))) := by
  intro d f
  let chain := l.map (·.2)
  let a0 : Acc := openAcc id names ⟨none, []⟩
  have key : ∀ (g : Heap) (wg : WF g) (q : Nat) (t : Nat) (ll : List (List Ev × DStep A)) (hll : ll.map (·.2) = chain)
      (hg : specAt g q = some (specOf (openTmpl id names ⟨none, []⟩) (openProxy base σ t ⟨none, []⟩))),
      objQuery (deriveAmid g q (ll.map fun x => (x.1, keyOfStep enc [id] (openProxy base σ t ⟨none, []⟩) x.2))).1
          (deriveAmid g q (ll.map fun x => (x.1, keyOfStep enc [id] (openProxy base σ t ⟨none, []⟩) x.2))).2
        = some (specQuery (specOfAcc base id names σ (seenAfter false chain) ((chain.map toCOp).foldl (accStep enc id) a0))) := by
    intro g wg q t ll hll hg
    obtain ⟨hchain, _⟩ := chain_spec enc base id names σ hidok hnames (openProxy base σ t ⟨none, []⟩) chain false a0
      hok (by intro e; cases e)
    have hsnd : (ll.map fun x => (x.1, keyOfStep enc [id] (openProxy base σ t ⟨none, []⟩) x.2)).map Prod.snd
        = chain.map (keyOfStep enc [id] (openProxy base σ t ⟨none, []⟩)) := by
      rw [← hll]; simp [List.map_map, Function.comp_def]
    exact objQuery_of_specAt (deriveAmid_spec g wg q (specOfAcc base id names σ false a0) _ _
      (by rw [hg, open_spec]; rfl) (by rw [hsnd]; exact hchain))
  have e1 := key h w r tm l rfl hs
  have e2 := key h' w' r' tm' (l.map fun x => ([], x.2)) (by simp [chain, List.map_map, Function.comp_def]) hs'
  have e2' : objQuery f.1 f.2 = some (specQuery (specOfAcc base id names σ (seenAfter false chain)
      ((chain.map toCOp).foldl (accStep enc id) a0))) := by
    have : (l.map fun x => (([] : List Ev), keyOfStep enc [id] (openProxy base σ tm' ⟨none, []⟩) x.2))
        = ((l.map fun x => (([] : List Ev), x.2)).map fun x => (x.1, keyOfStep enc [id] (openProxy base σ tm' ⟨none, []⟩) x.2)) := by
      simp [List.map_map, Function.comp_def]
    show objQuery (deriveAmid h' r' _).1 (deriveAmid h' r' _).2 = _
    rw [this]; exact e2
  exact ⟨e1.trans e2'.symm, e1⟩

end DerivedReads

/-! ### the tie by translation: the ids and the record range of `seqReq` are what the source writes

`Pydap.Gen.src_seq_id` / `Pydap.Gen.src_seq_projection` are the MiniPy trees of handlers/dap.py `SequenceProxy.id` and
`SequenceProxy._projection` (see Props/C04.lean for what is opaque).  The request the model logs for a sequence read,
`seqReq t p`, carries the ids and the hyperslab separately; the source writes them as one text. -/

open MiniPy in
/-- `SequenceProxy.id` is the comma-joined `ids` of the model's request -/
theorem C14_source_seq_id (t : Tmpl) (p : SeqProxy) (isSeq : Bool) :
    runItem (proxyEnv t p isSeq) Gen.src_seq_id "@ret"
      = .ok (.str (codesOf (SeqClient.joinWith ',' (seqReq t p).ids))) := by
  unfold proxyEnv
  rw [src_seq_id_eq, ← proxyId_eq]
  rfl

open MiniPy in
/-- a whole-sequence proxy (no selected columns; the template is the sequence): the projection the source writes is the
    single id of the request followed by the text of its record range `slab` -/
theorem C14_source_projection_whole (t : Tmpl) (p : SeqProxy) (hs : p.subChildren = false) :
    (seqReq t p).ids = [joinDot t.path] ∧
    runItem (proxyEnv t p true) Gen.src_seq_projection "@ret"
      = .ok (.str (codesOf (joinDot t.path ++ hyperslabText p.slice))) := by
  refine ⟨by simp [seqReq, seqIds, hs], ?_⟩
  unfold proxyEnv
  rw [src_seq_projection_eq, projSpec_model t p true (.inl rfl)]
  simp [SeqClient.projText, SeqClient.proxyId, seqIds, hs, SeqClient.joinWith]


/-! non-vacuity of `C14_derived_reads_reference` -/
section DerivedExamples
open Pydap.Seq Pydap.SeqClient Pydap.Derive Pydap.TableVal
def dNames : List Name := [['i'], ['f'], ['t']]
def dRows : List (List Val) :=
  [[.num 16, .num 24, .str ['a']], [.num 32, .num 40, .str ['b']], [.num 48, .num 8, .str ['c']],
   [.num 64, .num 72, .str ['d']], [.num 80, .num 56, .str ['e']], [.num 96, .num 32, .str ['g']]]
/-- `s[["f","i"]][0:6:2][["t","i"]][1:3]["t"][(s.t != "a")]`: a strided slice, a second column list on the
    column-restricted proxy, a slice of the strided slice, the child, a condition on the single column -/
def dChain : List (DStep Val) :=
  [.cols [['f'], ['i']], .sl ⟨some 0, some 6, some 2⟩, .cols [['t'], ['i']], .sl ⟨some 1, some 3, none⟩,
   .child ['t'], .colfilt ⟨['t'], .ne, .val (.str ['a'])⟩ []]

example : ChainOk encVal dNames false dChain := by
  refine ⟨⟨rfl, by decide, by decide, by decide⟩, ⟨by decide, by decide, by decide⟩,
    ⟨rfl, by decide, by decide, by decide⟩, ⟨by decide, by decide, by decide⟩, ⟨rfl, by decide⟩, ?_, trivial⟩
  intro x hx
  simp at hx
  subst hx
  exact ⟨by decide, by decide⟩
example : RangeOk ((dChain.map toCOp).foldl (accStep encVal ['s']) (openAcc ['s'] dNames ⟨none, []⟩)).sl := by
  right
  exact ⟨2, 6, 2, by decide, by decide, by decide, by decide⟩
-- rows 0, 2, 4 of those with t != "a", then [1:3] of these, column t
example : refSelection cmpVal dNames dChain dRows = some [[.str ['d']], [.str ['g']]] := by decide
-- the request the derived column writes, and the server's answer to it
example : (serveQuery cmpVal encVal litVal .numpy ['s'] dNames dRows "s[2:2:5].t&s.t!=\"a\"".toList)
    = some (.ok [.row [.str ['d']], .row [.str ['g']]]) := by decide
-- the last column list decides the order
example : refSelection cmpVal dNames [.cols [['f'], ['i']], .cols [['i'], ['f']], .idx 2] dRows
    = some [[.num 48, .num 8]] := by decide
end DerivedExamples

section DerivedVal
open Pydap.Seq Pydap.SeqClient Pydap.Derive Pydap.TableVal
open Pydap.IterData (Op Item RCond rsplitHead refCond cellOf)

/-- **The same on the value domain of the property** (numbers on the dyadic grid, ASCII strings; `encVal` =
    `pydap.lib.encode`, `litVal` = `ast.literal_eval`, `cmpVal` = Python's comparison, all character level): the
    conditions on encoded values are lemmas (`Proofs/SeqEnc.lean`); what remains is about names, the chain and the
    combined range. -/
theorem C14_derived_reads_reference_val (id : Name) (hidc : ∃ c r, id = c :: r ∧ c.isAlpha = true)
    (names : List Name) (hnd : names.Nodup) (hid : id ∉ names)
    (hidok : NameOk id) (hnames : ∀ k ∈ names, NameOk k)
    (rows : List (List Val)) (hrows : ∀ r ∈ rows, r.length = names.length)
    (hlen : (rows.length : Int) ≤ MAXSIZE) (bk : Backend)
    (h : Heap) (w : WF h) (r : Nat) (base : Name) (σ : Sess) (tm : Nat)
    (hs : specAt h r = some (specOf (openTmpl id names ⟨none, []⟩) (openProxy base σ tm ⟨none, []⟩)))
    (l : List (List Ev × DStep Val))
    (hok : ChainOk encVal names false (l.map (·.2)))
    (hr : RangeOk (((l.map (·.2)).map toCOp).foldl (accStep encVal id) (openAcc id names ⟨none, []⟩)).sl) :
    let d := deriveAmid h r (l.map fun x => (x.1, keyOfStep encVal [id] (openProxy base σ tm ⟨none, []⟩) x.2))
    ∃ q out, objQuery d.1 d.2 = some q ∧
      refSelection cmpVal names (l.map (·.2)) rows = some out ∧
      serveQuery cmpVal encVal litVal bk id names rows q = some (.ok (out.map Item.row)) := by
  have hst : ∀ v ch r, encVal v = ch :: r → ch ≠ '=' ∧ ch ≠ '~' := by
    intro v ch r e
    obtain ⟨c, r', e', hc⟩ := encVal_head v
    rw [e] at e'
    simp only [List.cons.injEq] at e'
    obtain ⟨rfl, _⟩ := e'
    rcases hc with rfl | rfl | hd
    · exact ⟨by decide, by decide⟩
    · exact ⟨by decide, by decide⟩
    · constructor <;> (intro e2; subst e2; exact absurd hd (by decide))
  exact C14_derived_reads_reference cmpVal encVal litVal litVal_encVal id (encVal_head_ne id hidc) hst names hnd hid hidok
    hnames rows hrows hlen bk h w r base σ tm hs l hok hr

/-- the theorem applied: the example chain on a heap opened by `open_url`, every derivation after reads of other objects -/
def dHeap : Heap := openHeap ['u'] [] (some 7) ['s'] dNames [(['a'], [3], false)]
example : ∃ q out,
    objQuery (deriveAmid dHeap 0 (dChain.map fun st => ([Ev.iter 0, .aget 1 [Idx.int 0]],
        keyOfStep encVal [['s']] (openProxy ['u'] (some 7) 0 ⟨none, []⟩) st))).1
      (deriveAmid dHeap 0 (dChain.map fun st => ([Ev.iter 0, .aget 1 [Idx.int 0]],
        keyOfStep encVal [['s']] (openProxy ['u'] (some 7) 0 ⟨none, []⟩) st))).2 = some q ∧
    refSelection cmpVal dNames dChain dRows = some out ∧
    serveQuery cmpVal encVal litVal .csv ['s'] dNames dRows q = some (.ok (out.map Item.row)) := by
  have hn : ∀ k ∈ dNames, NameOk k := by
    intro k hk
    simp [dNames] at hk
    rcases hk with rfl | rfl | rfl <;> exact ⟨by decide, by decide⟩
  have := C14_derived_reads_reference_val ['s'] ⟨'s', [], rfl, by decide⟩ dNames (by decide) (by decide)
    ⟨by decide, by decide⟩ hn dRows (by decide) (by decide) .csv dHeap
    (by intro p hp; simp [dHeap, openHeap] at hp; subst hp; decide) 0 ['u'] (some 7) 0 (by decide)
    (dChain.map fun st => ([Ev.iter 0, .aget 1 [Idx.int 0]], st))
    (by
      simp only [List.map_map, Function.comp_def, List.map_id']
      refine ⟨⟨rfl, by decide, by decide, by decide⟩, ⟨by decide, by decide, by decide⟩,
        ⟨rfl, by decide, by decide, by decide⟩, ⟨by decide, by decide, by decide⟩, ⟨rfl, by decide⟩, ?_, trivial⟩
      intro x hx
      simp at hx
      subst hx
      exact ⟨by decide, by decide⟩)
    (by
      simp only [List.map_map, Function.comp_def, List.map_id']
      right
      exact ⟨2, 6, 2, by decide, by decide, by decide, by decide⟩)
  simpa [List.map_map, Function.comp_def] using this

end DerivedVal

open MiniPy in
/-- **the whole of `SequenceProxy._projection`**: for every proxy the interpreted body (all three branches: selected
    columns, single column — fix 3339666 —, whole sequence) returns the model's `projFull`, the projection inside the
    request text of `C14_derived_reads_reference`; `isinstance(self.template, SequenceType)` is read as "the template
    has children declared" (`t.keys ≠ []`: a flat sequence without columns is outside the model) -/
theorem C14_source_projection_full (t : Tmpl) (p : SeqProxy) :
    runItem (proxyEnv t p (decide (t.keys ≠ []))) Gen.src_seq_projection "@ret"
      = .ok (.str (codesOf (SeqClient.projFull t p))) := by
  unfold proxyEnv
  rw [src_seq_projection_eq, projSpec_full]

section SourceExamples
open MiniPy

/-- equality of MiniPy results is decidable (for the concrete examples below only) -/
local instance decEqMiniPyResult {α : Type} [DecidableEq α] : DecidableEq (Except MiniPy.Err α)
  | .ok a, .ok b => if h : a = b then isTrue (by rw [h]) else isFalse (by intro h'; cases h'; exact h rfl)
  | .error a, .error b => if h : a = b then isTrue (by rw [h]) else isFalse (by intro h'; cases h'; exact h rfl)
  | .ok _, .error _ => isFalse (by intro h; cases h)
  | .error _, .ok _ => isFalse (by intro h; cases h)

def srcP : SeqProxy :=
  { baseurl := [], template := 0, selection := [], slice := [⟨some 1, some 3, none⟩], subChildren := false,
    session := none, opts := 0 }

example : runItem (proxyEnv ⟨["s".toList], ["f".toList], ["f".toList]⟩ srcP true) Gen.src_seq_id "@ret"
    = .ok (.str (codesOf "s".toList)) := by decide +kernel
example : runItem (proxyEnv ⟨["s".toList], ["f".toList], ["f".toList]⟩ srcP true) Gen.src_seq_projection "@ret"
    = .ok (.str (codesOf "s[1:1:2]".toList)) := by decide +kernel

-- the single column `s.f` with the range `[1:3]`: the range goes on `s`
example : SeqClient.projFull ⟨["s".toList, "f".toList], [], []⟩ srcP = "s[1:1:2].f".toList := by decide +kernel

end SourceExamples

/-! ### a grid returned by an earlier read is an object of its own (seed C14-y) -/

/-- **A grid returned by an earlier read is an object of its own.**  After any history `evs1`, `grid[key]` (with
    `output_grid` on) returns children `l` and a new grid `g` that refers to them.  Whatever happens afterwards
    (`evs2`: any history — in particular a sub-selection `g[key']`, `Ev.ggrid g key'`, and indexing one of its members,
    `Ev.vget member idx`, the scenario of seed C14-y, but also reads of the opened grid and sequence derivations):
    the returned grid still refers to the same children, its deep view — `_output_grid`, per member the id and the
    data it holds: the received array (positions per source axis) or, for a map a short key left lazy, the proxy's id,
    slice and session — is what it was when it was returned, every member object has the observable it had, and
    sub-selecting it or indexing it again returns what it would have returned right away. -/
theorem C14_returned_grid_unchanged (h : Heap) (w : WF h) (evs1 evs2 : List Ev) (r : Nat) (key : List Idx)
    (l : List Obj) (e : gridResult (run h evs1) r key = some l) :
    let h1 := run h evs1
    let h2 := step h1 (.ggrid r key)
    let g := h1.objs.length + l.length
    h2.objs[g]? = some (Obj.grid ((List.range l.length).map fun i => h1.objs.length + i) true)
    ∧ (∀ i, i < l.length → h2.objs[h1.objs.length + i]? = l[i]?)
    ∧ (∀ v, gridView h2 g = some v → gridView (run h2 evs2) g = some v)
    ∧ (∀ i, i ≤ l.length → obs (run h2 evs2) (h1.objs.length + i) = obs h2 (h1.objs.length + i))
    ∧ (∀ key' l', gridResult h2 g key' = some l' → gridResult (run h2 evs2) g key' = some l')
    ∧ (∀ i idx ax, varResult h2 (h1.objs.length + i) idx = some ax →
        varResult (run h2 evs2) (h1.objs.length + i) idx = some ax) := by
  intro h1 h2 g
  have w1 : WF h1 := (run_extends h w evs1).2
  have w2 : WF h2 := (step_extends h1 w1 _).2
  have hobjs : h2.objs = h1.objs ++ l ++ [Obj.grid ((List.range l.length).map fun i => h1.objs.length + i) true] :=
    ggrid_objs h1 r key e
  have ex := (run_extends h2 w2 evs2).1
  refine ⟨?_, ?_, ?_, ?_, ?_, ?_⟩
  · rw [hobjs]
    have : g = (h1.objs ++ l).length := by simp [g]
    rw [this, List.getElem?_append_right (Nat.le_refl _)]
    simp
  · intro i hi
    rw [hobjs, List.append_assoc, List.getElem?_append_right (by omega)]
    simp only [Nat.add_sub_cancel_left]
    rw [List.getElem?_append_left hi]
  · intro v hv
    exact gridView_extends ex hv
  · intro i hi
    apply obs_extends w2 ex
    rw [hobjs]; simp; omega
  · intro key' l' e'
    exact gridResult_stable (Stable.of_extends ex (run_src h2 evs2)) g key' e'
  · intro i idx ax e'
    exact varResult_stable (Stable.of_extends ex (run_src h2 evs2)) _ idx e'

/-- non-vacuity (the seed C14-y scenario on a grid already received): `g2 = grid[0:1]`, then `g2[0]` (sub-selection)
    and `g2.x[0:1]` (indexing a member); `g2` keeps its children and what they hold -/
def exLocal : Heap :=
  ⟨[], [.var ['g'] (.vals [(false, [0, 1]), (false, [0, 1, 2])]), .var ['x'] (.vals [(false, [0, 1])]),
        .var ['y'] (.vals [(false, [0, 1, 2])]), .grid [0, 1, 2] true], [], []⟩
example : WF exLocal := by intro p hp; simp [exLocal] at hp
example : gridResult (run exLocal []) 3 [Idx.sl ⟨some 0, some 1, none⟩]
    = some [.var ['g'] (.vals [(false, [0]), (false, [0, 1, 2])]), .var ['x'] (.vals [(false, [0])]),
            .var ['y'] (.vals [(false, [0, 1, 2])])] := by decide
example :
    let h2 := step exLocal (.ggrid 3 [Idx.sl ⟨some 0, some 1, none⟩])
    gridView h2 7 = some (true, [(['g'], .vals [(false, [0]), (false, [0, 1, 2])]), (['x'], .vals [(false, [0])]),
                                 (['y'], .vals [(false, [0, 1, 2])])])
    ∧ gridView (run h2 [.ggrid 7 [Idx.int 0], .vget 5 [Idx.sl ⟨some 0, some 1, none⟩]]) 7 = gridView h2 7
    ∧ (run h2 [.ggrid 7 [Idx.int 0], .vget 5 [Idx.sl ⟨some 0, some 1, none⟩]]).objs.length = 13 := by decide



/-! ### the tie by translation: indexing a variable or a grid only READS the data the object holds

`C14_returned_grid_unchanged` (and `C14_pure` for variables) speak about a model in which a received array is a value:
`varGetitem` / `gridLoop` allocate a new `Obj.var id (.vals …)` and write nothing.  That the code does the same is read off
its source text: `Gen.src_basetype_getitem`, `Gen.src_get_data_index` are the MiniPy trees of model.py
`BaseType.__getitem__` and `BaseType._get_data_index`, regenerated on every run (the loop of `GridType.__getitem__` calls
`self[var.name].data[slice_]`, i.e. the same indexing of a member's data; the loop itself is covered by the traced
correspondence, not by translation).  Opaque inputs: `copy.copy(self)` (the model's new object with the id of the old one), `self._data[index]`
(the model's `readData`: a GET for a proxy, numpy basic indexing `npLocal` for a received array — numpy returns a VIEW of
the same buffer there, which is why "nothing else is done with it" matters), the string decoder.
Set aside (named in the generator): the DAP4 attribute copying.  The theorems say what is returned / stored on the new
object and that `self.data` / `self._data` are not assigned (`x.attr = e` is read as the assignment of the variable `x.attr`).  An in-place operation on the indexed data (seed C14-y: `byteswap(inplace=True)`
on the view) is outside the fragment and breaks `C14_source_basetype_getitem`. -/
section ModelSource
open MiniPy

/-- `BaseType.__getitem__`: the copy is returned, its `data` is what `_get_data_index(index)` returned, and the block
    assigns neither `self.data` nor `self._data` (stated on the environment the block leaves, so a rewrite that only names
    an intermediate value still checks) -/
theorem C14_source_basetype_getitem (env : Env) (cp ix : Val) (h1 : lookup env "@copy" = .ok cp)
    (h2 : lookup env "@indexed" = .ok ix) :
    ∃ env', exec env Gen.src_basetype_getitem = .ok env' ∧
      lookup env' "@ret" = .ok cp ∧ lookup env' "out.data" = .ok ix ∧
      lookup env' "self.data" = lookup env "self.data" ∧ lookup env' "self._data" = lookup env "self._data" :=
  src_basetype_getitem_eq env cp ix h1 h2

/-- `BaseType._get_data_index`: the value returned is `self._data[index]`, decoded when (and only when) the data is a numpy
    array of byte strings; `self.data` / `self._data` are not assigned -/
theorem C14_source_get_data_index (env : Env) (isStr isArr : Bool) (plain decoded : Val)
    (h1 : lookup env "@is_string" = .ok (.bool isStr)) (h2 : lookup env "@is_ndarray" = .ok (.bool isArr))
    (h3 : lookup env "@plain" = .ok plain) (h4 : lookup env "@decoded" = .ok decoded) :
    ∃ env', exec env Gen.src_get_data_index = .ok env' ∧
      lookup env' "@ret" = .ok (if isStr && isArr then decoded else plain) ∧
      lookup env' "self.data" = lookup env "self.data" ∧ lookup env' "self._data" = lookup env "self._data" :=
  src_get_data_index_eq env isStr isArr plain decoded h1 h2 h3 h4

example : runItem [("@copy", .obj 1), ("@indexed", .ilist [3, 4])] Gen.src_basetype_getitem "out.data" = .ok (.ilist [3, 4]) := by
  decide +kernel
example : runItem [("@is_string", .bool true), ("@is_ndarray", .bool false), ("@plain", .obj 1), ("@decoded", .obj 2)]
    Gen.src_get_data_index "@ret" = .ok (.obj 1) := by decide +kernel

end ModelSource

end Pydap.C14
