/-
  C04 — Sequence constraints return exactly the selected records and columns.
  Models: `PydapModel/Seq.lean` (apply_selection / apply_projection over a numpy structured array and
  over lazy streams), `PydapModel/CE.lean` (clause text), `PydapModel/IterData.lean` (C17).
  Reference: `refEval cmp names ⟨clauses, .table cols, range⟩ rows` = the rows the resolved clauses
  keep, in source order, cells of the requested columns in request order, then the record range.
-/
import PydapModel.Seq
import PydapModel.CE
import PydapModel.TableVal
import Proofs.Seq
import Proofs.SeqEnc
import PydapModel.SeqClient
import Proofs.SeqClient
import Proofs.ProjSrc
namespace Pydap.C04
open Pydap Pydap.IterData Pydap.Seq

variable {A : Type}

/-- **numpy-backed sequence.**  Any table with one cell per column, any column list drawn from the
    header (or the whole sequence), any record range, any conjunction of clauses that read
    `s.column OP s.column | literal`: the server's answer is the reference. -/
theorem C04_serve_numpy (cmp : Op → A → A → Bool) (lit : List Char → Option A)
    (id : Name) (names : List Name) (hid : id ∉ names) (hne : [] ∉ names)
    (rows : List (List A)) (hrows : ∀ r ∈ rows, r.length = names.length)
    (q : Request) (rcs : List (RCond A))
    (hcl : q.clauses.mapM (resolve lit id names) = some rcs)
    (hcols : ∀ k ∈ q.cols.getD names, k ∈ names) :
    serve cmp (fun _ => []) lit .numpy id names rows q
      = refEval cmp names ⟨rcs, .table (q.cols.getD names), q.range.toList⟩ rows := by
  simp only [serve, serveNumpy, selectNumpy_resolved hid hne q.clauses rcs rows hcl]
  have hex : ∀ r ∈ rows.filter (fun r => rcs.all (refCond cmp names r)),
      ∃ y, refItem names r (.table (q.cols.getD names)) = some y ∧
        fieldRow names (q.cols.getD names) r = .ok y := by
    intro r hr
    have hlen := hrows r (List.mem_filter.mp hr).1
    -- every requested name has a cell in a well-shaped row
    have : ∀ ks : List Name, (∀ k ∈ ks, k ∈ names) → ∃ cells, ks.mapM (cellOf names r) = some cells := by
      intro ks
      induction ks with
      | nil => intro _; exact ⟨[], rfl⟩
      | cons k ks ih =>
        intro hk
        obtain ⟨v, hv, _⟩ := cellOf_some names r hlen (hk k (by simp))
        obtain ⟨cells, hc⟩ := ih (fun x hx => hk x (by simp [hx]))
        exact ⟨v :: cells, by rw [List.mapM_cons, hv, hc]; rfl⟩
    obtain ⟨cells, hc⟩ := this _ hcols
    exact ⟨.row cells, by simp [refItem, hc], by simp [fieldRow, refItem, hc]⟩
  obtain ⟨items, hi1, hi2⟩ := mapE_of_option _ (fun r => refItem names r (.table (q.cols.getD names)))
    .keyError _ hex
  simp only [fieldsNumpy, refEval]
  rw [hi1]
  show (mapE _ _ >>= _) = _
  rw [hi2]
  cases hq : q.range with
  | none => rfl
  | some sl =>
    show islice sl items = applySlices [sl] items
    simp only [applySlices]
    cases islice sl items <;> rfl

/-- **lazy sequences (`IterData`, `CSVData`).**  The stream operations the server performs
    (a filter per relevant clause, rebuilt by the child stream; the column list; the range) yield
    the reference, whenever the rebuilt clauses still resolve to `rcs`. -/
theorem C04_serve_lazy (cmp : Op → A → A → Bool) (enc : A → List Char) (lit : List Char → Option A)
    (id : Name) (names : List Name) (hnd : names.Nodup)
    (rows : List (List A)) (hrows : ∀ r ∈ rows, r.length = names.length) (csv : Bool)
    (q : Request) (cs : List Cond) (rcs : List (RCond A))
    (hre : (q.clauses.filter (relevant id)).mapM (rerender enc lit id names) = some cs)
    (hcl : cs.mapM (resolve lit id names) = some rcs)
    (hcols : ∀ k ∈ q.cols.getD names, k ∈ names) :
    serve cmp enc lit (if csv then .csv else .iterdata) id names rows q
      = refEval cmp names ⟨rcs, .table (q.cols.getD names), q.range.toList⟩ rows := by
  have hkeys : lazyKeys enc lit id names q = .ok (cs.map Key.cond ++ [Key.list (q.cols.getD names)] ++
      rangeKeys q.range) := by
    simp [lazyKeys, hre]
  have hall : (q.cols.getD names).all (· ∈ names) = true := by
    rw [List.all_eq_true]; intro k hk; simpa using hcols k hk
  have href : refRun lit id names ⟨[], .table names, []⟩
      (cs.map Key.cond ++ [Key.list (q.cols.getD names)] ++
        rangeKeys q.range)
      = some ⟨rcs, .table (q.cols.getD names), q.range.toList⟩ := by
    rw [List.append_assoc, refRun_append, refRun_conds cs rcs _ names rfl hcl]
    have hcols' : ∀ (x : Name), x ∈ q.cols.getD names → x ∈ names := hcols
    cases hq : q.range with
    | none => simp [refRun, refStep, rangeKeys]; exact hcols'
    | some sl => simp [refRun, refStep, rangeKeys]; rw [if_pos hcols']; rfl
  obtain ⟨s, h1, hrel, hs⟩ := chain_sim _ _ _ _ (rel_init cmp id names hnd rows csv) href
  have hsrc : s.src = rows := by rw [hs]; cases csv <;> rfl
  have hit := iter_of_rel hrel (by rw [hsrc]; exact hrows)
  rw [hsrc] at hit
  cases csv <;> simp only [serve, serveLazy, hkeys] <;>
    (show (chain lit _ _ >>= _) = _) <;> simp only [Bool.false_eq_true, if_false, if_true] at h1 ⊢ <;>
    rw [h1] <;> exact hit

/-- **Same answer for every backend**: under the hypotheses of the two theorems above the numpy
    array and the lazy streams serve the same records. -/
theorem C04_backends_agree (cmp : Op → A → A → Bool) (enc : A → List Char) (lit : List Char → Option A)
    (id : Name) (names : List Name) (hnd : names.Nodup) (hid : id ∉ names) (hne : [] ∉ names)
    (rows : List (List A)) (hrows : ∀ r ∈ rows, r.length = names.length) (csv : Bool)
    (q : Request) (cs : List Cond) (rcs : List (RCond A))
    (hcl0 : q.clauses.mapM (resolve lit id names) = some rcs)
    (hre : (q.clauses.filter (relevant id)).mapM (rerender enc lit id names) = some cs)
    (hcl : cs.mapM (resolve lit id names) = some rcs)
    (hcols : ∀ k ∈ q.cols.getD names, k ∈ names) :
    serve cmp enc lit (if csv then .csv else .iterdata) id names rows q
      = serve cmp (fun _ => []) lit .numpy id names rows q := by
  rw [C04_serve_lazy cmp enc lit id names hnd rows hrows csv q cs rcs hre hcl hcols,
    C04_serve_numpy cmp lit id names hid hne rows hrows q rcs hcl0 hcols]

/-- **Lazy sequences, no side condition on the rebuilt clauses.**  When `literal_eval (encode v) = v`
    and an encoded value never reads as a column of the sequence, the clauses the child stream rebuilds
    (`template.id OP other.template.id | encode(other)`) resolve to the clauses of the request, so the
    lazy backends serve the reference whenever the request's own clauses resolve. -/
theorem C04_serve_lazy_full (cmp : Op → A → A → Bool) (enc : A → List Char) (lit : List Char → Option A)
    (henc : ∀ v, lit (enc v) = some v) (id : Name) (hhead : ∀ v, rsplitHead (enc v) ≠ id)
    (names : List Name) (hnd : names.Nodup) (hid : id ∉ names) (hne : [] ∉ names)
    (rows : List (List A)) (hrows : ∀ r ∈ rows, r.length = names.length) (csv : Bool)
    (q : Request) (rcs : List (RCond A))
    (hcl : q.clauses.mapM (resolve lit id names) = some rcs)
    (hcols : ∀ k ∈ q.cols.getD names, k ∈ names) :
    serve cmp enc lit (if csv then .csv else .iterdata) id names rows q
      = refEval cmp names ⟨rcs, .table (q.cols.getD names), q.range.toList⟩ rows := by
  obtain ⟨cs, hre, hcl'⟩ := rerender_resolves enc lit id names hid hne henc hhead q.clauses rcs hcl
  exact C04_serve_lazy cmp enc lit id names hnd rows hrows csv q cs rcs hre hcl' hcols

open Pydap.TableVal in
/-- **The value domain of the property** (numbers on the dyadic grid, ASCII strings; `encVal` = `pydap.lib.encode`,
    `litVal` = `ast.literal_eval`, both character-level): `litVal (encVal v) = v` is a lemma
    (`Proofs/SeqEnc.lean`), so for a sequence whose name starts with a letter the three backends serve the
    reference and agree, with no hypothesis about the rebuilt clauses. -/
theorem C04_backends_agree_val (id : Name) (hidc : ∃ c r, id = c :: r ∧ c.isAlpha = true)
    (names : List Name) (hnd : names.Nodup) (hid : id ∉ names) (hne : [] ∉ names)
    (rows : List (List Val)) (hrows : ∀ r ∈ rows, r.length = names.length) (csv : Bool)
    (q : Request) (rcs : List (RCond Val))
    (hcl : q.clauses.mapM (resolve litVal id names) = some rcs)
    (hcols : ∀ k ∈ q.cols.getD names, k ∈ names) :
    serve cmpVal encVal litVal (if csv then .csv else .iterdata) id names rows q
        = refEval cmpVal names ⟨rcs, .table (q.cols.getD names), q.range.toList⟩ rows
    ∧ serve cmpVal encVal litVal .numpy id names rows q
        = refEval cmpVal names ⟨rcs, .table (q.cols.getD names), q.range.toList⟩ rows := by
  refine ⟨C04_serve_lazy_full cmpVal encVal litVal litVal_encVal id (encVal_head_ne id hidc) names hnd hid hne
    rows hrows csv q rcs hcl hcols, ?_⟩
  have := C04_serve_numpy cmpVal litVal id names hid hne rows hrows q rcs hcl hcols
  -- the numpy path does not use `enc`
  simpa [serve] using this

/-- **Clause text.**  A clause written `left OP right` is read back as `(left, OP, right)` by the
    leftmost-first operator split of `parse_selection`/`build_filter`, provided the left side has
    none of the characters `< > = !` and the right side does not start with `=` or `~`. -/
theorem C04_clause_roundtrip (c : Cond)
    (h1 : ∀ ch ∈ c.id1, CE.isOpChar ch = false)
    (h2 : ∀ ch r, c.id2 = ch :: r → ch ≠ '=' ∧ ch ≠ '~') :
    CE.parseClause (CE.renderClause c) = some c := by
  unfold CE.parseClause CE.renderClause
  rw [splitClause_render c.id1 (CE.ofOp c.op) c.id2 h1 h2]
  cases c with
  | mk a o b => cases o <;> rfl


/-! ### the client's lazy sequence operators and `open_url(url?ce)` (client model of C14 → text → server) -/
section Operators
open Pydap.SeqClient

/-- the three backends serve the reference (the theorems above, one statement) -/
theorem C04_serve_any_backend (cmp : Op → A → A → Bool) (enc : A → List Char) (lit : List Char → Option A)
    (henc : ∀ v, lit (enc v) = some v) (id : Name) (hhead : ∀ v, rsplitHead (enc v) ≠ id)
    (names : List Name) (hnd : names.Nodup) (hid : id ∉ names) (hne : [] ∉ names)
    (rows : List (List A)) (hrows : ∀ r ∈ rows, r.length = names.length) (bk : Backend)
    (q : Request) (rcs : List (RCond A))
    (hcl : q.clauses.mapM (resolve lit id names) = some rcs)
    (hcols : ∀ k ∈ q.cols.getD names, k ∈ names) :
    serve cmp enc lit bk id names rows q
      = refEval cmp names ⟨rcs, .table (q.cols.getD names), q.range.toList⟩ rows := by
  cases bk with
  | numpy =>
    have := C04_serve_numpy cmp lit id names hid hne rows hrows q rcs hcl hcols
    simpa [serve] using this
  | iterdata =>
    exact C04_serve_lazy_full cmp enc lit henc id hhead names hnd hid hne rows hrows false q rcs hcl hcols
  | csv =>
    exact C04_serve_lazy_full cmp enc lit henc id hhead names hnd hid hne rows hrows true q rcs hcl hcols

/-- **Constraint built with the client's lazy sequence operators = constraint written in the URL = the
    reference.**  A dataset is opened with `open_url(url)` or `open_url(url?ce)` (`u`: the projection
    and selection of the URL; object `r` of a well-formed client heap `h` is the sequence proxy
    `add_dap2_proxies` installs).  Any chain `l` of the client operators is applied — filters written with
    the comparison operators on column proxies (`seq[(seq.a > 1) & (seq.b <= seq.c)]`, all six operators,
    column-vs-constant and column-vs-column), column lists, slices, integer indices, in any order and with
    repetitions — and before every derivation an arbitrary history of other client events (C14's
    `deriveAmid`) takes place.  Then the derived proxy issues a GET whose query text `q` (`SequenceProxy.url`,
    with the record range on the first item: `s[a:s:b].f,s.i`) the server reads (`parse_ce`, hyperslab,
    operator split) and answers (`Seq.serve`, any of the three backends) with exactly
    `project cols (slice range (filter clauses rows))` for the accumulated columns (the last column list,
    else those of the URL, else all), the accumulated clauses (those of the URL, then those of every
    filter, in order) and the accumulated record range (`combine_slices` of the URL's range and the
    slices, C03).  With `l = []` this is the statement for `open_url(url?ce)` itself.
    Side conditions: names are free of the characters of the CE syntax; the accumulated range has
    start ≥ 0, step ≥ 1 and a stop that is absent or ≥ 1 (C03: `stop = 0` prints as unbounded); the
    source has at most `sys.maxsize` records (an absent stop travels as `MAXSIZE - 1`); an encoded value
    reads back as itself, does not look like `id.column`, does not start with `=`/`~`, has no `&`. -/
theorem C04_operators (cmp : Op → A → A → Bool) (enc : A → List Char) (lit : List Char → Option A)
    (henc : ∀ v, lit (enc v) = some v) (id : Name) (hhead : ∀ v, rsplitHead (enc v) ≠ id)
    (hst : ∀ v ch r, enc v = ch :: r → ch ≠ '=' ∧ ch ≠ '~')
    (names : List Name) (hnd : names.Nodup) (hnn : names ≠ []) (hid : id ∉ names)
    (hidok : NameOk id) (hnames : ∀ k ∈ names, NameOk k)
    (rows : List (List A)) (hrows : ∀ r ∈ rows, r.length = names.length)
    (hlen : (rows.length : Int) ≤ MAXSIZE) (bk : Backend)
    (u : UrlCE) (rcs0 : List (RCond A)) (hu : UrlOk lit id names u rcs0)
    (h : Proxy.Heap) (w : Proxy.WF h) (r : Nat) (base : Name) (σ : Proxy.Sess) (tm : Nat)
    (hs : Proxy.specAt h r = some (Proxy.specOf (openTmpl id names u) (openProxy base σ tm u)))
    (l : List (List Proxy.Ev × COp A))
    (hops : ∀ x ∈ l, OpOk enc (openTmpl id names u).keys x.2)
    (hr : RangeOk ((l.map (·.2)).foldl (accStep enc id) (openAcc id names u)).sl) :
    let d := Proxy.deriveAmid h r (l.map fun x => (x.1, keyOf enc [id] (openProxy base σ tm u) x.2))
    let a := (l.map (·.2)).foldl (accStep enc id) (openAcc id names u)
    ∃ q, objQuery d.1 d.2 = some q ∧
      serveQuery cmp enc lit bk id names rows q
        = some (refEval cmp names
            ⟨rcs0 ++ (l.map (·.2)).flatMap opRcs, .table (if a.sub then a.vis else names), rangeList a.sl⟩ rows) := by
  intro d a
  have hne : [] ∉ names := fun hm => (hnames [] hm).1 rfl
  -- the template's children are columns of the sequence
  have hkeys : ∀ k ∈ (openTmpl id names u).keys, k ∈ names := by
    obtain ⟨proj, sel⟩ := u
    cases proj with
    | none => exact fun k hk => hk
    | some pr =>
      obtain ⟨c, rg⟩ := pr
      cases c with
      | none => exact fun k hk => hk
      | some cols => exact fun k hk => (hu.2 cols rg rfl).2.2 k hk
  have hkok : ∀ k ∈ (openTmpl id names u).keys, NameOk k := fun k hk => hnames k (hkeys k hk)
  have hvis0 : VisOk (openTmpl id names u).keys (openAcc id names u) := by
    obtain ⟨proj, sel⟩ := u
    cases proj with
    | none => intro hsub; cases hsub
    | some pr =>
      obtain ⟨c, rg⟩ := pr
      cases c with
      | none => intro _; exact ⟨hnn, hnd, fun k hk => hk⟩
      | some cols => intro _; exact ⟨(hu.2 cols rg rfl).1, (hu.2 cols rg rfl).2.1, fun k hk => hk⟩
  -- C14 (`deriveAmid_spec`, the lemma behind `C14_fresh_equiv`): the derived object is described by the pure
  -- accumulation of the keys
  have hchain := specChain_keys enc base id (openTmpl id names u).keys σ hidok hkok (openProxy base σ tm u)
    (l.map (·.2)) (openAcc id names u) (fun op hop => by
      obtain ⟨x, hx, rfl⟩ := List.mem_map.mp hop; exact hops x hx)
  have hsnd : (l.map fun x => (x.1, keyOf enc [id] (openProxy base σ tm u) x.2)).map Prod.snd
      = (l.map (·.2)).map (keyOf enc [id] (openProxy base σ tm u)) := by
    simp [List.map_map, Function.comp_def]
  have hspec := Proxy.deriveAmid_spec h w r _ _ (l.map fun x => (x.1, keyOf enc [id] (openProxy base σ tm u) x.2))
    (by rw [hs, open_spec]) (by rw [hsnd]; exact hchain)
  refine ⟨_, objQuery_of_specAt hspec, ?_⟩
  -- the invariants of the accumulation, then the wire
  obtain ⟨hsel, hvis⟩ := run_invariants enc lit id names (openTmpl id names u).keys hidok hnames hkeys henc hhead hst
    (l.map (·.2)) (openAcc id names u) rcs0 (fun op hop => by
      obtain ⟨x, hx, rfl⟩ := List.mem_map.mp hop; exact hops x hx) hu.1 hvis0
  obtain ⟨conds, hres, hreq⟩ := query_request lit base id (openTmpl id names u).keys names σ a _ hidok hnames hkeys
    hvis hsel hr
  unfold serveQuery
  cases hp : parseCE (specQuery (accSpec base id (openTmpl id names u).keys σ a)) with
  | none => rw [hp] at hreq; simp at hreq
  | some ps =>
    obtain ⟨proj, sel⟩ := ps
    rw [hp] at hreq
    simp only [Option.bind_some] at hreq
    simp only [hreq, Option.map_some, Option.some.injEq]
    have hcols : ∀ k ∈ (if a.sub then some a.vis else none).getD names, k ∈ names := by
      intro k hk
      cases hsub : a.sub with
      | false => simpa [hsub] using hk
      | true => rw [hsub] at hk; exact hkeys k ((hvis hsub).2.2 k (by simpa using hk))
    rw [C04_serve_any_backend cmp enc lit henc id hhead names hnd hid hne rows hrows bk _ _ hres hcols]
    simp only
    rw [refEval_wire cmp names _ _ a.sl rows hlen]
    cases hsub : a.sub <;> rfl

open Pydap.TableVal in
/-- **The same on the value domain of the property** (`encVal` = `pydap.lib.encode`, `litVal` =
    `ast.literal_eval`, character level): the conditions on encoded values are lemmas, except that a string
    written into a filter has no `&` (part of `OpOk`; such a string would cut the URL). -/
theorem C04_operators_val (id : Name) (hidc : ∃ c r, id = c :: r ∧ c.isAlpha = true)
    (names : List Name) (hnd : names.Nodup) (hnn : names ≠ []) (hid : id ∉ names)
    (hidok : NameOk id) (hnames : ∀ k ∈ names, NameOk k)
    (rows : List (List Val)) (hrows : ∀ r ∈ rows, r.length = names.length)
    (hlen : (rows.length : Int) ≤ MAXSIZE) (bk : Backend)
    (u : UrlCE) (rcs0 : List (RCond Val)) (hu : UrlOk litVal id names u rcs0)
    (h : Proxy.Heap) (w : Proxy.WF h) (r : Nat) (base : Name) (σ : Proxy.Sess) (tm : Nat)
    (hs : Proxy.specAt h r = some (Proxy.specOf (openTmpl id names u) (openProxy base σ tm u)))
    (l : List (List Proxy.Ev × COp Val))
    (hops : ∀ x ∈ l, OpOk encVal (openTmpl id names u).keys x.2)
    (hr : RangeOk ((l.map (·.2)).foldl (accStep encVal id) (openAcc id names u)).sl) :
    let d := Proxy.deriveAmid h r (l.map fun x => (x.1, keyOf encVal [id] (openProxy base σ tm u) x.2))
    let a := (l.map (·.2)).foldl (accStep encVal id) (openAcc id names u)
    ∃ q, objQuery d.1 d.2 = some q ∧
      serveQuery cmpVal encVal litVal bk id names rows q
        = some (refEval cmpVal names
            ⟨rcs0 ++ (l.map (·.2)).flatMap opRcs, .table (if a.sub then a.vis else names), rangeList a.sl⟩ rows) := by
  have hst : ∀ v ch r, encVal v = ch :: r → ch ≠ '=' ∧ ch ≠ '~' := by
    intro v ch r e
    obtain ⟨c, r', e', hc⟩ := encVal_head v
    rw [e] at e'
    simp only [List.cons.injEq] at e'
    obtain ⟨rfl, _⟩ := e'
    rcases hc with rfl | rfl | hd
    · exact ⟨by decide, by decide⟩
    · exact ⟨by decide, by decide⟩
    · constructor <;> (intro e2; subst e2; exact absurd hd (by decide))
  exact C04_operators cmpVal encVal litVal litVal_encVal id (encVal_head_ne id hidc) hst names hnd hnn hid hidok hnames
    rows hrows hlen bk u rcs0 hu h w r base σ tm hs l hops hr

end Operators

/-! ### non-vacuity -/
section NonVacuity
open Pydap.TableVal

def exNames : List Name := [['i'], ['f'], ['t']]
def exRows : List (List Val) :=
  [[.num 16, .num 8, .str ['a']], [.num 32, .num 24, .str ['b']], [.num 48, .num 40, .str ['a']]]
/-- `s.t,s.i` with range `[0:1:5]` and `&s.t="a"&s.i>=s.f` -/
def exReq : Request :=
  ⟨some [['t'], ['i']], some ⟨some 0, some 6, some 1⟩,
   [⟨['s', '.', 't'], .eq, ['"', 'a', '"']⟩, ⟨['s', '.', 'i'], .ge, ['s', '.', 'f']⟩]⟩
def exEnc : Val → List Char
  | .str s => '"' :: s ++ ['"']
  | .num _ => ['0']

def answers (r : Except Err (List (Item Val))) (expect : List (Item Val)) : Bool :=
  match r with
  | .ok l => l == expect
  | .error _ => false

example : exNames.Nodup ∧ ['s'] ∉ exNames ∧ [] ∉ exNames
    ∧ (exReq.clauses.mapM (resolve litVal ['s'] exNames)).isSome = true
    ∧ (((exReq.clauses.filter (relevant ['s'])).mapM (rerender exEnc litVal ['s'] exNames)).bind
        fun cs => cs.mapM (resolve litVal ['s'] exNames)).isSome = true
    ∧ answers (serve cmpVal exEnc litVal .numpy ['s'] exNames exRows exReq)
        [.row [.str ['a'], .num 16], .row [.str ['a'], .num 48]] = true
    ∧ answers (serve cmpVal exEnc litVal .iterdata ['s'] exNames exRows exReq)
        [.row [.str ['a'], .num 16], .row [.str ['a'], .num 48]] = true
    ∧ answers (serve cmpVal exEnc litVal .csv ['s'] exNames exRows exReq)
        [.row [.str ['a'], .num 16], .row [.str ['a'], .num 48]] = true := by
  refine ⟨by decide, by decide, by decide, by decide, by decide, by decide, by decide, by decide⟩

/-- the hypotheses of `C04_backends_agree_val` hold for the example request (real `encVal`) -/
example : (∃ c r, (['s'] : Name) = c :: r ∧ c.isAlpha = true)
    ∧ (exReq.clauses.mapM (resolve litVal ['s'] exNames)).isSome = true
    ∧ answers (serve cmpVal encVal litVal .iterdata ['s'] exNames exRows exReq)
        [.row [.str ['a'], .num 16], .row [.str ['a'], .num 48]] = true
    ∧ litVal (encVal (.num (-24))) = some (.num (-24)) := by
  refine ⟨⟨'s', [], rfl, by decide⟩, by decide, by decide, litVal_encVal _⟩

example : CE.parseClause (CE.renderClause ⟨['s', '.', 'i'], .le, ['-', '1']⟩) = some ⟨['s', '.', 'i'], .le, ['-', '1']⟩ := by
  decide

/-! the hypotheses of `C04_operators_val` hold for a heap opened by `open_url`, a chain with interleaved reads,
    and the text that chain writes (`s[0:1:5].t,s.i&s.t="a"&s.i>=s.f`) is answered with the reference rows -/
section OperatorsExample
open Pydap.SeqClient
def opHeap : Proxy.Heap := Proxy.openHeap ['u'] [] (some 7) ['s'] exNames [(['a'], [3], false)]
def opUrl : UrlCE := ⟨none, []⟩
/-- `seq[(seq.t == "a") & (seq.i >= seq.f)]`, (the opened sequence is read), `[["t","i"]]`, `[0:6]` -/
def opChain : List (List Proxy.Ev × COp Val) :=
  [([], .filt ⟨['t'], .eq, .val (.str ['a'])⟩ [⟨['i'], .ge, .col ['f']⟩]),
   ([.iter 0, .aget 1 [Idx.sl ⟨some 1, none, none⟩]], .cols [['t'], ['i']]),
   ([], .sl ⟨some 0, some 6, none⟩)]

example : Proxy.WF opHeap := by
  intro p hp
  simp [opHeap, Proxy.openHeap] at hp
  subst hp
  decide
example : Proxy.specAt opHeap 0 = some (Proxy.specOf (openTmpl ['s'] exNames opUrl) (openProxy ['u'] (some 7) 0 opUrl)) := by
  decide
example : NameOk ['s'] ∧ (∀ k ∈ exNames, NameOk k) := by
  refine ⟨⟨by decide, by decide⟩, ?_⟩
  intro k hk
  simp [exNames] at hk
  rcases hk with rfl | rfl | rfl <;> exact ⟨by decide, by decide⟩
example : UrlOk litVal ['s'] exNames opUrl [] := ⟨⟨by simp [opUrl], [], rfl, rfl⟩, by simp [opUrl]⟩
example : ∀ x ∈ opChain, OpOk encVal (openTmpl ['s'] exNames opUrl).keys x.2 := by
  intro x hx
  simp [opChain] at hx
  rcases hx with rfl | rfl | rfl
  · intro c hc
    simp at hc
    rcases hc with rfl | rfl
    · exact ⟨by decide, by decide⟩
    · exact ⟨by decide, by decide⟩
  · exact ⟨by decide, by decide, by decide⟩
  · trivial
example : RangeOk ((opChain.map (·.2)).foldl (accStep encVal ['s']) (openAcc ['s'] exNames opUrl)).sl := by
  right
  exact ⟨0, 6, 1, by decide, by decide, by decide, by decide⟩
example : (answers · [.row [.str ['a'], .num 16], .row [.str ['a'], .num 48]]) <$>
    (serveQuery cmpVal encVal litVal .csv ['s'] exNames exRows "s[0:1:5].t,s.i&s.t=\"a\"&s.i>=s.f".toList) = some true := by
  decide
end OperatorsExample

end NonVacuity

/-! ### the tie by translation: the *source text* of `SequenceProxy._projection` / `.id` writes the model's text

`Pydap.Gen.src_seq_projection` and `Pydap.Gen.src_seq_id` (PydapModel/Generated/ProjSrc.lean) are the MiniPy trees of the
whole bodies of handlers/dap.py `SequenceProxy._projection` and `SequenceProxy.id`, regenerated on every run by
`harness/py2lean.py`.  Opaque inputs, exactly (`proxyEnv`): `self.sub_children`; `list(self.template.children())`
(only its truth value is read; bound to the children's ids); the comprehension / generator
`child.id for child in self.template.children()` (bound to `childIds t`); `self.template.id` (`joinDot t.path`);
`hyperslab(self.slice)` (bound to `hyperslabText p.slice`; its formatting is C03's tie); `isinstance(self.template,
SequenceType)` (a free boolean); `self.id` (bound to `proxyId t p`, which is what `src_seq_id` computes).  Carried by
the source: the three branches and their order, the truth tests, `ids[0] = seq + hyperslab + ids[0][len(seq):]`,
`",".join`, `"." in`, `rpartition(".")`, the concatenations. -/

open MiniPy SeqClient in
/-- `SequenceProxy.id`: for every proxy the interpreted body returns the model's `proxyId` -/
theorem C04_source_seq_id (t : Proxy.Tmpl) (p : Proxy.SeqProxy) (isSeq : Bool) :
    runItem (proxyEnv t p isSeq) Gen.src_seq_id "@ret" = .ok (.str (codesOf (proxyId t p))) := by
  unfold proxyEnv
  rw [src_seq_id_eq, ← proxyId_eq]

open MiniPy SeqClient in
/-- `SequenceProxy._projection`, first and last branch: for every proxy that is not a single column — its template is
    a `SequenceType`, or its id has no dot, or columns are selected — the interpreted body returns the model's
    `projText` (the record range on the sequence name of the first column, or after the id) -/
theorem C04_source_projection (t : Proxy.Tmpl) (p : Proxy.SeqProxy) (isSeq : Bool)
    (hg : isSeq = true ∨ '.' ∉ proxyId t p ∨ (p.subChildren = true ∧ t.visible ≠ [])) :
    runItem (proxyEnv t p isSeq) Gen.src_seq_projection "@ret" = .ok (.str (codesOf (projText t p))) := by
  unfold proxyEnv
  rw [src_seq_projection_eq, projSpec_model t p isSeq hg]

open MiniPy SeqClient in
/-- `SequenceProxy._projection`, the single-column branch (after 3339666; `projText` has no such case — the request
    of this path is C14's `seqReq`): for a proxy whose template is not a `SequenceType`, without selected columns and
    with a dot in its id, the interpreted body cuts the id at its *last* dot and writes the record range before that
    dot, `seq[range].name` — on the sequence, where the server reads it -/
theorem C04_source_projection_column (t : Proxy.Tmpl) (p : Proxy.SeqProxy)
    (hc : ¬ (p.subChildren = true ∧ t.visible ≠ [])) (hd : '.' ∈ proxyId t p) :
    ∃ seq name, proxyId t p = seq ++ '.' :: name ∧ '.' ∉ name ∧
      runItem (proxyEnv t p false) Gen.src_seq_projection "@ret"
        = .ok (.str (codesOf (seq ++ hyperslabText p.slice ++ '.' :: name))) := by
  cases hr : rpartDot (proxyId t p) with
  | none => exact absurd hd ((rpartDot_none _).mp hr)
  | some ab =>
    obtain ⟨a, b⟩ := ab
    obtain ⟨h1, h2⟩ := rpartDot_some _ a b hr
    refine ⟨a, b, h1, h2, ?_⟩
    unfold proxyEnv
    rw [src_seq_projection_eq]
    unfold projSpec
    have hne : ¬ (p.subChildren = true ∧ childIds t ≠ []) := fun e => hc ⟨e.1, by simpa [childIds] using e.2⟩
    rw [if_neg hne, if_pos ⟨rfl, hd⟩, hr]

section SourceExamples
open MiniPy SeqClient

/-- equality of MiniPy results is decidable (for the concrete examples below only) -/
local instance decEqMiniPyResult {α : Type} [DecidableEq α] : DecidableEq (Except MiniPy.Err α)
  | .ok a, .ok b => if h : a = b then isTrue (by rw [h]) else isFalse (by intro h'; cases h'; exact h rfl)
  | .error a, .error b => if h : a = b then isTrue (by rw [h]) else isFalse (by intro h'; cases h'; exact h rfl)
  | .ok _, .error _ => isFalse (by intro h; cases h)
  | .error _, .ok _ => isFalse (by intro h; cases h)

/-- `s` with columns `f`, `i` selected and the range `[1:3]` -/
def srcT : Proxy.Tmpl := ⟨["s".toList], ["f".toList, "i".toList, "t".toList], ["f".toList, "i".toList]⟩
def srcP : Proxy.SeqProxy :=
  { baseurl := [], template := 0, selection := [], slice := [⟨some 1, some 3, none⟩], subChildren := true,
    session := none, opts := 0 }

example : runItem (proxyEnv srcT srcP true) Gen.src_seq_projection "@ret"
    = .ok (.str (codesOf "s[1:1:2].f,s.i".toList)) := by decide +kernel
example : runItem (proxyEnv srcT srcP true) Gen.src_seq_id "@ret" = .ok (.str (codesOf "s.f,s.i".toList)) := by
  decide +kernel
-- the single column `s.f` (template a BaseType): the range goes on `s`
example : runItem (proxyEnv ⟨["s".toList, "f".toList], [], []⟩ { srcP with subChildren := false } false)
    Gen.src_seq_projection "@ret" = .ok (.str (codesOf "s[1:1:2].f".toList)) := by decide +kernel
-- the whole sequence
example : runItem (proxyEnv srcT { srcP with subChildren := false } true) Gen.src_seq_projection "@ret"
    = .ok (.str (codesOf "s[1:1:2]".toList)) := by decide +kernel

end SourceExamples

end Pydap.C04
