/-
  C12 — the dataset tree stays consistent under any history of edits and copies; quoting laws.
  Property statements only; helper lemmas are in `Proofs/Quote.lean`, `Proofs/Tree.lean`.
-/
import PydapModel.Quote
import PydapModel.Tree
import PydapModel.Heap
import Proofs.Quote
import Proofs.Tree
namespace Pydap.C12
open Pydap.Quote Pydap.Tree

/-! ## quoting laws (`lib.py` `_quote`, `unquote`) -/

/-- **quoting is idempotent**, for every string (any characters, `dap4` prefix or not) -/
theorem C12_quote_idempotent (name : Str) : quote (quote name) = quote name := quote_idem name

example : quote [[87], [32], [46]] = [[87], [37], [50], [48], [37], [50], [69]] := by decide
example : quote (quote [[0xc3, 0xa9], [91]]) = quote [[0xc3, 0xa9], [91]] ∧ quote [[0xc3, 0xa9], [91]] ≠ [[0xc3, 0xa9], [91]] := by
  decide

/-- **legal alphabet**: a name that does not start with the literal `dap4` is quoted to single-byte
    characters from `[A-Za-z0-9_!~*'"/%-]` only -/
theorem C12_quote_alphabet (name : Str) (h : ¬ (name.take 4 == dap4)) :
    ∀ c ∈ quote name, ∃ b, c = [b] ∧ legal b = true := quote_legal name h

example : ¬ (([[32], [38], [0xe6, 0x97, 0xa5]] : Str).take 4 == dap4) := by decide
/-- the guard is needed: the 8-character `dap4` prefix is passed through on purpose -/
example : ¬ ∀ c ∈ quote [[100], [97], [112], [52], [32]], ∃ b, c = [b] ∧ legal b = true := by
  intro h
  obtain ⟨b, hb, hl⟩ := h [32] (by decide)
  cases hb
  exact absurd hl (by decide)

/-! ## `_set_id` propagation -/

/-- **re-deriving ids**: whatever the ids were, after `obj.id = id` every variable listed below `obj`
    carries its parent's id, a dot, its own name (just its name below a dataset); names, keys and visible
    keys are untouched -/
theorem C12_set_id_propagates (pk : Kind) (pid : Str) (vis : List Str) (f : Forest)
    (pk0 : Kind) (pid0 : Str) (vis0 : List Str) (h0 : idsOk pk0 pid0 vis0 f = true) :
    idsOk pk pid vis (setIdKids pk pid vis f) = true
    ∧ shapeOk (setIdKids pk pid vis f) = shapeOk f
    ∧ (setIdKids pk pid vis f).keys = f.keys :=
  ⟨setIdKids_ids pk pid vis f pk0 pid0 vis0 h0, setIdKids_shape pk pid vis f, setIdKids_keys pk pid vis f⟩

/-! ## the tree invariant under edits -/

/-- **`container[key] = item`** — insertion *and* replacement, for Structure / Sequence / Grid containers and
    for the dataset (`DatasetType.__setitem__` as repaired: no splitting at blanks): if the container and
    the inserted root satisfy the invariant (`invObj`: stored names are quoted and free of `.`, keys unique,
    visible keys unique keys of `_dict`, every listed child's id = parent id `.` name, below a dataset the
    name alone), so does the result; the container keeps its own name, id, class and identity.  For a
    dataset container the quoted key must not contain `%2E` (`dsKeyOk`). -/
theorem C12_setitem_preserves (o item r : Obj) (key : Str) (ho : invObj o = true) (hi : invObj item = true)
    (hk : o.hdr.kind = .dataset → dsKeyOk key) (h : setItem o key item = .ok r) :
    invObj r = true ∧ sameHead o r := by
  have := setItem_inv o item r key ((invO_iff o).2 ho) ((invO_iff item).2 hi) hk h
  exact ⟨(invO_iff r).1 this.1, this.2⟩

/-- **`del container[key]`** keeps the invariant and un-lists the key -/
theorem C12_delitem_preserves (o r : Obj) (key : Str) (ho : invObj o = true) (h : delItem o key = .ok r) :
    invObj r = true ∧ sameHead o r ∧ key ∉ r.hdr.visible := by
  have := delItem_inv o r key ((invO_iff o).2 ho) h
  exact ⟨(invO_iff r).1 this.1, this.2⟩

/-- **edits at any depth**: an edit of `root[k1][k2]…` that keeps the invariant, name, id and class of the
    object it is applied to keeps the invariant of the whole tree -/
theorem C12_edit_below_path (g : Obj → Except Err Obj)
    (hg : ∀ o r, invObj o = true → g o = .ok r → invObj r = true ∧ sameHead o r) (path : List Str)
    (o r : Obj) (ho : invObj o = true) (h : modifyAt g path o = .ok r) : invObj r = true ∧ sameHead o r := by
  have := modifyAt_inv g (fun o r ho hr => by
    have := hg o r ((invO_iff o).1 ho) hr
    exact ⟨(invO_iff r).2 this.1, this.2⟩) path o r ((invO_iff o).2 ho) h
  exact ⟨(invO_iff r).1 this.1, this.2⟩

/-- **every history of edits** — any number of `new`, `set`/replace (moving a root below any path of any
    live handle), `delete` and `set attribute` operations, in any order, on any number of live handles,
    failed operations included: every live root satisfies the invariant afterwards.  (Induction over the
    operation list; no bound on length, depth or number of handles.) -/
theorem C12_invariant_edit_histories (ops : List Op) (h : ∀ op ∈ ops, op.edit) :
    ∀ o, some o ∈ (run State.init ops).handles → invObj o = true :=
  run_edit_inv ops State.init (fun _ hm => by simp [State.init] at hm) h

/-- a history inside the theorem's scope that builds a three-level tree with names needing quoting, replaces
    a variable and deletes one -/
def demo : List Op :=
  [.new .dataset [[100], [32]] 0, .new .struct [[115]] 0, .set 0 [] [[115]] 1,
   .new .base [[97], [32], [98]] 1, .set 0 [[[115]]] [[97], [32], [98]] 2,
   .new .base [[97], [32], [98]] 2, .set 0 [[[115]]] [[97], [32], [98]] 3,
   .setAttr 0 [[[115]], [[97], [32], [98]]] [[117]] 3,
   .new .base [[122]] 4, .set 0 [] [[122]] 4, .del 0 [] [[122]]]

example : ∀ op ∈ demo, op.edit := by
  intro op h
  simp only [demo, List.mem_cons, List.not_mem_nil, or_false] at h
  rcases h with rfl | rfl | rfl | rfl | rfl | rfl | rfl | rfl | rfl | rfl | rfl <;>
    first | trivial | (simp only [Op.edit, dsKeyOk]; decide)

example : ((run State.init demo).handles.filterMap id).map walkIds =
    [[[[100], [37], [50], [48]], [[115]], [[115], [46], [97], [37], [50], [48], [98]]]] := by decide

/-- the guard on `new` is needed: a `dap4…` name keeps a `.` in its passed-through prefix, and then the
    id no longer determines the chain of names -/
example : (quote [[100], [97], [112], [52], [46], [120]]).contains dot = true := by decide

end Pydap.C12
