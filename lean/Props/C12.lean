/-
  C12 — the dataset tree stays consistent under any history of edits and copies; quoting laws.
  Property statements only; helper lemmas are in `Proofs/Quote.lean`, `Proofs/Tree.lean`.
-/
import PydapModel.Quote
import PydapModel.Tree
import PydapModel.Heap
import Proofs.Quote
import Proofs.Tree
import Proofs.QuoteRev
import Proofs.TreeCopy
import Proofs.TreeSep
import Proofs.TreeHist
import Proofs.TreeGetVar
import Proofs.TreeChildren
import Proofs.TreeLookup
import Proofs.TreeAudit
import Proofs.TreeNames
import Proofs.TreeOrder
import Proofs.TreeFlatHeap
import Proofs.LibSrc
namespace Pydap.C12
open Pydap.Quote Pydap.Tree

/-! ## quoting laws (`lib.py` `_quote`, `unquote`) -/

/-- **quoting is idempotent**, for every string (any characters, `dap4` prefix or not) -/
theorem C12_quote_idempotent (name : Str) : quote (quote name) = quote name := quote_idem name

example : quote [[87], [32], [46]] = [[87], [37], [50], [48], [37], [50], [69]] := by decide
example : quote (quote [[0xc3, 0xa9], [91]]) = quote [[0xc3, 0xa9], [91]] ∧ quote [[0xc3, 0xa9], [91]] ≠ [[0xc3, 0xa9], [91]] := by
  decide

/-- **legal alphabet**: a name that does not start with the literal `dap4` is quoted to single-byte
    characters from `[A-Za-z0-9_!~*'"/%-]` only -/
theorem C12_quote_alphabet (name : Str) (h : ¬ (name.take 4 == dap4)) :
    ∀ c ∈ quote name, ∃ b, c = [b] ∧ legal b = true := quote_legal name h

example : ¬ (([[32], [38], [0xe6, 0x97, 0xa5]] : Str).take 4 == dap4) := by decide
/-- the guard is needed: the 8-character `dap4` prefix is passed through on purpose -/
example : ¬ ∀ c ∈ quote [[100], [97], [112], [52], [32]], ∃ b, c = [b] ∧ legal b = true := by
  intro h
  obtain ⟨b, hb, hl⟩ := h [32] (by decide)
  cases hb
  exact absurd hl (by decide)

/-- **quoting is reversible** for every name free of literal percent-escapes (`noLit`: no `%` followed by two
    hex digits in the UTF-8 bytes of the name), *including* names with a passed-through `dap4…` prefix:
    `unquote (_quote name)` gives back the bytes of the name.  `noLit` is the whole guard. -/
theorem C12_quote_reversible (name : Str) (h : noLit name.flatten = true) :
    unquote (quote name) = name.flatten := quote_reversible name h

/-- the guard is needed: `%41` is kept by `_quote` and decoded to `A` by `unquote` -/
example : noLit ([[37], [52], [49]] : Str).flatten = false ∧
    unquote (quote [[37], [52], [49]]) ≠ ([[37], [52], [49]] : Str).flatten := by decide
/-- non-vacuity: `a .[é%`, and `dap4 .[é%` followed by ` .` (raw prefix of 8 characters, then `%%20%2E`) -/
example : noLit ([[97], [32], [46], [91], [0xc3, 0xa9], [37]] : Str).flatten = true ∧
    quote [[97], [32], [46], [91], [0xc3, 0xa9], [37]] ≠ [[97], [32], [46], [91], [0xc3, 0xa9], [37]] := by decide
example : noLit ([[100], [97], [112], [52], [32], [46], [91], [0xc3, 0xa9], [37], [32], [46]] : Str).flatten = true ∧
    quote [[100], [97], [112], [52], [32], [46], [91], [0xc3, 0xa9], [37], [32], [46]] =
      [[100], [97], [112], [52], [32], [46], [91], [0xc3, 0xa9]] ++ chars [37, 37, 50, 48, 37, 50, 69] := by decide

/-! ## `_set_id` propagation -/

/-- **re-deriving ids**: whatever the ids were, after `obj.id = id` every variable listed below `obj`
    carries its parent's id, a dot, its own name (just its name below a dataset); names, keys and visible
    keys are untouched -/
theorem C12_set_id_propagates (pk : Kind) (pid : Str) (vis : List Str) (f : Forest)
    (pk0 : Kind) (pid0 : Str) (vis0 : List Str) (h0 : idsOk pk0 pid0 vis0 f = true) :
    idsOk pk pid vis (setIdKids pk pid vis f) = true
    ∧ shapeOk (setIdKids pk pid vis f) = shapeOk f
    ∧ (setIdKids pk pid vis f).keys = f.keys :=
  ⟨setIdKids_ids pk pid vis f pk0 pid0 vis0 h0, setIdKids_shape pk pid vis f, setIdKids_keys pk pid vis f⟩

/-! ## the tree invariant under edits -/

/-- **`container[key] = item`** — insertion *and* replacement, for Structure / Sequence / Grid containers and
    for the dataset (`DatasetType.__setitem__` as repaired: no splitting at blanks): if the container and
    the inserted root satisfy the invariant (`invObj`: stored names are quoted and free of `.`, keys unique,
    visible keys unique keys of `_dict`, every listed child's id = parent id `.` name, below a dataset the
    name alone), so does the result; the container keeps its own name, id, class and identity.  For a
    dataset container the quoted key must not contain `%2E` (`dsKeyOk`). -/
theorem C12_setitem_preserves (o item r : Obj) (key : Str) (ho : invObj o = true) (hi : invObj item = true)
    (hk : o.hdr.kind = .dataset → dsKeyOk key) (h : setItem o key item = .ok r) :
    invObj r = true ∧ sameHead o r := by
  have := setItem_inv o item r key ((invO_iff o).2 ho) ((invO_iff item).2 hi) hk h
  exact ⟨(invO_iff r).1 this.1, this.2⟩

/-- **`del container[key]`** keeps the invariant and un-lists the key; every other visible key and every other
    `_dict` key keeps its place (round 7: the last two conjuncts are new — deletion never reorders) -/
theorem C12_delitem_preserves (o r : Obj) (key : Str) (ho : invObj o = true) (h : delItem o key = .ok r) :
    invObj r = true ∧ sameHead o r ∧ key ∉ r.hdr.visible
    ∧ r.hdr.visible = o.hdr.visible.erase key ∧ r.kids.keys = o.kids.keys.erase key := by
  have := delItem_inv o r key ((invO_iff o).2 ho) h
  have e := delItem_eq o r key h
  refine ⟨(invO_iff r).1 this.1, this.2.1, this.2.2, ?_, ?_⟩
  · rw [e]
  · rw [e]; exact keys_remove key o.kids

/-- **an edit below a container does not touch its listing**: `container[k][…]… = / del / .data = / .attributes[…] =`
    (any edit that keeps invariant, name and id of the object it is applied to, at any depth ≥ 1 below the container)
    leaves the container's own name, id, visible keys, attributes, identity and the order of its `_dict` keys as they
    were.  Together with `C12_setitem_appends` (append / move to the end) and `C12_delitem_preserves` (erase) this is
    the complete stepwise account of the order in which a container lists its children: it changes only by an
    insertion, replacement or deletion made directly on that container. -/
theorem C12_edit_below_keeps_listing (g : Obj → Except Err Obj)
    (hg : ∀ o r, invObj o = true → g o = .ok r → invObj r = true ∧ sameHead o r) (k : Str) (ks : List Str)
    (o r : Obj) (ho : invObj o = true) (h : modifyAt g (k :: ks) o = .ok r) :
    r.hdr = o.hdr ∧ r.kids.keys = o.kids.keys :=
  modifyAt_below_listing g (fun o r ho hr => by
    have := hg o r ((invO_iff o).1 ho) hr
    exact ⟨(invO_iff r).2 this.1, this.2⟩) k ks o r ((invO_iff o).2 ho) h

/-- **edits at any depth**: an edit of `root[k1][k2]…` that keeps the invariant, name, id and class of the
    object it is applied to keeps the invariant of the whole tree -/
theorem C12_edit_below_path (g : Obj → Except Err Obj)
    (hg : ∀ o r, invObj o = true → g o = .ok r → invObj r = true ∧ sameHead o r) (path : List Str)
    (o r : Obj) (ho : invObj o = true) (h : modifyAt g path o = .ok r) : invObj r = true ∧ sameHead o r := by
  have := modifyAt_inv g (fun o r ho hr => by
    have := hg o r ((invO_iff o).1 ho) hr
    exact ⟨(invO_iff r).2 this.1, this.2⟩) path o r ((invO_iff o).2 ho) h
  exact ⟨(invO_iff r).1 this.1, this.2⟩

/-- **every history of edits** — any number of `new`, `set`/replace (moving a root below any path of any
    live handle), `delete` and `set attribute` operations, in any order, on any number of live handles,
    failed operations included: every live root satisfies the invariant afterwards.  (Induction over the
    operation list; no bound on length, depth or number of handles.) -/
theorem C12_invariant_edit_histories (ops : List Op) (h : ∀ op ∈ ops, op.edit) :
    ∀ o, some o ∈ (run State.init ops).handles → invObj o = true :=
  run_edit_inv ops State.init (fun _ hm => by simp [State.init] at hm) h

/-- a history inside the theorem's scope that builds a three-level tree with names needing quoting, replaces
    a variable and deletes one -/
def demo : List Op :=
  [.new .dataset [[100], [32]] 0, .new .struct [[115]] 0, .set 0 [] [[115]] 1,
   .new .base [[97], [32], [98]] 1, .set 0 [[[115]]] [[97], [32], [98]] 2,
   .new .base [[97], [32], [98]] 2, .set 0 [[[115]]] [[97], [32], [98]] 3,
   .setAttr 0 [[[115]], [[97], [32], [98]]] [[117]] 3,
   .new .base [[122]] 4, .set 0 [] [[122]] 4, .del 0 [] [[122]]]

example : ∀ op ∈ demo, op.edit := by
  intro op h
  simp only [demo, List.mem_cons, List.not_mem_nil, or_false] at h
  rcases h with rfl | rfl | rfl | rfl | rfl | rfl | rfl | rfl | rfl | rfl | rfl <;>
    first | trivial | (simp only [Op.edit, dsKeyOk]; decide)

example : ((run State.init demo).handles.filterMap id).map walkIds =
    [[[[100], [37], [50], [48]], [[115]], [[115], [46], [97], [37], [50], [48], [98]]]] := by decide

/-- the guard on `new` is needed: a `dap4…` name keeps a `.` in its passed-through prefix, and then the
    id no longer determines the chain of names -/
example : (quote [[100], [97], [112], [52], [46], [120]]).contains dot = true := by decide

/-! ## copy, tuple selection, data assignment; the full operation alphabet

`invE o` is `invObj o = true` together with `escO o = true`: no stored name contains a literal `%2E`
(`DatasetType.__setitem__` turns `%2E` back into `.` before deriving the id, and `DatasetType.__copy__`
re-inserts every child through it).  Names of the property's alphabet have no literal `%`. -/

/-- **`copy.copy(obj)`** (any class, any depth, hidden children included): the copy satisfies the invariant,
    lists all its children, has the name and id of its source and — child by child, in `_dict` order — the
    names, classes, attribute values and *the same data objects* -/
theorem C12_copy_preserves (next : Nat) (o c : Obj) (n : Nat) (ho : invE o) (h : copyObj next o = .ok (c, n)) :
    invObj c = true ∧ escO c = true ∧ c.hdr.visible = c.kids.keys ∧ nameId c = nameId o
    ∧ contentsO c = contentsO o := by
  obtain ⟨a, b, c', d⟩ := copyObj_spec next o c n ho h
  exact ⟨(invO_iff c).1 a.1, a.2, b, c', d⟩

/-- **`container[(name, …)]`** (Structure, Dataset, Sequence, Grid) keeps the invariant of the result -/
theorem C12_select_preserves (next : Nat) (o r : Obj) (keys : List Str) (n : Nat) (ho : invE o)
    (h : select next o keys = .ok (r, n)) : invObj r = true ∧ escO r = true := by
  have := select_invE next o r keys n ho h
  exact ⟨(invO_iff r).1 this.1, this.2⟩

/-- **`obj.data = d`** (Base, and the `_set_data` recursion of a Sequence) changes data fields only: the
    invariant, the head and every identity stay -/
theorem C12_assign_data_preserves (o r : Obj) (d : DRef) (ho : invE o) (h : setData o d = .ok r) :
    invObj r = true ∧ escO r = true ∧ sameHead o r ∧ r.oids = o.oids
    ∧ stripH r.hdr = stripH o.hdr ∧ strip r.kids = strip o.kids := by
  obtain ⟨a, b, c⟩ := setData_invE o r d ho h
  exact ⟨(invO_iff r).1 a.1, a.2, b, c, setData_strip o r d h⟩

/-- **every history over the full alphabet** {new, set/replace, delete, copy, select-by-tuple, assign data,
    set attribute}, any length, any number of live handles, any depth, failed operations included: afterwards
    every live root satisfies the invariant (and has no literal `%2E` in a name), no object identity occurs
    twice in the whole store (no structure is shared between handles) and every identity is below the
    allocation counter.  The only guard: names given to `new` quote to something without `.` and without a
    literal `%2E` (`Op.scope`, evaluated by the driver on every generated history); all other arguments of all operations are arbitrary. -/
theorem C12_invariant_all_histories (ops : List Op) (h : ∀ op ∈ ops, op.scope = true) :
    Inv (run State.init ops) ∧ ∀ o, some o ∈ (run State.init ops).handles → escO o = true := by
  have := run_good ops State.init good_init (fun op ho => (Op.ok_iff_scope op).2 (h op ho))
  obtain ⟨a, b⟩ := this
  have c := (oidInv_iff _).1 b
  exact ⟨⟨fun o hm => (invO_iff o).1 (a o hm).1, c.1, c.2⟩, fun o hm => (a o hm).2⟩

/-- **copies do not share structure, they share data**: in any store reached by a history, a successful
    `copy.copy(handle[path])` adds one handle; every object reachable from it is new (identity ≥ the
    allocation counter, hence different from every live object), and it has the name, id, classes,
    attribute values and the very data objects of its source -/
theorem C12_copy_separate (ops : List Op) (hok : ∀ op ∈ ops, op.scope = true) (hh : Nat) (path : List Str) (s' : State)
    (h : stepE (run State.init ops) (.copy hh path) = .ok s') :
    ∃ o src r, (run State.init ops).get hh = .ok o ∧ navigate path o = .ok src
      ∧ s'.handles = (run State.init ops).handles ++ [some r]
      ∧ (∀ x ∈ r.oids, (run State.init ops).next ≤ x ∧ x ∉ (run State.init ops).oids)
      ∧ nameId r = nameId src ∧ contentsO r = contentsO src :=
  copy_fresh _ s' hh path (run_good ops State.init good_init (fun op ho => (Op.ok_iff_scope op).2 (hok op ho))) h

/-- **sub-selections do not share structure, they share data**: in any store reached by a history, a successful
    `handle[path][(name, …)]` adds one handle; every object reachable from it is new (identity ≥ the allocation
    counter, hence different from every live object).  When the source is a Structure or a Dataset (round 7, new) the
    selection has the name and id of its source and — child by child in `_dict` order, hidden children included — the
    names, classes, attribute values and the very data objects of the source (`contentsO`), and it lists exactly the
    named children: quoted, each once, in the order of the tuple, all of them keys of its `_dict`.
    When the source is a Grid (round 7, new) every child stored in the selection is a copy of `grid[k]` for one of
    the given names `k`: same name, class, attribute values and the very same data object.
    (Sequence selection replaces the data object by `copy(data[list(keys)])` and derives the children's data from
    it, as the code does: it does not share; compared by the correspondence, nothing claimed here.) -/
theorem C12_select_separate (ops : List Op) (hok : ∀ op ∈ ops, op.scope = true) (hh : Nat) (path keys : List Str)
    (s' : State) (h : stepE (run State.init ops) (.select hh path keys) = .ok s') :
    ∃ o src r, (run State.init ops).get hh = .ok o ∧ navigate path o = .ok src
      ∧ s'.handles = (run State.init ops).handles ++ [some r]
      ∧ (∀ x ∈ r.oids, (run State.init ops).next ≤ x ∧ x ∉ (run State.init ops).oids)
      ∧ (src.hdr.kind = .struct ∨ src.hdr.kind = .dataset →
          nameId r = nameId src ∧ contentsO r = contentsO src ∧ r.hdr.visible = dedup (keys.map quote)
          ∧ ∀ k ∈ r.hdr.visible, k ∈ r.kids.keys)
      ∧ (src.hdr.kind = .grid →
          ∀ x, x ∈ r.kids.objs → ∃ k ∈ keys, ∃ c, getItem src k = .ok c ∧ contentsO x = contentsO c) :=
  select_step_shares _ s' hh path keys
    (run_good ops State.init good_init (fun op ho => (Op.ok_iff_scope op).2 (hok op ho))) h

/-- non-vacuity of the Structure/Dataset and Grid clauses of `C12_select_separate`: dataset `d` with `x`, `y`; grid `g`
    with `a`, `b`; `d["y", "x", "y"]` (handle 6) lists `y`, `x` and has the data objects of `d` (atoms 1, 2; dict order);
    `g["b",]` (handle 7, identities from 9) holds a copy of `b` with `b`'s data object (atom 4) -/
def demoSel : List Op :=
  [.new .dataset [[100]] 0, .new .base [[120]] 1, .set 0 [] [[120]] 1, .new .base [[121]] 2, .set 0 [] [[121]] 2,
   .new .grid [[103]] 0, .new .base [[97]] 3, .set 3 [] [[97]] 4, .new .base [[98]] 4, .set 3 [] [[98]] 5,
   .select 0 [] [[[121]], [[120]], [[121]]], .select 3 [] [[[98]]]]

example : ∀ op ∈ demoSel, op.scope = true := by decide

example : ((run State.init demoSel).handles.filterMap id).map (fun o => (o.hdr.oid, o.hdr.visible)) =
    [(0, [[[120]], [[121]]]), (3, [[[97]], [[98]]]), (6, [[[121]], [[120]]]), (9, [[[98]]])] := by decide

example : ((run State.init demoSel).handles.filterMap id).map (fun o => (contentsO o).map (fun e => e.2.2.2)) =
    [[.none, .atom 1, .atom 2], [.none, .atom 3, .atom 4], [.none, .atom 1, .atom 2], [.none, .atom 4]] := by decide

/-- **frame over histories**: after any history `ops`, let any further history `later` run (successful or
    failing operations).  A handle `j` that none of the later operations writes through (`Op.touches`: the
    container handle of set/delete/assign data/set attribute and the consumed source of set; `copy` and
    selection write through nothing) holds exactly the same tree afterwards: same children, keys, visible
    keys, ids, attributes, data objects and identities.  And at that point no object is reachable from two
    different handles, so nothing reachable from `j` was reachable from a handle that was written through. -/
theorem C12_frame_histories (ops later : List Op) (hok : ∀ op ∈ ops, op.scope = true)
    (hok' : ∀ op ∈ later, op.scope = true)
    (j : Nat) (hj : j < (run State.init ops).handles.length) (hn : ∀ op ∈ later, j ∉ op.touches) :
    (run (run State.init ops) later).handles[j]? = (run State.init ops).handles[j]?
    ∧ ∀ k a b, j ≠ k → (run (run State.init ops) later).handles[j]? = some (some a) →
        (run (run State.init ops) later).handles[k]? = some (some b) → ∀ x ∈ a.oids, x ∉ b.oids := by
  refine ⟨run_frame later _ j hj hn, ?_⟩
  intro k a b hjk ha hb
  exact good_disjoint _ (run_good later _ (run_good ops State.init good_init
    (fun op ho => (Op.ok_iff_scope op).2 (hok op ho))) (fun op ho => (Op.ok_iff_scope op).2 (hok' op ho))) j k a b hjk ha hb

/-- a history over the full alphabet: dataset `d ` with sequence `sq` holding `a b`; assign data to the sequence
    (propagates to the child), copy the dataset (handle 3), select `("a b",)` from `d["sq"]` (handle 4),
    then delete and edit through the copy and the selection -/
def demo2 : List Op :=
  [.new .dataset [[100], [32]] 0, .new .seq [[115], [113]] 0, .set 0 [] [[115], [113]] 1,
   .new .base [[97], [32], [98]] 1, .set 0 [[[115], [113]]] [[97], [32], [98]] 2,
   .setData 0 [[[115], [113]]] 7,
   .copy 0 [], .select 0 [[[115], [113]]] [[[97], [32], [98]]],
   .del 3 [[[115], [113]]] [[97], [37], [50], [48], [98]], .setAttr 4 [] [[117]] 1, .setData 3 [[[115], [113]]] 9]

example : ∀ op ∈ demo2, op.scope = true := by decide

/-- all eleven operations succeed; the source still lists `sq.a%20b`, the copy lost it, the selection has its
    own id chain; seven objects, seven identities -/
example : ((run State.init demo2).handles.filterMap id).map walkIds =
    [[[[100], [37], [50], [48]], [[115], [113]], [[115], [113], [46], [97], [37], [50], [48], [98]]],
     [[[100], [37], [50], [48]], [[115], [113]]],
     [[[115], [113]], [[115], [113], [46], [97], [37], [50], [48], [98]]]]
    ∧ (run State.init demo2).oids = [0, 1, 2, 3, 4, 6, 7] := by decide

example : ∀ op ∈ ([.del 3 [[[115], [113]]] [[97], [37], [50], [48], [98]], .setAttr 4 [] [[117]] 1] : List Op),
    0 ∉ op.touches := by decide

/-! ## from the invariant to the observers -/

/-- **every container lists its children once**: for an object satisfying the invariant `children()` succeeds and
    yields, in the order of the visible keys (insertion order; the order of the tuple after a selection), one
    child per visible key, no name twice, each child satisfying the invariant and carrying the id derived from
    its parent (parent id `.` name; the name alone below a dataset) -/
theorem C12_children_listed_once (o : Obj) (ho : invObj o = true) :
    ∃ cs, children o = .ok cs ∧ cs.map (fun c => c.hdr.name) = o.hdr.visible
      ∧ (cs.map (fun c => c.hdr.name)).Nodup
      ∧ ∀ c ∈ cs, invObj c = true ∧ c.hdr.id = childId o.hdr.kind o.hdr.id c.hdr.name := by
  obtain ⟨cs, a, b, _, d, e⟩ := children_once o ((invO_iff o).2 ho)
  exact ⟨cs, a, b, d, fun c hc => ⟨(invO_iff c).1 (e c hc).1, (e c hc).2⟩⟩

example : ((run State.init demo2).handles.filterMap id).map
      (fun o => (children o).toOption.map (fun cs => cs.map (fun c => c.hdr.id))) =
    [some [[[115], [113]]], some [[[115], [113]]], some [[[115], [113], [46], [97], [37], [50], [48], [98]]]] := by decide

/-- **insertion order**: `container[key] = item` (insert or replace) lists the item last; an item of that name
    listed before is un-listed first, every other visible key keeps its place -/
theorem C12_setitem_appends (o item r : Obj) (key : Str) (h : setItem o key item = .ok r) :
    r.hdr.visible = o.hdr.visible.erase item.hdr.name ++ [item.hdr.name] ∧ quote key = item.hdr.name :=
  setItem_visible o item r key h

/-- insert `x`, insert `y`, replace `x`: the container lists `y`, `x` -/
example : ((run State.init [.new .struct [[115]] 0, .new .base [[120]] 1, .set 0 [] [[120]] 1, .new .base [[121]] 2,
      .set 0 [] [[121]] 2, .new .base [[120]] 3, .set 0 [] [[120]] 3]).handles.filterMap id).map (·.hdr.visible) =
    [[[[121]], [[120]]]] := by decide

/-! ## `get_var(dataset, var.id) is var` -/

/-- **looking an id up returns that variable**: in a dataset satisfying the invariant, for every variable `v`
    reached from the root through listed children (`Chain`: what `walk` reaches; no intermediate dataset),
    `get_var(root, v.id)` is `v` itself, the id is the dotted chain of the quoted names on the way, and
    splitting the id at `.` gives back exactly that chain (quoted names contain no `.`) -/
theorem C12_get_var (root v : Obj) (ns : List Str) (hr : invObj root = true) (hd : root.hdr.kind = .dataset)
    (hc : Chain root ns v) :
    getVar root v.hdr.id = .ok v ∧ splitOn dot v.hdr.id = ns ∧ v.hdr.id = List.intercalate [dot] ns
    ∧ (∀ n ∈ ns, quote n = n ∧ n.contains dot = false) ∧ invObj v = true := by
  obtain ⟨a, b, c, d, e⟩ := getVar_chain root v ns hr hd hc
  exact ⟨a, b, by rw [c, joinDot_eq_intercalate], d, e⟩

/-- every child `children()` yields is found under its id -/
theorem C12_get_var_children (root c : Obj) (cs : List Obj) (hr : invObj root = true)
    (hd : root.hdr.kind = .dataset) (h : children root = .ok cs) (hc : c ∈ cs) :
    getVar root c.hdr.id = .ok c := getVar_children root c cs hr hd h hc

example : (do let ds ← exTree; getVar ds exLeaf.hdr.id).toOption = some exLeaf
    ∧ exLeaf.hdr.id = [[115], [46], [97], [37], [50], [48], [98]] := by decide

/-! ## round 7 (audit): the guard on the inputs, and the clauses of the property composed over histories -/

/-- **the property's name alphabet is inside the scope of the history theorems**: a history all of whose `new`
    operations use names without the byte of `.` (the excluded path separator) and of `%` (not in the property's
    alphabet: identifiers, space, brackets, `&`, non-ASCII) satisfies `Op.scope` — names with a passed-through `dap4…`
    prefix included.  `Op.scope` speaks about the *quoted* name; this restates it on what the client passes in. -/
theorem C12_scope_of_alphabet (ops : List Op) (h : ∀ op ∈ ops, op.alphabet = true) : ∀ op ∈ ops, op.scope = true :=
  fun op ho => Op.scope_of_alphabet op (h op ho)

theorem C12_quote_of_alphabet (name : Str) (h : ∀ c ∈ name, (37 : UInt8) ∉ c ∧ (46 : UInt8) ∉ c) :
    (quote name).contains dot = false ∧ nameEsc (quote name) = true := quote_alphabet_scope name h

/-- **no stored name contains `/`** after any history in scope none of whose `new` names contains the byte of `/`
    (hidden children included) — this discharges the `/` hypothesis of `C12_lookup_id` / `C12_lookup_relative` from
    the inputs of the history -/
theorem C12_no_slash_histories (ops : List Op) (hok : ∀ op ∈ ops, op.scope = true)
    (hsl : ∀ op ∈ ops, op.slashFree = true) :
    ∀ o, some o ∈ (run State.init ops).handles → namesO noSlash o = true :=
  run_noSlash ops (fun op ho => (Op.ok_iff_scope op).2 (hok op ho)) hsl

/-- the guard is needed: `/` is a safe character of `_quote`, a name `a/b` is stored as `a/b` -/
example : (Op.new .base [[97], [47], [98]] 0).slashFree = false
    ∧ ((run State.init [.new .base [[97], [47], [98]] 0]).handles.filterMap id).map (namesO noSlash) = [false] := by
  decide

example : ∀ op ∈ demo2, op.alphabet = true ∧ op.slashFree = true := by decide
/-- `dap4 x[é&` (raw 8-character prefix) is in the alphabet, hence in scope -/
example : (Op.new .base [[100], [97], [112], [52], [32], [120], [91], [0xc3, 0xa9], [38]] 0).alphabet = true := by decide
/-- the guard is needed, and `%` is the reason: a root-level child constructed as `a%2Eb` is given the id `a.b` by
    `DatasetType.__setitem__` (the `%2E → .` pass), which is not its name — the invariant fails -/
example : (Op.new .base [[97], [37], [50], [69], [98]] 0).scope = false
    ∧ ((run State.init [.new .dataset [[100]] 0, .new .base [[97], [37], [50], [69], [98]] 1,
          .set 0 [] [[97], [37], [50], [69], [98]] 1]).handles.filterMap id).map (fun o => (walkIds o, invObj o))
      = [([[[100]], [[97], [46], [98]]], false)] := by decide

/-- **`keys()` lists every visible child once** (dict order; for a Sequence the visible keys themselves) -/
theorem C12_keys_listed_once (o : Obj) (ho : invObj o = true) :
    (keysOf o).Nodup ∧ ∀ k, k ∈ keysOf o ↔ k ∈ o.hdr.visible := keysOf_once o ((invO_iff o).2 ho)

/-- **`walk(obj)` reaches exactly `Below obj`**: the relation the theorems quantify over ("every variable", "every
    container") is what the observer `walk()` yields — for every object, no invariant needed -/
theorem C12_walk_reaches (root : Obj) (id : Str) : id ∈ walkIds root ↔ ∃ v, Below root v ∧ v.hdr.id = id :=
  walkIds_below root id

/-- **the tree clauses of the property, composed, after every history.**  After any history over the full alphabet
    {new, set/replace, delete, copy, select-by-tuple, assign data, set attribute} with lookups interleaved anywhere,
    constructed names from the property's alphabet (`Op.alphabet`; all other arguments arbitrary, failed operations
    included), for **every live handle** `root` (dataset, detached variable, copy, sub-selection):

    0. `walk(root)` yields exactly the ids of the objects `Below root` (`root` itself or anything reached through
       listed children, any depth, any classes on the way);
    1. **every container, at any depth** (`Below root v`) satisfies the invariant; `keys()` has exactly its visible
       keys, each once; `children()` succeeds on it and yields one child per visible key, in that order,
       no name twice, each child's name quoted (`quote n = n`) and its id derived from its parent's;
    2. if `root` is a dataset: every variable `v` reached through listed children (`Chain`, names `ns`) has
       `v.id = ".".join(ns)` with every `n ∈ ns` a quoted, dot-free name; splitting the id at `.` gives back `ns`;
       `get_var(root, v.id)` is `v` itself; no `n ∈ ns` contains `/` and `root[v.id]` (direct hit fails, dotted
       fall-back of `_getitem_string`) is `v` itself — provided no `new` of the history used a name with the byte of
       `/` (`Op.slashFree`: the other separator the property excludes; the DAP4 path branch of
       `DatasetType._getitem_string` is not modelled).  That no stored name contains `/` is itself proved over
       histories (`run_noSlash`, Proofs/TreeNames.lean: names are moved, copied, re-quoted or dropped, never invented).

    This is `C12_invariant_all_histories` + `C12_children_listed_once` + `C12_get_var` + `C12_lookup_id` in one
    statement, widened from the roots to every object below them and with the guard stated on the inputs. -/
theorem C12_history_consistent (hs : List HOp) (hok : ∀ op ∈ edits hs, op.alphabet = true)
    (root : Obj) (hm : some root ∈ (runH State.init hs).handles) :
    (∀ id, id ∈ walkIds root ↔ ∃ v, Below root v ∧ v.hdr.id = id)
    ∧ (∀ v, Below root v → invObj v = true
      ∧ ((keysOf v).Nodup ∧ ∀ k, k ∈ keysOf v ↔ k ∈ v.hdr.visible)
      ∧ ∃ cs, children v = .ok cs ∧ cs.map (fun c => c.hdr.name) = v.hdr.visible
        ∧ (cs.map (fun c => c.hdr.name)).Nodup
        ∧ ∀ c ∈ cs, quote c.hdr.name = c.hdr.name ∧ c.hdr.id = childId v.hdr.kind v.hdr.id c.hdr.name)
    ∧ (root.hdr.kind = .dataset → ∀ ns v, Chain root ns v →
        v.hdr.id = List.intercalate [dot] ns ∧ splitOn dot v.hdr.id = ns
        ∧ (∀ n ∈ ns, quote n = n ∧ n.contains dot = false)
        ∧ getVar root v.hdr.id = .ok v
        ∧ ((∀ op ∈ edits hs, op.slashFree = true) →
            (∀ n ∈ ns, n.contains slash = false) ∧ lookup root v.hdr.id = .ok (.obj v))) := by
  rw [runH_eq_run] at hm
  have hgood := run_good (edits hs) State.init good_init
    (fun op ho => (Op.ok_iff_scope op).2 (Op.scope_of_alphabet op (hok op ho)))
  obtain ⟨ho, he⟩ := hgood.1 root hm
  refine ⟨walkIds_below root, ?_, ?_⟩
  · intro v hv
    have hiv := hv.invO ho
    obtain ⟨cs, a, b, _, d, e⟩ := children_once v hiv
    refine ⟨(invO_iff v).1 hiv, keysOf_once v hiv, cs, a, b, d, fun c hc => ?_⟩
    have := childOf_facts v c hiv (childOf_of_children v c cs a hc)
    exact ⟨this.2.2.1, this.2.1⟩
  · intro hd ns v hc
    obtain ⟨a, b, c, d, _⟩ := getVar_chain root v ns ((invO_iff root).1 ho) hd hc
    refine ⟨by rw [c, joinDot_eq_intercalate], b, d, a, fun hsf => ?_⟩
    have hn := run_noSlash (edits hs)
      (fun op ho => (Op.ok_iff_scope op).2 (Op.scope_of_alphabet op (hok op ho))) hsf root hm
    have hsl : ∀ n ∈ ns, n.contains slash = false := fun n hn' => by
      have := (Chain.names hc hn).1 n hn'
      simpa [noSlash] using this
    refine ⟨hsl, ?_⟩
    rw [c]
    exact lookup_path (Path.of_chain hc) ho he (fun _ => hsl)

/-- the leaf, the sequence and the dataset of handle 0 in the store `demo2` reaches -/
def demo2Leaf : Obj :=
  ⟨⟨2, .base, [[97], [37], [50], [48], [98]], [[115], [113], [46], [97], [37], [50], [48], [98]], [], [],
    .item (.atom 7) [[97], [37], [50], [48], [98]]⟩, .nil⟩
def demo2Seq : Obj :=
  ⟨⟨1, .seq, [[115], [113]], [[115], [113]], [[[97], [37], [50], [48], [98]]], [], .atom 7⟩,
    .cons demo2Leaf.hdr .nil .nil⟩
def demo2Root : Obj :=
  ⟨⟨0, .dataset, [[100], [37], [50], [48]], [[100], [37], [50], [48]], [[[115], [113]]], [], .none⟩,
    .cons demo2Seq.hdr demo2Seq.kids .nil⟩

/-- non-vacuity of `C12_history_consistent`: in the store `demo2` reaches, handle 0 is a dataset with the chain
    `sq`, `a%20b` below it (so both parts of the theorem speak about it) -/
example : some demo2Root ∈ (runH State.init (demo2.map .op)).handles ∧ demo2Root.hdr.kind = .dataset
    ∧ Chain demo2Root [[[115], [113]], [[97], [37], [50], [48], [98]]] demo2Leaf ∧ Below demo2Root demo2Leaf := by
  have hr : (runH State.init (demo2.map .op)).handles[0]? = some (some demo2Root) := by decide
  have c1 : childOf demo2Root demo2Seq := ⟨[[115], [113]], by decide, by decide⟩
  have c2 : childOf demo2Seq demo2Leaf := ⟨[[97], [37], [50], [48], [98]], by decide, by decide⟩
  refine ⟨List.mem_of_getElem? hr, rfl, ?_, Below.child (Below.child Below.self c1) c2⟩
  exact Chain.step (ns := [[[115], [113]]]) (Chain.child c1) (by decide) c2

/-! ## round 7: "in insertion order" over histories -/

/-- **the order of `children()` is determined by the history, as "insertion order" with replacement moving to the end.**
    Let any history `pre` reach a store in which handle `j` holds the container `o`, and let any further history `later`
    run (any operations on any handles, failing ones included).  If `j` is still live, the container it holds lists its
    children (`_visible_keys`, and — inside the scope — `children()` itself) in exactly the order `ghostRun` computes from
    `later` alone, starting from `o`'s listing: a **successful** `handle_j[key] = item` un-lists `quote key` and lists it
    last (insertion appends, replacement moves to the end); a successful `del handle_j[key]` un-lists `key`; every other
    operation — edits deeper in the tree, edits through other handles, copies, selections, data and attribute assignments,
    anything that raises — leaves the order alone.  The starting listing of a handle is `[]` for `new`
    (`C12_new_lists_nothing`), the `_dict` order for `copy` (`C12_copy_preserves`: hidden children re-appear, a reordering
    selection is forgotten) and the deduplicated quoted tuple for a Structure/Dataset selection (`C12_select_separate`):
    these two are the operations that *reset* the order.  Scope: the root container of a handle; a nested container is
    covered while it is filled as a root, and stepwise (`C12_setitem_appends`, `C12_delitem_preserves`,
    `C12_edit_below_keeps_listing`) afterwards. -/
theorem C12_order_histories (pre later : List Op) (hok : ∀ op ∈ pre, op.scope = true)
    (hok' : ∀ op ∈ later, op.scope = true) (j : Nat) (o o' : Obj)
    (h : (run State.init pre).handles[j]? = some (some o))
    (h' : (run (run State.init pre) later).handles[j]? = some (some o')) :
    o'.hdr.visible = ghostRun (run State.init pre) later j o.hdr.visible
    ∧ ∃ cs, children o' = .ok cs
        ∧ cs.map (fun c => c.hdr.name) = ghostRun (run State.init pre) later j o.hdr.visible := by
  have hv := run_visible later _ j o o' h h'
  have hgood := run_good later _ (run_good pre State.init good_init
    (fun op ho => (Op.ok_iff_scope op).2 (hok op ho))) (fun op ho => (Op.ok_iff_scope op).2 (hok' op ho))
  obtain ⟨cs, a, b, _⟩ := children_once o' (hgood.1 o' (List.mem_of_getElem? h')).1
  exact ⟨hv, cs, a, by rw [b, hv]⟩

/-- a freshly constructed variable lists nothing -/
theorem C12_new_lists_nothing (s s' : State) (k : Kind) (name : Str) (a : Nat) (h : stepE s (.new k name a) = .ok s') :
    ∃ o, s'.handles = s.handles ++ [some o] ∧ o.hdr.visible = [] := by
  simp only [stepE] at h; cases h
  exact ⟨_, rfl, rfl⟩

/-- non-vacuity, and the order is *not* the order of first insertion: insert `x`, insert `y`, a failing insertion (key ≠
    name), replace `x`, insert `z`, delete `y` — the ghost and the container both list `x`, `z` -/
def demoOrder : List Op :=
  [.new .base [[120]] 1, .set 0 [] [[120]] 1, .new .base [[121]] 2, .set 0 [] [[121]] 2,
   .new .base [[119]] 5, .set 0 [] [[120]] 3,
   .new .base [[120]] 3, .set 0 [] [[120]] 4, .new .base [[122]] 4, .set 0 [] [[122]] 5, .del 0 [] [[121]]]

example : ghostRun (run State.init [.new .struct [[115]] 0]) (demoOrder.take 8) 0 [] = [[[121]], [[120]]]
    ∧ ghostRun (run State.init [.new .struct [[115]] 0]) demoOrder 0 [] = [[[120]], [[122]]]
    ∧ ((run (run State.init [.new .struct [[115]] 0]) demoOrder).handles[0]?.map (Option.map (·.hdr.visible)))
        = some (some [[[120]], [[122]]]) := by decide

/-! ## round 7: histories the model describes step by step (`outside` is not silently a failed operation)

`step` totalises: a model step answering `outside` (behaviour of the code the model does not describe) leaves the store
unchanged like a raised exception.  The history theorems above therefore speak about pydap **for histories satisfying
`noOutside`** — an executable predicate (the driver's `outside` count is its negation: 0 of 1500 generated histories per
quick run). -/

/-- **every step of a `noOutside` history is a described one**: it succeeds with exactly the store `run` reaches, or it
    raises a modelled Python exception (`KeyError`/`TypeError`/`IndexError`) and leaves the store as it was -/
theorem C12_described_histories (a : List Op) (op : Op) (b : List Op) (h : noOutside State.init (a ++ op :: b) = true) :
    (∃ s', stepE (run State.init a) op = .ok s' ∧ run State.init (a ++ [op]) = s') ∨
    (∃ e, e ≠ .outside ∧ stepE (run State.init a) op = .error e ∧ run State.init (a ++ [op]) = run State.init a) :=
  noOutside_steps a State.init op b h

/-- **sufficient conditions, by operation class** (the cheap ones): on a live handle `h` holding `o`, with a path that does
    not lead through a Base variable (`navOk`; a missing key is a `KeyError`, which is described),
    `del h[path][key]` and `h[path].attributes[k] = v` are always described; `h[path][key] = handles[src]` is described
    when `src ≠ h` is live, holds a non-dataset root satisfying the invariant (every root of a history in scope does) and
    the target is not a dataset.  Not characterised (they can be `outside`; listed in design_notes): a dead or missing
    handle, `src = h`, a path through a Base variable, insertion into a dataset with a `.` in the key while it lists a
    Structure/Sequence, a dataset inserted into a Structure, `copy` (re-inserts children through the same `__setitem__`s),
    tuple selection (Base source, Grid with non-Base children, `grid[()]`, dotted names), `.data =` on a Sequence whose
    `_set_data` raises half-way. -/
theorem C12_described_ops (s : State) (h : Nat) (path : List Str) (o : Obj) (hg : s.get h = .ok o)
    (hn : navOk path o = true) :
    (∀ key, (Op.del h path key).described s = true) ∧ (∀ k v, (Op.setAttr h path k v).described s = true)
    ∧ (∀ key src item, h ≠ src → s.get src = .ok item → invObj item = true → item.hdr.kind ≠ .dataset →
        (∀ c, navigate path o = .ok c → c.hdr.kind ≠ .dataset) → (Op.set h path key src).described s = true) :=
  ⟨(del_setAttr_described s h path o hg hn).1, (del_setAttr_described s h path o hg hn).2,
    fun key src item hne hg2 hi hk ht => set_described s h src path key o item hne hg hg2 hn ((invO_iff item).2 hi) hk ht⟩

/-- non-vacuity: the demo histories contain no `outside` step; a history that inserts a handle into itself does -/
example : noOutside State.init demo2 = true ∧ noOutside State.init demoSel = true
    ∧ noOutside State.init [.new .struct [[115]] 0, .set 0 [] [[115]] 0] = false := by decide

/-! ## round 7: one mutation on a flat heap of mutable records (the step the tree store leaves out)

The store of the history theorems holds one tree per handle; that this is how a heap of mutable Python objects behaves
is the standard separation argument.  Here it is made explicit for **one** in-place mutation: `FlatHeap` maps addresses
to records (fields + the addresses in `_dict`), `reify` is the tree a handle sees (`oid` = address), `mutate` overwrites
one record in place.  Not done: the refinement of the *recursive* operations (`_set_id`, `__copy__`, `__setitem__`
moving a subtree) and of whole histories — those remain carried by the `id()`-class correspondence and the oracle's
snapshots. -/

/-- **`handle1.attributes[k] = v` on the flat heap**: if the trees seen from `r1` and `r2` share no address (the
    `oids.Nodup` invariant of `C12_invariant_all_histories`), the in-place update of the record at `r1` gives, seen from
    `r1`, exactly the model's `setAttr`, and the tree seen from `r2` (children, ids, attributes, data) is unchanged; and
    *any* in-place change of *any* single record reachable from `r1` (`del self._dict[k]`, `_visible_keys.append`, …) is
    invisible from `r2` -/
theorem C12_flat_heap_mutation (hp : FlatHeap) (fuel r1 r2 : Nat) (t1 t2 : Obj) (k : Str) (v : AVal)
    (h1 : reify hp fuel r1 = some t1) (h2 : reify hp fuel r2 = some t2) (hnd : (t1.oids ++ t2.oids).Nodup) :
    reify (mutate hp r1 (recSetAttr k v)) fuel r1 = some (setAttr t1 k v)
    ∧ reify (mutate hp r1 (recSetAttr k v)) fuel r2 = some t2
    ∧ ∀ addr ∈ t1.oids, ∀ f, reify (mutate hp addr f) fuel r2 = some t2 :=
  heap_setAttr_refines hp fuel r1 r2 t1 t2 k v h1 h2 hnd

/-- a heap with the Structure `s` (address 0) holding `x` (address 1), and a separate `y` (address 2); and — to show that
    the hypothesis is needed — the same `x` also reachable from a second Structure at address 3 (sharing) -/
def exHeap : FlatHeap := fun a =>
  if a = 0 then some ⟨⟨0, .struct, [[115]], [[115]], [[[120]]], [], .none⟩, [1]⟩
  else if a = 1 then some ⟨⟨1, .base, [[120]], [[115], [46], [120]], [], [], .atom 1⟩, []⟩
  else if a = 2 then some ⟨⟨2, .base, [[121]], [[121]], [], [], .atom 2⟩, []⟩
  else if a = 3 then some ⟨⟨3, .struct, [[116]], [[116]], [[[120]]], [], .none⟩, [1]⟩
  else none

example : (reify exHeap 3 0).map (·.oids) = some [0, 1] ∧ (reify exHeap 3 2).map (·.oids) = some [2]
    ∧ reify (mutate exHeap 1 (recSetAttr [[117]] (.nat 7))) 3 2 = reify exHeap 3 2
    ∧ reify (mutate exHeap 1 (recSetAttr [[117]] (.nat 7))) 3 0 ≠ reify exHeap 3 0
    -- with sharing (address 1 is in both trees) the edit through `s` is seen through `t`
    ∧ reify (mutate exHeap 1 (recSetAttr [[117]] (.nat 7))) 3 3 ≠ reify exHeap 3 3 := by decide

/-! ## lookups: `obj[key]` with any string — observations that leave the store alone

`HOp` (PydapModel/Heap.lean) is the alphabet of a client program: the edits above and `lookup h path key`
(`handles[h][path…][key]`, `key` a name, a dotted id, a relative dotted path, anything).  `lookupSegs` (PydapModel/Tree.lean)
is `_getitem_string` of Structure/Sequence/Grid/Dataset with its dotted fall-back and `BaseType.__getitem__`.
The correspondence run looks every variable's id and relative path up on every container above it after *every*
operation, and at random positions in between, on the real classes and in the model. -/

/-- **lookups do not change the state**: a history with lookups interleaved anywhere reaches the store that its
    edits alone reach -/
theorem C12_lookups_change_nothing (hs : List HOp) (s : State) :
    runH s hs = run s (edits hs) ∧ ∀ h path key, stepH s (.lookup h path key) = s :=
  ⟨runH_eq_run hs s, fun _ _ _ => rfl⟩

/-- **the answer of a lookup depends only on the tree reached**: two histories with the same edits — whatever was
    looked up in between, before or after any edit — answer every lookup alike -/
theorem C12_lookup_history_independent (hs hs' : List HOp) (he : edits hs = edits hs') (h : Nat) (path : List Str)
    (key : Str) :
    lookupAt (runH State.init hs) h path key = lookupAt (runH State.init hs') h path key := by
  rw [runH_eq_run, runH_eq_run, he]

/-- **lookup after edit = lookup in the edited tree**: the answers a history yields (`answers`: what the driver
    prints and the correspondence compares with the real `obj[key]`) are, lookup by lookup, the answers in the store
    reached by the edits made before that lookup -/
theorem C12_lookup_sees_edits (s : State) (pre post : List HOp) (h : Nat) (path : List Str) (key : Str) :
    answers s (pre ++ .lookup h path key :: post)
      = answers s pre ++ lookupAt (run s (edits pre)) h path key :: answers (run s (edits pre)) post := by
  rw [answers_append, runH_eq_run]
  rfl

/-- **`dataset[v.id] is v` after every history**: after any history over the full alphabet with lookups
    interleaved anywhere (scope as in `C12_invariant_all_histories`), for every live dataset and every variable `v`
    reached through listed children (names `ns`, free of `/`: the DAP4 path branch is not modelled), looking `v.id`
    up on the dataset — the direct hit fails, the dotted fall-back of `_getitem_string` walks the chain — returns `v`
    itself, and so does the dotted chain of the names -/
theorem C12_lookup_id (hs : List HOp) (hok : ∀ op ∈ edits hs, op.scope = true) (h : Nat) (root v : Obj)
    (ns : List Str) (hg : (runH State.init hs).get h = .ok root) (hd : root.hdr.kind = .dataset)
    (hc : Chain root ns v) (hsl : ∀ n ∈ ns, n.contains slash = false) :
    lookupAt (runH State.init hs) h [] v.hdr.id = .ok (.obj v)
    ∧ lookupAt (runH State.init hs) h [] (List.intercalate [dot] ns) = .ok (.obj v) := by
  rw [runH_eq_run] at hg ⊢
  have hgood := run_good (edits hs) State.init good_init (fun op ho => (Op.ok_iff_scope op).2 (hok op ho))
  have hm : some root ∈ (run State.init (edits hs)).handles := by
    unfold State.get at hg
    split at hg
    · rename_i o hh
      cases hg
      exact List.mem_of_getElem? hh
    · cases hg
  obtain ⟨ho, he⟩ := hgood.1 root hm
  obtain ⟨_, _, hid, _, _⟩ := getVar_chain root v ns ((invO_iff root).1 ho) hd hc
  have hl := lookup_path (Path.of_chain hc) ho he (fun _ => hsl)
  refine ⟨?_, ?_⟩
  · simp only [lookupAt, hg, navigate, bind, Except.bind]
    rw [hid]; exact hl
  · simp only [lookupAt, hg, navigate, bind, Except.bind]
    rw [← joinDot_eq_intercalate]; exact hl

/-- **relative dotted paths on any container**: in any object satisfying the invariant (a Structure, Sequence, Grid,
    a detached subtree, a copy, a selection), `o["n1.n2.….nk"]` is the variable reached through the listed children
    of those names -/
theorem C12_lookup_relative (o v : Obj) (ns : List Str) (ho : invObj o = true) (he : escO o = true)
    (hc : Chain o ns v) (hs : o.hdr.kind = .dataset → ∀ n ∈ ns, n.contains slash = false) :
    lookup o (List.intercalate [dot] ns) = .ok (.obj v) := by
  rw [← joinDot_eq_intercalate]
  exact lookup_path (Path.of_chain hc) ((invO_iff o).2 ho) he hs

/-- **a deleted name is gone**: after `del container[key]` looking that name up on the container raises `KeyError`
    (a stored, hence quoted and dot-free, name; on a dataset not `""` and without `/`) -/
theorem C12_lookup_deleted (o r : Obj) (key : Str) (ho : invObj o = true) (h : delItem o key = .ok r)
    (hd : key.contains dot = false) (hq : quote key = key)
    (hds : o.hdr.kind = .dataset → key ≠ [] ∧ key.contains slash = false) :
    lookup r key = .error .keyError :=
  lookup_deleted o r key ((invO_iff o).2 ho) h hd hq hds

/-- the scenario of the memo defect: `d["s"]["t"]["a b"]`; look `s.t.a%20b` up on the dataset, replace the variable
    through its parent, look it up again (the replacement, identity 5), delete it through its parent, look again -/
def demo3 : List HOp :=
  [.op (.new .dataset [[100]] 0), .op (.new .struct [[115]] 0), .op (.set 0 [] [[115]] 1),
   .op (.new .struct [[116]] 0), .op (.set 0 [[[115]]] [[116]] 2),
   .op (.new .base [[97], [32], [98]] 1), .op (.set 0 [[[115]], [[116]]] [[97], [32], [98]] 3),
   .lookup 0 [] [[115], [46], [116], [46], [97], [37], [50], [48], [98]],
   .op (.new .base [[97], [32], [98]] 2), .op (.set 0 [[[115]], [[116]]] [[97], [32], [98]] 4),
   .lookup 0 [] [[115], [46], [116], [46], [97], [37], [50], [48], [98]],
   .lookup 0 [[[115]]] [[115], [46], [116], [46], [97], [32], [98]],
   .op (.del 0 [[[115]], [[116]]] [[97], [37], [50], [48], [98]]),
   .lookup 0 [] [[115], [46], [116], [46], [97], [37], [50], [48], [98]]]

example : ∀ op ∈ edits demo3, op.scope = true := by decide

/-- first the original (identity 3, data `a1`), then the replacement (identity 4, data `a2`) — also from `d["s"]`
    with the id whose first segment is the container's own name and the raw name —, then `KeyError` -/
example : (answers State.init demo3).map (fun r => match r with
      | .ok (.obj o) => some (o.hdr.oid, o.hdr.data)
      | _ => none)
    = [some (3, .atom 1), some (4, .atom 2), some (4, .atom 2), none]
    ∧ (answers State.init demo3).map (fun r => match r with
      | .error .keyError => true
      | _ => false) = [false, false, false, true] := by decide

/-! ## the tie by translation: the *source text* of `_quote` / `unquote` computes the model's functions

`Pydap.Gen.src_quote_split`, `src_quote`, `src_unquote_replaces` (PydapModel/Generated/LibSrc.lean) are the MiniPy
syntax trees of lib.py `_quote` (before the urllib call / the whole body) and of `unquote` (before `unquote_`),
regenerated from the source on every run by `harness/py2lean.py`.  A Python `str` is a list of code points there;
`strOf` is its UTF-8 reading as the model's `Str`, `cps` the way back.  `quote_(name.encode("utf-8"), safe=safe)`
is an input (`@quoted`): urllib's per-byte quoting is the model's `quoteByte`, tied by the correspondence run only. -/

open MiniPy in
/-- **`_quote` up to the urllib call**: for every string, the interpreted source leaves in `name` what the model
    passes to `urlQuote` (everything after the eighth character when the first four are `dap4`, else the whole
    name), in `prefix` the part the model keeps, and in `safe` the extracted table `Gen.QUOTE_SAFE` -/
theorem C12_source_quote_split (s : List Nat) :
    runItem [("name", .str s)] Gen.src_quote_split "name" = .ok (.str (if (strOf s).take 4 == dap4 then s.drop 8 else s)) ∧
    runItem [("name", .str s)] Gen.src_quote_split "prefix" = .ok (.str (if (strOf s).take 4 == dap4 then s.take 8 else [])) ∧
    runItem [("name", .str s)] Gen.src_quote_split "safe" = .ok (.str (Pydap.Gen.QUOTE_SAFE.toList.map Char.toNat)) :=
  src_quote_split_eq s

open MiniPy in
/-- **`_quote` is the model's `quote`**: for every string of code points `s` (each below 0x110000), when
    `@quoted` is urllib's quoting (`quoteByte` on every UTF-8 byte) of the rest split off above, the interpreted
    source returns exactly the code points of `quote (strOf s)`: same `dap4` test, same cut at 8, same three
    replaces in the same order, prefix put back in front -/
theorem C12_source_quote (s : List Nat) (hs : ∀ c ∈ s, c < 1114112) :
    runItem [("name", .str s), ("@quoted", .str (((quoteRest (strOf s)).flatten.flatMap quoteByte).map UInt8.toNat))]
      Gen.src_quote "@ret" = .ok (.str (cps (quote (strOf s)))) ∧
    quoteRest (strOf s) = strOf (if (strOf s).take 4 == dap4 then s.drop 8 else s) := by
  refine ⟨src_quote_model s hs, ?_⟩
  unfold quoteRest
  split <;> simp [strOf_drop]

open MiniPy in
/-- the same for *any* answer `q` of urllib: the three replaces and the prefix do not depend on what urllib did -/
theorem C12_source_quote_any (s : List Nat) (q : Bytes) :
    runItem [("name", .str s), ("@quoted", .str (q.map UInt8.toNat))] Gen.src_quote "@ret"
      = .ok (.str ((if (strOf s).take 4 == dap4 then s.take 8 else []) ++ (quoteTail q).map UInt8.toNat)) :=
  src_quote_eq s q

open MiniPy in
/-- **`unquote` before `unquote_`**: for every string the three `.replace` passes of the source are the model's three
    `rep3` passes (same patterns, same order, leftmost non-overlapping); on a string of one-byte characters — every
    output of `_quote` without a non-ASCII `dap4` prefix — the result is exactly what the model's `unquote` hands to
    `unq` (urllib's `unquote`, tied by the correspondence run) -/
theorem C12_source_unquote (s : List Nat) (bs : Bytes) :
    runItem [("name", .str s)] Gen.src_unquote_replaces "name"
      = .ok (.str (rep3 37 53 68 93 (rep3 37 53 66 91 (rep3 37 50 69 46 s)))) ∧
    ∃ r : Bytes,
      runItem [("name", .str (bs.map UInt8.toNat))] Gen.src_unquote_replaces "name" = .ok (.str (r.map UInt8.toNat)) ∧
      unquote (chars bs) = unq r :=
  ⟨src_unquote_replaces_eq s, src_unquote_model bs⟩

-- non-vacuity: "dap4.ce=/a.b[" keeps its first eight characters, the rest is quoted and `.`/`[` replaced;
-- "a%2Eb%5B%5D" loses its three escapes
open MiniPy in
example : runItem [("name", .str [100, 97, 112, 52, 46, 99, 101, 61, 47, 97, 46, 98, 91]),
      ("@quoted", .str [47, 97, 46, 98, 37, 53, 66])] Gen.src_quote "@ret"
    = .ok (.str [100, 97, 112, 52, 46, 99, 101, 61, 47, 97, 37, 50, 69, 98, 37, 53, 66]) := by rfl
open MiniPy in
example : cps (quote (strOf [100, 97, 112, 52, 46, 99, 101, 61, 47, 97, 46, 98, 91]))
    = [100, 97, 112, 52, 46, 99, 101, 61, 47, 97, 37, 50, 69, 98, 37, 53, 66] := by decide
open MiniPy in
example : runItem [("name", .str [233, 46])] Gen.src_quote_split "name" = .ok (.str [233, 46]) := by rfl
open MiniPy in
example : runItem [("name", .str [97, 37, 50, 69, 98, 37, 53, 66, 37, 53, 68])] Gen.src_unquote_replaces "name"
    = .ok (.str [97, 46, 98, 91, 93]) := by rfl

end Pydap.C12
