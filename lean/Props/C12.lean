/-
  C12 — the dataset tree stays consistent under any history of edits and copies; quoting laws.
  Property statements only; helper lemmas are in `Proofs/Quote.lean`, `Proofs/Tree.lean`.
-/
import PydapModel.Quote
import PydapModel.Tree
import PydapModel.Heap
import Proofs.Quote
import Proofs.Tree
namespace Pydap.C12
open Pydap.Quote Pydap.Tree

/-! ## quoting laws (`lib.py` `_quote`, `unquote`) -/

/-- **quoting is idempotent**, for every string (any characters, `dap4` prefix or not) -/
theorem C12_quote_idempotent (name : Str) : quote (quote name) = quote name := quote_idem name

example : quote [[87], [32], [46]] = [[87], [37], [50], [48], [37], [50], [69]] := by decide
example : quote (quote [[0xc3, 0xa9], [91]]) = quote [[0xc3, 0xa9], [91]] ∧ quote [[0xc3, 0xa9], [91]] ≠ [[0xc3, 0xa9], [91]] := by
  decide

/-- **legal alphabet**: a name that does not start with the literal `dap4` is quoted to single-byte
    characters from `[A-Za-z0-9_!~*'"/%-]` only -/
theorem C12_quote_alphabet (name : Str) (h : ¬ (name.take 4 == dap4)) :
    ∀ c ∈ quote name, ∃ b, c = [b] ∧ legal b = true := quote_legal name h

example : ¬ (([[32], [38], [0xe6, 0x97, 0xa5]] : Str).take 4 == dap4) := by decide
/-- the guard is needed: the 8-character `dap4` prefix is passed through on purpose -/
example : ¬ ∀ c ∈ quote [[100], [97], [112], [52], [32]], ∃ b, c = [b] ∧ legal b = true := by
  intro h
  obtain ⟨b, hb, hl⟩ := h [32] (by decide)
  cases hb
  exact absurd hl (by decide)

/-! ## `_set_id` propagation -/

/-- **re-deriving ids**: whatever the ids were, after `obj.id = id` every variable listed below `obj`
    carries its parent's id, a dot, its own name (just its name below a dataset); names, keys and visible
    keys are untouched -/
theorem C12_set_id_propagates (pk : Kind) (pid : Str) (vis : List Str) (f : Forest)
    (pk0 : Kind) (pid0 : Str) (vis0 : List Str) (h0 : idsOk pk0 pid0 vis0 f = true) :
    idsOk pk pid vis (setIdKids pk pid vis f) = true
    ∧ shapeOk (setIdKids pk pid vis f) = shapeOk f
    ∧ (setIdKids pk pid vis f).keys = f.keys :=
  ⟨setIdKids_ids pk pid vis f pk0 pid0 vis0 h0, setIdKids_shape pk pid vis f, setIdKids_keys pk pid vis f⟩

end Pydap.C12
