/-
  C13 — serving a request never changes what any other request returns.
  Property statements only; helper lemmas are in `Proofs/Sched.lean`, `Proofs/HandlerSteps.lean`,
  `Proofs/HandlerDiscipline.lean`.
-/
import PydapModel.Sched
import PydapModel.HandlerSteps
import Proofs.Sched
import Proofs.HandlerSteps
import Proofs.HandlerDiscipline
import PydapModel.RowHeap
import PydapModel.RequestRows
import Proofs.RowHeap
import Proofs.Traffic
namespace Pydap.C13
open Pydap Pydap.Sched

variable {L V O E : Type} [DecidableEq L]

/-- **Noninterference, any number of threads, any schedule.**  If every step of every thread writes only
    locations owned by its thread and reads only owned locations or locations no step of any thread ever
    writes, then after *any* schedule `σ` (a list of thread ids of any length):
    thread `t`'s control state and outputs are exactly those of `t` running alone from the initial heap for
    as many steps as `σ` gave it; the part of the heap `t` owns is as in that solo run; and every location
    nobody writes — in particular the whole shared region — still holds its initial value. -/
theorem C13_noninterference (owner : L → Option Nat) (P : Nat → List (Step L V O E)) (h0 : Heap L V)
    (hD : Disciplined owner P) (σ : List Nat) :
    (∀ t, (run (init h0 P) σ).th t = (soloN h0 ⟨P t, []⟩ (σ.count t)).2) ∧
    (∀ t l, owner l = some t → (run (init h0 P) σ).heap l = (soloN h0 ⟨P t, []⟩ (σ.count t)).1 l) ∧
    (∀ l, NeverWritten P l → (run (init h0 P) σ).heap l = h0 l) ∧
    (∀ l, owner l = none → (run (init h0 P) σ).heap l = h0 l) := by
  have h := inv_run hD σ (inv_init owner P h0)
  simp only [Nat.zero_add] at h
  refine ⟨h.th, h.own, h.frame, ?_⟩
  intro l hl
  apply h.frame
  intro t s hs hw
  have := hD.writes_owned t s hs l hw
  rw [hl] at this
  cases this

/-- a thread that the schedule lets finish has produced exactly the outputs of its complete solo run -/
theorem C13_complete_outputs (owner : L → Option Nat) (P : Nat → List (Step L V O E)) (h0 : Heap L V)
    (hD : Disciplined owner P) (σ : List Nat) (t : Nat) (hfin : (P t).length ≤ σ.count t) :
    ((run (init h0 P) σ).th t).outs = (solo h0 (P t)).2.outs ∧ ((run (init h0 P) σ).th t).rest = [] := by
  have h := (C13_noninterference owner P h0 hD σ).1 t
  rw [h, soloN_saturate h0 (P t) _ hfin]
  exact ⟨rfl, soloN_done h0 ⟨P t, []⟩ (P t).length (Nat.le_refl _)⟩


/-- the schedule of a sequential history: the requests of `order` served one after the other -/
def seqSchedule (P : Nat → List (Step L V O E)) (order : List Nat) : List Nat :=
  order.flatMap (fun t => List.replicate (P t).length t)

theorem count_seqSchedule (P : Nat → List (Step L V O E)) (order : List Nat) (t : Nat) (ht : t ∈ order) :
    (P t).length ≤ (seqSchedule P order).count t := by
  induction order with
  | nil => cases ht
  | cons u us ih =>
    simp only [seqSchedule, List.flatMap_cons, List.count_append]
    rcases List.mem_cons.mp ht with h | h
    · subst h; simp [List.count_replicate]
    · have := ih h
      simp only [seqSchedule] at this
      omega

/-- **Histories.**  Whatever requests were served before it (and after it), in whatever order, a request's
    outputs are those of serving it alone on the initial dataset: the response is a function of
    (dataset, request). -/
theorem C13_history (owner : L → Option Nat) (P : Nat → List (Step L V O E)) (h0 : Heap L V)
    (hD : Disciplined owner P) (order : List Nat) (t : Nat) (ht : t ∈ order) :
    ((run (init h0 P) (seqSchedule P order)).th t).outs = (solo h0 (P t)).2.outs :=
  (C13_complete_outputs owner P h0 hD _ t (count_seqSchedule P order t ht)).1

open Pydap.HandlerSteps

/-- the executable ownership audit (the driver's `hs-audit`, evaluated on every generated case) is sound for
    the discipline -/
theorem C13_audit_sound (P : Nat → List (Step Ref Val Val String)) (h : ∀ t, auditProg t (P t) = true) :
    Disciplined Ref.own P := audit_sound P h

/-- **`BaseHandler.parse` copies the dataset before constraining it** (`StructureType.__copy__` /
    `BaseType.__copy__`), for every dataset tree and every request thread: every store of the copy stage goes to
    an object allocated by the copying request; every object and attribute dict of the copy is owned by it
    (so later `_set_id`, `__setitem__`, `_set_data`, `.data = …` on the copy are owned writes); and the copy
    holds exactly the data objects of the served dataset (structure cloned, data shared, nothing written to it). -/
theorem C13_copy_discipline (t : Nat) (ds : Node) :
    (∀ e ∈ (copyNode t "copy" ds).2, e.target.own = some t) ∧
    (∀ x ∈ objRefs (copyNode t "copy" ds).1, x.own = some t) ∧
    dataRefs (copyNode t "copy" ds).1 = dataRefs ds :=
  ⟨copy_writes_owned t "copy" ds, copy_priv t "copy" ds, copy_shares_data t "copy" ds⟩

/-- **The handler model satisfies the discipline — for every dataset tree and every request.**
    `Served ds`: every object, attribute dict and data object of the served dataset is shared (`own = none`).
    Then for every thread `t` and every request: every store of every stage of the pipeline (copy, selection,
    wrap, projection, ssf re-projection) goes to an object allocated by `t` and reads only objects of `t` or shared
    ones; what response construction reads is `t`'s or shared; the thread program passes the executable audit;
    hence the family of programs is `Disciplined`.  No per-case audit is needed any more. -/
theorem C13_handler_discipline (ds : Node) (hs : Served ds) (reqs : Nat → Req) :
    (∀ t, ∀ e ∈ (pipeline t ds (reqs t)).2,
        e.target.own = some t ∧ ∀ x ∈ e.reads, x.own = some t ∨ x.own = none) ∧
    (∀ t, ∀ x ∈ allRefs (pipeline t ds (reqs t)).1, x.own = some t ∨ x.own = none) ∧
    (∀ t, auditProg t (program ds t (reqs t)) = true) ∧
    Disciplined Ref.own (fun t => program ds t (reqs t)) :=
  ⟨fun t e he => ⟨pipeline_writes_owned ds hs t (reqs t) e he, pipeline_reads_ok ds hs t (reqs t) e he⟩,
   fun t => pipeline_out_reads_ok ds hs t (reqs t),
   fun t => program_audit ds hs t (reqs t),
   audit_sound _ (fun t => program_audit ds hs t (reqs t))⟩

/-- **The handler under any schedule.**  Requests `reqs t` served concurrently by threads `t` against any served
    dataset `ds`: any schedule gives every request that it lets finish the outputs of its solo run, and leaves
    every object of the served dataset (`own = none`) as it was. -/
theorem C13_handler_noninterference (ds : Node) (hs : Served ds) (reqs : Nat → Req) (h0 : Heap Ref Val)
    (σ : List Nat) :
    (∀ t, (program ds t (reqs t)).length ≤ σ.count t →
      ((run (init h0 (fun t => program ds t (reqs t))) σ).th t).outs = (solo h0 (program ds t (reqs t))).2.outs) ∧
    (∀ l : Ref, l.own = none → (run (init h0 (fun t => program ds t (reqs t))) σ).heap l = h0 l) := by
  have hD := (C13_handler_discipline ds hs reqs).2.2.2
  exact ⟨fun t ht => (C13_complete_outputs Ref.own _ h0 hD σ t ht).1,
         (C13_noninterference Ref.own _ h0 hD σ).2.2.2⟩

/-- **The handler under any history.**  The requests of `order` served one after the other against one served
    dataset, in any order and with any repetitions of thread ids: each response is that of the request served
    alone on the initial dataset. -/
theorem C13_handler_history (ds : Node) (hs : Served ds) (reqs : Nat → Req) (h0 : Heap Ref Val)
    (order : List Nat) (t : Nat) (ht : t ∈ order) :
    ((run (init h0 (fun t => program ds t (reqs t))) (seqSchedule (fun t => program ds t (reqs t)) order)).th t).outs
      = (solo h0 (program ds t (reqs t))).2.outs :=
  C13_history Ref.own _ h0 (C13_handler_discipline ds hs reqs).2.2.2 order t ht

/-- the earlier form, for programs checked case by case by the executable audit (kept: it also covers dataset
    trees that are not `Served`, e.g. with data objects owned by the requesting thread) -/
theorem C13_handler_noninterference_audited (ds : Node) (reqs : Nat → Req) (h0 : Heap Ref Val)
    (haudit : ∀ t, auditProg t (program ds t (reqs t)) = true) (σ : List Nat) :
    (∀ t, (program ds t (reqs t)).length ≤ σ.count t →
      ((run (init h0 (fun t => program ds t (reqs t))) σ).th t).outs = (solo h0 (program ds t (reqs t))).2.outs) ∧
    (∀ l : Ref, l.own = none → (run (init h0 (fun t => program ds t (reqs t))) σ).heap l = h0 l) := by
  have hD := audit_sound (fun t => program ds t (reqs t)) haudit
  exact ⟨fun t ht => (C13_complete_outputs Ref.own _ h0 hD σ t ht).1,
         (C13_noninterference Ref.own _ h0 hD σ).2.2.2⟩

/-! ### the records held by the source of a served lazy sequence (`PydapModel/RowHeap.lean`) -/

open Pydap.RowHeap in
/-- **The map of a selection on a nested sequence (`build_filter` → `recurse`) works on a copy.**  For every
    heap — source objects of ANY representation (tuples, lists, numpy records), objects the request allocated
    before — every row value, column and clause, whether `recurse` returns or raises: the source objects are all
    unchanged, the request's earlier objects are unchanged, and the store `row[col] = …` goes to an object
    allocated by this very call.  When it returns, the result is a NEW tuple holding the cells of the source row
    except cell `col`, which is a NEW list of exactly those inner records of the source (the same objects, by
    reference, in order) that pass the test; the one logged store is the one into the copy. -/
theorem C13_nested_filter_copy (h : RHeap) (col : Nat) (p : Pred) (row : PVal) :
    (recurse h col p row).heap.src = h.src ∧
    (∀ (i : Nat) (o : PObj), h.own[i]? = some o → (recurse h col p row).heap.own[i]? = some o) ∧
    (∀ s ∈ (recurse h col p row).log, ∃ i, s.target = .own i ∧ h.own.length ≤ i) ∧
    (∀ out, (recurse h col p row).val = .ok out →
      ∃ cells cell recs kept,
        h.items row = .ok cells ∧ cells[col]? = some cell ∧
        (h.alloc ⟨.list, cells⟩).1.items cell = .ok recs ∧
        filterRecs (h.alloc ⟨.list, cells⟩).1 p recs = .ok kept ∧
        out = .ref (.own (h.own.length + 2)) ∧
        (recurse h col p row).heap.get (.own (h.own.length + 2))
          = some ⟨.tuple, cells.set col (.ref (.own (h.own.length + 1)))⟩ ∧
        (recurse h col p row).heap.get (.own (h.own.length + 1)) = some ⟨.list, kept⟩ ∧
        (recurse h col p row).log = [⟨.own h.own.length, col, locsOf row ++ locsOf cell⟩]) :=
  have f := recurse_frame h col p row
  ⟨f.1.src, f.1.own, f.2, fun out hv => recurse_ok h col p row out hv⟩

open Pydap.RowHeap in
/-- **… and the result is the filtered copy, stated on the source alone.**  On a heap without dangling references
    (`Closed`), whenever `recurse` returns: the returned tuple's cell `col` is a new list holding exactly the records
    of the source row's cell `col` that pass the clause's test — both the records and the test read in the SOURCE heap
    `h` — and every other cell is the source row's cell. -/
theorem C13_nested_filter_value (h : RHeap) (hc : Closed h) (col : Nat) (p : Pred) (row out : PVal)
    (hv : (recurse h col p row).val = .ok out) :
    ∃ cells cell recs kept,
      h.items row = .ok cells ∧ cells[col]? = some cell ∧ h.items cell = .ok recs ∧
      filterRecs h p recs = .ok kept ∧
      (recurse h col p row).heap.get (.own (h.own.length + 2))
        = some ⟨.tuple, cells.set col (.ref (.own (h.own.length + 1)))⟩ ∧
      (recurse h col p row).heap.get (.own (h.own.length + 1)) = some ⟨.list, kept⟩ ∧
      out = .ref (.own (h.own.length + 2)) :=
  recurse_ok_closed h hc col p row out hv

open Pydap.RowHeap in
/-- **Serving a request never writes a source record.**  For every source (objects of any representation),
    every stream of record values, every list of filters (`op(a(row), b(row))` of clauses on outer columns, `bool` of
    clauses on nested columns) and every chain of maps (any number of clauses on nested and on outer columns,
    `fix_nested`, column selections), any number of type
    lookups (`IterData.dtype`: the maps run on the first source record) followed by the full iteration — and also
    when any of these raises midway: every source object is as before, and every store reached went to an object
    the request allocated. -/
theorem C13_rows_frame (src : List PObj) (stream : List PVal) (filts : List RFilt) (maps : List RMap) (peeks : Nat) :
    (serveRows filts maps ⟨src, []⟩ stream peeks).heap.src = src ∧
    (∀ s ∈ (serveRows filts maps ⟨src, []⟩ stream peeks).log, ∃ i, s.target = .own i) :=
  have f := serveRows_frame filts maps stream peeks ⟨src, []⟩
  ⟨f.1.src, fun s hs => (f.2 s hs).imp fun _ h => h.1⟩

open Pydap.RowHeap in
/-- **The nested-filter step obeys the ownership discipline of `C13_noninterference`**, hence: any number of
    requests, each with its own maps, evaluated against ONE served source under ANY schedule — every source object
    `(none, i)` keeps its initial value, and every request the schedule lets finish has the outputs of its solo run. -/
theorem C13_rows_noninterference (src : List PObj) (stream : List PVal) (filts : Nat → List RFilt)
    (maps : Nat → List RMap) (peeks : Nat → Nat) (h0 : Heap GLoc RVal) (σ : List Nat) :
    let P := fun t => rowProgram src stream (filts t) (maps t) (peeks t) t
    Disciplined (fun l : GLoc => l.1) P ∧
    (∀ i, (run (init h0 P) σ).heap (none, i) = h0 (none, i)) ∧
    (∀ t, (P t).length ≤ σ.count t → ((run (init h0 P) σ).th t).outs = (solo h0 (P t)).2.outs) := by
  intro P
  have hD : Disciplined (fun l : GLoc => l.1) P := rows_disciplined src stream filts maps peeks
  exact ⟨hD, fun i => (C13_noninterference _ P h0 hD σ).2.2.2 (none, i) rfl,
         fun t ht => (C13_complete_outputs _ P h0 hD σ t ht).1⟩

open Pydap.RowHeap in
/-- **The discipline theorem extended to the nested-filter step: a whole request.**  Thread `t` runs the pipeline
    program of `C13_handler_discipline` (every store of copy / selection / wrap / projection, the emission) and then
    evaluates its filters and maps over the records the source of the served lazy sequence holds.  For every served
    dataset tree, every family of requests, every source of record objects of any representation, every filters /
    maps / number of type lookups per request: the family is `Disciplined`; under ANY schedule every object of the
    served dataset (`own = none`) and every source record object `(none, i)` keeps its initial value, and every
    request the schedule lets finish has exactly the outputs of its solo run. -/
theorem C13_request_noninterference (ds : Node) (hs : Served ds) (reqs : Nat → Req)
    (src : List PObj) (stream : List PVal) (filts : Nat → List RFilt) (maps : Nat → List RMap) (peeks : Nat → Nat)
    (h0 : Heap ReqLoc RVal) (σ : List Nat) :
    let P := fun t => requestProgram ds (reqs t) src stream (filts t) (maps t) (peeks t) t
    Disciplined reqOwner P ∧
    (∀ r : Ref, r.own = none → (run (init h0 P) σ).heap (.inl r) = h0 (.inl r)) ∧
    (∀ i, (run (init h0 P) σ).heap (.inr (none, i)) = h0 (.inr (none, i))) ∧
    (∀ t, (P t).length ≤ σ.count t → ((run (init h0 P) σ).th t).outs = (solo h0 (P t)).2.outs) := by
  intro P
  have hD : Disciplined reqOwner P :=
    disciplined_join Ref.own (fun g : GLoc => g.1) _ _ (C13_handler_discipline ds hs reqs).2.2.2
      (rows_disciplined src stream filts maps peeks)
  exact ⟨hD, fun r hr => (C13_noninterference _ P h0 hD σ).2.2.2 (.inl r) hr,
         fun i => (C13_noninterference _ P h0 hD σ).2.2.2 (.inr (none, i)) rfl,
         fun t ht => (C13_complete_outputs _ P h0 hD σ t ht).1⟩

open Pydap.RowHeap in
/-- **Requests that fail — malformed requests, errors raised while the dataset is constrained or while the records
    are read.**  Every thread's whole-request program (`C13_request_noninterference`) may be cut short at ANY step by
    ANY exception (`cut t = some (k, e)`: after `k` steps `e` is raised and unwinds the request; `k = 0` is a request
    `parse_ce` rejects before the copy; `none`: the request runs to its end).  The family is still `Disciplined`, so
    under ANY schedule: every object of the served dataset and every source record keeps its initial value — also
    when the request is abandoned between two stores —, every request the schedule lets finish, failed or not, has the
    outputs of its solo run (the same values, the same exception), and a request rejected at once outputs exactly its
    exception. -/
theorem C13_request_interrupted (ds : Node) (hs : Served ds) (reqs : Nat → Req)
    (src : List PObj) (stream : List PVal) (filts : Nat → List RFilt) (maps : Nat → List RMap) (peeks : Nat → Nat)
    (cut : Nat → Option (Nat × String)) (h0 : Heap ReqLoc RVal) (σ : List Nat) :
    let P := fun t => interrupted (requestProgram ds (reqs t) src stream (filts t) (maps t) (peeks t) t) (cut t)
    Disciplined reqOwner P ∧
    (∀ r : Ref, r.own = none → (run (init h0 P) σ).heap (.inl r) = h0 (.inl r)) ∧
    (∀ i, (run (init h0 P) σ).heap (.inr (none, i)) = h0 (.inr (none, i))) ∧
    (∀ t, (P t).length ≤ σ.count t → ((run (init h0 P) σ).th t).outs = (solo h0 (P t)).2.outs) ∧
    (∀ t e, cut t = some (0, e) → 1 ≤ σ.count t → ((run (init h0 P) σ).th t).outs = [Emit.err e]) := by
  intro P
  have hD : Disciplined reqOwner P :=
    disciplined_interrupted (C13_request_noninterference ds hs reqs src stream filts maps peeks h0 σ).1 cut
  refine ⟨hD, fun r hr => (C13_noninterference _ P h0 hD σ).2.2.2 (.inl r) hr,
    fun i => (C13_noninterference _ P h0 hD σ).2.2.2 (.inr (none, i)) rfl,
    fun t ht => (C13_complete_outputs _ P h0 hD σ t ht).1, ?_⟩
  intro t e hc h1
  have hP : P t = interrupted (requestProgram ds (reqs t) src stream (filts t) (maps t) (peeks t) t) (some (0, e)) := by
    simp only [P, hc]
  have hlen : (P t).length ≤ σ.count t := by rw [hP]; simpa [interrupted] using h1
  rw [(C13_complete_outputs _ P h0 hD σ t hlen).1, hP]
  exact (solo_rejected h0 _ e).1

open Pydap.RowHeap in
/-- **The property's sentence, literally.**  Two worlds of traffic `w`, `w'` against the same served dataset and the same
    served source — ANY other requests, any number of them, with any filters and maps, failing or not (`Traffic`) —
    that agree only on what thread `t` itself asks for (its request, filters, maps, type lookups, failure point); ANY two
    schedules `σ`, `σ'` (any histories, any interleavings) that let `t` finish.  Then `t`'s response is the same in both:
    the same outputs, the same exception if it fails — a function of the served dataset and that request alone — and in
    both worlds every object of the served dataset and every source record holds what it held before. -/
theorem C13_response_function_of_dataset_and_request (ds : Node) (hs : Served ds) (src : List PObj) (stream : List PVal)
    (w w' : Traffic) (t : Nat)
    (hreq : w.reqs t = w'.reqs t) (hf : w.filts t = w'.filts t) (hm : w.maps t = w'.maps t)
    (hp : w.peeks t = w'.peeks t) (hc : w.cut t = w'.cut t)
    (h0 : Heap ReqLoc RVal) (σ σ' : List Nat)
    (hfin : (w.prog ds src stream t).length ≤ σ.count t) (hfin' : (w'.prog ds src stream t).length ≤ σ'.count t) :
    ((run (init h0 (w.prog ds src stream)) σ).th t).outs = ((run (init h0 (w'.prog ds src stream)) σ').th t).outs ∧
    (∀ r : Ref, r.own = none →
      (run (init h0 (w.prog ds src stream)) σ).heap (.inl r) = (run (init h0 (w'.prog ds src stream)) σ').heap (.inl r)) ∧
    (∀ i, (run (init h0 (w.prog ds src stream)) σ).heap (.inr (none, i))
        = (run (init h0 (w'.prog ds src stream)) σ').heap (.inr (none, i))) := by
  have hprog : w.prog ds src stream t = w'.prog ds src stream t := by
    simp only [Traffic.prog, hreq, hf, hm, hp, hc]
  obtain ⟨-, a1, a2, a3, -⟩ := C13_request_interrupted ds hs w.reqs src stream w.filts w.maps w.peeks w.cut h0 σ
  obtain ⟨-, b1, b2, b3, -⟩ := C13_request_interrupted ds hs w'.reqs src stream w'.filts w'.maps w'.peeks w'.cut h0 σ'
  change ∀ r : Ref, r.own = none → (run (init h0 (w.prog ds src stream)) σ).heap (.inl r) = h0 (.inl r) at a1
  change ∀ i, (run (init h0 (w.prog ds src stream)) σ).heap (.inr (none, i)) = h0 (.inr (none, i)) at a2
  change ∀ t, (w.prog ds src stream t).length ≤ σ.count t →
    ((run (init h0 (w.prog ds src stream)) σ).th t).outs = (solo h0 (w.prog ds src stream t)).2.outs at a3
  change ∀ r : Ref, r.own = none → (run (init h0 (w'.prog ds src stream)) σ').heap (.inl r) = h0 (.inl r) at b1
  change ∀ i, (run (init h0 (w'.prog ds src stream)) σ').heap (.inr (none, i)) = h0 (.inr (none, i)) at b2
  change ∀ t, (w'.prog ds src stream t).length ≤ σ'.count t →
    ((run (init h0 (w'.prog ds src stream)) σ').th t).outs = (solo h0 (w'.prog ds src stream t)).2.outs at b3
  exact ⟨by rw [a3 t hfin, b3 t hfin', hprog], fun r hr => by rw [a1 r hr, b1 r hr], fun i => by rw [a2 i, b2 i]⟩

/-! non-vacuity -/

section RowExamples
open Pydap.RowHeap

/-- a source whose first record is a LIST `[1, [rec(10), rec(20)]]` (what csv.reader / json.load yield) -/
def exSrc : List PObj :=
  [⟨.list, [.atom 1, .ref (.src 1)]⟩, ⟨.list, [.ref (.src 2), .ref (.src 3)]⟩, ⟨.tuple, [.atom 10]⟩, ⟨.tuple, [.atom 20]⟩]

def exPred : Pred := ⟨0, .gt, .lit 15⟩

/-- `recurse` on it returns (so `C13_nested_filter_copy`'s last part is not vacuous): the new tuple `(1, [rec(20)])`
    with the very inner record object of the source, and the source is as before -/
example : (recurse ⟨exSrc, []⟩ 1 exPred (.ref (.src 0))).ok? = some (.ref (.own 2)) ∧
    (recurse ⟨exSrc, []⟩ 1 exPred (.ref (.src 0))).heap.own
      = [⟨.list, [.atom 1, .ref (.own 1)]⟩, ⟨.list, [.ref (.src 3)]⟩, ⟨.tuple, [.atom 1, .ref (.own 1)]⟩] ∧
    (recurse ⟨exSrc, []⟩ 1 exPred (.ref (.src 0))).heap.src = exSrc := by decide

/-- the example source has no dangling reference (`C13_nested_filter_value` applies to it) -/
example : Closed ⟨exSrc, []⟩ := by
  intro l o hg v hv
  cases l with
  | own i => simp [RHeap.get] at hg
  | src i =>
    simp only [RHeap.get, exSrc] at hg
    rcases i with _ | _ | _ | _ | _ | i <;> simp at hg <;> subst hg <;> simp at hv <;>
      (try rcases hv with rfl | rfl) <;> (try subst hv) <;> simp [Resolves, RHeap.get, exSrc]

/-- the statement can tell the difference: the variant that copies only tuples (`if isinstance(row, tuple): row =
    list(row)`) run on the same list record stores INTO THE SOURCE RECORD — the source no longer holds `rec(10)` — and
    its logged store targets a source object; on a tuple record it behaves like the pinned code -/
example : (recurseTupleOnly ⟨exSrc, []⟩ 1 exPred (.ref (.src 0))).heap.src ≠ exSrc ∧
    (recurseTupleOnly ⟨exSrc, []⟩ 1 exPred (.ref (.src 0))).log.map (·.target) = [.src 0] ∧
    (recurseTupleOnly ⟨[⟨.tuple, [.atom 1, .ref (.src 1)]⟩] ++ exSrc.drop 1, []⟩ 1 exPred (.ref (.src 0))).heap.src
      = [⟨.tuple, [.atom 1, .ref (.src 1)]⟩] ++ exSrc.drop 1 := by decide

/-- the same for a numpy record row (a writeable view of its array) -/
example : (recurseTupleOnly ⟨[⟨.nprec, [.atom 1, .ref (.src 1)]⟩] ++ exSrc.drop 1, []⟩ 1 exPred (.ref (.src 0))).heap.src
      ≠ [⟨.nprec, [.atom 1, .ref (.src 1)]⟩] ++ exSrc.drop 1 := by decide

/-- a whole request (two type lookups, then the iteration, maps `[nest, fix_nested]`) produces real stores, all into
    objects of the request; a raising evaluation (the second record is a number) keeps the stores made before -/
example : (serveRows [.truthy] [.nest 1 exPred, .fixNested [false, true]] ⟨exSrc, []⟩ [.ref (.src 0)] 2).log.length = 3 ∧
    (serveRows [.truthy] [.nest 1 exPred] ⟨exSrc, []⟩ [.ref (.src 0), .atom 5] 0).err? = some .typeError ∧
    (serveRows [.truthy] [.nest 1 exPred] ⟨exSrc, []⟩ [.ref (.src 0), .atom 5] 0).log.length = 1 := by decide

end RowExamples

/-- a served dataset: one array and a two-column sequence, all objects shared -/
def exDs : Node :=
  .cont .dataset ⟨none, "served", "d"⟩ ⟨none, "served-attrs", "d"⟩ ⟨none, "served-data", "d"⟩ "d" ["a", "s"]
    (.cons (.base ⟨none, "served", "a"⟩ ⟨none, "served-attrs", "a"⟩ ⟨none, "served-data", "a"⟩ "a" true)
    (.cons (.cont .sequence ⟨none, "served", "s"⟩ ⟨none, "served-attrs", "s"⟩ ⟨none, "served-data", "s"⟩ "s" ["i", "w"]
      (.cons (.base ⟨none, "served", "s.i"⟩ ⟨none, "served-attrs", "s.i"⟩ ⟨none, "served-data", "s.i"⟩ "i" true)
      (.cons (.base ⟨none, "served", "s.w"⟩ ⟨none, "served-attrs", "s.w"⟩ ⟨none, "served-data", "s.w"⟩ "w" true) .nil)))
    .nil))

/-- `?s.i&s.i>1` and `?a[1:2]` -/
def exReqs : Nat → Req
  | 0 => ⟨[[("s", false), ("i", false)]], ["s"], false, []⟩
  | _ => ⟨[[("a", true)]], [], false, []⟩

/-- the example dataset is `Served` (so the universally quantified theorems apply to it) … -/
example : Served exDs := by
  intro x hx
  simp [exDs, allRefs, allRefsKids] at hx
  rcases hx with h | h | h | h | h | h | h | h | h | h | h | h | h | h | h <;> subst h <;> rfl

/-- … and a tree with an object owned by some request is not -/
example : ¬ Served (.base ⟨some 3, "x", "a"⟩ ⟨none, "served-attrs", "a"⟩ ⟨none, "served-data", "a"⟩ "a" true) := by
  intro h
  have := h ⟨some 3, "x", "a"⟩ (by simp [allRefs])
  cases this

/-- the two example requests produce real programs (hundreds of stores) that pass the audit -/
example : auditProg 0 (program exDs 0 (exReqs 0)) = true ∧ auditProg 1 (program exDs 1 (exReqs 1)) = true ∧
    (program exDs 0 (exReqs 0)).length > 100 := by decide +kernel

/-- the discipline is not vacuous: a program that stores into the served dataset fails it -/
example : auditProg 0 [(ev "selection" "SequenceType" "_data" ⟨none, "served", "s"⟩).toStep] = false := by decide

/-- and without the discipline noninterference is false: thread 1 overwrites what thread 0 reads and outputs -/
example :
    let rd : Step Nat Nat Nat Unit := ⟨[0], [], fun vs => .ok ([], vs)⟩
    let wr : Step Nat Nat Nat Unit := ⟨[], [0], fun _ => .ok ([7], [])⟩
    let P : Nat → List (Step Nat Nat Nat Unit) := fun t => if t = 0 then [rd] else if t = 1 then [wr] else []
    ((run (init (fun _ => 0) P) [1, 0]).th 0).outs ≠ ((run (init (fun _ => 0) P) [0, 1]).th 0).outs := by decide

open Pydap.RowHeap in
/-- the whole-request program of the example dataset and the example source is a real program: the pipeline's
    stores and the record stores are both in it -/
example : (requestProgram exDs (exReqs 0) exSrc [.ref (.src 0)] [.truthy] [.nest 1 exPred, .fixNested [false, true]] 1 0).length
    = (program exDs 0 (exReqs 0)).length + 3 := by decide +kernel

open Pydap.RowHeap in
/-- interrupted requests are real programs: the example request cut after 40 stores is 41 steps long and ends in the
    exception; cut at 0 it is the exception alone; an uncut one is the whole-request program -/
example :
    (interrupted (requestProgram exDs (exReqs 0) exSrc [.ref (.src 0)] [.truthy] [.nest 1 exPred] 1 0)
      (some (40, "KeyError"))).length = 41 ∧
    (interrupted (requestProgram exDs (exReqs 0) exSrc [.ref (.src 0)] [.truthy] [.nest 1 exPred] 1 0)
      (some (0, "ConstraintExpressionError"))).length = 1 ∧
    interrupted (requestProgram exDs (exReqs 0) exSrc [.ref (.src 0)] [.truthy] [.nest 1 exPred] 1 0) none
      = requestProgram exDs (exReqs 0) exSrc [.ref (.src 0)] [.truthy] [.nest 1 exPred] 1 0 := by
  refine ⟨?_, ?_, rfl⟩
  · have : 40 ≤ (requestProgram exDs (exReqs 0) exSrc [.ref (.src 0)] [.truthy] [.nest 1 exPred] 1 0).length := by
      decide +kernel
    simp [interrupted, List.length_take, Nat.min_eq_left this]
  · simp [interrupted]

open Pydap.RowHeap in
/-- two different worlds that agree on thread 0 only (in the second, thread 1 sends another request and thread 2 is
    rejected at once): the hypotheses of `C13_response_function_of_dataset_and_request` are satisfiable and non-trivial -/
example :
    let w : Traffic := ⟨exReqs, fun _ => [.truthy], fun _ => [.nest 1 exPred], fun _ => 1, fun _ => none⟩
    let w' : Traffic := ⟨fun t => if t = 0 then exReqs 0 else exReqs 0, fun _ => [.truthy],
      fun t => if t = 0 then [.nest 1 exPred] else [], fun _ => 1,
      fun t => if t = 2 then some (0, "ConstraintExpressionError") else none⟩
    w.reqs 0 = w'.reqs 0 ∧ w.maps 0 = w'.maps 0 ∧ w.cut 0 = w'.cut 0 ∧ w.maps 1 ≠ w'.maps 1 ∧ w.cut 2 ≠ w'.cut 2 := by
  intro w w'
  exact ⟨rfl, rfl, rfl, fun h => by simp [w, w'] at h, fun h => by simp [w, w'] at h⟩

end Pydap.C13
