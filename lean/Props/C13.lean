/-
  C13 — serving a request never changes what any other request returns.
  Property statements only; helper lemmas are in `Proofs/Sched.lean`, `Proofs/HandlerSteps.lean`.
-/
import PydapModel.Sched
import PydapModel.HandlerSteps
import Proofs.Sched
namespace Pydap.C13
open Pydap Pydap.Sched

variable {L V O E : Type} [DecidableEq L]

/-- **Noninterference, any number of threads, any schedule.**  If every step of every thread writes only
    locations owned by its thread and reads only owned locations or locations no step of any thread ever
    writes, then after *any* schedule `σ` (a list of thread ids of any length):
    thread `t`'s control state and outputs are exactly those of `t` running alone from the initial heap for
    as many steps as `σ` gave it; the part of the heap `t` owns is as in that solo run; and every location
    nobody writes — in particular the whole shared region — still holds its initial value. -/
theorem C13_noninterference (owner : L → Option Nat) (P : Nat → List (Step L V O E)) (h0 : Heap L V)
    (hD : Disciplined owner P) (σ : List Nat) :
    (∀ t, (run (init h0 P) σ).th t = (soloN h0 ⟨P t, []⟩ (σ.count t)).2) ∧
    (∀ t l, owner l = some t → (run (init h0 P) σ).heap l = (soloN h0 ⟨P t, []⟩ (σ.count t)).1 l) ∧
    (∀ l, NeverWritten P l → (run (init h0 P) σ).heap l = h0 l) ∧
    (∀ l, owner l = none → (run (init h0 P) σ).heap l = h0 l) := by
  have h := inv_run hD σ (inv_init owner P h0)
  simp only [Nat.zero_add] at h
  refine ⟨h.th, h.own, h.frame, ?_⟩
  intro l hl
  apply h.frame
  intro t s hs hw
  have := hD.writes_owned t s hs l hw
  rw [hl] at this
  cases this

/-- a thread that the schedule lets finish has produced exactly the outputs of its complete solo run -/
theorem C13_complete_outputs (owner : L → Option Nat) (P : Nat → List (Step L V O E)) (h0 : Heap L V)
    (hD : Disciplined owner P) (σ : List Nat) (t : Nat) (hfin : (P t).length ≤ σ.count t) :
    ((run (init h0 P) σ).th t).outs = (solo h0 (P t)).2.outs ∧ ((run (init h0 P) σ).th t).rest = [] := by
  have h := (C13_noninterference owner P h0 hD σ).1 t
  rw [h, soloN_saturate h0 (P t) _ hfin]
  exact ⟨rfl, soloN_done h0 ⟨P t, []⟩ (P t).length (Nat.le_refl _)⟩

end Pydap.C13
