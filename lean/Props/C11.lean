/-
  C11 — a DMR parses to exactly what it declares; the server-emitted DMR round-trips.
  Property statements only; helper lemmas are in `Proofs/Dmr.lean`.
  Carried by theorems: per-variable shape and dimension names for any mix of named and anonymous `Dim`s
  (the decimal size text included), the attribute-type tables, the server's type tags.
  NOT carried by a theorem (correspondence + oracle only, see design_notes/C11.md): the recursion over nested
  groups (`get_variables`/`get_named_dimensions` prefixes), the split of fully qualified names into
  path and name, and the assembly of the dataset tree.
-/
import PydapModel.Dmr
import Proofs.Dmr
namespace Pydap.C11
open Pydap Pydap.Dmr

/-- **Shape**: a variable element whose `Dim` children are rendered from any list of declared dimensions —
    named references and anonymous extents in any order, any number — followed by any non-`Dim` children
    (attributes, maps), gets the declared extents in document order, provided every referenced name
    resolves in the dimension table to the size the declaration means. -/
theorem C11_shape (nd : List (Str × Int)) (tag : Str) (attrs : List (Str × Str)) (text : Option Str)
    (ds : List SDim) (post : List XNode) (hp : ∀ n ∈ post, n.tag ≠ "Dim".toList)
    (h : ∀ d ∈ ds, ∀ fq s, d = .named fq s → dictGet nd (dimKey fq) = some s) :
    varShape nd (.mk tag attrs text (ds.map renderDim ++ post)) = .ok (ds.map SDim.size) := by
  simp only [varShape, XNode.findall, XNode.children]
  rw [filter_dims ds post hp]
  exact mapM_dimSize nd ds h

/-- **Dimension names**: exactly the named references, in order, whatever anonymous `Dim`s stand between -/
theorem C11_dim_names (tag : Str) (attrs : List (Str × Str)) (text : Option Str)
    (ds : List SDim) (post : List XNode) (hp : ∀ n ∈ post, n.tag ≠ "Dim".toList) :
    getDimNames (.mk tag attrs text (ds.map renderDim ++ post)) = SDim.names ds := by
  simp only [getDimNames, XNode.findall, XNode.children]
  rw [filter_dims ds post hp]
  exact filterMap_names ds

/-- **Attribute types, full statement**: every atomic attribute type is converted by `float()` or `int()`.
    Refuted by the source tables as they stand: `Byte` is in none of the three lists. -/
theorem C11_attr_types_refuted :
    ¬ ∀ t ∈ atomicTypes, t ∈ floatTypes ∨ t ∈ intTypes ∨ t ∈ uintTypes := by decide

/-- … and holds for every atomic type other than `Byte` (in particular `UInt8 … UInt64`) -/
theorem C11_attr_types_partial :
    ∀ t ∈ atomicTypes, t ≠ "Byte".toList → t ∈ floatTypes ∨ t ∈ intTypes ∨ t ∈ uintTypes := by decide

/-- the finding's witness on the model: `<Attribute name="flag" type="Byte"><Value>007</Value></Attribute>` -/
theorem C11_byte_attr_witness :
    getAtomicAttr (.mk "Attribute".toList [("name".toList, "flag".toList), ("type".toList, "Byte".toList)] none
      [.mk "Value".toList [] (some "007".toList) []]) = .error .syntaxError := by rfl

/-- the same value under an unsigned type is the integer 7 -/
theorem C11_uint_attr_typed :
    getAtomicAttr (.mk "Attribute".toList [("name".toList, "flag".toList), ("type".toList, "UInt8".toList)] none
      [.mk "Value".toList [] (some "007".toList) []]) = .ok (some "flag".toList, .one (.int 7)) := by rfl

/-- numpy kind, `str(dtype)` and the parser's dtype string for the ten numeric types -/
def numericDtypes : List (Char × String × String) :=
  [('i', "int8", ">i1"), ('u', "uint8", ">u1"), ('i', "int16", ">i2"), ('u', "uint16", ">u2"),
   ('i', "int32", ">i4"), ('u', "uint32", ">u4"), ('i', "int64", ">i8"), ('u', "uint64", ">u8"),
   ('f', "float32", ">f4"), ('f', "float64", ">f8")]

/-- **Server round trip, types**: the tag the server writes for each numeric type is one the parser keeps
    as a variable and maps back to the same kind and width -/
theorem C11_server_types :
    ∀ d ∈ numericDtypes, dmrTypeTag d.1 d.2.1.toList ∈ varTags ∧
      dap4ToNumpy (dmrTypeTag d.1 d.2.1.toList) = some d.2.2.toList := by decide

/-! ### non-vacuity -/

example : ∀ d ∈ [SDim.named "/x".toList 3, .anon 5], ∀ fq s, d = .named fq s →
    dictGet [("x".toList, (3 : Int)), ("/g/y".toList, 2)] (dimKey fq) = some s := by
  intro d hd fq s e
  simp at hd
  rcases hd with rfl | rfl <;> cases e
  decide
example : dictGet [("x".toList, (3 : Int))] (dimKey "/x".toList) = some 3 := by decide
example : SDim.names [.named "/x".toList 3, .anon 5, .named "/g/y".toList 2] = ["x".toList, "/g/y".toList] := by decide

end Pydap.C11
