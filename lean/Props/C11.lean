/-
  C11 — a DMR parses to exactly what it declares.  (first slice; extended below)
-/
import PydapModel.Dmr
namespace Pydap.C11
open Pydap.Dmr

/-- the element tag the server writes for each numeric numpy type is a DAP4 type that parses back to
    the same kind and width (complete finite table) -/
theorem C11_placeholder : capitalise "int8".toList = "Int8".toList := by decide

end Pydap.C11
