/-
  C11 — a DMR parses to exactly what it declares; the server-emitted DMR round-trips.
  Property statements only; helper lemmas are in `Proofs/Dmr.lean`, `Proofs/DmrParse.lean`, `Proofs/DmrServer.lean`.
  `C11_parse` is the whole-document theorem (any group nesting, by structural induction over the spec tree);
  `C11_shape`, `C11_dim_names`, `C11_attr_typed` are its per-variable / per-attribute lemmas, kept as statements
  of their own.  `C11_addressable`: lookup by group path on the assembled tree.  `C11_server_roundtrip` is the server side.
  Specs, their independent rendering and the expected records are in `PydapModel/DmrSpec.lean`.
  Assembly of the dataset tree and `walk` are covered by `C10_decode_order` (Props/C10.lean).
-/
import PydapModel.Dmr
import Proofs.Dmr
import Proofs.DmrParse
import Proofs.DmrServer
import Proofs.DmrDemo
import Proofs.DmrLookup
import Proofs.DmrSrc
import Proofs.DmrQuote
import Proofs.DmrServerDemo
import Proofs.DmrReserved
namespace Pydap.C11
open Pydap Pydap.Dmr

/-- **Shape**: a variable element whose `Dim` children are rendered from any list of declared dimensions —
    named references and anonymous extents in any order, any number — followed by any non-`Dim` children
    (attributes, maps), gets the declared extents in document order, provided every referenced name
    resolves in the dimension table to the size the declaration means. -/
theorem C11_shape (nd : List (Str × Int)) (tag : Str) (attrs : List (Str × Str)) (text : Option Str)
    (ds : List SDim) (post : List XNode) (hp : ∀ n ∈ post, n.tag ≠ "Dim".toList)
    (h : ∀ d ∈ ds, ∀ fq s, d = .named fq s → dictGet nd (dimKey fq) = some s) :
    varShape nd (.mk tag attrs text (ds.map renderDim ++ post)) = .ok (ds.map SDim.size) := by
  simp only [varShape, XNode.findall, XNode.children]
  rw [filter_dims ds post hp]
  exact mapM_dimSize nd ds h

/-- **Dimension names**: exactly the named references, in order, whatever anonymous `Dim`s stand between -/
theorem C11_dim_names (tag : Str) (attrs : List (Str × Str)) (text : Option Str)
    (ds : List SDim) (post : List XNode) (hp : ∀ n ∈ post, n.tag ≠ "Dim".toList) :
    getDimNames (.mk tag attrs text (ds.map renderDim ++ post)) = SDim.names ds := by
  simp only [getDimNames, XNode.findall, XNode.children]
  rw [filter_dims ds post hp]
  exact filterMap_names ds

/-- **Attribute types**: every atomic attribute type is dispatched to `float()` or `int()`: it is in one of the
    three tables or it is `Byte`, which takes the `else` branch (`int()` since fix 78a1746, `ast.literal_eval` before) -/
theorem C11_attr_types :
    ∀ t ∈ atomicTypes, t ∈ floatTypes ∨ t ∈ intTypes ∨ t ∈ uintTypes ∨ t = "Byte".toList := by decide

/-- **Attributes**: an attribute of any type, written in any mix of the three value syntaxes (inline `value=`,
    `<Value>text</Value>`, `<Value value=…/>`) with any number of values, is read as its declared name and its
    declared values in order: none → `None`, one → the value, several → the list; float types keep the text for
    `float()`, every other atomic type gives the integer its decimal text denotes, all other types the string. -/
theorem C11_attr_typed (a : SAttr) (h : a.ok) :
    getAtomicAttr (renderAttr a) = .ok (some a.name, a.expected) :=
  getAtomicAttr_render a h

/-- the former finding's witness `<Attribute name="flag" type="Byte"><Value>007</Value></Attribute>` is now 7 -/
theorem C11_byte_attr_witness :
    getAtomicAttr (.mk "Attribute".toList [("name".toList, "flag".toList), ("type".toList, "Byte".toList)] none
      [.mk "Value".toList [] (some "007".toList) []]) = .ok (some "flag".toList, .one (.int 7)) := by rfl

/-- the same value under an unsigned type is the integer 7 -/
theorem C11_uint_attr_typed :
    getAtomicAttr (.mk "Attribute".toList [("name".toList, "flag".toList), ("type".toList, "UInt8".toList)] none
      [.mk "Value".toList [] (some "007".toList) []]) = .ok (some "flag".toList, .one (.int 7)) := by rfl

/-- **Whole document**: for every abstract spec — groups nested to any depth, declarations in any order
    (dimensions, variables, attributes and groups interleaved), dimensions declared at any level, the same short
    name in different groups — whose declarations are locally well formed (`Spec.ok`: names of variables and
    groups are **any non-empty byte strings without `/` that do not start with `dap4`** — blanks, brackets, `.`,
    `&`, `%`, non-ASCII (as UTF-8 bytes) included; dimension names any non-empty string without `/`; variable
    tags, attribute values matching their type, distinct attribute names per variable), whose `Dim` references
    name declared dimensions, and in which no two variables share a key (quoted group path + declared name) and
    no two dimensions a fully qualified name: parsing the independently rendered document yields exactly one
    record per declared variable, in document order, filed under its **quoted** group path (`_quote` = C12's
    `Quote.quote`, `quoteName`) and its declared name, with the declared type, the shape resolved through the
    declarations the `Dim`s name (looked up under their declared, unquoted names), the fully qualified dimension
    names, the maps and the attributes (`expectVars`). -/
theorem C11_parse (pre : List (Str × Str)) (name : Str) (s : Spec)
    (hok : s.ok) (hres : refsResolve s) (hv : distinctVars s) (hd : distinctDims s) :
    parseVars (renderRoot pre name s) = .ok (expectVars s) :=
  parseVars_render pre name s hok hres hv hd

/-- **Declared type** — what `dtype := dap4ToNumpy tag` in `expectVar` (hence in `C11_parse`) *is*, against a table
    written here from the DAP4 specification and not taken from pydap: every variable tag the parser keeps
    (`varTags`: the atomic types and `String`) has an entry, and the entry is the big-endian numpy type of the declared
    kind and width (`Byte` = unsigned 8 bit, spelled `B`; `Char` = unsigned 8 bit; `String` = pydap's fixed `|S128`).
    Complete finite table (regenerated from lib.py on every run). -/
theorem C11_type_table :
    (∀ t ∈ varTags, (dap4ToNumpy t).isSome) ∧
    ∀ d ∈ [("Int8", ">i1"), ("UInt8", ">u1"), ("Byte", "B"), ("Char", ">u1"), ("Int16", ">i2"), ("UInt16", ">u2"),
           ("Int32", ">i4"), ("UInt32", ">u4"), ("Int64", ">i8"), ("UInt64", ">u8"), ("Float32", ">f4"),
           ("Float64", ">f8"), ("String", "|S128")],
      d.1.toList ∈ varTags ∧ dap4ToNumpy d.1.toList = some d.2.toList := by decide

/-- the guard of `C11_parse` spelled out (`Spec.ok` = the property's domain `Spec.ok0` + `Spec.noReserved`): the
    `_partial` half of the pair.  The guard is slightly wider than the failing class: it also excludes an attribute
    named `path` on a *root-level* variable, which pydap keeps (example below; covered by the correspondence). -/
theorem C11_parse_partial (pre : List (Str × Str)) (name : Str) (s : Spec)
    (hok : s.ok0) (hnr : s.noReserved) (hres : refsResolve s) (hv : distinctVars s) (hd : distinctDims s) :
    parseVars (renderRoot pre name s) = .ok (expectVars s) :=
  C11_parse pre name s ((Spec.ok_iff s).mpr ⟨hok, hnr⟩) hres hv hd

/-- the spec of the witness: `<Int32 name="v"><Attribute name="Maps" type="String"><Value>x</Value></Attribute></Int32>` -/
private def mapsWitness : Spec :=
  .var ⟨"Int32".toList, "v".toList, [], [⟨"Maps".toList, "String".toList, none, [(true, .str "x".toList)]⟩], []⟩ .nil

/-- … and in a group, an attribute named `path` -/
private def pathWitness (inGroup : Bool) : Spec :=
  let v : Spec := .var ⟨"Int32".toList, "v".toList, [],
    [⟨"path".toList, "String".toList, none, [(true, .str "x".toList)]⟩], []⟩ .nil
  if inGroup then .group "g".toList v .nil else v

private theorem strAttr_ok (n : Str) : SAttr.ok ⟨n, "String".toList, none, [(true, .str "x".toList)]⟩ := by
  refine Or.inr (Or.inr ⟨by show "String".toList ∉ atomicTypes; decide, ?_⟩)
  intro v hv
  simp only [SAttr.all, Option.toList, List.map, List.nil_append, List.mem_cons, List.not_mem_nil, or_false] at hv
  exact ⟨_, hv⟩

/-- **The unguarded statement is false** (open finding `C11.reserved_attribute_name`): on the property's own domain
    (`Spec.ok0`: attribute names unrestricted) parsing does *not* always return the declared records — pydap keeps
    its own `Maps` entry (and, for members of groups, `path`) in the attributes dict of a variable, so a declared
    attribute of that name is overwritten.  Witness: a root `Int32 v` with a String attribute `Maps = "x"`; the
    parsed record has no attribute `Maps` with the value `x`. -/
theorem C11_parse_refuted :
    ¬ ∀ (pre : List (Str × Str)) (name : Str) (s : Spec), s.ok0 → refsResolve s → distinctVars s → distinctDims s →
        parseVars (renderRoot pre name s) = .ok (expectVars s) := by
  intro h
  have hok : mapsWitness.ok0 :=
    ⟨⟨by decide, ⟨by decide, by decide, by decide, by decide⟩,
      by intro a ha; simp only [List.mem_cons, List.not_mem_nil, or_false] at ha; subst ha; exact strAttr_ok _,
      by simp⟩, trivial⟩
  have hres : refsResolve mapsWitness := by
    intro pv hpv fq sz hm
    simp only [mapsWitness, specVars, List.mem_cons, List.not_mem_nil, or_false] at hpv
    subst hpv
    simp at hm
  have := h [] "d".toList mapsWitness hok hres (by unfold distinctVars; decide) (by unfold distinctDims; decide)
  let f : Except Err (List VarRec) → List (List (Str × AttrVal)) := fun r =>
    match r with | .ok l => l.map VarRec.attrs | .error _ => []
  have h2 : f (parseVars (renderRoot [] "d".toList mapsWitness)) = f (.ok (expectVars mapsWitness)) := congrArg f this
  have e1 : f (parseVars (renderRoot [] "d".toList mapsWitness)) = [[]] := by rfl
  have e2 : f (.ok (expectVars mapsWitness)) = [[("Maps".toList, .one (.str "x".toList))]] := by rfl
  exact absurd (e1.symm.trans (h2.trans e2)) (by decide)

-- what the parser returns for the two witnesses: the declared attribute is gone
example : (parseVars (renderRoot [] "d".toList mapsWitness)).map (·.map (·.attrs)) = .ok [[]] := by rfl
example : (parseVars (renderRoot [] "d".toList (pathWitness true))).map (·.map fun r => (r.path, r.attrs))
    = .ok [(some "/g".toList, [])] := by rfl
-- … while a root-level variable keeps an attribute named `path` (inside the guard of `C11_parse`, outside the class)
example : (parseVars (renderRoot [] "d".toList (pathWitness false))).map (·.map fun r => (r.path, r.attrs))
    = .ok [(none, [("path".toList, .one (.str "x".toList))])] := by rfl
example : parseVars (renderRoot [] "d".toList (pathWitness false)) = .ok (expectVars (pathWitness false)) := by rfl

/-- the parser's `_quote` is C12's model; on the names of the domain it is the bytewise map `qn` (C12's `encB`
    per byte), which keeps `/`, never produces one, and is idempotent (`C12_quote_idempotent`) -/
theorem C11_quote_is_C12 (n : Str) :
    quoteName n = ofQ (Pydap.Quote.quote (toQ n)) ∧ quoteName (quoteName n) = quoteName n ∧
    (goodName n → quoteName n = qn n ∧ quoteName n ≠ [] ∧ '/' ∉ quoteName n) :=
  ⟨rfl, quoteName_idem n, fun h => ⟨goodName_quote h, (goodName_qseg h).1.1, (goodName_qseg h).1.2⟩⟩

/-- numpy kind, `str(dtype)` and the parser's dtype string for the ten numeric types -/
def numericDtypes : List (Char × String × String) :=
  [('i', "int8", ">i1"), ('u', "uint8", ">u1"), ('i', "int16", ">i2"), ('u', "uint16", ">u2"),
   ('i', "int32", ">i4"), ('u', "uint32", ">u4"), ('i', "int64", ">i8"), ('u', "uint64", ">u8"),
   ('f', "float32", ">f4"), ('f', "float64", ">f8")]

/-- **Server round trip, types**: the tag the server writes for each numeric type is one the parser keeps
    as a variable and maps back to the same kind and width -/
theorem C11_server_types :
    ∀ d ∈ numericDtypes, dmrTypeTag d.1 d.2.1.toList ∈ varTags ∧
      dap4ToNumpy (dmrTypeTag d.1 d.2.1.toList) = some d.2.2.toList := by decide

/-- **Addressable by group path**: on the dataset `dmr_to_dataset` assembles from the document (groups created
    first in `get_groups` order under `_quote(fqname)`, then the variables stored under `_quote(key)`) every
    declared variable is found by following its stored path (`nodePath`: quoted group names, quoted name), and
    what is found is that variable's record — same short names in different groups, variables declared before,
    between or after sibling groups, names that quoting changes included.  Distinctness is on *stored* paths
    (`distinctNodes`): `a.b` and `a%2Eb` in one group are the same stored name. -/
theorem C11_addressable (pre : List (Str × Str)) (name : Str) (s : Spec)
    (hok : s.ok) (hres : refsResolve s) (hn : distinctNodes s) (hd : distinctDims s) :
    ∃ t, datasetTree (renderRoot pre name s) = .ok t ∧
      ∀ pv ∈ specVars [] s, Forest.findVar (nodePath pv) t = some (expectVar pv.1 pv.2) :=
  datasetTree_find pre name s hok hres hn hd

/-- **… under the declared names and under the stored names**: `dataset["/p₁/…/pₖ"]` (`getitemPath`, the model of
    `DatasetType._getitem_string` since fix 3e19517: every component is looked up under its quoted name) returns
    the variable for *every* spelling `p₁ … pₖ` of its path whose components quote to the stored ones — the names
    as the DMR declares them (`/g h/a.b`), the names as stored (`/g%20h/a%2Eb`, by idempotence), or any mix. -/
theorem C11_addressable_any_spelling (pre : List (Str × Str)) (name : Str) (s : Spec)
    (hok : s.ok) (hres : refsResolve s) (hn : distinctNodes s) (hd : distinctDims s) :
    ∃ t, datasetTree (renderRoot pre name s) = .ok t ∧
      ∀ pv ∈ specVars [] s, ∀ parts : List Str, (∀ q ∈ parts, segName q) → parts.map quoteName = nodePath pv →
        getitemPath (pathStr parts) t = some (expectVar pv.1 pv.2) := by
  obtain ⟨t, ht, hf⟩ := C11_addressable pre name s hok hres hn hd
  refine ⟨t, ht, ?_⟩
  intro pv hpv parts hs hq
  rw [getitemPath_parts parts hs, hq]
  exact hf pv hpv

/-- the stored spelling is one of them -/
theorem C11_addressable_stored (pre : List (Str × Str)) (name : Str) (s : Spec)
    (hok : s.ok) (hres : refsResolve s) (hn : distinctNodes s) (hd : distinctDims s) :
    ∃ t, datasetTree (renderRoot pre name s) = .ok t ∧
      ∀ pv ∈ specVars [] s, getitemPath (pathStr (nodePath pv)) t = some (expectVar pv.1 pv.2) := by
  obtain ⟨t, ht, hf⟩ := C11_addressable_any_spelling pre name s hok hres hn hd
  refine ⟨t, ht, ?_⟩
  intro pv hpv
  obtain ⟨h1, h2, _⟩ := specVars_mem s hok [] hnilq pv hpv
  apply hf pv hpv
  · intro q hq
    simp only [nodePath, List.mem_append, List.mem_singleton] at hq
    rcases hq with m | rfl
    · exact (h1 q m).1
    · exact (goodName_qseg h2.2.1).1
  · simp only [nodePath, List.map_append, List.map_cons, List.map_nil, quoteName_idem]
    congr 1
    conv => rhs; rw [← List.map_id pv.1]
    apply List.map_congr_left
    intro q hq
    exact (h1 q hq).2.2.2

/-- the parser's dtype string a served variable must come back with (the ten numeric types) -/
def srvDtypeOf (kind : Char) (dtypeName : Str) : Str :=
  match numericDtypes.find? (fun d => d.1 == kind && d.2.1.toList == dtypeName) with
  | some d => d.2.2.toList
  | none => []

def srvDtype (v : SrvVar) : Str := srvDtypeOf v.kind v.dtypeName

theorem C11_server_dtype_table : ∀ d ∈ numericDtypes, srvDtypeOf d.1 d.2.1.toList = d.2.2.toList := by decide

/-- a served attribute whose values are of one kind (all integers — Python ints, numpy integers of any width —, all
    floats, or all text) is written as a well-formed declaration: its `type` is a DAP4 type of that kind
    (`_attribute_type`, fix 02bf132) and every integer's `str()` is a decimal text `int()` reads back -/
theorem C11_server_attr_ok (a : SrvAttr) (h : a.homog) : (srvAttrSpec a).ok := srvAttr_ok a h

/-- **Server round trip**: for every served dataset — groups nested to any depth, each with its own dimensions,
    variables of the ten numeric types anywhere, variables and groups in any `children()` order, **every variable
    with any attributes and any Maps** — whose names are `goodName`s (groups, variables) / free of `/` (dimensions),
    whose `var.dims` name declared dimensions of the extents of its data, whose attributes are well-formed
    (`C11_server_attr_ok`: values of one kind; distinct names — they are dict keys) and whose fully qualified names
    are distinct: parsing the DMR the server writes yields exactly the served variables, keyed by group path, each
    with its own kind and width, its dimension names, the shape of its data, **its Maps, and its attributes under
    their names with their values** (integers as integers, floats through `float(str(value))`, text as text; one
    value comes back as a scalar, several as a list: `srvExpect`). -/
theorem C11_server_roundtrip (name : Str) (dims : List (Str × Nat)) (kids : SrvTree)
    (hty : ∀ pv ∈ srvVars [] kids, ∃ d ∈ numericDtypes, pv.2.kind = d.1 ∧ pv.2.dtypeName = d.2.1.toList)
    (hok : (dimsSpec dims (srvSpec kids)).ok) (hres : refsResolve (dimsSpec dims (srvSpec kids)))
    (hv : distinctVars (dimsSpec dims (srvSpec kids))) (hd : distinctDims (dimsSpec dims (srvSpec kids))) :
    parseVars (renderServer name dims kids) = .ok ((srvVars [] kids).map fun pv => srvExpect (srvDtype pv.2) pv.1 pv.2) := by
  rw [parseVars_server name dims kids hok hres hv hd]
  congr 1
  apply List.map_congr_left
  intro pv hpv
  obtain ⟨d, hd', hk, hn⟩ := hty pv hpv
  have h1 := (C11_server_types d hd').2
  have h2 := C11_server_dtype_table d hd'
  have e : srvDtype pv.2 = d.2.2.toList := by
    rw [← h2]; simp only [srvDtype, hk, hn]
  rw [e, hk, hn, h1]; rfl

/-! ### non-vacuity -/

example : (srvVars [] srvDemo).map (fun pv => srvExpect (srvDtype pv.2) pv.1 pv.2) =
    [⟨"x".toList, "x".toList, none, ">i2".toList, ["/x".toList], [2], [some "/x".toList, some "/x".toList],
      [("rng".toList, .many [.int (-1), .int 2]), ("flag".toList, .one (.int 200)),
       ("scale".toList, .one (.float "1.5".toList)), ("t".toList, .one (.str "a<b&c".toList))]⟩] := by decide
example : parseVars (renderServer "d".toList [("x".toList, 2)] srvDemo)
    = .ok ((srvVars [] srvDemo).map fun pv => srvExpect (srvDtype pv.2) pv.1 pv.2) :=
  C11_server_roundtrip _ _ _
    (by intro pv hpv; simp [srvVars, srvDemo] at hpv; subst hpv; exact ⟨('i', "int16", ">i2"), by decide, rfl, rfl⟩)
    srvDemo_ok
    (by
      intro pv hpv fq sz hm
      simp only [srvDemo, srvSpec, dimsSpec, specVars, List.mem_singleton] at hpv
      subst hpv
      simp only [srvVarSpec, List.map_cons, List.map_nil, List.mem_singleton, SDim.named.injEq] at hm
      obtain ⟨rfl, rfl⟩ := hm
      exact ⟨([], "x".toList, 2), by simp [dimsSpec, srvSpec, srvDemo, declDims], by decide, rfl⟩)
    (by unfold distinctVars; decide) (by unfold distinctDims; decide)
example : SrvAttr.homog ⟨"rng".toList, [.int false 3 (-1), .int false 3 2]⟩ :=
  Or.inl (by intro v hv; simp at hv; rcases hv with rfl | rfl <;> exact ⟨_, _, _, rfl⟩)


example : ∀ d ∈ [SDim.named "/x".toList 3, .anon 5], ∀ fq s, d = .named fq s →
    dictGet [("x".toList, (3 : Int)), ("/g/y".toList, 2)] (dimKey fq) = some s := by
  intro d hd fq s e
  simp at hd
  rcases hd with rfl | rfl <;> cases e
  decide
example : dictGet [("x".toList, (3 : Int))] (dimKey "/x".toList) = some 3 := by decide
example : SDim.names [.named "/x".toList 3, .anon 5, .named "/g/y".toList 2] = ["x".toList, "/g/y".toList] := by decide

example : parseVars (renderRoot [] "ds".toList demo) = .ok (expectVars demo) :=
  C11_parse [] _ demo demo_ok demo_refs (by unfold distinctVars; decide) (by unfold distinctDims; decide)
example : distinctNodes demo := by unfold distinctNodes; decide
-- names that quoting changes
example : parseVars (renderRoot [] "ds".toList qdemo) = .ok (expectVars qdemo) :=
  C11_parse [] _ qdemo qdemo_ok qdemo_refs (by unfold distinctVars; decide) (by unfold distinctDims; decide)
example : distinctNodes qdemo := by unfold distinctNodes; decide
example : (specVars [] qdemo).map nodePath
    = [["t%5B0%5D".toList], ["g%20h".toList, "a%2Eb".toList], ["%C3%A9".toList]] := by decide
/-- the declared spelling `/g h/a.b` of the second variable of `qdemo` quotes to its stored path -/
example : ["g h".toList, "a.b".toList].map quoteName = ["g%20h".toList, "a%2Eb".toList] := by decide
example : distinctVars demo ∧ distinctDims demo := by
  constructor
  · unfold distinctVars; decide
  · unfold distinctDims; decide

/-! ## the tie by translation: the *source text* of `_dim_key`, `get_dim_names`, `get_dim_sizes`

`Pydap.Gen.src_dim_key`, `src_get_dim_names`, `src_get_dim_sizes` (PydapModel/Generated/DmrSrc.lean) are the MiniPy
syntax trees of the three functions of parsers/dmr.py, regenerated on every run by `harness/py2lean.py`.  The `for`
loops are MiniPy `forIn` statements; `element.findall("Dim")` is the input (each element as its attribute dict,
`elemOf`), `named_dimensions` the dict built by the insertion log (`ndVal`); `_dim_key(name)` is inlined. -/

open MiniPy in
/-- **`_dim_key`** is the model's `dimKey`, for every name: `find("/", 1) == -1` is `noSlashAfterFirst`,
    `replace("/", "")` removes every slash -/
theorem C11_source_dim_key (name : Str) :
    runItem [("name", .str (codesOf name))] Gen.src_dim_key "@ret" = .ok (.str (codesOf (dimKey name))) :=
  src_dim_key_eq name

open MiniPy in
/-- **`get_dim_names`** is the model's `getDimNames`, for every element and any number of `Dim` children: the
    interpreted loop skips the anonymous ones (`continue`) and appends `_dim_key(name)` for the others, in order -/
theorem C11_source_dim_names (e : XNode) :
    runItem [("dimension_elements", .elems ((e.findall "Dim".toList).map elemOf))] Gen.src_get_dim_names "@ret"
      = .ok (mkS ((getDimNames e).map codesOf)) :=
  src_get_dim_names_eq e

open MiniPy in
/-- **`get_dim_sizes`** (called with a dimension table) is the model's `varShape`, for every table, every element and
    any number of `Dim` children whose anonymous sizes are digit runs: the same extents in document order, or the same
    exception (`int(None)`: TypeError; a name missing from the table: KeyError) raised at the same element.
    (`named_dimensions=None`, where named `Dim`s are skipped, has no counterpart in the model and is not covered;
    signed / blank-padded size texts are outside MiniPy's `int()`.) -/
theorem C11_source_dim_sizes (nd : List (Str × Int)) (e : XNode) (hs : sizesPlain (e.findall "Dim".toList)) :
    runItem [("dimension_elements", .elems ((e.findall "Dim".toList).map elemOf)), ("named_dimensions", ndVal nd)]
      Gen.src_get_dim_sizes "@ret"
      = (match varShape nd e with | .ok l => .ok (.ilist l) | .error er => .error (errOf er)) :=
  src_get_dim_sizes_eq nd e hs

-- non-vacuity: <Dim name="/x"/><Dim size="5"/><Dim name="/g/y"/> gives ["x", "/g/y"] and (3, 5, 2); a missing
-- dimension raises KeyError, an anonymous Dim without size TypeError
def exVar : XNode := .mk "Int32".toList [("name".toList, "v".toList)] none
  [.mk "Dim".toList [("name".toList, "/x".toList)] none [], .mk "Dim".toList [("size".toList, "5".toList)] none [],
   .mk "Attribute".toList [] none [], .mk "Dim".toList [("name".toList, "/g/y".toList)] none []]
def exNd : List (Str × Int) := [("x".toList, 7), ("/g/y".toList, 2), ("x".toList, 3)]
open MiniPy in
example : runItem [("dimension_elements", .elems ((exVar.findall "Dim".toList).map elemOf))] Gen.src_get_dim_names "@ret"
    = .ok (.slist [[120], [47, 103, 47, 121]]) := by rfl
open MiniPy in
example : runItem [("dimension_elements", .elems ((exVar.findall "Dim".toList).map elemOf)), ("named_dimensions", ndVal exNd)]
    Gen.src_get_dim_sizes "@ret" = .ok (.ilist [3, 5, 2]) ∧ varShape exNd exVar = .ok [3, 5, 2] := ⟨by rfl, by rfl⟩
example : sizesPlain (exVar.findall "Dim".toList) := by
  intro d hd hn t ht
  simp [exVar, XNode.findall, XNode.children, XNode.tag] at hd
  rcases hd with rfl | rfl | rfl <;> simp [XNode.get, XNode.attrs] at hn ht
  subst ht; decide
open MiniPy in
example : runItem [("dimension_elements", .elems ((exVar.findall "Dim".toList).map elemOf)), ("named_dimensions", ndVal [])]
    Gen.src_get_dim_sizes "@ret" = .error .keyError := by rfl
open MiniPy in
example : runItem [("dimension_elements", .elems [[]]), ("named_dimensions", ndVal [])]
    Gen.src_get_dim_sizes "@ret" = .error .typeError := by rfl
open MiniPy in
example : runItem [("name", .str (codesOf "/g/y".toList))] Gen.src_dim_key "@ret" = .ok (.str (codesOf "/g/y".toList)) ∧
    runItem [("name", .str (codesOf "/x".toList))] Gen.src_dim_key "@ret" = .ok (.str (codesOf "x".toList)) := ⟨by rfl, by rfl⟩

end Pydap.C11
