/-
  C10 — DAP4 responses decode to the served values for any chunking and byte order.
  Property statements only; helper lemmas are in `Proofs/Dap4.lean`.
  Host byte order: the theorems are for a little-endian host (`hostLittle = true`), the only kind this
  sandbox has; `C10_host_order_matters` records what the string trick does on a big-endian host.
-/
import PydapModel.Dap4
import Proofs.Dap4
namespace Pydap.C10
open Pydap.Dap4

/-- the chunk-type field written by a conforming sender is read back flag for flag -/
theorem C10_chunktype (last error little : Bool) :
    decodeChunkType true (flagsByte last error little) = ⟨last, error, little⟩ :=
  decode_flagsByte last error little

/-- for every value of the 8-bit field the string trick reads bits 0, 1, 2 (unknown high bits ignored) -/
theorem C10_chunktype_bits (t : Nat) (h : t < 256) :
    decodeChunkType true t = ⟨t % 2 == 1, t / 2 % 2 == 1, t / 4 % 2 == 1⟩ :=
  decodeChunkType_little t h

/-- on a big-endian host the un-reversed string makes the `last` flag read as "little-endian data" -/
theorem C10_host_order_matters :
    decodeChunkType false (flagsByte true false false) = ⟨false, false, true⟩ := by decide

/-- **Chunk reassembly**: for every payload and every partition of it into chunks of fewer than 2^24
    bytes (empty chunks allowed, any number of chunks, either byte-order flag), with the `last` flag on
    the final chunk, `stream2bytearray` returns the payload; bytes after the final chunk are ignored. -/
theorem C10_dechunk (little : Bool) (payload : Bytes) (chunks : List Bytes) (junk : Bytes)
    (hpart : chunks.flatten = payload) (hsize : ∀ c ∈ chunks, c.length < 2 ^ 24)
    (hjunk : chunks = [] → junk = []) :
    stream2bytearray true (chunkEncode little chunks ++ junk) = .ok payload := by
  rw [← hpart]
  exact stream2bytearray_encode little chunks hsize junk hjunk

/-- **Byte order**: an item of any width `w` (1, 2, 4, 8 in DAP4) written in either byte order and
    read with the same flag is the value written -/
theorem C10_endianness (little : Bool) (w v : Nat) (h : v < 256 ^ w) :
    decodeItem little (encodeItem little w v) = v := by
  rw [decode_encodeItem]; exact Nat.mod_eq_of_lt h

/-- the flag is not decorative: with the wrong flag a two-byte 1 reads as 256 -/
theorem C10_endianness_flag_used :
    decodeItem false (encodeItem true 2 1) = 256 ∧ decodeItem true (encodeItem false 2 1) = 256 := by decide

/-- **Sequential layout**: variables serialised back to back, each followed by its checksum word, decode
    to exactly the values sent, for any number of variables, element counts and item sizes -/
theorem C10_decode_layout (little : Bool) (ss : List Sent) (h : ∀ s ∈ ss, SentOk s) :
    unpackVars little (ss.map Sent.layout) (serialise little ss)
      = .ok (ss.map fun s => ⟨s.values, some (swapped little s.checksum)⟩) :=
  unpackVars_serialise little ss h

/-- **Whole response**: DMR chunk + any chunking of the serialised variables, either byte order: the
    client recovers the DMR text, the byte order and every value, provided the variables are visited in
    the order they were serialised (`layoutsOf dmr`; see `C10_decode_order` for that order). -/
theorem C10_response (little : Bool) (layoutsOf : Bytes → Except Err (List Layout))
    (dmr : Bytes) (ss : List Sent) (chunks : List Bytes)
    (hd : dmr.length < 2 ^ 24) (hl : layoutsOf dmr = .ok (ss.map Sent.layout))
    (hs : ∀ s ∈ ss, SentOk s) (hc : ∀ c ∈ chunks, c.length < 2 ^ 24)
    (hp : chunks.flatten = serialise little ss) :
    unpackResponse true layoutsOf (encodeResponse little dmr chunks)
      = .ok (dmr, little, ss.map fun s => ⟨s.values, some (swapped little s.checksum)⟩) :=
  unpackResponse_encode little layoutsOf dmr ss chunks hd hl hs hc hp

/-! ### non-vacuity -/

example : stream2bytearray true (chunkEncode true [[1, 2], [], [3]]) = .ok [1, 2, 3] := by rfl
example : chunkEncode false [[1, 2], [3]] = [0, 0, 0, 2, 1, 2, 1, 0, 0, 1, 3] := by decide
example : SentOk ⟨2, [1, 65535], 7⟩ := ⟨by decide, by decide⟩
example : unpackVars false [⟨2, 2⟩] (serialise false [⟨2, [1, 65535], 7⟩])
    = .ok [⟨[1, 65535], some 117440512⟩] := by rfl
example : serialise true [⟨2, [1, 65535], 7⟩] = [1, 0, 255, 255, 7, 0, 0, 0] := by decide

end Pydap.C10
