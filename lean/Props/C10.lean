/-
  C10 — DAP4 responses decode to the served values for any chunking and byte order.
  Property statements only; helper lemmas are in `Proofs/Dap4.lean`.
  Host byte order: the theorems are for a little-endian host (`hostLittle = true`), the only kind this
  sandbox has; `C10_host_order_matters` records what the string trick does on a big-endian host.
-/
import PydapModel.Dap4
import Proofs.Dap4
import Proofs.Dap4Cut
import Proofs.DmrOrder
import Proofs.Dap4Index
import Proofs.SliceTuple
import Proofs.Hyperslab
import Props.C03
import Proofs.DmrDemo
import Proofs.DapSrc
import Proofs.Dap4E2E
import Proofs.Dap4E2EDemo
namespace Pydap.C10
open Pydap Pydap.Dap4 Pydap.Dmr Pydap.Dap4Index Pydap.E2E

/-- the chunk-type field written by a conforming sender is read back flag for flag -/
theorem C10_chunktype (last error little : Bool) :
    decodeChunkType true (flagsByte last error little) = ⟨last, error, little⟩ :=
  decode_flagsByte last error little

/-- for every value of the 8-bit field the string trick reads bits 0, 1, 2 (unknown high bits ignored) -/
theorem C10_chunktype_bits (t : Nat) (h : t < 256) :
    decodeChunkType true t = ⟨t % 2 == 1, t / 2 % 2 == 1, t / 4 % 2 == 1⟩ :=
  decodeChunkType_little t h

/-- on a big-endian host the un-reversed string makes the `last` flag read as "little-endian data" -/
theorem C10_host_order_matters :
    decodeChunkType false (flagsByte true false false) = ⟨false, false, true⟩ := by decide

/-- **Chunk reassembly**: for every payload and every partition of it into chunks of fewer than 2^24
    bytes (empty chunks allowed, at least one chunk, either byte-order flag), with the `last` flag on
    the final chunk, `stream2bytearray` returns the payload; bytes after the final chunk are ignored. -/
theorem C10_dechunk (little : Bool) (payload : Bytes) (chunks : List Bytes) (junk : Bytes)
    (hpart : chunks.flatten = payload) (hsize : ∀ c ∈ chunks, c.length < 2 ^ 24)
    (hne : chunks ≠ []) :
    stream2bytearray true (chunkEncode little chunks ++ junk) = .ok payload := by
  rw [← hpart]
  exact stream2bytearray_encode little chunks hsize junk hne

/-- **Cut streams are refused** (since fix 72d8e7c), in general: for every partition of a payload into chunks of
    fewer than 2^24 bytes (at least one chunk, empty chunks allowed, either byte-order flag) *every proper prefix* of
    the chunked stream — cut inside a chunk header, inside a chunk body, at a chunk boundary before the chunk flagged
    `last`, or before the first byte — raises `EOFError`; nothing shorter than the whole stream decodes.
    (Until round 7 this name stood for four sample streams; they are the `example`s below.) -/
theorem C10_truncated_refused (little : Bool) (chunks : List Bytes) (hsize : ∀ c ∈ chunks, c.length < 2 ^ 24)
    (hne : chunks ≠ []) (p : Bytes) (hp : p <+: chunkEncode little chunks) (hcut : p ≠ chunkEncode little chunks) :
    stream2bytearray true p = .error .eofError :=
  stream2bytearray_cut little chunks hsize hne p hp hcut

/-- … and **every stream `stream2bytearray` accepts is prefix-free**, conforming or not (unknown flag bits, bytes
    after the last chunk, either host order): on a prefix of it the function returns the same buffer or raises
    `EOFError` — never a shorter or different buffer.  (`EOFError` is the only exception the loop raises.) -/
theorem C10_dechunk_prefix_free (hostLittle : Bool) (b p buf : Bytes)
    (h : stream2bytearray hostLittle b = .ok buf) (hp : p <+: b) :
    stream2bytearray hostLittle p = .ok buf ∨ stream2bytearray hostLittle p = .error .eofError :=
  stream2bytearray_prefix_free hostLittle b p buf h hp

/-- **A cut response is refused**: every proper prefix of a whole response (DMR chunk + data chunks; the DMR one the
    parser accepts) — cut inside the first header, inside the DMR, inside a data chunk header or body, at a chunk
    boundary — makes `UNPACKDAP4DATA` raise `EOFError`; no variable is decoded from it.  Together with
    `C10_response` / `C10_response_document_order`: a response decodes to all the values sent or not at all. -/
theorem C10_response_cut_refused (little : Bool) (layoutsOf : Bytes → Except Dap4.Err (List Layout))
    (ls : List Layout) (dmr : Bytes) (chunks : List Bytes)
    (hd : dmr.length < 2 ^ 24) (hl : layoutsOf dmr = .ok ls)
    (hc : ∀ c ∈ chunks, c.length < 2 ^ 24) (hne : chunks ≠ []) (p : Bytes)
    (hp : p <+: encodeResponse little dmr chunks) (hcut : p ≠ encodeResponse little dmr chunks) :
    unpackResponse true layoutsOf p = .error .eofError :=
  unpackResponse_cut little layoutsOf ls dmr chunks hd hl hc hne p hp hcut

-- no data at all, a header cut short, a body cut short, no chunk flagged `last`
set_option maxRecDepth 100000 in
example : stream2bytearray true [] = .error .eofError
    ∧ stream2bytearray true [4, 0, 0] = .error .eofError
    ∧ stream2bytearray true [5, 0, 0, 2, 7] = .error .eofError
    ∧ stream2bytearray true [4, 0, 0, 1, 7] = .error .eofError := ⟨rfl, rfl, rfl, rfl⟩
-- the hypotheses are satisfiable: [4,0,0,1,7] is a proper prefix of the stream of the chunks [[7],[8]]
example : ([4, 0, 0, 1, 7] : Bytes) <+: chunkEncode true [[7], [8]] ∧ [4, 0, 0, 1, 7] ≠ chunkEncode true [[7], [8]] :=
  ⟨⟨[5, 0, 0, 1, 8], by decide⟩, by decide⟩
example : stream2bytearray true (chunkEncode true [[7], [8]]) = .ok [7, 8] := by decide
-- a non-conforming stream (junk after the last chunk) that is accepted, and a prefix of it that still is
example : stream2bytearray true [5, 0, 0, 1, 7, 9, 9] = .ok [7] ∧ stream2bytearray true [5, 0, 0, 1, 7, 9] = .ok [7] :=
  ⟨by decide, by decide⟩

/-- **Byte order**: an item of any width `w` (1, 2, 4, 8 in DAP4) written in either byte order and
    read with the same flag is the value written -/
theorem C10_endianness (little : Bool) (w v : Nat) (h : v < 256 ^ w) :
    decodeItem little (encodeItem little w v) = v := by
  rw [decode_encodeItem]; exact Nat.mod_eq_of_lt h

/-- the flag is not decorative: with the wrong flag a two-byte 1 reads as 256 -/
theorem C10_endianness_flag_used :
    decodeItem false (encodeItem true 2 1) = 256 ∧ decodeItem true (encodeItem false 2 1) = 256 := by decide

/-- **Sequential layout**: variables serialised back to back, each followed by its checksum word, decode
    to exactly the values sent, for any number of variables, element counts and item sizes -/
theorem C10_decode_layout (little : Bool) (ss : List Sent) (h : ∀ s ∈ ss, SentOk s) :
    unpackVars little (ss.map Sent.layout) (serialise little ss)
      = .ok (ss.map fun s => ⟨s.values, some (swapped little s.checksum)⟩) :=
  unpackVars_serialise little ss h

/-- **Whole response**: DMR chunk + any chunking of the serialised variables, either byte order: the
    client recovers the DMR text, the byte order and every value, provided the variables are visited in
    the order they were serialised (`layoutsOf dmr`; `C10_decode_order` proves that order,
    `C10_response_document_order` composes the two). -/
theorem C10_response (little : Bool) (layoutsOf : Bytes → Except Dap4.Err (List Layout))
    (dmr : Bytes) (ss : List Sent) (chunks : List Bytes)
    (hd : dmr.length < 2 ^ 24) (hl : layoutsOf dmr = .ok (ss.map Sent.layout))
    (hs : ∀ s ∈ ss, SentOk s) (hc : ∀ c ∈ chunks, c.length < 2 ^ 24) (hne : chunks ≠ [])
    (hp : chunks.flatten = serialise little ss) :
    unpackResponse true layoutsOf (encodeResponse little dmr chunks)
      = .ok (dmr, little, ss.map fun s => ⟨s.values, some (swapped little s.checksum)⟩) :=
  unpackResponse_encode little layoutsOf dmr ss chunks hd hl hs hc hne hp

/-- **Decode order = document order**: for every abstract DMR spec — groups nested to any depth, variables and
    groups interleaved in any order (a variable declared after a sibling group included), names of variables and
    groups any non-empty byte strings without `/` not starting with `dap4` (names that `_quote` changes included:
    the `order` table is keyed by `_quote(key)`, the walked variables by their stored names) — that is locally
    well formed, whose `Dim` references resolve, and in which no two declarations (groups, variables: stored,
    i.e. quoted, full paths; dimensions) share a full path: the order in which `unpack_dap4_data` consumes the variables (`walk` order of the dataset tree
    assembled by `dmr_to_dataset`, groups created first, re-sorted by position in `get_variables`) is exactly
    the order in which the document declares them, and the variables met are exactly the declared ones with
    their declared types and shapes (`expectVars`, the right-hand side of `C11_parse`). -/
theorem C10_decode_order (pre : List (Str × Str)) (name : Str) (s : Spec)
    (hok : s.ok) (hres : refsResolve s) (hn : distinctNodes s) (hd : distinctDims s) :
    decodeOrder (renderRoot pre name s) = .ok (expectVars s) :=
  decodeOrder_render pre name s hok hres hn hd

/-- the dataset tree loses and duplicates nothing: `walk` meets every declared variable exactly once
    (in another order: the members of a group come before the variables declared ahead of it) -/
theorem C10_walk_complete (pre : List (Str × Str)) (name : Str) (s : Spec)
    (hok : s.ok) (hres : refsResolve s) (hn : distinctNodes s) (hd : distinctDims s) :
    ∃ ws, datasetWalk (renderRoot pre name s) = .ok ws ∧ ws.Perm (expectVars s) :=
  datasetWalk_perm pre name s hok hres hn hd

/-- … and the re-sorting is needed: with a variable declared ahead of a group, `walk` order is not document order -/
theorem C10_walk_is_not_document_order :
    (datasetWalk (renderRoot [] "d".toList
      (.var ⟨"Int8".toList, "a".toList, [], [], []⟩ (.group "g".toList (.var ⟨"Int8".toList, "b".toList, [], [], []⟩ .nil) .nil)))).map
        (·.map (·.key)) = .ok ["/g/b".toList, "a".toList] := by rfl

/-- `get_count` / `decode_variable` need the element count and the item size of a parsed variable -/
def recLayout (itemsize : VarRec → Nat) (r : VarRec) : Layout :=
  ⟨r.shape.foldl (fun a n => a * n.toNat) 1, itemsize r⟩

/-- **Whole response, order included**: the DMR chunk of a response declares `s` (ElementTree, `tree`, is
    trusted for text → element tree); the sender serialised one item list per declared variable, in document order
    (`ss` matches `expectVars s` in count and item size). Then for any chunking and either byte order the client
    recovers every variable's values — each value list is cut from the offset its declaration implies. -/
theorem C10_response_document_order (little : Bool) (tree : Bytes → XNode) (itemsize : VarRec → Nat)
    (dmr : Bytes) (pre : List (Str × Str)) (name : Str) (s : Spec) (ss : List Sent) (chunks : List Bytes)
    (htree : tree dmr = renderRoot pre name s)
    (hok : s.ok) (hres : refsResolve s) (hn : distinctNodes s) (hdims : distinctDims s)
    (hss : ss.map Sent.layout = (expectVars s).map (recLayout itemsize))
    (hd : dmr.length < 2 ^ 24) (hs : ∀ x ∈ ss, SentOk x) (hc : ∀ c ∈ chunks, c.length < 2 ^ 24)
    (hne : chunks ≠ []) (hp : chunks.flatten = serialise little ss) :
    unpackResponse true
        (fun b => match decodeOrder (tree b) with
          | .ok rs => .ok (rs.map (recLayout itemsize))
          | .error _ => .error .keyError)
        (encodeResponse little dmr chunks)
      = .ok (dmr, little, ss.map fun x => ⟨x.values, some (swapped little x.checksum)⟩) := by
  apply C10_response little _ dmr ss chunks hd _ hs hc hne hp
  simp only [htree, C10_decode_order pre name s hok hres hn hdims, hss]

/-! ### indexing: the request `BaseProxyDap4.__getitem__` builds -/

/-- **Index → per-axis slices**: for an index without Ellipsis of at most `rank` entries the request carries, axis
    by axis, numpy's expansion of the index (missing axes = whole axis), normalised by `fix_slice` and composed
    with the proxy's default slice -/
theorem C10_index_slices (idx : List Idx) (shape : List Nat) (h : NoEll idx) (hl : idx.length ≤ shape.length) :
    proxy4Slices shape idx
      = List.zipWith (fun (N : Nat) e => combine1 PSlice.all (toSlice (fixAxis N e))) shape
          (npExpand idx none shape.length) := by
  unfold proxy4Slices
  rw [fixSlice_noEll idx shape h hl]
  exact Dap4Index.combine_zipFix _ shape (npExpand_length_none idx _ hl)

/-- … and with one Ellipsis: the entries after it address the last axes -/
theorem C10_index_slices_ellipsis (pre post : List Idx) (shape : List Nat) (h1 : NoEll pre) (h2 : NoEll post)
    (hl : pre.length + post.length ≤ shape.length) :
    proxy4Slices shape (pre ++ Idx.ell :: post)
      = List.zipWith (fun (N : Nat) e => combine1 PSlice.all (toSlice (fixAxis N e))) shape
          (npExpand pre (some post) shape.length) := by
  unfold proxy4Slices
  rw [fixSlice_ell pre post shape h1 h2 hl]
  exact Dap4Index.combine_zipFix _ shape (npExpand_length_some pre post _ hl)

/-- **One axis, slice**: the slice requested for `x[s]` on an axis of extent `N` (bounds ≥ −N, step ≥ 1: numpy's
    domain for basic slices) selects exactly the positions numpy selects -/
theorem C10_index_axis (N : Nat) (s : PSlice)
    (hstart : ∀ i, s.start = some i → -(N : Int) ≤ i) (hstop : ∀ j, s.stop = some j → -(N : Int) ≤ j)
    (hstep : ∀ k, s.step = some k → 1 ≤ k) :
    sel N (combine1 PSlice.all (toSlice (fixAxis N (Idx.sl s)))) = sel N s := by
  have hn : NonNegSl (fixSl N s) := Pydap.C03.C03_fix_normalised N s hstart hstop hstep
  show sel N (combine1 PSlice.all (fixSl N s)) = sel N s
  rw [combine_all_sel N _ hn, fix_preserves N s hstart hstop hstep]

/-- **One axis, integer**: `x[i]` (−N ≤ i < N) requests exactly numpy's element -/
theorem C10_index_axis_int (N : Nat) (i : Int) (m : Nat) (h : selInt N i = some m) :
    sel N (combine1 PSlice.all (toSlice (fixAxis N (Idx.int i)))) = [m] := by
  have hm : m < N := by
    unfold selInt at h
    split at h
    · simp at h; omega
    · split at h
      · simp at h; omega
      · cases h
  rw [Pydap.C03.C03_fix_int N i m h]
  show sel N (combine1 PSlice.all ⟨some (m : Int), some ((m : Int) + 1), none⟩) = [m]
  rw [combine_all_sel N _ ⟨by intro a e; cases e; omega, by intro a e; cases e; omega, by intro a e; cases e⟩]
  exact sel_point N m hm

/-- **Request text**: `"dap4.ce=" + id + hyperslab`; a server that parses the hyperslab reads back exactly the
    slices computed above (non-empty selections: normalised slices) -/
theorem C10_index_request (id : List Char) (shape : List Nat) (idx : List Idx)
    (h : ∀ s ∈ proxy4Slices shape idx, NormSl s) :
    proxy4Request id shape idx = "dap4.ce=".toList ++ id ++ hyperslabText (proxy4Slices shape idx)
    ∧ parseHyperslab (hyperslabText (proxy4Slices shape idx)) = .ok (proxy4Slices shape idx) :=
  ⟨rfl, parseHyperslab_hyperslabText _ h⟩

/-! ### indexing, end to end: request → selection → serialisation → chunks → decode → lookup

  `fetchIndex4 tree itemsize server id shape idx` (PydapModel/Dap4E2E.lean) is `var[idx]` through
  `BaseProxyDap4.__getitem__`: the request `proxy4Request`, the GET, `UNPACKDAP4DATA(r).dataset` (`unpackResponse` with
  the variables in `decodeOrder` of the answer's DMR), `dataset[self.id].data` (`getitemPath`).  The server
  `refServer4 little src dmrOf cut crc` is the specification side: it reads the request back with the **DAP4 branch of
  `parse_ce`** (`parseCE4`, PydapModel/Dap4Ce.lean), slices the source with numpy (`npSlices`, values by `E2E.gather`),
  serialises the selected values in the response byte order `little` followed by a checksum word, and sends the DMR of
  the selection (`dmrOf`) as first chunk and the body cut into chunks by `cut`. -/

/-- **the request is read back** by the DAP4 branch of `parse_ce` (and `parse_projection` with `;`) as exactly one
    projection item — the proxy's id and the slices of `C10_index_slices` — and no selection clause -/
theorem C10_parse_ce4_request (id : List Char) (shape : List Nat) (idx : List Idx) (hid : IdOk id)
    (h : ∀ s ∈ proxy4Slices shape idx, NormSl s) :
    parseCE4 (proxy4Request id shape idx) = .ok ([.path [(id, proxy4Slices shape idx)]], []) :=
  parseCE4_request id _ hid h

/-- the prefix guard of the DAP4 branch: a non-empty query that does not start with `dap4.ce=` is refused -/
theorem C10_parse_ce4_guard (q : List Char) (h : q ≠ [] ∧ q.take 8 ≠ Handler.dap4Prefix) :
    parseCE4 q = .error .ceError := by
  unfold parseCE4; rw [if_pos h]

/-- **End to end, index without Ellipsis** (short tuples included): for a source variable of any item size `width`
    (1, 2, 4, 8: the ten numeric types, values as bit patterns `< 256 ^ width`), any rank, extents and values, in
    the root or in groups `gpath` (names any `goodName`s; the id `var.path + "/" + var.name` free of
    constraint-expression characters and of `%`), any index in numpy's domain (`ValidList`: ints in `[-N, N)`, slices
    with bounds `≥ -N`, steps `≥ 1`, non-empty selections), **either byte order** and **any chunking** of the body
    (`cut`: any function whose pieces concatenate to the body, at least one piece, each `< 2^24` bytes), the answer's
    DMR declaring the selected variable with the selected extents (ElementTree, `tree`, trusted): the client obtains
    exactly numpy's `source[idx]` — shape (integer axes kept with extent 1) and values. -/
theorem C10_e2e_index (little : Bool) (src : Source) (idx : List Idx)
    (tree : Bytes → XNode) (itemsize : VarRec → Nat) (dmrOf : List Nat → Bytes) (cut : Bytes → List Bytes)
    (crc : List Nat → Nat) (pre : List (Str × Str)) (dsname : Str) (gpath : List Str) (tag name : Str)
    (hlen : src.vals.length = Xdr.prod src.shape) (hval : ∀ v ∈ src.vals, v < 256 ^ src.width)
    (hg : ∀ g ∈ gpath, goodName g) (ht : tag ∈ varTags) (hn : goodName name)
    (hidv : src.id = walkKey (expectVar (gpath.map quoteName) (answerVar tag name [])))
    (hid : IdOk src.id)
    (h : NoEll idx) (hl : idx.length ≤ src.shape.length)
    (hv : ValidList src.shape (padPre [] src.shape.length) (npExpand idx none src.shape.length))
    (hcut : ∀ b, (cut b).flatten = b ∧ cut b ≠ [] ∧ ∀ c ∈ cut b, c.length < 2 ^ 24)
    (hcrc : ∀ vs, crc vs < 256 ^ 4)
    (htree : ∀ cs vs, numpyIndex src.shape src.vals (padPre [] src.shape.length)
        (npExpand idx none src.shape.length) = some (cs, vs) →
      tree (dmrOf cs) = renderRoot pre dsname (answerSpec gpath (answerVar tag name cs)))
    (hdmr : ∀ cs vs, numpyIndex src.shape src.vals (padPre [] src.shape.length)
        (npExpand idx none src.shape.length) = some (cs, vs) → (dmrOf cs).length < 2 ^ 24)
    (hitem : ∀ cs, itemsize (expectVar (gpath.map quoteName) (answerVar tag name cs)) = src.width) :
    ∃ cshape vs,
      numpyIndex src.shape src.vals (padPre [] src.shape.length) (npExpand idx none src.shape.length)
        = some (cshape, vs) ∧
      fetchIndex4 tree itemsize (refServer4 little src dmrOf cut crc) src.id src.shape idx
        = .ok (cshape.map Int.ofNat, vs) :=
  fetchIndex4_spec little src idx _ tree itemsize dmrOf cut crc pre dsname gpath tag name hlen hval hg ht hn hidv hid
    (fun cshape hc => by rw [fixSlice_noEll idx cshape h (by omega), hc]) hv hcut hcrc htree hdmr hitem

/-- **… with one Ellipsis anywhere in the index** -/
theorem C10_e2e_index_ellipsis (little : Bool) (src : Source) (a b : List Idx)
    (tree : Bytes → XNode) (itemsize : VarRec → Nat) (dmrOf : List Nat → Bytes) (cut : Bytes → List Bytes)
    (crc : List Nat → Nat) (pre : List (Str × Str)) (dsname : Str) (gpath : List Str) (tag name : Str)
    (hlen : src.vals.length = Xdr.prod src.shape) (hval : ∀ v ∈ src.vals, v < 256 ^ src.width)
    (hg : ∀ g ∈ gpath, goodName g) (ht : tag ∈ varTags) (hn : goodName name)
    (hidv : src.id = walkKey (expectVar (gpath.map quoteName) (answerVar tag name [])))
    (hid : IdOk src.id)
    (ha : NoEll a) (hb : NoEll b) (hl : a.length + b.length ≤ src.shape.length)
    (hv : ValidList src.shape (padPre [] src.shape.length) (npExpand a (some b) src.shape.length))
    (hcut : ∀ b, (cut b).flatten = b ∧ cut b ≠ [] ∧ ∀ c ∈ cut b, c.length < 2 ^ 24)
    (hcrc : ∀ vs, crc vs < 256 ^ 4)
    (htree : ∀ cs vs, numpyIndex src.shape src.vals (padPre [] src.shape.length)
        (npExpand a (some b) src.shape.length) = some (cs, vs) →
      tree (dmrOf cs) = renderRoot pre dsname (answerSpec gpath (answerVar tag name cs)))
    (hdmr : ∀ cs vs, numpyIndex src.shape src.vals (padPre [] src.shape.length)
        (npExpand a (some b) src.shape.length) = some (cs, vs) → (dmrOf cs).length < 2 ^ 24)
    (hitem : ∀ cs, itemsize (expectVar (gpath.map quoteName) (answerVar tag name cs)) = src.width) :
    ∃ cshape vs,
      numpyIndex src.shape src.vals (padPre [] src.shape.length) (npExpand a (some b) src.shape.length)
        = some (cshape, vs) ∧
      fetchIndex4 tree itemsize (refServer4 little src dmrOf cut crc) src.id src.shape (a ++ Idx.ell :: b)
        = .ok (cshape.map Int.ofNat, vs) :=
  fetchIndex4_spec little src _ _ tree itemsize dmrOf cut crc pre dsname gpath tag name hlen hval hg ht hn hidv hid
    (fun cshape hc => by rw [fixSlice_ell a b cshape ha hb (by omega), hc]) hv hcut hcrc htree hdmr hitem

/-- the selection really is numpy's: `numpyIndex` is per-axis `sel`/`selInt` positions and the row-major product
    semantics (`C02_e2e_gather_is_numpy` proves the gather equal to it pointwise) — restated here for the values of
    a DAP4 source: every returned value is the source value at the selected position -/
theorem C10_e2e_values_are_source_values {α : Type} (shape : List Nat) (S : List (List Nat)) (vals : List α)
    (hr : InRange shape S) (hl : vals.length = Xdr.prod shape) :
    (gather shape S vals).map some = (cart S).map (fun ix => vals[ravel shape ix]?) :=
  gather_spec shape S vals hr hl

/-! ### non-vacuity -/

set_option maxRecDepth 100000 in
example : stream2bytearray true (chunkEncode true [[1, 2], [], [3]]) = .ok [1, 2, 3] := by rfl
example : chunkEncode false [[1, 2], [3]] = [0, 0, 0, 2, 1, 2, 1, 0, 0, 1, 3] := by decide
example : SentOk ⟨2, [1, 65535], 7⟩ := ⟨by decide, by decide⟩
example : unpackVars false [⟨2, 2⟩] (serialise false [⟨2, [1, 65535], 7⟩])
    = .ok [⟨[1, 65535], some 117440512⟩] := by rfl
example : serialise true [⟨2, [1, 65535], 7⟩] = [1, 0, 255, 255, 7, 0, 0, 0] := by decide

example : distinctNodes demo := by unfold distinctNodes; decide
example : decodeOrder (renderRoot [] "ds".toList qdemo) = .ok (expectVars qdemo) :=
  C10_decode_order [] _ _ qdemo_ok qdemo_refs (by unfold distinctNodes; decide)
    (by unfold distinctDims; decide)
example : decodeOrder (renderRoot [] "ds".toList demo) = .ok (expectVars demo) :=
  C10_decode_order [] _ _ demo_ok demo_refs (by unfold distinctNodes; decide)
    (by unfold distinctDims; decide)

/-- the hypotheses of `C10_response_document_order` are satisfiable: two variables (one ahead of a group, one in
    it), little-endian, the body cut into three chunks -/
example :
    unpackResponse true
        (fun b => match decodeOrder ((fun _ => renderRoot [] "d".toList tiny) b) with
          | .ok rs => .ok (rs.map (recLayout fun r => if r.dtype = ">i2".toList then 2 else 1))
          | .error _ => .error .keyError)
        (encodeResponse true [60, 62] [[5, 7, 0], [0, 0, 1, 0, 2], [0, 9, 0, 0, 0]])
      = .ok ([60, 62], true, [⟨[5], some (swapped true 7)⟩, ⟨[1, 2], some (swapped true 9)⟩]) :=
  C10_response_document_order true (fun _ => renderRoot [] "d".toList tiny) _ [60, 62] [] "d".toList tiny
    [⟨1, [5], 7⟩, ⟨2, [1, 2], 9⟩] _ rfl tiny_ok tiny_refs (by unfold distinctNodes; decide) (by unfold distinctDims; decide)
    (by decide) (by decide)
    (by intro x hx; simp at hx; rcases hx with rfl | rfl <;> exact ⟨by decide, by decide⟩)
    (by decide) (by simp) (by decide)

example : ∀ s ∈ proxy4Slices [5] [Idx.sl ⟨some 1, some 4, some 2⟩], NormSl s := by
  have e : proxy4Slices [5] [Idx.sl ⟨some 1, some 4, some 2⟩] = [⟨some 1, some 4, some 2⟩] := by
    simp [proxy4Slices, fixSlice, expandEll, zipFix, fixAxis, fixSl, combine, combine1, toSlice, orElse, PSlice.all]
  intro s hs
  rw [e] at hs
  exact ⟨1, 4, 2, by simpa using hs, by decide, by decide, by decide⟩
example : selInt 5 (-2) = some 3 := by decide


/-- the hypotheses of `C10_e2e_index` are satisfiable, and its conclusion on this case is `[20, 40]` of shape `[2]` -/
example : fetchIndex4 demoTree (fun _ => 2) (refServer4 false demoSrc (fun _ => [60, 62]) demoCut (fun _ => 7))
    demoSrc.id demoSrc.shape [Idx.sl ⟨some 1, some 4, some 2⟩] = .ok ([2], [20, 40]) := by
  obtain ⟨cs, vs, h1, h2⟩ := C10_e2e_index false demoSrc [Idx.sl ⟨some 1, some 4, some 2⟩] demoTree (fun _ => 2)
    (fun _ => [60, 62]) demoCut (fun _ => 7) [] "d".toList ["g".toList] "Int16".toList "v".toList
    (by decide) (by decide)
    (by intro g hg; simp at hg; subst hg; exact ⟨by decide, by decide, by decide, by decide⟩)
    (by decide) ⟨by decide, by decide, by decide, by decide⟩ (by decide) ⟨by decide, by decide⟩
    (by intro x hx; simp at hx; subst hx; trivial) (by decide) demo_valid
    demoCut_ok (by intro _; decide)
    (by intro cs vs h; rw [demo_numpy] at h; cases h; rfl)
    (by intro cs vs _; decide) (by intro _; rfl)
  rw [demo_numpy] at h1
  cases h1
  exact h2
example : numpyIndex demoSrc.shape demoSrc.vals (padPre [] 1) (npExpand [Idx.sl ⟨some 1, some 4, some 2⟩] none 1)
    = some ([2], [20, 40]) := by decide
example : IdOk demoSrc.id := ⟨by decide, by decide⟩
example : demoSrc.id = walkKey (expectVar (["g".toList].map quoteName) (answerVar "Int16".toList "v".toList [])) := by decide
example : parseCE4 "dap4.ce=/g/v[1:2:3]".toList
    = .ok ([.path [("/g/v".toList, [⟨some 1, some 4, some 2⟩])]], []) := by rfl
example : parseCE4 "a[0]".toList = .error .ceError := by rfl

/-! ### the tie by translation: the *source text* of the chunk-header decoding computes the model

`Pydap.Gen.src_…` (PydapModel/Generated/DapSrc.lean) are MiniPy syntax trees regenerated from `handlers/dap.py` on
every run by `harness/py2lean.py`; `runItem env body x` interprets a block and returns the value bound to `x`
(`@ret0/1/2` stand for the returned tuple). `chunk_header` (a numpy uint32 in the Python) is a non-negative int. -/

open MiniPy in
/-- `decode_chunktype`, the whole function body, on a host of either byte order and for *every* non-negative
    chunk type (also beyond the 8-bit field): the returned `(last_chunk, error, endian)` is `decodeChunkType` -/
theorem C10_source_decode_chunktype (hostLittle : Bool) (t : Nat) :
    runItem (chunktypeEnv hostLittle t) Gen.src_decode_chunktype "@ret0"
      = .ok (.bool (decodeChunkType hostLittle t).last) ∧
    runItem (chunktypeEnv hostLittle t) Gen.src_decode_chunktype "@ret1"
      = .ok (.bool (decodeChunkType hostLittle t).error) ∧
    runItem (chunktypeEnv hostLittle t) Gen.src_decode_chunktype "@ret2"
      = .ok (.str (endianStr (decodeChunkType hostLittle t).little)) :=
  src_decode_chunktype_eq hostLittle t

open MiniPy in
/-- `stream2bytearray`: `int(chunk_header & 0x00FFFFFF)` and `(chunk_header >> 24) & 0xFF` are `chunkSize` / `chunkType` -/
theorem C10_source_stream2bytearray_fields (h : Nat) :
    runItem [("chunk_header", .int h)] Gen.src_stream2bytearray_fields "chunk_size" = .ok (.int (chunkSize h)) ∧
    runItem [("chunk_header", .int h)] Gen.src_stream2bytearray_fields "chunk_type" = .ok (.int (chunkType h)) :=
  src_stream2bytearray_fields_eq h

open MiniPy in
/-- `safe_dmr_and_data`: `dmr_length` and `chunk_type` are `chunkSize` / `chunkType` of the first header -/
theorem C10_source_safe_dmr_and_data_fields (h : Nat) :
    runItem [("chunk_header", .int h)] Gen.src_safe_dmr_and_data_fields "dmr_length" = .ok (.int (chunkSize h)) ∧
    runItem [("chunk_header", .int h)] Gen.src_safe_dmr_and_data_fields "chunk_type" = .ok (.int (chunkType h)) :=
  src_safe_dmr_and_data_fields_eq h

open MiniPy in
/-- `get_endianness`: its `chunk_type` is `chunkType` -/
theorem C10_source_get_endianness_fields (h : Nat) :
    runItem [("chunk_header", .int h)] Gen.src_get_endianness_fields "chunk_type" = .ok (.int (chunkType h)) :=
  src_get_endianness_fields_eq h

open MiniPy in
/-- `stream2bytearray`, one whole turn of `while offset < len(data)` with `offset` at a chunk header
    `b0 b1 b2 b3` (any bytes before it, any bytes after it): exactly as one step of `chunkBodies` —
    `EOFError` when fewer than `chunkSize` bytes follow the header; otherwise the recorded position is
    `(offset + 4, chunkSize)`, `offset` advances by `4 + chunkSize`, and the loop breaks iff `last`.
    (`last, _, _ = decode_chunktype(chunk_type)` is the one statement set aside: `last` is an input here, its value
    is tied by `C10_source_decode_chunktype` and `chunk_type` by `C10_source_stream2bytearray_fields`.) -/
theorem C10_source_stream2bytearray_turn (pre rest : Bytes) (b0 b1 b2 b3 : UInt8) (last : Bool) :
    (rest.length < chunkSize (be32 b0 b1 b2 b3) →
      exec (turnEnv (pre ++ b0 :: b1 :: b2 :: b3 :: rest) pre.length last) Gen.src_stream2bytearray_turn
        = .error (.raised "EOFError")) ∧
    (¬ rest.length < chunkSize (be32 b0 b1 b2 b3) →
      runItem (turnEnv (pre ++ b0 :: b1 :: b2 :: b3 :: rest) pre.length last) Gen.src_stream2bytearray_turn "@item0"
        = .ok (.int ((pre.length + 4 : Nat) : Int)) ∧
      runItem (turnEnv (pre ++ b0 :: b1 :: b2 :: b3 :: rest) pre.length last) Gen.src_stream2bytearray_turn "@item1"
        = .ok (.int (chunkSize (be32 b0 b1 b2 b3) : Nat)) ∧
      runItem (turnEnv (pre ++ b0 :: b1 :: b2 :: b3 :: rest) pre.length last) Gen.src_stream2bytearray_turn "offset"
        = .ok (.int ((pre.length + 4 + chunkSize (be32 b0 b1 b2 b3) : Nat) : Int)) ∧
      runItem (turnEnv (pre ++ b0 :: b1 :: b2 :: b3 :: rest) pre.length last) Gen.src_stream2bytearray_turn "@break"
        = .ok (.bool last)) :=
  src_stream2bytearray_turn_eq pre rest b0 b1 b2 b3 last

open MiniPy in
/-- … and with fewer than four bytes left at `offset` the turn raises `EOFError` (the model's 1..3-byte case) -/
theorem C10_source_stream2bytearray_turn_short (pre tail : Bytes) (last : Bool) (ht : tail.length < 4) :
    exec (turnEnv (pre ++ tail) pre.length last) Gen.src_stream2bytearray_turn = .error (.raised "EOFError") :=
  src_stream2bytearray_turn_short pre tail last ht

open MiniPy in
example : runItem (turnEnv [9, 9, 5, 0, 0, 2, 7, 8, 1] 2 true) Gen.src_stream2bytearray_turn "offset"
    = .ok (.int 8) := by rfl
set_option maxRecDepth 100000 in
open MiniPy in
example : exec (turnEnv [5, 0, 0, 2, 7] 0 true) Gen.src_stream2bytearray_turn = .error (.raised "EOFError") := by decide

-- non-vacuity: header 0x05000007 (flags last+little, size 7) through the translated source
open MiniPy in
example : runItem [("chunk_header", .int 83886087)] Gen.src_stream2bytearray_fields "chunk_size" = .ok (.int 7) := by decide
open MiniPy in
example : runItem [("chunk_header", .int 83886087)] Gen.src_stream2bytearray_fields "chunk_type" = .ok (.int 5) := by decide
open MiniPy in
example : runItem (chunktypeEnv true 5) Gen.src_decode_chunktype "@ret0" = .ok (.bool true) ∧
          runItem (chunktypeEnv true 5) Gen.src_decode_chunktype "@ret1" = .ok (.bool false) ∧
          runItem (chunktypeEnv true 5) Gen.src_decode_chunktype "@ret2" = .ok (.str [60]) := by decide
open MiniPy in
example : runItem (chunktypeEnv false 1) Gen.src_decode_chunktype "@ret2" = .ok (.str [60]) := by decide

end Pydap.C10
