/-
  C01 — DAP2 end-to-end fidelity: what the server holds is what the client reads.
  Composition of the C05 development: `decImpl ∘ encImpl = id` on every value of every declaration,
  through the DDS/`Data:` split and through any lossless content coding.
  What is *not* in these theorems (oracle only, see design_notes/C01.md): webob/requests plumbing,
  gzip itself, the DDS text round trip (C07), file I/O of `open_dods_file`.
-/
import PydapModel.XdrTypes
import PydapModel.XdrSpec
import PydapModel.Xdr
import Proofs.XdrEnc
import Proofs.XdrDec
import Proofs.XdrSize
namespace Pydap.C01
open Pydap Pydap.Xdr

/-- **round trip**: the client decodes exactly the source values from what the server encodes, for
    every declaration (all eight types, any shape, structures/grids to any depth, flat and nested
    sequences, empty sequences, empty strings), and nothing is left over -/
theorem C01_roundtrip (t : Tmpl) (d : Data) (h : WF t d = true) :
    decImpl t (encImpl t d) = .ok (d, []) := by
  have := decImpl_enc t d [] h
  rw [List.append_nil] at this
  rw [encImpl_eq t d h]
  exact this

/-- several variables / several responses in a row: decoding consumes exactly one encoding, so
    concatenated encodings decode independently -/
theorem C01_roundtrip_framed (t : Tmpl) (d : Data) (rest : Bytes) (h : WF t d = true) :
    decImpl t (encImpl t d ++ rest) = .ok (d, rest) := by
  rw [encImpl_eq t d h]
  exact decImpl_enc t d rest h

/-- what `BaseProxyDap2.__getitem__` / `open_dods_file` do with a response body: split at the
    separator, decode the data part -/
def clientRead (t : Tmpl) (raw : Bytes) : Option (Bytes × Except Err (Data × Bytes)) :=
  (splitBody raw).map fun p => (p.1, decImpl t p.2)

/-- **end to end**: from the body the server emits (DDS ‖ `Data:\n` ‖ XDR) the client recovers the DDS
    text and the source values (`hno`: the separator does not occur inside the DDS, as in C05) -/
theorem C01_end_to_end (dds0 : Bytes) (t : Tmpl) (d : Data) (h : WF t d = true)
    (hno : ∀ i, i < dds0.length →
      ¬ splitPattern.isPrefixOf ((dds0 ++ splitPattern ++ encImpl t d).drop i) = true) :
    clientRead t (body (dds0 ++ [10]) t d) = some (dds0, .ok (d, [])) := by
  have e : body (dds0 ++ [10]) t d = dds0 ++ splitPattern ++ encImpl t d := by
    simp [body, splitPattern]
  unfold clientRead splitBody
  rw [e, splitFirst_at splitPattern (by decide) dds0 (encImpl t d) hno]
  simp [C01_roundtrip t d h]

/-- **transport independence**: for any content coding `z` with a left inverse `unz` (gzip is one;
    that `gzip.decompress ∘ gzip.compress = id` is an assumption about zlib, exercised by the oracle),
    the client reads from the coded response what it reads from the plain one -/
theorem C01_transport (z unz : Bytes → Bytes) (hz : ∀ b, unz (z b) = b)
    (dds0 : Bytes) (t : Tmpl) (d : Data) (h : WF t d = true)
    (hno : ∀ i, i < dds0.length →
      ¬ splitPattern.isPrefixOf ((dds0 ++ splitPattern ++ encImpl t d).drop i) = true) :
    clientRead t (unz (z (body (dds0 ++ [10]) t d))) = some (dds0, .ok (d, [])) := by
  rw [hz]
  exact C01_end_to_end dds0 t d h hno

/-! ### non-vacuity -/

def exT : Tmpl := .struct [.base .uint16 [2, 2], .struct [.base .byte [], .base .string []],
  .seq [.base .int16 [], .base .byte [], .seq [.base .string []]]]
def exD : Data := .tuple [.array [.num 0, .num 1, .num 65535, .num 7],
  .tuple [.scalar (.num 200), .scalar (.str [])],
  .rows [.tuple [.scalar (.num (-32768)), .scalar (.num 255), .rows []],
         .tuple [.scalar (.num 3), .scalar (.num 0), .rows [.tuple [.scalar (.str [104, 105])]]]]]

example : WF exT exD = true := by decide
example : decImpl exT (encImpl exT exD) = .ok (exD, []) := C01_roundtrip exT exD (by decide)
example : ∀ i, i < [32, 125].length →
    ¬ splitPattern.isPrefixOf (([32, 125] ++ splitPattern ++ encImpl exT exD).drop i) = true := by decide

end Pydap.C01
